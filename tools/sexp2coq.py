#!/usr/bin/env python3
"""Turn the port-graph automaton dumps / hosts / constraint vectors of a `pgm` case file
(lines `(pg-cert aut present css)` and `(pg-run aut (host))`) into Coq definitions.
Used once to produce coq/theories/Cert/D10Witness.v from the smallest known D10 case."""
import sys, re

def parse(s):
    tok = re.findall(r"\(|\)|[^\s()]+", s)
    pos = [0]
    def rd():
        t = tok[pos[0]]; pos[0] += 1
        if t == "(":
            l = []
            while tok[pos[0]] != ")":
                l.append(rd())
            pos[0] += 1
            return l
        return t
    return rd()

def lst(xs): return "[" + "; ".join(xs) + "]"
def port(p): return ("PIn %s" if p[0] == "in" else "POut %s") % p[1]
def key(k):
    if k[0] == "root": return "PathRoot %s" % k[1]
    return "AlongPath %s (%s) %s" % (k[1], port(k[2]), k[3])
def cons(c):
    if c[0] == "weight": return "{| cpred := HasNodeWeight; cargs := %s |}" % lst(map(key, c[1]))
    if c[0] == "conn": return "{| cpred := IsConnected (%s) (%s); cargs := %s |}" % (port(c[1]), port(c[2]), lst(map(key, c[3])))
    if c[0] == "ne": return "{| cpred := IsNotEqual %s; cargs := %s |}" % (c[1], lst(map(key, c[2])))
    raise ValueError(c)
def edge(e):
    return "{| e_id := %s; e_target := %s; e_cons := %s |}" % (e[0], e[1], "None" if e[2] == "-" else "Some " + cons(e[2]))
def state(st):
    ms = lst("(%s, %s)" % (m[0], lst(map(key, m[1]))) for m in st[2])
    return ("{| a_id := %s; a_det := %s; a_matches := %s; a_scope := %s;\n       a_corder := %s; a_eorder := %s;\n       a_out := %s |}"
            % (st[0], "true" if st[1] == "1" else "false", ms, lst(map(key, st[3])), lst(st[4]), lst(st[5]), lst(map(edge, st[6]))))
def aut(a):
    return "{| au_root := %s;\n   au_states := [\n     %s ] |}" % (a[0], ";\n     ".join(map(state, a[1])))
def host(h):
    nodes = lst("None" if n == "-" else "Some (%s, %s)" % (n[0], n[1]) for n in h[0])
    links = lst("(%s, %s, %s, %s)" % tuple(l) for l in h[1])
    return "{| pg_nodes := %s; pg_links := %s |}" % (nodes, links)

if __name__ == "__main__":
    lines = [l for l in open(sys.argv[1]).read().split("\n") if l.startswith("(pg-run") or l.startswith("(pg-cert")]
    runs = [parse(l) for l in lines if l.startswith("(pg-run")]
    certs = [parse(l) for l in lines if l.startswith("(pg-cert")]
    names = sys.argv[2].split(",")
    for name, r in zip(names, runs):
        print("Definition %s : automaton pgkey pgpred :=\n  %s.\n" % (name, aut(r[1])))
    print("Definition d10_host : pghost := %s.\n" % host(runs[0][2][0]))
    print("Definition d10_css : list (list pgconstraint) :=\n  %s.\n" % lst(lst(map(cons, cs)) for cs in certs[0][3]))
    print("Definition d10_present : list bool := %s.\n" % lst("true" if b == "1" else "false" for b in certs[0][2]))
