#!/bin/sh
# usage: verify_mutant.sh <Cxx> <suffix: "" or 2>  — independent confirmation of a seeded change in a scratch worktree
ID=$1; SFX=$2
SRC=/tmp/mut/$ID/out
W=/tmp/vw_$ID$SFX
export CARGO_NET_OFFLINE=true
export CARGO_TARGET_DIR=/tmp/vw_target
rm -rf $W; git -C /repo worktree prune; git -C /repo worktree add -q --detach $W HEAD || exit 2
cd $W
res() { echo "$ID$SFX: $1"; }
git apply $SRC/patch$SFX.diff || { res "PATCH-DOES-NOT-APPLY"; git -C /repo worktree remove --force $W; exit 1; }
cargo build --offline --features "portgraph verif" >/dev/null 2>&1 || { res "BUILD-FAILS(portgraph verif)"; }
cargo test --workspace --no-fail-fast --offline > $SRC/verify_tests$SFX.log 2>&1; t=$?
npass=$(grep -E "^test result" $SRC/verify_tests$SFX.log | head -1)
cp $SRC/demo$SFX.rs tests/vdemo.rs
cargo test --offline --features "portgraph verif" --test vdemo > $SRC/verify_demo_with$SFX.log 2>&1; dw=$?
git apply -R $SRC/patch$SFX.diff
cargo test --offline --features "portgraph verif" --test vdemo > $SRC/verify_demo_without$SFX.log 2>&1; dwo=$?
res "tests_exit=$t ($npass) demo_with_change_exit=$dw demo_without_change_exit=$dwo"
cd /; git -C /repo worktree remove --force $W
