#!/usr/bin/env python3
"""Regenerate MANIFEST.json from props.py (keeps the manifest valid at all times)."""
import json, os, sys
ROOT = os.path.dirname(os.path.abspath(__file__))
sys.path.insert(0, ROOT)
from props import PROPS
ALL = ["C%02d" % i for i in range(1, 18)]
NA = {}
try:
    from props import NOT_APPLICABLE as NA
except ImportError:
    pass
checks = []
for pid in ALL:
    if pid not in PROPS:
        continue
    c = PROPS[pid]
    checks.append({
        "property_id": pid,
        "quick_cmd": "./check %s --tier quick" % pid,
        "thorough_cmd": "./check %s --tier thorough" % pid,
        "evidence_file": "/verif/evidence/%s.json" % pid,
        "replay_cmd_template": "./check %s --replay {path}" % pid,
        "engine": "coq-model+correspondence",
        "level_claimed": {
            "category": c["level"],
            "text": c.get("level_text", c["explanation"]),
            "design_ref": c.get("design_ref", "DESIGN.md §6 " + pid),
        },
        "level_note": c.get("level_note", "; ".join(c["trusted_base"])),
        "technique": c.get("technique", "Coq proof about a hand-written Gallina model + differential correspondence check against the Rust implementation"),
    })
na = [{"property_id": p, "reason": NA.get(p, "check not built yet (work in progress); see DESIGN.md §8 staging")}
      for p in ALL if p not in PROPS]
m = {
    "version": 1,
    "setup_cmd": "./setup.sh",
    "hooks": {
        "guard": "cargo feature `verif`",
        "enable": "the harness crate depends on portmatching with features [\"portgraph\", \"verif\"]",
        "baseline_off_cmd": "cd /repo && cargo test --workspace --no-fail-fast --offline",
        "source_commits": ["00bc1de"],
        "add_only": True,
    },
    "engines": [{
        "name": "coq-model+correspondence",
        "path": "/verif/check",
        "serves_properties": [c["property_id"] for c in checks],
        "kind_free_text": "Coq 8.16.1 development (coq/theories), extracted OCaml model (ocaml/), Rust differential harness (harness/), python driver (check)",
    }],
    "checks": checks,
    "not_applicable": na,
    "notes": "See DESIGN.md. KNOWN_FINDINGS.json lists known findings and fixed defects.",
}
json.dump(m, open(os.path.join(ROOT, "MANIFEST.json"), "w"), indent=1)
print("manifest: %d checks, %d not yet claimed" % (len(checks), len(na)))
