//! C01–C07, C09 on the string and matrix domains: thin wrappers around aut.rs.
use crate::aut::{self, Case, Mode};
use crate::dom::{MatDom, StrDom};
use crate::out::Out;
use crate::rng::Rng;
use crate::sexp;
use crate::Tier;

fn mode_of(name: &str) -> Mode {
    match name {
        "c01" => Mode::C01,
        "c02" => Mode::C02,
        "c03" => Mode::C03,
        "c04" => Mode::C04,
        "c05" => Mode::C05,
        "c06" => Mode::C06,
        "c07" => Mode::C07,
        "c08" => Mode::C08,
        "c09" => Mode::C09,
        _ => Mode::C17,
    }
}

/// Minimised past disagreements and the design-time witnesses (DESIGN.md §1).
pub const CORPUS: &[&str] = &[
    // D2: a variable that occurs once in a matrix pattern
    "(autcase c01 mat ((((v 120) (v 121)))) (((120))) (never default))",
];

pub fn run(prop: &str, tier: Tier, seed: u64, o: &mut Out) {
    let mode = mode_of(prop);
    let mut rng = Rng::new(seed ^ 0xA07);
    let (nq, nt) = match mode {
        Mode::C04 | Mode::C09 => (250, 6000),
        Mode::C05 => (1200, 40000),
        Mode::C08 => (800, 30000),
        Mode::C17 => (200, 5000),
        _ => (500, 15000),
    };
    aut::run_mode::<StrDom>(mode, tier, &mut rng, nq, nt, CORPUS, o);
    aut::run_mode::<MatDom>(mode, tier, &mut rng, nq, nt, CORPUS, o);
    o.notes.push(format!("{} random cases per domain (pattern sets of 0-8 patterns with duplicates, empty patterns, shared prefixes; planted, random and degenerate hosts)", if tier == Tier::Thorough { nt } else { nq }));
}

/// C17, cross-process part: one line per case with a hash of everything observable
/// (state count, rendering, match sequences) - the check driver runs this in several
/// processes and compares the outputs byte for byte.
pub fn fingerprints(tier: Tier, seed: u64) -> String {
    use crate::dom::Dom;
    let mut rng = Rng::new(seed ^ 0xF17);
    let n = if tier == Tier::Thorough { 1500 } else { 150 };
    let mut out = String::new();
    // perturb the heap / address-space layout a little, differently in every process
    let noise: Vec<Vec<u8>> = (0..(std::process::id() % 97) as usize).map(|i| vec![0u8; 17 * (i + 1)]).collect();
    for i in 0..n {
        if i % 2 == 0 {
            let c = aut::gen_case::<StrDom>(&mut rng, tier, false);
            out.push_str(&format!("{} {:016x} {}\n", i, crate::out::hash_str(&aut::fingerprint::<StrDom>(&c)), c.to_s(Mode::C17)));
        } else {
            let c = aut::gen_case::<MatDom>(&mut rng, tier, false);
            out.push_str(&format!("{} {:016x} {}\n", i, crate::out::hash_str(&aut::fingerprint::<MatDom>(&c)), c.to_s(Mode::C17)));
        }
    }
    drop(noise);
    let _ = StrDom::NAME;
    out
}

pub fn replay(line: &str, o: &mut Out) {
    let s = sexp::parse(line).unwrap();
    let l = s.as_list();
    let mode = mode_of(l[1].as_str());
    if l[2].as_str() == "str" {
        aut::eval::<StrDom>(&Case::from_s(&s), mode, o);
    } else {
        aut::eval::<MatDom>(&Case::from_s(&s), mode, o);
    }
}
