//! Port graphs: correspondence of the host-side implementation (portgraph/indexing.rs
//! list_bind_options / walk_path, portgraph/root_candidates.rs, portgraph/predicate.rs, the
//! HashMap binding map) with the Gallina model Model/DomPG.v:
//!   * `pg-opts`   list_bind_options on binding maps grown the way the matchers grow them
//!                 (and a few inconsistent ones), compared as multisets;
//!   * `pg-single` SinglePatternMatcher on the constraint vector of a pattern vs the modelled
//!                 single matcher over the modelled domain, as multisets of binding maps;
//!   * `pg-run`    ManyMatcher::find_matches vs the modelled traversal on the dump of the real
//!                 automaton, as multisets of (pattern, binding map);
//!   * `pg-cert`   the verified structural checker (C09), the soundness certificate lab_ok (C01,
//!                 c01_portgraph_run_sound) and the completeness certificate (c02_portgraph_partial)
//!                 on the dump of every port-graph automaton.
//! Orders that depend on hash-map iteration inside root_candidates.rs are not modelled: every
//! result is canonicalised (entries of a map in key order, lists sorted by their text).
use crate::c10::{pgcons_s, pgkey_s};
use crate::dom::Heur;
use crate::out::{catch, Out};
use crate::pg::{self, G};
use crate::rng::Rng;
use crate::sexp::{self, S};
use crate::Tier;
use portgraph::{NodeIndex, PortGraph, PortOffset, PortView};
use portmatching::indexing::IndexedData;
use portmatching::portgraph::indexing::PGIndexKey;
use portmatching::portgraph::{PGPattern, PGPredicate, PGSinglePatternMatcher};
use portmatching::{Pattern, PatternFallback, PortMatcher};
use rustc_hash::FxHashMap;

type Map = FxHashMap<PGIndexKey, NodeIndex>;

fn map_s(m: &[(PGIndexKey, usize)]) -> S {
    // entries in the order of the text of their keys (not the library's own Ord on keys, which is code under test)
    let mut v = m.to_vec();
    v.sort_by_key(|(k, _)| pgkey_s(k).to_string());
    sexp::list(&v, |(k, n)| sexp::l(vec![pgkey_s(k), sexp::a(n)]))
}

fn sorted(items: Vec<S>) -> S {
    let mut v: Vec<(String, S)> = items.into_iter().map(|s| (s.to_string(), s)).collect();
    v.sort_by(|a, b| a.0.as_bytes().cmp(b.0.as_bytes()));
    S::L(v.into_iter().map(|x| x.1).collect())
}

fn ok(s: S) -> String {
    sexp::l(vec![sexp::a("ok"), s]).to_string()
}

fn dump_s(root: usize, dump: &[portmatching::verif::StateDump<PGIndexKey, PGPredicate>]) -> S {
    sexp::l(vec![
        sexp::a(root),
        sexp::list(dump, |st| {
            sexp::l(vec![
                sexp::a(st.id),
                sexp::b(st.deterministic),
                sexp::list(&st.matches, |(p, ks)| sexp::l(vec![sexp::a(p.0), sexp::list(ks, pgkey_s)])),
                sexp::list(&st.scope, pgkey_s),
                sexp::nums(&st.constraint_order),
                sexp::nums(&st.epsilon_order),
                sexp::list(&st.outgoing, |e| {
                    sexp::l(vec![
                        sexp::a(e.id),
                        sexp::a(e.target),
                        match &e.constraint {
                            Some(c) => pgcons_s(c),
                            None => sexp::a("-"),
                        },
                    ])
                }),
            ])
        }),
    ])
}

fn pattern_of(p: &G, root: usize) -> PGPattern<PortGraph> {
    PGPattern::from_host_with_root(p.build(), NodeIndex::new(root))
}

/// list_bind_options on a growing binding map
fn opts_cases(rng: &mut Rng, host: &G, hg: &PortGraph, o: &mut Out) {
    let live = host.live();
    if live.is_empty() {
        return;
    }
    let host_s = host.to_s();
    let mut b: Map = Map::default();
    let mut ask = |b: &Map, key: PGIndexKey, o: &mut Out| {
        let bv: Vec<(PGIndexKey, usize)> = b.iter().map(|(k, n)| (*k, n.index())).collect();
        let got = catch(|| hg.list_bind_options(&key, b));
        let exp = match got {
            Some(v) => ok(sorted(v.iter().map(|n| sexp::a(n.index())).collect())),
            None => "(panic)".to_string(),
        };
        let nontrivial = b.len() >= 2 && matches!(key, PGIndexKey::PathRoot { index } if index >= 1);
        o.case(sexp::l(vec![sexp::a("pg-opts"), host_s.clone(), pgkey_s(&key), map_s(&bv)]).to_string(), exp, nontrivial);
    };
    ask(&b, PGIndexKey::PathRoot { index: 0 }, o);
    let mut root_index = 0usize;
    let mut root_node = NodeIndex::new(*rng.pick(&live));
    b.insert(PGIndexKey::PathRoot { index: 0 }, root_node);
    for _round in 0..3 {
        // walk some paths out of the current root
        let ports: Vec<PortOffset> = hg.all_port_offsets(root_node).collect();
        for port in ports {
            if rng.chance(1, 4) {
                continue;
            }
            let max_len = rng.range(1, 4);
            for len in 1..=max_len {
                let key = PGIndexKey::AlongPath { path_root: root_index, path_start_port: port, path_length: len };
                if rng.chance(1, 3) {
                    ask(&b, key, o);
                }
                let Some(v) = catch(|| hg.list_bind_options(&key, &b)) else { break };
                if v.len() != 1 {
                    break;
                }
                b.insert(key, v[0]);
            }
        }
        // the next root
        let next = PGIndexKey::PathRoot { index: root_index + 1 };
        ask(&b, next, o);
        ask(&b, PGIndexKey::PathRoot { index: root_index + 2 }, o);
        let Some(cands) = catch(|| hg.list_bind_options(&next, &b)) else { break };
        if cands.is_empty() {
            break;
        }
        root_node = *rng.pick(&cands);
        root_index += 1;
        b.insert(next, root_node);
    }
    // an already bound key, and a binding map that lost a root (the expect in free_ports)
    if let Some((k, _)) = b.iter().next().map(|(k, v)| (*k, *v)) {
        ask(&b, k, o);
    }
    if root_index >= 1 && rng.chance(1, 3) {
        let mut b2 = b.clone();
        b2.remove(&PGIndexKey::PathRoot { index: 0 });
        ask(&b2, PGIndexKey::PathRoot { index: root_index + 1 }, o);
    }
}

pub fn eval(rng: &mut Rng, pats: &[(G, usize)], host: &G, heurs: &[Heur], o: &mut Out) {
    let hg = host.build();
    let host_s = host.to_s();
    opts_cases(rng, host, &hg, o);
    // a PortGraph is well-formed in the sense of Theorem c02_portgraph_embedding_accepted (one link per port, existing ports)
    o.case(sexp::l(vec![sexp::a("pg-hostwf"), host_s.clone()]).to_string(), "(wf 1)".to_string(), host.links.len() >= 2);
    // the single matcher on each constraint vector
    let mut present = vec![];
    let mut css = vec![];
    let mut all_css: Vec<S> = vec![];
    for (p, r) in pats {
        let pat = pattern_of(p, *r);
        let Ok(cs) = pat.try_to_constraint_vec() else {
            present.push(false);
            all_css.push(S::L(vec![]));
            continue;
        };
        present.push(true);
        // the pattern -> constraint vector conversion (line_partition, constraint_vec), not-equal arguments as a set
        {
            let canon: Vec<S> = cs.iter().map(|c| {
                if let PGPredicate::IsNotEqual { n_other } = c.predicate() {
                    let args = c.required_bindings();
                    let mut rest: Vec<PGIndexKey> = args[1..].to_vec();
                    rest.sort_by_key(|k| pgkey_s(k).to_string());
                    let mut v = vec![sexp::a("ne"), sexp::a(n_other)];
                    let mut all = vec![args[0]];
                    all.extend(rest);
                    v.push(sexp::list(&all, pgkey_s));
                    S::L(v)
                } else {
                    pgcons_s(c)
                }
            }).collect();
            o.case(sexp::l(vec![sexp::a("pg-cvec"), p.to_s(), sexp::a(r)]).to_string(), ok(S::L(canon)), p.live().len() >= 3);
            // per-pattern validation used by Theorem c01_portgraph_embedding: every link lies on a line, every node got a key
            let linked = p.links.iter().any(|&(a, _, b, _)| a == *r || b == *r);
            o.case(sexp::l(vec![sexp::a("pg-cover"), p.to_s(), sexp::a(r)]).to_string(), format!("(cover 1 keyed 1 sound 1 distinct 1 wf 1 linked {})", if linked { 1 } else { 0 }), p.live().len() >= 3);
        }
        let cs_s = sexp::list(&cs, pgcons_s);
        all_css.push(cs_s.clone());
        let got = catch(|| {
            let m = PGSinglePatternMatcher::try_from_pattern(&pat).unwrap();
            m.find_matches(&hg).map(|pm| pm.match_data.iter().map(|(k, n)| (*k, n.index())).collect::<Vec<_>>()).collect::<Vec<_>>()
        });
        let exp = match got {
            Some(ms) => ok(sorted(ms.iter().map(|m| map_s(m)).collect())),
            None => "(panic)".to_string(),
        };
        let nontrivial = p.live().len() >= 2 && !pg::occurrences(p, *r, host).is_empty();
        o.case(sexp::l(vec![sexp::a("pg-single"), cs_s.clone(), host_s.clone()]).to_string(), exp, nontrivial);
        css.push(cs_s);
    }
    // the automaton
    let opt_pats: Vec<(G, Option<usize>)> = pats.iter().map(|(g, r)| (g.clone(), Some(*r))).collect();
    for h in heurs {
        let Some(Ok(built)) = pg::build_many(&opt_pats, h, PatternFallback::Skip) else { continue };
        let aut = built.m.verif_automaton();
        let dump = dump_s(aut.verif_root(), &aut.verif_dump());
        let got = catch(|| built.m.find_matches(&hg).map(|pm| (pm.pattern.0, pm.match_data.iter().map(|(k, n)| (*k, n.index())).collect::<Vec<_>>())).collect::<Vec<_>>());
        let exp = match got {
            Some(ms) => ok(sorted(ms.iter().map(|(p, m)| sexp::l(vec![sexp::a(p), map_s(m)])).collect())),
            None => "(panic)".to_string(),
        };
        o.case(sexp::l(vec![sexp::a("pg-run"), dump.clone(), sexp::l(vec![host_s.clone()])]).to_string(), format!("({})", exp), built.n_states >= 3);
        // a set of single-root patterns: the hypotheses aut_single_root / match_keys_in of Theorem
        // c02_portgraph_run_complete_on_single_root_pattern_sets, on the dump
        if !pats.is_empty() && present.iter().all(|x| *x) && pats.iter().all(|(p, r)| crate::pg::n_index_roots(p, *r) <= 1) {
            let want = format!("(sr 1 mk ({}))", pats.iter().map(|_| "1").collect::<Vec<_>>().join(" "));
            o.case(
                sexp::l(vec![sexp::a("pg-srset"), dump.clone(), sexp::list(pats, |(p, r)| sexp::l(vec![p.to_s(), sexp::a(r)]))]).to_string(),
                want,
                built.n_states >= 3,
            );
        }
        // a single-root pattern compiled alone: every key of the automaton is a key of the pattern (the hypothesis
        // aut_keys_in of Theorem c02_portgraph_run_reports_embeddings_of_good_patterns)
        if pats.len() == 1 && present[0] && crate::pg::n_index_roots(&pats[0].0, pats[0].1) <= 1 {
            o.case(sexp::l(vec![sexp::a("pg-ownkeys"), dump.clone(), pats[0].0.to_s(), sexp::a(pats[0].1)]).to_string(), "(keysin 1)".to_string(), built.n_states >= 3);
        }
        o.case(sexp::l(vec![sexp::a("pg-cert"), dump, sexp::list(&present, |x| sexp::b(*x)), S::L(all_css.clone())]).to_string(), "(wf 1 sound 1 complete 1 scopes () mkeys ())".to_string(), built.n_states >= 3);
    }
    o.count("pgm_patterns", pats.len());
}

pub fn run(tier: Tier, seed: u64, o: &mut Out) {
    let mut rng = Rng::new(seed ^ 0x51ab);
    let n = match tier {
        Tier::Quick => 700,
        Tier::Thorough => 20000,
    };
    // corpus: the cases pinned as refutation theorems on the model (D5, D6: Properties/C05.v; D10: Cert/D10Witness.v)
    for line in [
        "(pgmcase c02 (((((2 2) (2 0)) ((0 1 1 0) (0 0 0 1))) 0)) (((2 2) (2 0)) ((0 1 1 0) (0 0 0 1))) default)",
        "(pgmcase c02 (((((0 1) (1 1) (2 0) (0 1)) ((0 0 1 0) (1 0 2 0) (3 0 2 1))) 0)) (((0 1) (1 2) (2 0) (0 1)) ((0 0 1 0) (1 0 2 0) (3 0 2 1))) default)",
        "(pgmcase c04 (((((3 1) (1 2)) ((1 1 0 0) (0 0 0 1))) 1) ((((1 2) (2 2) (1 2)) ((1 1 0 0) (1 0 2 0))) 0)) (((1 1) (2 2) (1 2) (1 2)) ((1 0 0 0) (1 1 2 0) (0 0 3 0) (2 1 1 0) (3 1 1 1))) default)",
    ] {
        replay(line, o);
    }
    for _ in 0..n {
        let pats = pg::gen_pats(&mut rng);
        let hosts: Vec<G> = (0..rng.range(1, 3)).map(|_| pg::gen_host(&mut rng, &pats)).collect();
        let heurs = vec![Heur::Default, Heur::Never, Heur::Seq((0..12).map(|_| rng.chance(1, 2)).collect())];
        for h in &hosts {
            eval(&mut rng, &pats, h, &heurs, o);
        }
    }
    o.notes.push(format!("port-graph host model: {} random pattern sets x 1-3 hosts; list_bind_options on grown binding maps, single matcher, traversal on dumped automata (3 heuristics), wf_check on every dump", n));
}

/// C09 on port graphs: the structural certificate of every dumped port-graph automaton, incl. the
/// recomputation of scopes and recorded key lists (only the `pg-cert` cases of `run`)
pub fn run_c09(tier: Tier, seed: u64, o: &mut Out) {
    let mut tmp = Out::default();
    run(tier, seed, &mut tmp);
    let mut n = 0;
    for (c, r) in tmp.cases.into_iter().zip(tmp.rust) {
        if c.starts_with("(pg-cert ") {
            o.case(c, r, true);
            n += 1;
        }
    }
    o.notes.push(format!("port graphs: wf_check, arity_ok, lab_ok, cert_complete, populate_scopes and add_pattern key lists on {} dumped automata", n));
}

/// replay one (pattern set, host) pair: `(pgmcase <ignored> ((graph root) ...) host ...)` — the format of `pgcase`
pub fn replay(line: &str, o: &mut Out) {
    let s = sexp::parse(line).unwrap();
    let l = s.as_list();
    let pats: Vec<(G, usize)> = l[2].as_list().iter().map(|p| { let v = p.as_list(); (G::from_s(&v[0]), v[1].as_usize()) }).collect();
    let host = G::from_s(&l[3]);
    let mut rng = Rng::new(1);
    let heurs = vec![Heur::Default, Heur::Never, Heur::Seq((0..12).map(|i| i % 2 == 0).collect())];
    eval(&mut rng, &pats, &host, &heurs, o);
}
