//! Frozen copy of the *pinned* host-side port-graph indexing semantics
//! (portgraph/root_candidates.rs and walk_path / list_bind_options of
//! portgraph/indexing.rs at commit 6f05add) plus an independent depth-first
//! reference matcher over a constraint vector.  It is used only to decide the
//! membership of a missed occurrence in the known-finding classes D5 / D6: a miss
//! is "known" exactly when this reference — the pinned indexing scheme — cannot
//! bind the occurrence either; any other miss is reported as a violation.
#![allow(dead_code, clippy::all)]
use itertools::Itertools;
use portgraph::{LinkView, NodeIndex, PortGraph, PortIndex, PortOffset, PortView};
use portmatching::portgraph::indexing::PGIndexKey;
use portmatching::portgraph::{PGConstraint, PGPredicate};
use rustc_hash::{FxHashMap as HashMap, FxHashSet as HashSet};
use std::iter;

pub fn walk_path<'g>(
    graph: &'g PortGraph,
    start: NodeIndex,
    start_offset: PortOffset,
) -> impl Iterator<Item = (Option<PortIndex>, NodeIndex, Option<PortIndex>)> + 'g {
    let mut next_port = graph.port_index(start, start_offset);
    iter::once((None, start, next_port)).chain(iter::from_fn(move || {
        let prev_port = graph.port_link(next_port?);
        let curr = graph.port_node(prev_port?).unwrap();
        if curr == start {
            return None;
        }
        let next_port_offset = match graph.port_offset(prev_port?).unwrap() {
            PortOffset::Incoming(offset) => PortOffset::Outgoing(offset),
            PortOffset::Outgoing(offset) => PortOffset::Incoming(offset),
        };
        next_port = graph.port_index(curr, next_port_offset);
        Some((prev_port, curr, next_port))
    }))
}
pub fn find_root_candidates(
    graph: &PortGraph,
    bindings: &HashMap<PGIndexKey, NodeIndex>,
) -> Vec<NodeIndex> {
    let tree = RootSpanningTree::new(graph, bindings);

    let mut root_candidates = Vec::new();

    for root in tree.nodes {
        // For each root, we can use the paths leaving ports larger than any
        // we have used for previous roots (rationale: otherwise we'd have
        // chosen that root first)
        let max_offset_used = root
            .neighbours
            .iter()
            .filter(|(_, v)| matches!(v, NeighbourType::KnownRoot(_)))
            .map(|(&offset, _)| offset)
            .max();
        root_candidates.extend(root.neighbours.into_iter().filter_map(|(k, v)| {
            if Some(k) <= max_offset_used {
                return None;
            }
            if let NeighbourType::NewRoot(new_root) = v {
                return Some(new_root);
            }
            None
        }));
    }
    root_candidates
}

#[derive(Clone, Debug, Default)]
struct RootSpanningNode {
    neighbours: HashMap<PortOffset, NeighbourType>,
}

#[derive(Clone, Debug)]
enum NeighbourType {
    Parent,
    KnownRoot(usize),
    NewRoot(NodeIndex),
}

/// A spanning tree of all the assigned roots in the graph.
///
/// At each node store where following the path along each of its ports leads
/// to. It may lead to either i) the root we come from, ii) another assigned
/// root or iii) a node with free ports that we can extend the tree at.
///
/// We ignore back-edges, i.e. paths that lead to a root already in the spanning tree.
#[derive(Clone, Debug)]
struct RootSpanningTree {
    nodes: Vec<RootSpanningNode>,
}

impl RootSpanningTree {
    fn new(graph: &PortGraph, bindings: &HashMap<PGIndexKey, NodeIndex>) -> Self {
        let known_roots = (0..)
            .map(|i| bindings.get(&PGIndexKey::PathRoot { index: i }).map(|v| *v))
            .while_some()
            .collect_vec();
        let known_roots_inv: HashMap<_, _> = known_roots.iter().copied().zip(0..).collect();
        let known_nodes = bindings.iter().map(|(_, &v)| v).collect_vec();
        let nodes_with_free_ports = nodes_with_free_ports(graph, bindings);

        let mut tree_nodes = vec![RootSpanningNode::default(); known_roots.len()];
        let mut seen_roots = HashSet::default();
        for (i, &node) in known_roots.iter().enumerate() {
            seen_roots.insert(i);
            for port in graph.all_port_offsets(node) {
                let neighbour_type = traverse_path_neighbour_type(
                    graph,
                    node,
                    port,
                    i,
                    &mut seen_roots,
                    &known_nodes,
                    &known_roots_inv,
                    &nodes_with_free_ports,
                );
                if let Some(neighbour_type) = neighbour_type {
                    tree_nodes[i].neighbours.insert(port, neighbour_type);
                }
            }
        }
        Self { nodes: tree_nodes }
    }
}

/// Traverse the path starting in (`node`, `port`) and return the type of
/// root found on the path.
///
/// More precisely:
///  - if the path leads to a smaller root, return `NeighbourType::Parent`.
///  - if the path leads to a known, larger root, return `NeighbourType::KnownRoot`
///  - otherwise, return the first potential new root along the path as
///    `NeighbourType::NewRoot`.
///
/// We handle path cycle by picking the direction of traversal that starts in a
/// smaller offset as "finding a larger root", and the other direction as "finding
/// a smaller root".
fn traverse_path_neighbour_type(
    graph: &PortGraph,
    node: NodeIndex,
    port: PortOffset,
    current_root: usize,
    seen_roots: &mut HashSet<usize>,
    known_nodes: &[NodeIndex],
    known_roots_inv: &HashMap<NodeIndex, usize>,
    nodes_with_free_ports: &HashSet<NodeIndex>,
) -> Option<NeighbourType> {
    let mut path = Vec::new();
    for (incoming_p, node, _) in walk_path(graph, node, port).skip(1) {
        if !known_nodes.contains(&node) {
            break;
        }
        let incoming_offset = incoming_p.map(|p| graph.port_offset(p).unwrap());
        if let Some(&root) = known_roots_inv.get(&node) {
            if root < current_root {
                return Some(NeighbourType::Parent);
            } else if root == current_root && Some(port) > incoming_offset {
                return Some(NeighbourType::Parent);
            } else if seen_roots.insert(root) {
                return Some(NeighbourType::KnownRoot(root));
            } else {
                break;
            }
        }
        path.push(node);
    }
    path.into_iter()
        .find(|n| nodes_with_free_ports.contains(n))
        .map(|n| NeighbourType::NewRoot(n))
}

/// For each node the ports that have not been traversed.
fn free_ports(
    graph: &PortGraph,
    bindings: &HashMap<PGIndexKey, NodeIndex>,
) -> HashMap<NodeIndex, Vec<PortIndex>> {
    // Find the paths that have already been traversed
    // Map from (root, root_offset) to the length of the path traversed
    let mut paths = HashMap::<_, usize>::default();
    let mut roots = HashSet::default();
    for (key, node) in bindings.iter() {
        if let PGIndexKey::AlongPath {
            path_root,
            path_start_port,
            path_length,
        } = key
        {
            let path_id = (*path_root, *path_start_port);
            let prev_len = paths.entry(path_id).or_default();
            *prev_len = (*path_length).max(*prev_len);
        } else {
            roots.insert(node);
        }
    }

    // Traverse each of the traversed paths and remove the ports that have been used
    let mut free_ports = HashMap::default();
    for (&(root, root_offset), &length) in paths.iter() {
        let root = PGIndexKey::PathRoot { index: root };
        let &root_node = bindings
            .get(&root)
            .expect("A PGIndexKey::AlongPath binding references an unbound root");
        for (p1, node, p2) in walk_path(graph, root_node, root_offset).take(length + 1) {
            if roots.contains(&node) {
                continue;
            }
            let free_ports = free_ports
                .entry(node)
                .or_insert_with(|| graph.all_ports(node).collect_vec());
            if let Some(p1) = p1.and_then(|p1| free_ports.iter().position(|&p| p == p1)) {
                free_ports.remove(p1);
            }
            if let Some(p2) = p2.and_then(|p2| free_ports.iter().position(|&p| p == p2)) {
                free_ports.remove(p2);
            }
        }
    }
    free_ports
}

/// All bound nodes that have ports that have not been traversed yet.
///
/// TODO: This is outrageously inefficient.
fn nodes_with_free_ports(
    graph: &PortGraph,
    bindings: &HashMap<PGIndexKey, NodeIndex>,
) -> HashSet<NodeIndex> {
    let free_ports = free_ports(graph, bindings);
    free_ports
        .into_iter()
        .filter(|(_, ports)| !ports.is_empty())
        .map(|(node, _)| node)
        .collect()
}

/// list_bind_options of `impl IndexedData for PortGraph` (pinned)
pub fn list_bind_options(g: &PortGraph, key: &PGIndexKey, known: &HashMap<PGIndexKey, NodeIndex>) -> Vec<NodeIndex> {
    if let Some(val) = known.get(key) {
        return vec![*val];
    }
    match *key {
        PGIndexKey::PathRoot { index: 0 } => g.nodes_iter().collect(),
        PGIndexKey::PathRoot { index } => {
            if known.get(&PGIndexKey::PathRoot { index: index - 1 }).is_none() {
                vec![]
            } else {
                find_root_candidates(g, known)
            }
        }
        PGIndexKey::AlongPath { path_root, path_start_port, path_length } => {
            let Some(&root_binding) = known.get(&PGIndexKey::PathRoot { index: path_root }) else {
                return vec![];
            };
            walk_path(g, root_binding, path_start_port).map(|(_, n, _)| n).nth(path_length).into_iter().collect()
        }
    }
}

fn prereqs(k: &PGIndexKey) -> Vec<PGIndexKey> {
    match *k {
        PGIndexKey::PathRoot { index } => if index == 0 { vec![] } else { vec![PGIndexKey::PathRoot { index: index - 1 }] },
        PGIndexKey::AlongPath { path_root, .. } => vec![PGIndexKey::PathRoot { index: path_root }],
    }
}

fn missing(k: &PGIndexKey, known: &HashMap<PGIndexKey, NodeIndex>, out: &mut Vec<PGIndexKey>) {
    if known.contains_key(k) || out.contains(k) {
        return;
    }
    for p in prereqs(k) {
        missing(&p, known, out);
    }
    out.push(*k);
}

fn holds(g: &PortGraph, c: &PGConstraint, b: &HashMap<PGIndexKey, NodeIndex>) -> bool {
    let args: Option<Vec<NodeIndex>> = c.required_bindings().iter().map(|k| b.get(k).copied()).collect();
    let Some(args) = args else { return false };
    match c.predicate() {
        PGPredicate::HasNodeWeight(()) => true,
        PGPredicate::IsNotEqual { .. } => !args[1..].contains(&args[0]),
        PGPredicate::IsConnected { left_port, right_port } => {
            let Some(lp) = g.port_index(args[0], *left_port) else { return false };
            g.port_links(lp).any(|(_, p)| g.port_offset(p) == Some(*right_port) && g.port_node(p) == Some(args[1]))
        }
    }
}

/// all complete bindings of the constraint vector (depth first)
pub fn ref_single(g: &PortGraph, cs: &[PGConstraint]) -> Vec<HashMap<PGIndexKey, NodeIndex>> {
    fn go(g: &PortGraph, cs: &[PGConstraint], i: usize, b: HashMap<PGIndexKey, NodeIndex>, out: &mut Vec<HashMap<PGIndexKey, NodeIndex>>) {
        if i == cs.len() {
            out.push(b);
            return;
        }
        let mut keys = vec![];
        for k in cs[i].required_bindings() {
            missing(k, &b, &mut keys);
        }
        fn bind(g: &PortGraph, cs: &[PGConstraint], i: usize, keys: &[PGIndexKey], b: HashMap<PGIndexKey, NodeIndex>, out: &mut Vec<HashMap<PGIndexKey, NodeIndex>>) {
            match keys.split_first() {
                None => {
                    if holds(g, &cs[i], &b) {
                        go(g, cs, i + 1, b, out);
                    }
                }
                Some((k, rest)) => {
                    for v in list_bind_options(g, k, &b) {
                        let mut b2 = b.clone();
                        b2.insert(*k, v);
                        bind(g, cs, i, rest, b2, out);
                    }
                }
            }
        }
        bind(g, cs, i, &keys, b, out);
    }
    let mut out = vec![];
    go(g, cs, 0, HashMap::default(), &mut out);
    out
}
