//! StringPattern::parse_str / MatrixPattern::parse_str (the text front end of the two pattern
//! types), observed through try_to_constraint_vec and compared with the model's
//! s_cvec (s_parse text) / m_cvec (m_parse text); a '$' at the very end panics in both.
use crate::dom::{cons_s, mkey_s, skey_s};
use crate::out::{catch, Out};
use crate::rng::Rng;
use crate::sexp::{self, S};
use crate::Tier;
use portmatching::matrix::MatrixPattern;
use portmatching::string::StringPattern;
use portmatching::Pattern;

const ALPHABET: &[char] = &[
    'a', 'a', 'b', 'b', 'c', 'x', 'y', '$', '$', '$', '-', '-', ' ', ' ', '\n', '\n', '\t', '\r', '\u{a0}', '\u{3000}', '\u{2028}', '\u{85}',
    '\u{e9}', '\u{200b}', '\u{1680}',
];

fn text(rng: &mut Rng, max: usize) -> String {
    let n = rng.range(0, max);
    (0..n).map(|_| *rng.pick(ALPHABET)).collect()
}

fn codes(s: &str) -> S {
    sexp::nums(s.chars().map(|c| c as u32 as usize))
}

pub fn run(tier: Tier, seed: u64, o: &mut Out) {
    let n = match tier { Tier::Quick => 4000, Tier::Thorough => 150_000 };
    let mut rng = Rng::new(seed ^ 0x7061727365);
    for i in 0..n {
        let t = text(&mut rng, if i % 4 == 0 { 4 } else { 12 });
        let got = catch(|| StringPattern::parse_str(&t).try_to_constraint_vec().unwrap());
        let exp = match &got {
            Some(cs) => sexp::l(vec![sexp::a("ok"), sexp::list(cs, |c| cons_s(c, &skey_s))]).to_string(),
            None => "(panic)".to_string(),
        };
        o.case(sexp::l(vec![sexp::a("parse"), sexp::a("str"), codes(&t)]).to_string(), exp, t.chars().count() >= 3);
        o.count("parse_str", if got.is_some() { "ok" } else { "panic" });
        let got = catch(|| MatrixPattern::parse_str(&t).try_to_constraint_vec().unwrap());
        let exp = match &got {
            Some(cs) => sexp::l(vec![sexp::a("ok"), sexp::list(cs, |c| cons_s(c, &mkey_s))]).to_string(),
            None => "(panic)".to_string(),
        };
        o.case(sexp::l(vec![sexp::a("parse"), sexp::a("mat"), codes(&t)]).to_string(), exp, t.lines().count() >= 2);
        o.count("parse_mat", if got.is_some() { "ok" } else { "panic" });
        o.count("text_len", t.chars().count());
    }
    o.notes.push(format!("parse: {} random texts over letters, '$', '-', blanks, line ends and Unicode white space, each parsed as a string pattern and as a matrix pattern", n));
}
