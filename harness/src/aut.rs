//! Evaluation of (pattern set, hosts, heuristics) cases for the string and
//! matrix domains: ManyMatcher against the occurrence oracle, the naive
//! matchers, other heuristics, other pattern sets; every compiled automaton is
//! dumped and handed to the model (traversal on the dump, certificates).
use crate::dom::{Built, Dom, Heur};
use crate::out::Out;
use crate::rng::Rng;
use crate::sexp::{self, S};
use crate::Tier;
use std::collections::BTreeMap;

/// whether certificate lines are sent to the model
pub const CERTS: bool = true;

#[derive(Clone, Copy, PartialEq, Eq, Debug)]
pub enum Mode {
    C01,
    C02,
    C03,
    C04,
    C05,
    C06,
    C07,
    C08,
    C09,
    C17,
}

pub struct Case<D: Dom> {
    pub pats: Vec<D::Pat>,
    pub hosts: Vec<D::Host>,
    pub heurs: Vec<Heur>,
}

impl<D: Dom> Case<D> {
    pub fn to_s(&self, mode: Mode) -> S {
        sexp::l(vec![
            sexp::a("autcase"),
            sexp::a(format!("{:?}", mode).to_lowercase()),
            sexp::a(D::NAME),
            sexp::list(&self.pats, D::pat_s),
            sexp::list(&self.hosts, D::host_s),
            sexp::list(&self.heurs, |h| h.to_s()),
        ])
    }
    pub fn from_s(s: &S) -> Case<D> {
        let l = s.as_list();
        Case {
            pats: l[3].as_list().iter().map(D::pat_from_s).collect(),
            hosts: l[4].as_list().iter().map(D::host_from_s).collect(),
            heurs: l[5].as_list().iter().map(Heur::from_s).collect(),
        }
    }
}

fn matches_s(ms: &[(usize, S)]) -> S {
    sexp::list(ms, |(p, m)| sexp::l(vec![sexp::a(p), m.clone()]))
}

fn sorted(ms: &[(usize, S)]) -> Vec<(usize, S)> {
    let mut v = ms.to_vec();
    v.sort();
    v
}
fn dedup_sorted(ms: &[(usize, S)]) -> Vec<(usize, S)> {
    let mut v = sorted(ms);
    v.dedup();
    v
}

/// Enumerate heuristics: Never, Default and Custom answer sequences (all of them
/// while the number of builds stays below `cap`, random ones beyond).
pub fn enumerate_heurs<D: Dom>(pats: &[D::Pat], cap: usize, rng: &mut Rng) -> (Vec<Heur>, bool) {
    let mut res = vec![Heur::Never, Heur::Default];
    let mut stack: Vec<Vec<bool>> = vec![vec![]];
    let mut builds = 0usize;
    let mut complete = true;
    while let Some(prefix) = stack.pop() {
        if builds >= cap {
            complete = false;
            break;
        }
        builds += 1;
        let Some(b) = D::build(pats, &Heur::Seq(prefix.clone())) else {
            res.push(Heur::Seq(prefix));
            continue;
        };
        if b.heur_calls > prefix.len() {
            let mut f = prefix.clone();
            f.push(false);
            let mut t = prefix;
            t.push(true);
            stack.push(f);
            stack.push(t);
        } else {
            res.push(Heur::Seq(prefix));
        }
    }
    if !complete {
        for _ in 0..4 {
            res.push(Heur::Seq((0..24).map(|_| rng.chance(1, 2)).collect()));
        }
    }
    (res, complete)
}

pub fn gen_case<D: Dom>(rng: &mut Rng, tier: Tier, all_heurs: bool) -> Case<D> {
    let n = match rng.below(12) {
        0 => 0,
        1..=3 => 1,
        4..=8 => rng.range(2, 4),
        _ => rng.range(4, 8),
    };
    let mut pats: Vec<D::Pat> = vec![];
    for _ in 0..n {
        if !pats.is_empty() && rng.chance(1, 8) {
            let p = rng.pick(&pats).clone(); // duplicate
            pats.push(p);
        } else {
            pats.push(D::gen_pat(rng));
        }
    }
    let n_hosts = rng.range(2, 5);
    let mut hosts: Vec<D::Host> = (0..n_hosts).map(|_| D::gen_host(rng, &pats)).collect();
    if rng.chance(1, 6) {
        let mut deg = D::degenerate_hosts();
        let i = rng.below(deg.len());
        hosts.push(deg.swap_remove(i));
    }
    let heurs = if all_heurs {
        let cap = if tier == Tier::Thorough { 256 } else { 24 };
        enumerate_heurs::<D>(&pats, cap, rng).0
    } else {
        let mut v = vec![Heur::Never, Heur::Default];
        v.push(Heur::Seq((0..16).map(|_| rng.chance(1, 2)).collect()));
        v
    };
    Case { pats, hosts, heurs }
}

pub struct Evaluated {
    pub n_states_max: usize,
    pub any_occurrence: bool,
}

/// Evaluate one case under the judgement of `mode`.
pub fn eval<D: Dom>(c: &Case<D>, mode: Mode, o: &mut Out) -> Evaluated {
    let replay = c.to_s(mode).to_string();
    let mut n_states_max = 0;
    let mut any_occ = false;
    // occurrences per (pattern, host)
    let occ: Vec<Vec<Vec<S>>> = c.pats.iter().map(|p| c.hosts.iter().map(|h| D::occurrences(p, h)).collect()).collect();
    for per_host in &occ {
        for l in per_host {
            if !l.is_empty() {
                any_occ = true;
            }
        }
    }
    // expected multiset of (pattern, anchor) per host
    let expected: Vec<Vec<(usize, S)>> = (0..c.hosts.len())
        .map(|hi| {
            let mut v = vec![];
            for (pi, per_host) in occ.iter().enumerate() {
                for a in &per_host[hi] {
                    v.push((pi, a.clone()));
                }
            }
            v.sort();
            v
        })
        .collect();

    if mode == Mode::C05 {
        for (pi, p) in c.pats.iter().enumerate() {
            // pattern -> constraint vector, against the model
            o.case(sexp::l(vec![sexp::a("cvec"), sexp::a(D::NAME), D::pat_s(p)]).to_string(), D::cvec_s(p).to_string(), D::pat_size(p) >= 2);
            for (hi, h) in c.hosts.iter().enumerate() {
                let Some((ms, exists, all_bound)) = D::single(p, h) else {
                    o.violation(format!("{}: SinglePatternMatcher panicked", D::NAME), replay.clone());
                    continue;
                };
                // the Rust oracle and the Coq specification of occurrence, compared on every case
                o.case(
                    sexp::l(vec![sexp::a("occ"), sexp::a(D::NAME), D::pat_s(p), D::host_s(h)]).to_string(),
                    S::L(occ[pi][hi].clone()).to_string(),
                    !occ[pi][hi].is_empty(),
                );
                let anchors: Vec<S> = ms.iter().map(D::anchor).collect();
                let nontrivial = !occ[pi][hi].is_empty();
                o.case(
                    sexp::l(vec![sexp::a("single"), sexp::a(D::NAME), D::pat_s(p), D::host_s(h)]).to_string(),
                    sexp::l(vec![S::L(ms.clone()), sexp::b(exists)]).to_string(),
                    nontrivial,
                );
                // C05 speaks of the set of reported occurrences (each once), not of their order
                let mut a_sorted = anchors.clone();
                a_sorted.sort();
                let mut o_sorted = occ[pi][hi].clone();
                o_sorted.sort();
                if a_sorted != o_sorted {
                    o.violation(
                        format!("{}: SinglePatternMatcher reports anchors {} but pattern {} occurs exactly at {} in host {}", D::NAME, S::L(anchors.clone()), D::pat_s(p), S::L(occ[pi][hi].clone()), D::host_s(h)),
                        replay.clone(),
                    );
                }
                if exists != !occ[pi][hi].is_empty() {
                    o.violation(format!("{}: match_exists = {} but there are {} occurrences", D::NAME, exists, occ[pi][hi].len()), replay.clone());
                }
                if !all_bound {
                    o.violation(format!("{}: a reported binding leaves a key of the pattern's constraints unbound", D::NAME), replay.clone());
                }
            }
        }
        for (hi, h) in c.hosts.iter().enumerate() {
            let Some(nv) = D::naive(&c.pats, h) else {
                o.violation(format!("{}: NaiveManyMatcher panicked", D::NAME), replay.clone());
                continue;
            };
            o.case(
                sexp::l(vec![sexp::a("naive"), sexp::a(D::NAME), sexp::list(&c.pats, D::pat_s), D::host_s(h)]).to_string(),
                matches_s(&nv).to_string(),
                !expected[hi].is_empty(),
            );
            let got: Vec<(usize, S)> = nv.iter().map(|(p, m)| (*p, D::anchor(m))).collect();
            let mut want = vec![];
            for (pi, per_host) in occ.iter().enumerate() {
                for a in &per_host[hi] {
                    want.push((pi, a.clone()));
                }
            }
            if sorted(&got) != sorted(&want) {
                o.violation(format!("{}: NaiveManyMatcher reports {} but the occurrences, numbered by input position, are {}", D::NAME, matches_s(&got), matches_s(&want)), replay.clone());
            }
        }
        o.count("domain", D::NAME);
        return Evaluated { n_states_max: 0, any_occurrence: any_occ };
    }

    // build under every heuristic
    let mut builts: Vec<(Heur, Built<D::Host>)> = vec![];
    for h in &c.heurs {
        match D::build(&c.pats, h) {
            Some(b) => {
                n_states_max = n_states_max.max(b.n_states);
                builts.push((h.clone(), b));
            }
            None => {
                o.violation(format!("{}: construction of ManyMatcher panicked or failed under heuristic {}", D::NAME, h.to_s()), replay.clone());
            }
        }
    }
    // run
    let mut runs: Vec<Vec<Vec<(usize, S)>>> = vec![]; // [built][host]
    for (h, b) in &builts {
        let mut per_host = vec![];
        for host in &c.hosts {
            match (b.run)(host) {
                Some(ms) => per_host.push(ms),
                None => {
                    o.violation(format!("{}: find_matches panicked (heuristic {})", D::NAME, h.to_s()), replay.clone());
                    per_host.push(vec![]);
                }
            }
        }
        runs.push(per_host);
    }
    let nontrivial = n_states_max >= 3 && any_occ;
    // correspondence: the model's traversal on the dumped automaton
    for (bi, (_, b)) in builts.iter().enumerate() {
        o.case(
            sexp::l(vec![sexp::a("aut-run"), sexp::a(D::NAME), b.dump.clone(), sexp::list(&c.hosts, D::host_s)]).to_string(),
            sexp::list(&runs[bi], |ms| sexp::l(vec![sexp::a("ok"), matches_s(ms)])).to_string(),
            nontrivial,
        );
        // certificates evaluated by the model on the real automaton
        let which = match mode {
            Mode::C01 => "s",
            Mode::C02 => "wct",
            Mode::C07 => if D::NAME == "str" { "wsctu" } else { "wsct" },
            Mode::C09 => "wp",
            Mode::C08 => "wt",
            Mode::C17 | Mode::C05 => "",
            _ => "wsct",
        };
        if CERTS && !which.is_empty() {
            let mut want = vec![];
            if which.contains('w') { want.push("wf 1"); }
            if which.contains('s') { want.push("sound 1"); }
            if which.contains('c') { want.push("complete 1"); }
            if which.contains('t') { want.push("tight 1"); }
            if which.contains('u') { want.push("slab 1 unamb 1 vdet 1 eroot 1 esc 1"); }
            // populate_scopes and add_pattern's key lists, recomputed by the model on the dumped graph
            if which.contains('p') { want.push("scopes () mkeys ()"); }
            o.case(
                sexp::l(vec![sexp::a("cert"), sexp::a(D::NAME), sexp::a(which), b.dump.clone(), sexp::list(&c.pats, D::pat_s), sexp::list(&b.present, |x| sexp::b(*x))]).to_string(),
                format!("({})", want.join(" ")),
                b.n_states >= 3,
            );
        }
    }
    // information only (matrices, C07): the certificates behind c07_matrix_accepting_states_exclusive_partial
    if CERTS && mode == Mode::C07 && D::NAME == "mat" {
        for (_, b) in builts.iter() {
            o.case(
                sexp::l(vec![sexp::a("cert"), sexp::a(D::NAME), sexp::a("U"), b.dump.clone(), sexp::list(&c.pats, D::pat_s), sexp::list(&b.present, |x| sexp::b(*x))]).to_string(),
                "(slab 1 unamb 1)".to_string(),
                b.n_states >= 3,
            );
        }
    }
    o.count("domain", D::NAME);
    o.count("patterns", c.pats.len());
    o.count("heuristics_built", builts.len().min(40));
    o.count("hosts_with_occurrence", expected.iter().filter(|e| !e.is_empty()).count());
    o.count("max_states", (n_states_max / 4) * 4);

    let anchors = |ms: &[(usize, S)]| -> Vec<(usize, S)> { ms.iter().map(|(p, m)| (*p, D::anchor(m))).collect() };
    match mode {
        Mode::C01 | Mode::C02 | Mode::C07 => {
            for (bi, (h, _)) in builts.iter().enumerate() {
                for (hi, host) in c.hosts.iter().enumerate() {
                    let got = sorted(&anchors(&runs[bi][hi]));
                    let want = &expected[hi];
                    if mode == Mode::C01 {
                        if let Some(x) = got.iter().find(|x| !want.contains(x)) {
                            o.violation(format!("{}: ManyMatcher ({}) reports pattern {} at {} in host {}, where it does not occur", D::NAME, h.to_s(), x.0, x.1, D::host_s(host)), replay.clone());
                        }
                    }
                    if mode == Mode::C02 {
                        if let Some(x) = want.iter().find(|x| !got.contains(x)) {
                            o.violation(format!("{}: ManyMatcher ({}) misses the occurrence of pattern {} at {} in host {}", D::NAME, h.to_s(), x.0, x.1, D::host_s(host)), replay.clone());
                        }
                    }
                    if mode == Mode::C07 && got != *want {
                        o.violation(format!("{}: ManyMatcher ({}) reports {} but each occurrence exactly once is {} (host {})", D::NAME, h.to_s(), matches_s(&got), matches_s(want), D::host_s(host)), replay.clone());
                    }
                }
            }
        }
        Mode::C03 => {
            for (hi, host) in c.hosts.iter().enumerate() {
                let Some(nv) = D::naive(&c.pats, host) else {
                    continue;
                };
                let want = dedup_sorted(&nv);
                for (bi, (h, _)) in builts.iter().enumerate() {
                    let got = dedup_sorted(&runs[bi][hi]);
                    if got != want {
                        o.violation(format!("{}: ManyMatcher ({}) returns the set {} but NaiveManyMatcher returns {} (host {})", D::NAME, h.to_s(), matches_s(&got), matches_s(&want), D::host_s(host)), replay.clone());
                    }
                }
            }
        }
        Mode::C04 => {
            for hi in 0..c.hosts.len() {
                for bi in 1..builts.len() {
                    let a = sorted(&runs[0][hi]);
                    let b = sorted(&runs[bi][hi]);
                    if a != b {
                        o.violation(format!("{}: heuristic {} yields {} but heuristic {} yields {} (host {})", D::NAME, builts[0].0.to_s(), matches_s(&a), builts[bi].0.to_s(), matches_s(&b), D::host_s(&c.hosts[hi])), replay.clone());
                    }
                }
            }
        }
        Mode::C06 => {
            // each pattern alone, under the default heuristic, against its matches inside the set
            for (pi, p) in c.pats.iter().enumerate() {
                let Some(alone) = D::build(std::slice::from_ref(p), &Heur::Default) else { continue };
                for (hi, host) in c.hosts.iter().enumerate() {
                    let Some(a) = (alone.run)(host) else { continue };
                    let a: Vec<S> = { let mut v: Vec<S> = a.into_iter().map(|(_, m)| m).collect(); v.sort(); v };
                    for (bi, (h, _)) in builts.iter().enumerate() {
                        let mut t: Vec<S> = runs[bi][hi].iter().filter(|(q, _)| *q == pi).map(|(_, m)| m.clone()).collect();
                        t.sort();
                        if t != a {
                            o.violation(format!("{}: pattern {} compiled alone matches {} but inside the set ({}) it is reported at {} (host {})", D::NAME, pi, S::L(a.clone()), h.to_s(), S::L(t), D::host_s(host)), replay.clone());
                        }
                    }
                }
            }
            for (h, b) in &builts {
                if b.n_patterns != c.pats.len() || b.present.iter().any(|x| !*x) {
                    o.violation(format!("{}: n_patterns/get_pattern do not reflect the {} compiled patterns ({})", D::NAME, c.pats.len(), h.to_s()), replay.clone());
                }
            }
            // a permutation of the set: ids follow the input positions
            if c.pats.len() >= 2 {
                let mut perm: Vec<usize> = (0..c.pats.len()).collect();
                perm.rotate_left(1);
                let pats2: Vec<D::Pat> = perm.iter().map(|&i| c.pats[i].clone()).collect();
                if let Some(b2) = D::build(&pats2, &Heur::Default) {
                    if let Some(bi) = builts.iter().position(|(h, _)| *h == Heur::Default) {
                        for (hi, host) in c.hosts.iter().enumerate() {
                            let Some(r2) = (b2.run)(host) else { continue };
                            let back: Vec<(usize, S)> = sorted(&r2.into_iter().map(|(q, m)| (perm[q], m)).collect::<Vec<_>>());
                            let orig = sorted(&runs[bi][hi]);
                            if back != orig {
                                o.violation(format!("{}: after permuting the pattern set the matches (renumbered) are {} instead of {} (host {})", D::NAME, matches_s(&back), matches_s(&orig), D::host_s(host)), replay.clone());
                            }
                        }
                    }
                }
            }
        }
        Mode::C17 => {
            for (h, b) in &builts {
                if let Some(b2) = D::build(&c.pats, h) {
                    if b2.n_states != b.n_states || b2.dot != b.dot {
                        o.violation(format!("{}: building twice ({}) gives different automata ({} vs {} states)", D::NAME, h.to_s(), b.n_states, b2.n_states), replay.clone());
                    }
                    for host in &c.hosts {
                        if (b.run)(host).map(|m| matches_s(&m).to_string()) != (b2.run)(host).map(|m| matches_s(&m).to_string()) {
                            o.violation(format!("{}: the same host yields different match sequences on two builds ({})", D::NAME, h.to_s()), replay.clone());
                        }
                    }
                }
            }
        }
        Mode::C09 => {
            for (h, b) in &builts {
                if let Some(msg) = &b.wf_problem {
                    o.violation(format!("{}: automaton built under heuristic {} is not well-formed: {}", D::NAME, h.to_s(), msg), replay.clone());
                }
            }
        }
        Mode::C08 => {
            for host in &c.hosts {
                if D::naive(&c.pats, host).is_none() {
                    o.violation(format!("{}: NaiveManyMatcher panicked on host {}", D::NAME, D::host_s(host)), replay.clone());
                }
                for p in &c.pats {
                    if D::single(p, host).is_none() {
                        o.violation(format!("{}: SinglePatternMatcher panicked on host {}", D::NAME, D::host_s(host)), replay.clone());
                    }
                }
            }
        }
        Mode::C05 => {}
    }
    Evaluated { n_states_max, any_occurrence: any_occ }
}

/// Fingerprint of a case for cross-process comparison (C17).
pub fn fingerprint<D: Dom>(c: &Case<D>) -> String {
    let mut s = String::new();
    for h in &c.heurs {
        if let Some(b) = D::build(&c.pats, h) {
            s.push_str(&format!("{} {}\n{}\n", h.to_s(), b.n_states, b.dot));
            for host in &c.hosts {
                s.push_str(&format!("{:?}\n", (b.run)(host).map(|m| matches_s(&m).to_string())));
            }
        }
    }
    s
}

pub fn run_mode<D: Dom>(mode: Mode, tier: Tier, rng: &mut Rng, n_quick: usize, n_thorough: usize, corpus: &[&str], o: &mut Out) {
    for line in corpus {
        let s = sexp::parse(line).unwrap();
        if s.as_list()[2].as_str() == D::NAME {
            eval::<D>(&Case::from_s(&s), mode, o);
        }
    }
    if mode == Mode::C08 {
        // the degenerate stream: empty set, empty patterns, every degenerate host
        let mut sets: Vec<Vec<D::Pat>> = vec![vec![]];
        for _ in 0..40 {
            let mut ps: Vec<D::Pat> = (0..rng.range(1, 3)).map(|_| D::gen_pat(rng)).collect();
            ps.retain(|p| D::pat_size(p) <= 1);
            sets.push(ps);
        }
        for pats in sets {
            let c = Case::<D> { pats, hosts: D::degenerate_hosts(), heurs: vec![Heur::Never, Heur::Default, Heur::Seq(vec![true, false, true])] };
            eval::<D>(&c, mode, o);
            o.count("stream", "degenerate");
        }
    }
    let n = if tier == Tier::Thorough { n_thorough } else { n_quick };
    let all_heurs = matches!(mode, Mode::C04 | Mode::C09);
    let mut hist: BTreeMap<&str, usize> = BTreeMap::new();
    for _ in 0..n {
        let c = gen_case::<D>(rng, tier, all_heurs);
        let e = eval::<D>(&c, mode, o);
        *hist.entry(if e.any_occurrence { "cases_with_occurrence" } else { "cases_without_occurrence" }).or_default() += 1;
    }
    for (k, v) in hist {
        for _ in 0..v {
            o.count(&format!("{}_{}", D::NAME, "occurrence"), k);
        }
    }
}
