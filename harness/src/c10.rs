//! C10 — constraint trees: exact comparison of every built-in decomposition and
//! helper constructor with the model, and brute-force faithfulness.
use crate::out::{catch, Out};
use crate::rng::Rng;
use crate::sexp::{self, S};
use crate::Tier;
use portgraph::PortOffset;
use portmatching::matrix::MatrixPatternPosition;
use portmatching::portgraph::indexing::PGIndexKey;
use portmatching::portgraph::{PGConstraint, PGPredicate};
use portmatching::string::{CharacterPredicate, StringConstraint, StringPatternPosition};
use portmatching::{ConditionedPredicate, Constraint, ConstraintTree, ToConstraintsTree};

// ---------------------------------------------------------------- tree dump
fn tree_s<C>(t: &ConstraintTree<C>, cf: &impl Fn(&C) -> S) -> S {
    sexp::l(vec![
        sexp::b(t.make_det),
        S::L((0..t.n_nodes())
            .map(|n| {
                sexp::l(vec![
                    sexp::nums(t.constraint_indices(n)),
                    S::L(t.children(n).map(|(i, c)| sexp::l(vec![cf(c), sexp::a(i)])).collect()),
                ])
            })
            .collect()),
    ])
}

/// nodes reachable from the root following the edges whose constraint is true
fn reachable<C>(t: &ConstraintTree<C>, truth: &impl Fn(&C) -> bool) -> Vec<usize> {
    let mut res = vec![0];
    let mut todo = vec![0];
    while let Some(n) = todo.pop() {
        for (i, c) in t.children(n) {
            if truth(c) && !res.contains(&i) {
                res.push(i);
                todo.push(i);
            }
        }
    }
    res
}

/// nodes reached when only the first satisfied child of the root is followed (what the builder does
/// with a tree that sets make_det), all satisfied edges below
fn reachable_det<C>(t: &ConstraintTree<C>, truth: &impl Fn(&C) -> bool) -> Vec<usize> {
    let mut res = vec![0];
    let mut todo = vec![0];
    while let Some(n) = todo.pop() {
        for (i, c) in t.children(n) {
            if truth(c) && !res.contains(&i) {
                res.push(i);
                todo.push(i);
                if n == 0 {
                    break;
                }
            }
        }
    }
    res
}

/// The first-satisfied-child reading is NOT part of C10 as stated (the traversal follows every
/// satisfied transition of a deterministic state, only the fallback transition is conditional): it is
/// proved of the shipped trees (Properties/C10.v, Spec/TreeDet.v) and recorded here as information — a
/// tree for which it fails has root children that are not mutually exclusive.
fn det_note(o: &mut Out, failure: Option<String>) {
    match failure {
        None => o.count("first_satisfied_child_reading", "holds"),
        Some(msg) => {
            o.count("first_satisfied_child_reading", "fails");
            if o.notes.iter().filter(|n| n.starts_with("first-satisfied-child reading fails")).count() < 3 {
                o.notes.push(format!("first-satisfied-child reading fails (information, not a violation of C10): {}", msg));
            }
        }
    }
}

/// labels valid; faithful under the given valuation; returns a description of the first defect
fn faithful_under<C>(t: &ConstraintTree<C>, cs: &[C], truth: &impl Fn(&C) -> bool) -> Option<String> {
    faithful_with(t, cs, truth, reachable(t, truth), "reachable")
}

/// the same under the deterministic reading of the root
fn det_faithful_under<C>(t: &ConstraintTree<C>, cs: &[C], truth: &impl Fn(&C) -> bool) -> Option<String> {
    faithful_with(t, cs, truth, reachable_det(t, truth), "reached under the deterministic reading of the root")
}

fn faithful_with<C>(t: &ConstraintTree<C>, cs: &[C], truth: &impl Fn(&C) -> bool, reach: Vec<usize>, how: &str) -> Option<String> {
    let mut in_tree = vec![false; cs.len()];
    let mut reached = vec![false; cs.len()];
    for n in 0..t.n_nodes() {
        for &i in t.constraint_indices(n) {
            if i >= cs.len() {
                return Some(format!("label {} is not a valid index (list of {})", i, cs.len()));
            }
            in_tree[i] = true;
            if reach.contains(&n) {
                reached[i] = true;
            }
        }
    }
    for i in 0..cs.len() {
        if in_tree[i] && reached[i] != truth(&cs[i]) {
            return Some(format!(
                "constraint {} is {} but a node labelled {} is {}{}",
                i,
                if truth(&cs[i]) { "satisfied" } else { "not satisfied" },
                i,
                if reached[i] { "" } else { "not " },
                how
            ));
        }
    }
    None
}

fn contains_label<C>(t: &ConstraintTree<C>, i: usize) -> bool {
    (0..t.n_nodes()).any(|n| t.constraint_indices(n).contains(&i))
}

// ---------------------------------------------------------------- character trees
fn skey(k: &StringPatternPosition) -> S {
    sexp::a(Into::<usize>::into(*k))
}
fn mkey(k: &MatrixPatternPosition) -> S {
    let (r, c): (isize, isize) = (*k).into();
    sexp::nums([r, c])
}
fn ccons_s<K>(c: &Constraint<K, CharacterPredicate>, kf: &impl Fn(&K) -> S) -> S {
    let mut v = match c.predicate() {
        CharacterPredicate::BindingEq => vec![sexp::a("eq")],
        CharacterPredicate::ConstVal(ch) => vec![sexp::a("const"), sexp::a(*ch as u32)],
    };
    v.extend(c.required_bindings().iter().map(kf));
    S::L(v)
}

fn gen_char_constraints<K: Copy>(rng: &mut Rng, keys: &[K]) -> Vec<Constraint<K, CharacterPredicate>> {
    let n = rng.range(1, 7);
    (0..n)
        .map(|_| {
            if rng.chance(3, 5) {
                Constraint::try_new(CharacterPredicate::ConstVal(['a', 'b', 'c'][rng.below(3)]), vec![*rng.pick(keys)]).unwrap()
            } else {
                Constraint::try_new(CharacterPredicate::BindingEq, vec![*rng.pick(keys), *rng.pick(keys)]).unwrap()
            }
        })
        .collect()
}

fn eval_string_tree(cs: Vec<StringConstraint<StringPatternPosition>>, o: &mut Out) {
    let line = sexp::l(vec![sexp::a("tree"), sexp::a("str"), sexp::list(&cs, |c| ccons_s(c, &skey))]);
    let replay = line.to_string();
    let Some(t) = catch(|| CharacterPredicate::to_constraints_tree(cs.clone())) else {
        o.case(replay.clone(), "(panic)".into(), true);
        o.violation("string to_constraints_tree panicked".into(), replay);
        return;
    };
    o.case(replay.clone(), sexp::l(vec![sexp::a("ok"), tree_s(&t, &|c| ccons_s(c, &skey))]).to_string(), cs.len() >= 2 && t.n_nodes() >= 3);
    // smallest constraint present
    let min_i = cs.iter().enumerate().min_by(|a, b| a.1.cmp(b.1)).map(|x| x.0).unwrap();
    if !contains_label(&t, min_i) {
        o.violation(format!("string tree does not contain the smallest constraint (index {})", min_i), replay.clone());
    }
    // faithfulness over all small hosts and anchors
    let hosts = ["", "a", "ab", "ba", "aab", "abc", "cba", "abab", "bbbb", "acbca"];
    for h in hosts {
        let chars: Vec<char> = h.chars().collect();
        for a in 0..=chars.len() {
            let truth = |c: &StringConstraint<StringPatternPosition>| -> bool {
                let at = |k: &StringPatternPosition| chars.get(a + Into::<usize>::into(*k)).copied();
                match c.predicate() {
                    CharacterPredicate::ConstVal(ch) => at(&c.required_bindings()[0]) == Some(*ch),
                    CharacterPredicate::BindingEq => {
                        let x = at(&c.required_bindings()[0]);
                        x.is_some() && x == at(&c.required_bindings()[1])
                    }
                }
            };
            if t.make_det {
                det_note(o, det_faithful_under(&t, &cs, &truth).map(|msg| format!("string tree on host {:?} at {}: {} [{}]", h, a, msg, replay)));
            }
            if let Some(msg) = faithful_under(&t, &cs, &truth) {
                o.violation(format!("string tree unfaithful on host {:?} at {}: {}", h, a, msg), replay.clone());
                return;
            }
        }
    }
    o.count("kind", "string tree");
}

fn eval_matrix_tree(cs: Vec<Constraint<MatrixPatternPosition, CharacterPredicate>>, o: &mut Out) {
    let line = sexp::l(vec![sexp::a("tree"), sexp::a("mat"), sexp::list(&cs, |c| ccons_s(c, &mkey))]);
    let replay = line.to_string();
    let Some(t) = catch(|| CharacterPredicate::to_constraints_tree(cs.clone())) else {
        o.case(replay.clone(), "(panic)".into(), true);
        o.violation("matrix to_constraints_tree panicked".into(), replay);
        return;
    };
    o.case(replay.clone(), sexp::l(vec![sexp::a("ok"), tree_s(&t, &|c| ccons_s(c, &mkey))]).to_string(), cs.len() >= 2 && t.n_nodes() >= 3);
    let min_i = cs.iter().enumerate().min_by(|a, b| a.1.cmp(b.1)).map(|x| x.0).unwrap();
    if !contains_label(&t, min_i) {
        o.violation(format!("matrix tree does not contain the smallest constraint (index {})", min_i), replay.clone());
    }
    let hosts: [&[&str]; 4] = [&["ab", "ba"], &["abc", "a", "cab"], &["a"], &["bb", "bb", "ab"]];
    for h in hosts {
        let rows: Vec<Vec<char>> = h.iter().map(|r| r.chars().collect()).collect();
        for r0 in 0..rows.len() {
            for c0 in 0..rows[r0].len() {
                let at = |k: &MatrixPatternPosition| -> Option<char> {
                    let (dr, dc): (isize, isize) = (*k).into();
                    let r = r0 as isize + dr;
                    let c = c0 as isize + dc;
                    if r < 0 || c < 0 { return None; }
                    rows.get(r as usize).and_then(|row| row.get(c as usize)).copied()
                };
                let truth = |c: &Constraint<MatrixPatternPosition, CharacterPredicate>| -> bool {
                    match c.predicate() {
                        CharacterPredicate::ConstVal(ch) => at(&c.required_bindings()[0]) == Some(*ch),
                        CharacterPredicate::BindingEq => {
                            let x = at(&c.required_bindings()[0]);
                            x.is_some() && x == at(&c.required_bindings()[1])
                        }
                    }
                };
                if t.make_det {
                    det_note(o, det_faithful_under(&t, &cs, &truth).map(|msg| format!("matrix tree on host {:?} at ({},{}): {} [{}]", h, r0, c0, msg, replay)));
                }
                if let Some(msg) = faithful_under(&t, &cs, &truth) {
                    o.violation(format!("matrix tree unfaithful on host {:?} at ({},{}): {}", h, r0, c0, msg), replay.clone());
                    return;
                }
            }
        }
    }
    o.count("kind", "matrix tree");
}

// ---------------------------------------------------------------- port-graph trees
pub fn pgkey_s(k: &PGIndexKey) -> S {
    match k {
        PGIndexKey::PathRoot { index } => sexp::l(vec![sexp::a("root"), sexp::a(index)]),
        PGIndexKey::AlongPath { path_root, path_start_port, path_length } => sexp::l(vec![
            sexp::a("along"),
            sexp::a(path_root),
            port_s(path_start_port),
            sexp::a(path_length),
        ]),
    }
}
pub fn port_s(p: &PortOffset) -> S {
    match p {
        PortOffset::Incoming(i) => sexp::l(vec![sexp::a("in"), sexp::a(i)]),
        PortOffset::Outgoing(i) => sexp::l(vec![sexp::a("out"), sexp::a(i)]),
    }
}
pub fn pgcons_s(c: &PGConstraint) -> S {
    let mut v = match c.predicate() {
        PGPredicate::HasNodeWeight(()) => vec![sexp::a("weight")],
        PGPredicate::IsConnected { left_port, right_port } => vec![sexp::a("conn"), port_s(left_port), port_s(right_port)],
        PGPredicate::IsNotEqual { n_other } => vec![sexp::a("ne"), sexp::a(n_other)],
    };
    v.push(sexp::list(c.required_bindings(), pgkey_s));
    S::L(v)
}

fn key_pool() -> Vec<PGIndexKey> {
    let mut v = vec![PGIndexKey::PathRoot { index: 0 }, PGIndexKey::PathRoot { index: 1 }];
    for (root, port, len) in [(0, PortOffset::Outgoing(0), 1), (0, PortOffset::Outgoing(0), 2), (0, PortOffset::Incoming(1), 1), (1, PortOffset::Outgoing(1), 1), (0, PortOffset::Incoming(0), 1)] {
        v.push(PGIndexKey::AlongPath { path_root: root, path_start_port: port, path_length: len });
    }
    v
}

fn gen_ne(rng: &mut Rng, pool: &[PGIndexKey], first: Option<PGIndexKey>) -> PGConstraint {
    let k = first.unwrap_or_else(|| *rng.pick(pool));
    let n = rng.below(4);
    let mut args = vec![k];
    for _ in 0..n {
        args.push(*rng.pick(pool));
    }
    PGConstraint::try_new(PGPredicate::IsNotEqual { n_other: n }, args).unwrap()
}

fn gen_pg_constraints(rng: &mut Rng, pool: &[PGIndexKey]) -> Vec<PGConstraint> {
    let n = rng.range(1, 6);
    let ports = [PortOffset::Outgoing(0), PortOffset::Outgoing(1), PortOffset::Incoming(0), PortOffset::Incoming(1)];
    let common_first = if rng.chance(1, 2) { Some(*rng.pick(pool)) } else { None };
    (0..n)
        .map(|_| match rng.below(10) {
            0 => PGConstraint::try_new(PGPredicate::HasNodeWeight(()), vec![*rng.pick(pool)]).unwrap(),
            1..=3 => PGConstraint::try_new(
                PGPredicate::IsConnected { left_port: *rng.pick(&ports), right_port: *rng.pick(&ports) },
                vec![common_first.unwrap_or(*rng.pick(pool)), *rng.pick(pool)],
            )
            .unwrap(),
            _ => {
                let f = if rng.chance(3, 4) { common_first } else { None };
                gen_ne(rng, pool, f)
            }
        })
        .collect()
}

/// truth of a port-graph constraint under an assignment of "nodes" (small integers) to the pool
/// keys; IsConnected / HasNodeWeight are opaque atoms whose truth is drawn per (predicate, values)
fn pg_truth(c: &PGConstraint, pool: &[PGIndexKey], val: &[usize], atom_bits: u64) -> bool {
    let v = |k: &PGIndexKey| val[pool.iter().position(|p| p == k).unwrap()];
    match c.predicate() {
        PGPredicate::IsNotEqual { .. } => {
            let args = c.required_bindings();
            !args[1..].iter().any(|k| v(k) == v(&args[0]))
        }
        _ => {
            let h = crate::out::hash_str(&format!("{:?}{:?}", c.predicate(), c.required_bindings().iter().map(v).collect::<Vec<_>>()));
            (atom_bits >> (h % 60)) & 1 == 1
        }
    }
}

fn all_assignments(n_keys: usize, n_vals: usize, f: &mut impl FnMut(&[usize]) -> bool) {
    let mut val = vec![0usize; n_keys];
    loop {
        if !f(&val) {
            return;
        }
        let mut i = 0;
        loop {
            if i == n_keys {
                return;
            }
            val[i] += 1;
            if val[i] < n_vals {
                break;
            }
            val[i] = 0;
            i += 1;
        }
    }
}

fn check_pg_faithful(t: &ConstraintTree<PGConstraint>, cs: &[PGConstraint], pool: &[PGIndexKey], what: &str, replay: &str, o: &mut Out) {
    let mut bad: Option<String> = None;
    let mut det_bad: Option<String> = None;
    let ne_root_det = t.make_det && t.children(0).count() >= 2 && t.children(0).all(|(_, c)| matches!(c.predicate(), PGPredicate::IsNotEqual { .. }));
    for bits in [0u64, u64::MAX, 0x5555_5555_5555_5555, 0x1234_5678_9abc_def0] {
        all_assignments(pool.len(), 3, &mut |val| {
            let truth = |c: &PGConstraint| pg_truth(c, pool, val, bits);
            if let Some(msg) = faithful_under(t, cs, &truth) {
                bad = Some(format!("{} unfaithful under the node assignment {:?}: {}", what, val, msg));
                return false;
            }
            // a make_det tree whose root offers only not-equal constraints (the powerset tree): the
            // children of the root are not exclusive, but the subtree of the first satisfied one
            // repeats the others, under every node assignment
            if ne_root_det {
                if let Some(msg) = det_faithful_under(t, cs, &truth) {
                    det_bad = Some(format!("{} under the node assignment {:?}: {} [{}]", what, val, msg, replay));
                }
            }
            true
        });
        if bad.is_some() {
            break;
        }
    }
    if let Some(msg) = bad {
        o.violation(msg, replay.to_string());
    }
    if ne_root_det {
        det_note(o, det_bad);
    }
}

/// Deterministic reading of a tree that sets `make_det` (the builder may then make the state
/// deterministic: only the first satisfied transition of the root is taken), on concrete hosts:
/// key number k of the pool is bound to node k (an injective binding, what the not-equal
/// constraints generated before any IsConnected constraint guarantee), every node has ports
/// in0..in1, out0..out1, and the links realise a subset of the IsConnected constraints of the list
/// (all subsets up to 6 constraints). A label i of the tree must be reached iff constraint i holds.
fn check_pg_det(t: &ConstraintTree<PGConstraint>, cs: &[PGConstraint], pool: &[PGIndexKey], replay: &str, o: &mut Out) {
    if !t.make_det || t.children(0).count() < 2 {
        return;
    }
    let node = |k: &PGIndexKey| pool.iter().position(|p| p == k).unwrap();
    // (out node, out port, in node, in port) of a realisable IsConnected constraint
    let link_of = |c: &PGConstraint| -> Option<(usize, usize, usize, usize)> {
        if let PGPredicate::IsConnected { left_port, right_port } = c.predicate() {
            let a = c.required_bindings();
            match (left_port, right_port) {
                (PortOffset::Outgoing(l), PortOffset::Incoming(r)) => Some((node(&a[0]), *l as usize, node(&a[1]), *r as usize)),
                (PortOffset::Incoming(l), PortOffset::Outgoing(r)) => Some((node(&a[1]), *r as usize, node(&a[0]), *l as usize)),
                _ => None,
            }
        } else {
            None
        }
    };
    let mut conns: Vec<(usize, usize, usize, usize)> = vec![];
    for c in cs.iter().chain((0..t.n_nodes()).flat_map(|n| t.children(n).map(|(_, c)| c).collect::<Vec<_>>())) {
        if let Some(l) = link_of(c) {
            if !conns.contains(&l) {
                conns.push(l);
            }
        }
    }
    conns.truncate(6);
    for mask in 0..(1usize << conns.len()) {
        let mut links: Vec<(usize, usize, usize, usize)> = vec![];
        for (i, l) in conns.iter().enumerate() {
            if (mask >> i) & 1 == 1 && !links.iter().any(|m| (m.0 == l.0 && m.1 == l.1) || (m.2 == l.2 && m.3 == l.3)) {
                links.push(*l);
            }
        }
        let truth = |c: &PGConstraint| -> bool {
            match c.predicate() {
                PGPredicate::IsNotEqual { .. } => {
                    let a = c.required_bindings();
                    !a[1..].iter().any(|k| *k == a[0])
                }
                PGPredicate::IsConnected { .. } => link_of(c).map_or(false, |l| links.contains(&l)),
                _ => true,
            }
        };
        // deterministic at the root, all satisfied edges below
        let mut reach = vec![0usize];
        let mut todo = vec![0usize];
        while let Some(n) = todo.pop() {
            for (i, c) in t.children(n) {
                if truth(c) && !reach.contains(&i) {
                    reach.push(i);
                    todo.push(i);
                    if n == 0 {
                        break;
                    }
                }
            }
        }
        for n in 0..t.n_nodes() {
            for &i in t.constraint_indices(n) {
                if i >= cs.len() {
                    return;
                }
            }
        }
        for i in 0..cs.len() {
            let in_tree = (0..t.n_nodes()).any(|n| t.constraint_indices(n).contains(&i));
            let reached = reach.iter().any(|&n| t.constraint_indices(n).contains(&i));
            if in_tree && reached != truth(&cs[i]) {
                det_note(o, Some(
                    format!(
                        "port-graph tree, key k bound to node k, links {:?}: constraint {} is {} but a node labelled {} is {} [{}]",
                        links,
                        i,
                        if truth(&cs[i]) { "satisfied" } else { "not satisfied" },
                        i,
                        if reached { "reached" } else { "not reached" },
                        replay
                    )));
                return;
            }
        }
    }
    det_note(o, None);
}

fn eval_pg_tree(cs: Vec<PGConstraint>, pool: &[PGIndexKey], o: &mut Out) {
    let line = sexp::l(vec![sexp::a("tree"), sexp::a("pg"), sexp::list(&cs, pgcons_s)]);
    let replay = line.to_string();
    let Some(t) = catch(|| PGPredicate::to_constraints_tree(cs.clone())) else {
        o.case(replay.clone(), "(panic)".into(), true);
        o.violation("port-graph to_constraints_tree panicked".into(), replay);
        return;
    };
    o.case(replay.clone(), sexp::l(vec![sexp::a("ok"), tree_s(&t, &pgcons_s)]).to_string(), cs.len() >= 2 && t.n_nodes() >= 3);
    let min_i = cs.iter().enumerate().min_by(|a, b| a.1.cmp(b.1)).map(|x| x.0).unwrap();
    if !contains_label(&t, min_i) {
        o.violation(format!("port-graph tree does not contain the smallest constraint (index {})", min_i), replay.clone());
    }
    check_pg_faithful(&t, &cs, pool, "port-graph tree", &replay, o);
    check_pg_det(&t, &cs, pool, &replay, o);
    o.count("kind", "pg tree");
}

fn eval_powerset(cs: Vec<PGConstraint>, pool: &[PGIndexKey], o: &mut Out) {
    let indexed: Vec<(PGConstraint, usize)> = cs.iter().cloned().enumerate().map(|(i, c)| (c, i)).collect();
    let line = sexp::l(vec![sexp::a("powerset"), sexp::list(&cs, pgcons_s)]);
    let replay = line.to_string();
    let Some(t) = catch(|| ConstraintTree::with_powerset(indexed)) else {
        o.case(replay.clone(), "(panic)".into(), true);
        return;
    };
    o.case(replay.clone(), sexp::l(vec![sexp::a("ok"), tree_s(&t, &pgcons_s)]).to_string(), cs.len() >= 2);
    // faithfulness is claimed for families sharing the first key (what mutex_filter passes)
    let same_first = cs.windows(2).all(|w| w[0].required_bindings()[0] == w[1].required_bindings()[0]);
    if same_first {
        check_pg_faithful(&t, &cs, pool, "with_powerset", &replay, o);
        if !cs.is_empty() && !contains_label(&t, 0) {
            o.violation("with_powerset does not contain the first constraint".into(), replay.clone());
        }
    }
    o.count("kind", if same_first { "powerset (common first key)" } else { "powerset (mixed first keys, model only)" });
}

fn eval_conditioned(c: PGConstraint, sat: Vec<PGConstraint>, o: &mut Out) {
    let line = sexp::l(vec![sexp::a("conditioned"), pgcons_s(&c), sexp::list(&sat, pgcons_s)]);
    let refs: Vec<&PGConstraint> = sat.iter().collect();
    let r = catch(|| PGPredicate::conditioned(&c, &refs));
    let res = match r {
        None => "(panic)".to_string(),
        Some(None) => "(ok -)".to_string(),
        Some(Some(c2)) => sexp::l(vec![sexp::a("ok"), pgcons_s(&c2)]).to_string(),
    };
    o.case(line.to_string(), res, !sat.is_empty());
    o.count("kind", "conditioned");
}

// ---------------------------------------------------------------- helper constructors on plain data
fn eval_helpers(rng: &mut Rng, o: &mut Out) {
    let n = rng.range(0, 6);
    let items: Vec<(usize, usize)> = (0..n).map(|i| (rng.below(5), i)).collect();
    let modulus = rng.range(1, 3);
    let is_mutex = |a: &usize, b: &usize| a % modulus != b % modulus;
    let cf = |c: &usize| sexp::a(c);
    // with_children with arbitrary index lists
    let children: Vec<(usize, Vec<usize>)> = items.iter().map(|(c, i)| (*c, (0..rng.below(3)).map(|j| i + j).collect())).collect();
    let t = ConstraintTree::with_children(children.clone());
    o.case(
        sexp::l(vec![sexp::a("with-children"), sexp::list(&children, |(c, is)| sexp::l(vec![sexp::a(c), sexp::nums(is)]))]).to_string(),
        sexp::l(vec![sexp::a("ok"), tree_s(&t, &cf)]).to_string(),
        n >= 2,
    );
    let t = ConstraintTree::with_pairwise_mutex(items.clone(), is_mutex);
    o.case(
        sexp::l(vec![sexp::a("pairwise"), sexp::a(modulus), sexp::list(&items, |(c, i)| sexp::nums([*c, *i]))]).to_string(),
        sexp::l(vec![sexp::a("ok"), tree_s(&t, &cf)]).to_string(),
        n >= 2,
    );
    let t2 = ConstraintTree::with_transitive_mutex(items.clone(), is_mutex);
    o.case(
        sexp::l(vec![sexp::a("transitive"), sexp::a(modulus), sexp::list(&items, |(c, i)| sexp::nums([*c, *i]))]).to_string(),
        sexp::l(vec![sexp::a("ok"), tree_s(&t2, &cf)]).to_string(),
        n >= 2,
    );
    // faithfulness of the depth-one trees: constraint c is "true" iff bit c of a mask is set
    let cs: Vec<usize> = items.iter().map(|x| x.0).collect();
    for (name, tree) in [("with_pairwise_mutex", &t), ("with_transitive_mutex", &t2)] {
        for mask in 0..32usize {
            let truth = |c: &usize| (mask >> c) & 1 == 1;
            if let Some(msg) = faithful_under(tree, &cs, &truth) {
                o.violation(format!("{} unfaithful: {}", name, msg), sexp::l(vec![sexp::a("helpers"), sexp::a(modulus), sexp::list(&items, |(c, i)| sexp::nums([*c, *i]))]).to_string());
                break;
            }
        }
        if !cs.is_empty() && !contains_label(tree, items[0].1) {
            o.violation(format!("{} does not contain the first constraint", name), sexp::l(vec![sexp::a("helpers"), sexp::a(modulus), sexp::list(&items, |(c, i)| sexp::nums([*c, *i]))]).to_string());
        }
    }
    o.count("kind", "helper constructors");
}

pub fn run(tier: Tier, seed: u64, o: &mut Out) {
    let mut rng = Rng::new(seed ^ 0xC10);
    let pool = key_pool();
    let skeys: Vec<StringPatternPosition> = (0..4usize).map(|k| k.into()).collect();
    let mkeys: Vec<MatrixPatternPosition> = [(0, 0), (0, 1), (1, 0), (1, 1), (0, 2)].iter().map(|k| (*k).into()).collect();
    // exhaustive: every family of <= 3 (quick) / 4 (thorough) not-equal sets over <= 3 / 4 other keys, common first key
    let (max_fam, n_other_keys) = if tier == Tier::Thorough { (3, 4) } else { (3, 3) };
    let first = pool[2];
    let others: Vec<PGIndexKey> = pool.iter().copied().filter(|k| *k != first).take(n_other_keys).collect();
    let small_pool: Vec<PGIndexKey> = std::iter::once(first).chain(others.iter().copied()).collect();
    let subsets: Vec<Vec<PGIndexKey>> = (1..(1usize << others.len())).map(|m| others.iter().enumerate().filter(|(i, _)| (m >> i) & 1 == 1).map(|(_, k)| *k).collect()).collect();
    let mut n_ex = 0usize;
    let mut fam: Vec<usize> = vec![];
    fn rec(fam: &mut Vec<usize>, max: usize, subsets: &[Vec<PGIndexKey>], first: PGIndexKey, pool: &[PGIndexKey], o: &mut Out, n: &mut usize) {
        if !fam.is_empty() {
            let cs: Vec<PGConstraint> = fam
                .iter()
                .map(|&si| {
                    let mut args = vec![first];
                    args.extend(subsets[si].iter().copied());
                    PGConstraint::try_new(PGPredicate::IsNotEqual { n_other: subsets[si].len() }, args).unwrap()
                })
                .collect();
            eval_powerset(cs.clone(), pool, o);
            eval_pg_tree(cs, pool, o);
            *n += 1;
        }
        if fam.len() == max {
            return;
        }
        for si in 0..subsets.len() {
            fam.push(si);
            rec(fam, max, subsets, first, pool, o, n);
            fam.pop();
        }
    }
    rec(&mut fam, max_fam, &subsets, first, &small_pool, o, &mut n_ex);
    o.notes.push(format!("exhaustive part: every ordered family of 1..{} not-equal sets (non-empty subsets of {} other keys) on a common first key: {} families, each under all 3^{} node assignments", max_fam, n_other_keys, n_ex, small_pool.len()));
    let n = if tier == Tier::Thorough { 40_000 } else { 1_500 };
    for _ in 0..n {
        eval_string_tree(gen_char_constraints(&mut rng, &skeys), o);
        eval_matrix_tree(gen_char_constraints(&mut rng, &mkeys), o);
        let pgcs = gen_pg_constraints(&mut rng, &pool);
        eval_pg_tree(pgcs, &pool, o);
        let k = rng.range(1, 5);
        let first = if rng.chance(4, 5) { Some(*rng.pick(&pool)) } else { None };
        let fam: Vec<PGConstraint> = (0..k).map(|_| gen_ne(&mut rng, &pool, first)).collect();
        eval_powerset(fam.clone(), &pool, o);
        let c = gen_ne(&mut rng, &pool, first);
        eval_conditioned(c, fam, o);
        eval_helpers(&mut rng, o);
    }
}

pub fn replay(line: &str, o: &mut Out) {
    let s = sexp::parse(line).unwrap();
    let l = s.as_list();
    let pool = key_pool();
    let port = |s: &S| {
        let v = s.as_list();
        if v[0].as_str() == "in" { PortOffset::Incoming(v[1].as_usize() as u16) } else { PortOffset::Outgoing(v[1].as_usize() as u16) }
    };
    let key = |s: &S| {
        let v = s.as_list();
        if v[0].as_str() == "root" {
            PGIndexKey::PathRoot { index: v[1].as_usize() }
        } else {
            PGIndexKey::AlongPath { path_root: v[1].as_usize(), path_start_port: port(&v[2]), path_length: v[3].as_usize() }
        }
    };
    let pgc = |s: &S| -> PGConstraint {
        let v = s.as_list();
        let args: Vec<PGIndexKey> = v.last().unwrap().as_list().iter().map(key).collect();
        let p = match v[0].as_str() {
            "weight" => PGPredicate::HasNodeWeight(()),
            "conn" => PGPredicate::IsConnected { left_port: port(&v[1]), right_port: port(&v[2]) },
            _ => PGPredicate::IsNotEqual { n_other: v[1].as_usize() },
        };
        PGConstraint::try_new(p, args).unwrap()
    };
    let cc = |s: &S| -> (CharacterPredicate, Vec<S>) {
        let v = s.as_list();
        if v[0].as_str() == "eq" {
            (CharacterPredicate::BindingEq, v[1..].to_vec())
        } else {
            (CharacterPredicate::ConstVal(char::from_u32(v[1].as_usize() as u32).unwrap()), v[2..].to_vec())
        }
    };
    match (l[0].as_str(), l.get(1).map(|x| if let S::A(a) = x { a.as_str() } else { "" }).unwrap_or("")) {
        ("tree", "str") => {
            let cs = l[2].as_list().iter().map(|c| { let (p, a) = cc(c); Constraint::try_new(p, a.iter().map(|k| k.as_usize().into()).collect()).unwrap() }).collect();
            eval_string_tree(cs, o)
        }
        ("tree", "mat") => {
            let cs = l[2].as_list().iter().map(|c| { let (p, a) = cc(c); Constraint::try_new(p, a.iter().map(|k| { let v = k.as_list(); (v[0].as_i64() as isize, v[1].as_i64() as isize).into() }).collect()).unwrap() }).collect();
            eval_matrix_tree(cs, o)
        }
        ("tree", "pg") => eval_pg_tree(l[2].as_list().iter().map(pgc).collect(), &pool, o),
        ("powerset", _) => eval_powerset(l[1].as_list().iter().map(pgc).collect(), &pool, o),
        _ => {
            let mut rng = Rng::new(1);
            eval_helpers(&mut rng, o)
        }
    }
}
