//! C11 — a pattern occurs in itself; host extension never removes an occurrence
//! (strings and matrices; port graphs in pgprops.rs).
use crate::dom::{Dom, Heur, MatDom, StrDom};
use crate::out::Out;
use crate::rng::Rng;
use crate::sexp::{self, S};
use crate::Tier;

fn replay_s<D: Dom>(pats: &[D::Pat], pi: usize, host: &D::Host, anchor: &S) -> String {
    sexp::l(vec![sexp::a("c11"), sexp::a(D::NAME), sexp::list(pats, D::pat_s), sexp::a(pi), D::host_s(host), anchor.clone()]).to_string()
}

/// pattern `pi` of `pats` must be reported at `anchor` in `host` by every matcher
fn check_reported<D: Dom>(pats: &[D::Pat], pi: usize, host: &D::Host, anchor: &S, what: &str, o: &mut Out) -> bool {
    let replay = replay_s::<D>(pats, pi, host, anchor);
    let mut ok = true;
    // the specification itself (tie between the Rust oracle and the Coq lemma statements)
    let occ = D::occurrences(&pats[pi], host);
    o.case(sexp::l(vec![sexp::a("occ"), sexp::a(D::NAME), D::pat_s(&pats[pi]), D::host_s(host)]).to_string(), S::L(occ.clone()).to_string(), true);
    if !occ.contains(anchor) {
        // the extension is supposed to preserve occurrence in the specification (proved in Coq)
        o.violation(format!("{}: harness error? pattern {} does not occur at {} after {} according to the oracle", D::NAME, pi, anchor, what), replay.clone());
        return false;
    }
    for heur in [Heur::Default, Heur::Never] {
        match D::build(pats, &heur) {
            Some(b) => match (b.run)(host) {
                Some(ms) => {
                    if !ms.iter().any(|(q, m)| *q == pi && D::anchor(m) == *anchor) {
                        o.violation(format!("{}: ManyMatcher ({}) does not report pattern {} at {} ({}); host {}", D::NAME, heur.to_s(), pi, anchor, what, D::host_s(host)), replay.clone());
                        ok = false;
                    }
                }
                None => { o.violation(format!("{}: find_matches panicked ({})", D::NAME, what), replay.clone()); ok = false; }
            },
            None => { o.violation(format!("{}: construction panicked", D::NAME), replay.clone()); ok = false; }
        }
    }
    match D::single(&pats[pi], host) {
        Some((ms, exists, _)) => {
            if !ms.iter().any(|m| D::anchor(m) == *anchor) || !exists {
                o.violation(format!("{}: SinglePatternMatcher does not report the pattern at {} ({}); host {}", D::NAME, anchor, what, D::host_s(host)), replay.clone());
                ok = false;
            }
        }
        None => { o.violation(format!("{}: SinglePatternMatcher panicked ({})", D::NAME, what), replay); ok = false; }
    }
    ok
}

fn run_dom<D: Dom>(tier: Tier, rng: &mut Rng, o: &mut Out) {
    let n = if tier == Tier::Thorough { 6000 } else { 250 };
    let max_steps = if tier == Tier::Thorough { 20 } else { 6 };
    for _ in 0..n {
        let n_pats = rng.range(1, 4);
        let pats: Vec<D::Pat> = (0..n_pats).map(|_| D::gen_pat(rng)).collect();
        let pi = rng.below(n_pats);
        // (a) the pattern itself, then an extension history
        if let Some((mut host, mut anchor)) = D::inst(&pats[pi], rng) {
            o.evaluations += 0;
            let mut ok = check_reported::<D>(&pats, pi, &host, &anchor, "the pattern itself as host", o);
            let steps = rng.range(1, max_steps);
            o.count("history_length", steps);
            for _ in 0..steps {
                if !ok { break; }
                let (h2, a2, what) = D::extend(&host, &anchor, rng);
                host = h2;
                anchor = a2;
                o.count("extension", what);
                ok = check_reported::<D>(&pats, pi, &host, &anchor, what, o);
            }
        } else {
            o.count("self", "start cell does not exist");
        }
        // (b) an occurrence reported in an arbitrary host, then extensions
        let host0 = D::gen_host(rng, &pats);
        let occ = D::occurrences(&pats[pi], &host0);
        if let Some(a) = occ.first().cloned() {
            if a != sexp::a("u") {
                let (mut host, mut anchor) = (host0, a);
                for _ in 0..rng.range(1, max_steps) {
                    let (h2, a2, what) = D::extend(&host, &anchor, rng);
                    host = h2;
                    anchor = a2;
                    if !check_reported::<D>(&pats, pi, &host, &anchor, what, o) { break; }
                }
            }
        }
    }
}

pub fn run(tier: Tier, seed: u64, o: &mut Out) {
    let mut rng = Rng::new(seed ^ 0xC11);
    run_dom::<StrDom>(tier, &mut rng, o);
    run_dom::<MatDom>(tier, &mut rng, o);
    o.notes.push("each case: a pattern matched against its own instantiation, then a random history of host extensions (strings: append/prepend; matrices: rows appended/prepended, rows widened, columns prepended), and the same from an occurrence found in a random host".into());
}

pub fn replay(line: &str, o: &mut Out) {
    let s = sexp::parse(line).unwrap();
    let l = s.as_list();
    if l[1].as_str() == "str" {
        let pats: Vec<<StrDom as Dom>::Pat> = l[2].as_list().iter().map(StrDom::pat_from_s).collect();
        check_reported::<StrDom>(&pats, l[3].as_usize(), &StrDom::host_from_s(&l[4]), &l[5], "replay", o);
    } else {
        let pats: Vec<<MatDom as Dom>::Pat> = l[2].as_list().iter().map(MatDom::pat_from_s).collect();
        check_reported::<MatDom>(&pats, l[3].as_usize(), &MatDom::host_from_s(&l[4]), &l[5], "replay", o);
    }
}
