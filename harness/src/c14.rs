//! C14 — the four BindMap implementations under operation histories.
use crate::out::{catch, Out};
use crate::rng::Rng;
use crate::sexp::{self, S};
use crate::Tier;
use portmatching::matrix::{MatrixPatternPosition, MatrixPositionMap, MatrixString, MatrixSubjectPosition};
use portmatching::string::{StringPatternPosition, StringPositionMap, StringSubjectPosition};
use portmatching::{BindMap, IndexedData};
use rustc_hash::{FxHashMap, FxHashSet};
use std::borrow::Borrow;
use std::collections::BTreeMap;
use std::fmt::Debug;
use std::hash::Hash;

#[derive(Clone, Debug)]
pub enum Op<K, V> {
    Bind(K, V, bool), // bool: the value was offered by the host for this key at that moment
    Get(K),
    Retain(Vec<K>), // insertion order of the set
}

#[derive(Clone, Debug, PartialEq)]
pub enum Obs<V> {
    Val(V),
    None,
    Panic,
}

pub struct Step<K, V> {
    pub kind: char,
    pub ok: bool,
    pub got: Obs<V>,
    pub snap: Vec<Obs<V>>,
    pub retain_iter_order: Vec<K>,
}

fn observe<M: BindMap>(m: &M, k: &M::Key) -> Obs<M::Value> {
    match catch(|| m.get(k).map(|v| v.borrow().clone())) {
        None => Obs::Panic,
        Some(None) => Obs::None,
        Some(Some(v)) => Obs::Val(v),
    }
}

pub fn run_history<M>(ops: &[Op<M::Key, M::Value>], universe: &[M::Key]) -> Vec<Step<M::Key, M::Value>>
where
    M: BindMap,
    M::Key: Hash + Eq + Copy,
{
    let mut m = M::default();
    let mut steps = vec![];
    for op in ops {
        match op {
            Op::Bind(k, v, _) => {
                let mut m2 = m.clone();
                let r = catch(|| m2.bind(*k, v.clone()).is_ok());
                let ok = r == Some(true);
                if r.is_some() {
                    // on Err the implementation must have left the map as it was: keep m2 either way
                    m = m2;
                }
                steps.push(Step {
                    kind: 'b',
                    ok,
                    got: Obs::None,
                    snap: universe.iter().map(|k| observe(&m, k)).collect(),
                    retain_iter_order: vec![],
                });
            }
            Op::Get(k) => {
                steps.push(Step { kind: 'g', ok: true, got: observe(&m, k), snap: vec![], retain_iter_order: vec![] });
            }
            Op::Retain(keys) => {
                let mut set: FxHashSet<M::Key> = FxHashSet::default();
                for k in keys {
                    set.insert(*k);
                }
                let order: Vec<M::Key> = set.iter().copied().collect();
                let mut m2 = m.clone();
                let r = catch(|| m2.retain_keys(&set));
                let ok = r.is_some();
                if ok {
                    m = m2;
                }
                steps.push(Step {
                    kind: 'r',
                    ok,
                    got: Obs::None,
                    snap: universe.iter().map(|k| observe(&m, k)).collect(),
                    retain_iter_order: order,
                });
            }
        }
    }
    steps
}

fn obs_s<V>(o: &Obs<V>, f: &impl Fn(&V) -> S) -> S {
    match o {
        Obs::Val(v) => f(v),
        Obs::None => sexp::a("-"),
        Obs::Panic => sexp::a("!"),
    }
}

fn steps_s<K, V>(steps: &[Step<K, V>], vf: &impl Fn(&V) -> S) -> S {
    sexp::list(steps, |st| match st.kind {
        'g' => sexp::l(vec![sexp::a("g"), obs_s(&st.got, vf)]),
        c => sexp::l(vec![sexp::a(c), sexp::b(st.ok), sexp::list(&st.snap, |o| obs_s(o, vf))]),
    })
}

fn ops_s<K, V>(ops: &[Op<K, V>], steps: &[Step<K, V>], kf: &impl Fn(&K) -> S, vf: &impl Fn(&V) -> S) -> S {
    S::L(ops
        .iter()
        .zip(steps)
        .map(|(op, st)| match op {
            Op::Bind(k, v, _) => sexp::l(vec![sexp::a("b"), kf(k), vf(v)]),
            Op::Get(k) => sexp::l(vec![sexp::a("g"), kf(k)]),
            // the model receives the iteration order the implementation used
            Op::Retain(_) => sexp::l(vec![sexp::a("r"), sexp::list(&st.retain_iter_order, kf)]),
        })
        .collect())
}

/// Replay form: keeps the *insertion* order of retain sets and the offered flags.
fn replay_s<K, V>(kind: &str, host: &str, ops: &[Op<K, V>], kf: &impl Fn(&K) -> S, vf: &impl Fn(&V) -> S) -> String {
    let o = S::L(ops
        .iter()
        .map(|op| match op {
            Op::Bind(k, v, off) => sexp::l(vec![sexp::a("b"), kf(k), vf(v), sexp::b(*off)]),
            Op::Get(k) => sexp::l(vec![sexp::a("g"), kf(k)]),
            Op::Retain(ks) => sexp::l(vec![sexp::a("r"), sexp::list(ks, kf)]),
        })
        .collect());
    sexp::l(vec![sexp::a("c14"), sexp::a(kind), sexp::a(format!("{:?}", host).replace(' ', "_")), o]).to_string()
}

// ---------------------------------------------------------------- oracles

/// Map laws for the generic maps, against a reference BTreeMap.
fn oracle_generic(ops: &[Op<usize, usize>], steps: &[Step<usize, usize>], universe: &[usize]) -> Option<String> {
    let mut reference: BTreeMap<usize, usize> = BTreeMap::new();
    for (i, (op, st)) in ops.iter().zip(steps).enumerate() {
        match op {
            Op::Bind(k, v, _) => {
                let want_ok = reference.get(k).map_or(true, |cur| cur == v);
                if want_ok != st.ok {
                    return Some(format!("step {}: bind({},{}) returned ok={} but a lawful map answers ok={}", i, k, v, st.ok, want_ok));
                }
                if want_ok {
                    reference.insert(*k, *v);
                }
            }
            Op::Get(k) => {
                let want = reference.get(k).map_or(Obs::None, |v| Obs::Val(*v));
                if st.got != want {
                    return Some(format!("step {}: get({}) = {:?}, expected {:?}", i, k, st.got, want));
                }
            }
            Op::Retain(keys) => {
                if !st.ok {
                    return Some(format!("step {}: retain_keys panicked", i));
                }
                reference.retain(|k, _| keys.contains(k));
            }
        }
        if st.kind != 'g' {
            for (k, o) in universe.iter().zip(&st.snap) {
                let want = reference.get(k).map_or(Obs::None, |v| Obs::Val(*v));
                if *o != want {
                    return Some(format!("step {}: afterwards get({}) = {:?}, expected {:?}", i, k, o, want));
                }
            }
        }
    }
    None
}

/// The clauses of C14 for a position map. `start` is the start key, `inside`
/// says whether a key lies within the extent spanned by a set of keys.
fn oracle_position<K: Copy + Eq + Debug, V: Clone + PartialEq + Debug>(
    ops: &[Op<K, V>],
    steps: &[Step<K, V>],
    universe: &[K],
    start: K,
    inside: &impl Fn(&K, &[K]) -> bool,
) -> Option<String> {
    let mut offered_vals: Vec<(K, V)> = vec![]; // keys bound to an offered value, still retained
    let mut extent: Vec<K> = vec![]; // keys successfully bound since the map was last rebuilt
    let mut all_offered = true;
    let mut prev_snap: Vec<Obs<V>> = universe.iter().map(|_| Obs::None).collect();
    let at = |snap: &Vec<Obs<V>>, k: &K| -> Obs<V> {
        universe.iter().position(|u| u == k).map_or(Obs::None, |i| snap[i].clone())
    };
    for (i, (op, st)) in ops.iter().zip(steps).enumerate() {
        match op {
            Op::Bind(k, v, off) => {
                let start_bound = !extent.is_empty();
                if *k == start && start_bound && st.ok {
                    return Some(format!("step {}: re-binding the start key was accepted", i));
                }
                if *k != start && !start_bound && st.ok {
                    return Some(format!("step {}: binding {:?} before the start key was accepted", i, k));
                }
                if !st.ok && st.snap != prev_snap {
                    return Some(format!("step {}: a rejected bind changed the map", i));
                }
                if st.ok {
                    extent.push(*k);
                    if *off {
                        offered_vals.push((*k, v.clone()));
                    } else {
                        all_offered = false;
                    }
                }
            }
            Op::Get(k) => {
                if let Obs::Val(_) = st.got {
                    if extent.is_empty() || !inside(k, &extent) {
                        return Some(format!("step {}: get({:?}) = {:?} outside the extent of what has been bound {:?}", i, k, st.got, extent));
                    }
                }
                if st.got == Obs::Panic && all_offered {
                    return Some(format!("step {}: get({:?}) panicked although only offered values were bound", i, k));
                }
            }
            Op::Retain(keys) => {
                let closed = keys.is_empty() || keys.contains(&start);
                // a map holding values the host never offered may already be unreadable (get panics)
                let poisoned = prev_snap.contains(&Obs::Panic);
                if !st.ok && closed && !poisoned {
                    return Some(format!("step {}: retain_keys panicked on the prerequisite-closed key set {:?} (iteration order {:?})", i, keys, st.retain_iter_order));
                }
                if st.ok {
                    for k in keys {
                        if universe.contains(k) && at(&st.snap, k) != at(&prev_snap, k) {
                            return Some(format!("step {}: retain_keys changed get({:?}) from {:?} to {:?}", i, k, at(&prev_snap, k), at(&st.snap, k)));
                        }
                    }
                    extent = keys.iter().copied().filter(|k| matches!(at(&prev_snap, k), Obs::Val(_))).collect();
                    offered_vals.retain(|(k, _)| keys.contains(k));
                }
            }
        }
        if st.kind != 'g' {
            for (k, o) in universe.iter().zip(&st.snap) {
                if let Obs::Val(_) = o {
                    if extent.is_empty() || !inside(k, &extent) {
                        return Some(format!("step {}: afterwards get({:?}) = {:?} outside the extent of what has been bound {:?}", i, k, o, extent));
                    }
                }
                if *o == Obs::Panic && all_offered {
                    return Some(format!("step {}: afterwards get({:?}) panics although only offered values were bound", i, k));
                }
            }
            for (k, v) in &offered_vals {
                if universe.contains(k) && at(&st.snap, k) != Obs::Val(v.clone()) {
                    return Some(format!("step {}: key {:?} was bound to the offered value {:?} but get now returns {:?}", i, k, v, at(&st.snap, k)));
                }
            }
            prev_snap = st.snap.clone();
        }
    }
    None
}

// ---------------------------------------------------------------- kinds

fn sk(k: usize) -> StringPatternPosition {
    k.into()
}
fn sv(v: usize) -> StringSubjectPosition {
    v.into()
}
fn mk(k: (isize, isize)) -> MatrixPatternPosition {
    k.into()
}
fn mv(v: (usize, usize)) -> MatrixSubjectPosition {
    v.into()
}

type SOp = Op<usize, usize>;
type MOp = Op<(isize, isize), (usize, usize)>;

const S_UNIVERSE: [usize; 6] = [0, 1, 2, 3, 4, 5];
const G_UNIVERSE: [usize; 4] = [0, 1, 2, 3];
fn m_universe() -> Vec<(isize, isize)> {
    let mut v = vec![];
    for r in [-1, 0, 1, 2] {
        for c in [-1, 0, 1, 2] {
            v.push((r, c));
        }
    }
    v
}

/// Fill in the "offered" flag of bind operations by asking the host at that moment.
fn mark_offered_string(host: &str, ops: &mut [SOp]) {
    let h = host.to_string();
    let mut m = StringPositionMap::default();
    for op in ops.iter_mut() {
        match op {
            Op::Bind(k, v, off) => {
                let offered = h.list_bind_options(&sk(*k), &m);
                *off = offered.contains(&sv(*v));
                let _ = m.bind(sk(*k), sv(*v));
            }
            Op::Retain(keys) => {
                let set: FxHashSet<StringPatternPosition> = keys.iter().map(|k| sk(*k)).collect();
                let mut m2 = m;
                if catch(|| m2.retain_keys(&set)).is_some() {
                    m = m2;
                }
            }
            Op::Get(_) => {}
        }
    }
}

fn mark_offered_matrix(host: &MatrixString, ops: &mut [MOp]) {
    let mut m = MatrixPositionMap::default();
    for op in ops.iter_mut() {
        match op {
            Op::Bind(k, v, off) => {
                let offered = catch(|| host.list_bind_options(&mk(*k), &m)).unwrap_or_default();
                *off = offered.contains(&mv(*v));
                let _ = m.bind(mk(*k), mv(*v));
            }
            Op::Retain(keys) => {
                let set: FxHashSet<MatrixPatternPosition> = keys.iter().map(|k| mk(*k)).collect();
                let mut m2 = m;
                if catch(|| m2.retain_keys(&set)).is_some() {
                    m = m2;
                }
            }
            Op::Get(_) => {}
        }
    }
}

fn eval_string(host: &str, ops: &[SOp], out: &mut Out) {
    let conv: Vec<Op<StringPatternPosition, StringSubjectPosition>> = ops
        .iter()
        .map(|o| match o {
            Op::Bind(k, v, f) => Op::Bind(sk(*k), sv(*v), *f),
            Op::Get(k) => Op::Get(sk(*k)),
            Op::Retain(ks) => Op::Retain(ks.iter().map(|k| sk(*k)).collect()),
        })
        .collect();
    let uni: Vec<StringPatternPosition> = S_UNIVERSE.iter().map(|k| sk(*k)).collect();
    let steps = run_history::<StringPositionMap>(&conv, &uni);
    let kf = |k: &StringPatternPosition| sexp::a(Into::<usize>::into(*k));
    let vf = |v: &StringSubjectPosition| sexp::a(Into::<usize>::into(*v));
    let input = sexp::l(vec![sexp::a("c14"), sexp::a("str"), ops_s(&conv, &steps, &kf, &vf)]);
    let nontrivial = ops.iter().enumerate().any(|(i, o)| matches!(o, Op::Bind(..)) && steps[i].ok && i + 1 < ops.len());
    out.case(input.to_string(), steps_s(&steps, &vf).to_string(), nontrivial);
    let inside = |k: &StringPatternPosition, ext: &[StringPatternPosition]| {
        let kk: usize = (*k).into();
        ext.iter().any(|e| kk <= Into::<usize>::into(*e))
    };
    if let Some(msg) = oracle_position(&conv, &steps, &uni, sk(0), &inside) {
        let kf2 = |k: &usize| sexp::a(k);
        let vf2 = |v: &usize| sexp::a(v);
        out.violation(format!("StringPositionMap: {}", msg), replay_s("str", host, ops, &kf2, &vf2));
    }
    out.count("kind", "string");
}

fn eval_matrix(host_text: &str, ops: &[MOp], out: &mut Out) {
    let conv: Vec<Op<MatrixPatternPosition, MatrixSubjectPosition>> = ops
        .iter()
        .map(|o| match o {
            Op::Bind(k, v, f) => Op::Bind(mk(*k), mv(*v), *f),
            Op::Get(k) => Op::Get(mk(*k)),
            Op::Retain(ks) => Op::Retain(ks.iter().map(|k| mk(*k)).collect()),
        })
        .collect();
    let uni: Vec<MatrixPatternPosition> = m_universe().into_iter().map(mk).collect();
    let steps = run_history::<MatrixPositionMap>(&conv, &uni);
    let kf = |k: &MatrixPatternPosition| {
        let (r, c): (isize, isize) = (*k).into();
        sexp::nums([r, c])
    };
    let vf = |v: &MatrixSubjectPosition| {
        let (r, c): (usize, usize) = (*v).into();
        sexp::nums([r, c])
    };
    let input = sexp::l(vec![sexp::a("c14"), sexp::a("mat"), ops_s(&conv, &steps, &kf, &vf)]);
    let nontrivial = ops.iter().enumerate().any(|(i, o)| matches!(o, Op::Bind(..)) && steps[i].ok && i + 1 < ops.len());
    out.case(input.to_string(), steps_s(&steps, &vf).to_string(), nontrivial);
    let inside = |k: &MatrixPatternPosition, ext: &[MatrixPatternPosition]| {
        let (r, c): (isize, isize) = (*k).into();
        let pts: Vec<(isize, isize)> = ext.iter().map(|e| (*e).into()).chain([(0, 0)]).collect();
        let rmin = pts.iter().map(|p| p.0).min().unwrap();
        let rmax = pts.iter().map(|p| p.0).max().unwrap();
        let cmin = pts.iter().map(|p| p.1).min().unwrap();
        let cmax = pts.iter().map(|p| p.1).max().unwrap();
        rmin <= r && r <= rmax && cmin <= c && c <= cmax
    };
    if let Some(msg) = oracle_position(&conv, &steps, &uni, mk((0, 0)), &inside) {
        let kf2 = |k: &(isize, isize)| sexp::nums([k.0, k.1]);
        let vf2 = |v: &(usize, usize)| sexp::nums([v.0, v.1]);
        out.violation(format!("MatrixPositionMap: {}", msg), replay_s("mat", host_text, ops, &kf2, &vf2));
    }
    out.count("kind", "matrix");
}

fn eval_generic(ops: &[SOp], out: &mut Out) {
    let steps_h = run_history::<FxHashMap<usize, usize>>(ops, &G_UNIVERSE);
    let steps_b = run_history::<BTreeMap<usize, usize>>(ops, &G_UNIVERSE);
    let kf = |k: &usize| sexp::a(k);
    let vf = |v: &usize| sexp::a(v);
    let nontrivial = ops.iter().enumerate().any(|(i, o)| matches!(o, Op::Bind(..)) && steps_h[i].ok && i + 1 < ops.len());
    for (name, steps) in [("HashMap", &steps_h), ("BTreeMap", &steps_b)] {
        let input = sexp::l(vec![sexp::a("c14"), sexp::a("gen"), ops_s(ops, steps, &kf, &vf)]);
        out.case(input.to_string(), steps_s(steps, &vf).to_string(), nontrivial && name == "HashMap");
        if let Some(msg) = oracle_generic(ops, steps, &G_UNIVERSE) {
            out.violation(format!("{}: {}", name, msg), replay_s("gen", "", ops, &kf, &vf));
        }
    }
    out.count("kind", "generic");
}

// ---------------------------------------------------------------- generation

fn string_alphabet(host: &str, rng: &mut Rng) -> Vec<SOp> {
    let _ = rng;
    let n = host.len();
    let mut a: Vec<SOp> = vec![];
    for k in 0..4usize {
        // value slot: filled at evaluation time ("offered" if the host offers one, else arbitrary)
        a.push(Op::Bind(k, usize::MAX, false));
        a.push(Op::Bind(k, n + 1, false));
    }
    for set in [vec![], vec![0], vec![2], vec![0, 2], vec![2, 0], vec![3, 1, 0], vec![0, 1, 2, 3], vec![1, 3]] {
        a.push(Op::Retain(set));
    }
    a
}

/// Replace the placeholder value usize::MAX by a value the host offers now (or 0).
fn resolve_string(host: &str, ops: &[SOp]) -> Vec<SOp> {
    let h = host.to_string();
    let mut m = StringPositionMap::default();
    let mut res = vec![];
    for op in ops {
        match op {
            Op::Bind(k, v, _) => {
                let v2 = if *v == usize::MAX {
                    let offered = h.list_bind_options(&sk(*k), &m);
                    offered.get(offered.len() / 2).map_or(0usize, |x| (*x).into())
                } else {
                    *v
                };
                let _ = m.bind(sk(*k), sv(v2));
                res.push(Op::Bind(*k, v2, false));
            }
            Op::Retain(keys) => {
                let set: FxHashSet<StringPatternPosition> = keys.iter().map(|k| sk(*k)).collect();
                let mut m2 = m;
                if catch(|| m2.retain_keys(&set)).is_some() {
                    m = m2;
                }
                res.push(op.clone());
            }
            Op::Get(_) => res.push(op.clone()),
        }
    }
    mark_offered_string(host, &mut res);
    res
}

fn resolve_matrix(host: &MatrixString, ops: &[MOp]) -> Vec<MOp> {
    let mut m = MatrixPositionMap::default();
    let mut res = vec![];
    for op in ops {
        match op {
            Op::Bind(k, v, _) => {
                let v2 = if v.0 == usize::MAX {
                    let offered = catch(|| host.list_bind_options(&mk(*k), &m)).unwrap_or_default();
                    offered.get(offered.len() / 2).map_or((0usize, 0usize), |x| (*x).into())
                } else {
                    *v
                };
                let _ = m.bind(mk(*k), mv(v2));
                res.push(Op::Bind(*k, v2, false));
            }
            Op::Retain(keys) => {
                let set: FxHashSet<MatrixPatternPosition> = keys.iter().map(|k| mk(*k)).collect();
                let mut m2 = m;
                if catch(|| m2.retain_keys(&set)).is_some() {
                    m = m2;
                }
                res.push(op.clone());
            }
            Op::Get(_) => res.push(op.clone()),
        }
    }
    mark_offered_matrix(host, &mut res);
    res
}

fn matrix_alphabet() -> Vec<MOp> {
    let mut a: Vec<MOp> = vec![];
    for k in [(0, 0), (0, 1), (1, 0), (1, -1), (-1, 0), (2, 2)] {
        a.push(Op::Bind(k, (usize::MAX, 0), false));
    }
    a.push(Op::Bind((0, 0), (0, 0), false));
    a.push(Op::Bind((1, 1), (7, 7), false));
    for set in [vec![], vec![(0, 0)], vec![(1, 0)], vec![(1, 2), (0, 0)], vec![(0, 0), (1, 2)], vec![(1, -1), (0, 1), (0, 0)], vec![(0, 1), (-1, 0)]] {
        a.push(Op::Retain(set));
    }
    a
}

fn generic_alphabet() -> Vec<SOp> {
    let mut a: Vec<SOp> = vec![];
    for k in 0..3usize {
        for v in 0..2usize {
            a.push(Op::Bind(k, v, true));
        }
    }
    for set in [vec![], vec![0], vec![1, 2], vec![2, 1], vec![0, 1, 2]] {
        a.push(Op::Retain(set));
    }
    a
}

fn for_all_sequences<T: Clone>(alphabet: &[T], depth: usize, f: &mut impl FnMut(&[T])) {
    fn go<T: Clone>(alphabet: &[T], depth: usize, cur: &mut Vec<T>, f: &mut impl FnMut(&[T])) {
        f(cur);
        if cur.len() == depth {
            return;
        }
        for x in alphabet {
            cur.push(x.clone());
            go(alphabet, depth, cur, f);
            cur.pop();
        }
    }
    go(alphabet, depth, &mut vec![], f);
}

const MATRIX_HOSTS: [&str; 4] = ["abc\nde\nfgh\n", "a\n", "ab\n\ncd\n", ""];
const STRING_HOSTS: [&str; 4] = ["abcde", "ab", "", "aéz"];

pub fn run(tier: Tier, seed: u64, out: &mut Out) {
    let mut rng = Rng::new(seed);
    // corpus: the D3 witnesses
    eval_string("abcdefgh", &resolve_string("abcdefgh", &[Op::Bind(0, 0, false), Op::Bind(4, 4, false), Op::Retain(vec![4, 0])]), out);
    {
        let h = MatrixString::from("abc\nabc\nabc\n");
        let ops = resolve_matrix(&h, &[Op::Bind((0, 0), (0, 0), false), Op::Bind((1, 2), (1, 2), false), Op::Retain(vec![(1, 2), (0, 0)])]);
        eval_matrix("abc\nabc\nabc\n", &ops, out);
    }
    let depth = if tier == Tier::Thorough { 4 } else { 3 };
    let mut n_ex = 0usize;
    for host in STRING_HOSTS.iter().take(if tier == Tier::Thorough { 4 } else { 2 }) {
        let alpha = string_alphabet(host, &mut rng);
        for_all_sequences(&alpha, depth, &mut |seq| {
            let ops = resolve_string(host, seq);
            eval_string(host, &ops, out);
            n_ex += 1;
        });
    }
    for host in MATRIX_HOSTS.iter().take(if tier == Tier::Thorough { 4 } else { 2 }) {
        let h = MatrixString::from(host);
        let alpha = matrix_alphabet();
        for_all_sequences(&alpha, depth, &mut |seq| {
            let ops = resolve_matrix(&h, seq);
            eval_matrix(host, &ops, out);
            n_ex += 1;
        });
    }
    {
        let alpha = generic_alphabet();
        for_all_sequences(&alpha, depth + 1, &mut |seq| {
            eval_generic(seq, out);
            n_ex += 1;
        });
    }
    out.notes.push(format!(
        "exhaustive part: every operation sequence of depth <= {} (generic maps: {}) over the per-kind alphabets (binds of offered and of arbitrary values, retain_keys with sets built in several insertion orders) on {} string and {} matrix hosts: {} histories",
        depth, depth + 1, if tier == Tier::Thorough { 4 } else { 2 }, if tier == Tier::Thorough { 4 } else { 2 }, n_ex
    ));
    // random longer histories
    let n_random = if tier == Tier::Thorough { 150_000 } else { 4_000 };
    for _ in 0..n_random {
        let len = rng.range(1, 9);
        match rng.below(3) {
            0 => {
                let host = *rng.pick(&STRING_HOSTS);
                let mut seq: Vec<SOp> = vec![];
                for _ in 0..len {
                    seq.push(match rng.below(10) {
                        0..=4 => Op::Bind(rng.below(6), if rng.chance(4, 5) { usize::MAX } else { rng.below(8) }, false),
                        5..=6 => Op::Get(rng.below(7)),
                        _ => {
                            let mut ks: Vec<usize> = (0..6).filter(|_| rng.chance(1, 2)).collect();
                            if rng.chance(2, 3) && !ks.contains(&0) {
                                ks.push(0);
                            }
                            rng.shuffle(&mut ks);
                            Op::Retain(ks)
                        }
                    });
                }
                eval_string(host, &resolve_string(host, &seq), out);
            }
            1 => {
                let host = *rng.pick(&MATRIX_HOSTS);
                let h = MatrixString::from(host);
                let mut seq: Vec<MOp> = vec![];
                let key = |rng: &mut Rng| (rng.below(4) as isize - 1, rng.below(4) as isize - 1);
                for _ in 0..len {
                    seq.push(match rng.below(10) {
                        0..=4 => {
                            let k = if rng.chance(1, 3) { (0, 0) } else { key(&mut rng) };
                            let v = if rng.chance(4, 5) { (usize::MAX, 0) } else { (rng.below(4), rng.below(4)) };
                            Op::Bind(k, v, false)
                        }
                        5..=6 => Op::Get(key(&mut rng)),
                        _ => {
                            let mut ks: Vec<(isize, isize)> = (0..rng.below(5)).map(|_| key(&mut rng)).collect();
                            if rng.chance(2, 3) && !ks.contains(&(0, 0)) {
                                ks.push((0, 0));
                            }
                            rng.shuffle(&mut ks);
                            Op::Retain(ks)
                        }
                    });
                }
                eval_matrix(host, &resolve_matrix(&h, &seq), out);
            }
            _ => {
                let mut seq: Vec<SOp> = vec![];
                for _ in 0..len {
                    seq.push(match rng.below(10) {
                        0..=5 => Op::Bind(rng.below(4), rng.below(3), true),
                        6..=7 => Op::Get(rng.below(4)),
                        _ => {
                            let mut ks: Vec<usize> = (0..4).filter(|_| rng.chance(1, 2)).collect();
                            rng.shuffle(&mut ks);
                            Op::Retain(ks)
                        }
                    });
                }
                eval_generic(&seq, out);
            }
        }
    }
}

pub fn replay(line: &str, out: &mut Out) {
    let s = sexp::parse(line).unwrap();
    let l = s.as_list();
    let kind = l[1].as_str();
    let host = l[2].as_str().trim_matches('"').replace("\\n", "\n").replace('_', " ");
    match kind {
        "str" => {
            let ops: Vec<SOp> = l[3]
                .as_list()
                .iter()
                .map(|o| {
                    let o = o.as_list();
                    match o[0].as_str() {
                        "b" => Op::Bind(o[1].as_usize(), o[2].as_usize(), false),
                        "g" => Op::Get(o[1].as_usize()),
                        _ => Op::Retain(o[1].usizes()),
                    }
                })
                .collect();
            let mut ops = ops;
            mark_offered_string(&host, &mut ops);
            eval_string(&host, &ops, out);
        }
        "mat" => {
            let pair = |s: &S| {
                let v = s.as_list();
                (v[0].as_i64() as isize, v[1].as_i64() as isize)
            };
            let upair = |s: &S| {
                let v = s.as_list();
                (v[0].as_usize(), v[1].as_usize())
            };
            let mut ops: Vec<MOp> = l[3]
                .as_list()
                .iter()
                .map(|o| {
                    let o = o.as_list();
                    match o[0].as_str() {
                        "b" => Op::Bind(pair(&o[1]), upair(&o[2]), false),
                        "g" => Op::Get(pair(&o[1])),
                        _ => Op::Retain(o[1].as_list().iter().map(pair).collect()),
                    }
                })
                .collect();
            let h = MatrixString::from(&host);
            mark_offered_matrix(&h, &mut ops);
            eval_matrix(&host, &ops, out);
        }
        _ => {
            let ops: Vec<SOp> = l[3]
                .as_list()
                .iter()
                .map(|o| {
                    let o = o.as_list();
                    match o[0].as_str() {
                        "b" => Op::Bind(o[1].as_usize(), o[2].as_usize(), true),
                        "g" => Op::Get(o[1].as_usize()),
                        _ => Op::Retain(o[1].usizes()),
                    }
                })
                .collect();
            eval_generic(&ops, out);
        }
    }
}
