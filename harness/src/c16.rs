//! C16 — Constraint::try_new / try_binary_from_triple / is_satisfied.
use crate::out::{catch, Out};
use crate::rng::Rng;
use crate::sexp::{self, S};
use crate::table::{tmap_from_s, tmap_s, TMap, TPred, TableHost, CALLS};
use crate::Tier;
use portmatching::constraint::InvalidConstraint;
use portmatching::{ArityPredicate, Constraint};

#[derive(Clone, Debug)]
pub struct Case {
    pub pred: TPred,
    pub args: Vec<usize>,
    pub map: TMap,
}

impl Case {
    fn to_s(&self) -> S {
        sexp::l(vec![sexp::a("c16"), self.pred.to_s(), sexp::nums(&self.args), tmap_s(&self.map)])
    }
    fn from_s(s: &S) -> Case {
        let l = s.as_list();
        Case { pred: TPred::from_s(&l[1]), args: l[2].usizes(), map: tmap_from_s(&l[3]) }
    }
}

/// Direct statement of the property for the table predicates.
fn spec(c: &Case) -> String {
    if c.args.len() != c.pred.arity() {
        return format!("(arity-err {} {})", c.pred.arity(), c.args.len());
    }
    for k in &c.args {
        if !c.map.contains_key(k) {
            return format!("(unbound {} 0)", k);
        }
    }
    let vs: Vec<usize> = c.args.iter().map(|k| c.map[k]).collect();
    let verdict = match &c.pred {
        TPred::Always => true,
        TPred::EqConst(x) => vs[0] == *x,
        TPred::EqKeys => vs[0] == vs[1],
        TPred::NeKeys => vs[0] != vs[1],
        TPred::Rec(_) => vs.windows(2).all(|w| w[0] == w[1]),
    };
    format!("(verdict {} 1)", verdict as usize)
}

fn eval(c: &Case, out: &mut Out) {
    let host = TableHost { req: vec![], rows: vec![] };
    let shown = catch(|| {
        let built = if c.args.len() == 2 && c.map.len() % 2 == 0 {
            // exercise the second constructor as well
            Constraint::try_binary_from_triple(c.args[0], c.pred.clone(), c.args[1])
        } else {
            Constraint::try_new(c.pred.clone(), c.args.clone())
        };
        match built {
            Err(InvalidConstraint::InvalidArity { predicate_arity, arguments_arity }) => {
                format!("(arity-err {} {})", predicate_arity, arguments_arity)
            }
            Err(e) => format!("(other-err {:?})", e).replace(' ', "_"),
            Ok(cons) => {
                CALLS.with(|x| *x.borrow_mut() = 0);
                let r = cons.is_satisfied(&host, &c.map);
                let calls = CALLS.with(|x| *x.borrow());
                match r {
                    Ok(b) => format!("(verdict {} {})", b as usize, calls),
                    Err(InvalidConstraint::UnboundVariable(name)) => {
                        format!("(unbound {} {})", name, calls)
                    }
                    Err(e) => format!("(other-err {:?})", e).replace(' ', "_"),
                }
            }
        }
    })
    .unwrap_or_else(|| "(panic)".to_string());
    let n_bound = c.args.iter().filter(|k| c.map.contains_key(k)).count();
    let nontrivial = c.args.len() == c.pred.arity()
        && ((n_bound > 0 && n_bound < c.args.len()) || (n_bound == c.args.len() && !c.args.is_empty()));
    out.count("arity_ok", c.args.len() == c.pred.arity());
    out.count("n_args", c.args.len());
    out.count("outcome", shown.split(' ').next().unwrap_or("").trim_start_matches('('));
    let want = spec(c);
    if want != shown {
        out.violation(format!("expected {} got {}", want, shown), c.to_s().to_string());
    }
    out.case(c.to_s().to_string(), shown, nontrivial);
}

fn all_preds() -> Vec<TPred> {
    vec![
        TPred::Always,
        TPred::EqConst(0),
        TPred::EqConst(1),
        TPred::EqKeys,
        TPred::NeKeys,
        TPred::Rec(0),
        TPred::Rec(1),
        TPred::Rec(2),
        TPred::Rec(3),
        TPred::Rec(4),
    ]
}

pub fn run(tier: Tier, seed: u64, out: &mut Out) {
    let mut rng = Rng::new(seed);
    // exhaustive: all argument lists of length <= L over 3 (quick) / 4 (thorough) keys,
    // all partial bindings over values {0,1}
    let (nkeys, maxlen) = if tier == Tier::Thorough { (4usize, 4usize) } else { (3, 3) };
    let mut n_ex = 0usize;
    let mut arglists: Vec<Vec<usize>> = vec![vec![]];
    let mut frontier: Vec<Vec<usize>> = vec![vec![]];
    for _ in 0..maxlen {
        let mut next = vec![];
        for a in &frontier {
            for k in 0..nkeys {
                let mut b = a.clone();
                b.push(k);
                next.push(b);
            }
        }
        arglists.extend(next.iter().cloned());
        frontier = next;
    }
    let n_maps = 3usize.pow(nkeys as u32);
    for pred in all_preds() {
        for args in &arglists {
            for code in 0..n_maps {
                let mut map = TMap::default();
                let mut x = code;
                for k in 0..nkeys {
                    match x % 3 {
                        0 => {}
                        v => {
                            map.insert(k, v - 1);
                        }
                    }
                    x /= 3;
                }
                // keep the quick tier small: only lists whose length is near the arity
                if tier == Tier::Quick && (args.len() as i64 - pred.arity() as i64).abs() > 1 {
                    continue;
                }
                eval(&Case { pred: pred.clone(), args: args.clone(), map }, out);
                n_ex += 1;
            }
        }
    }
    out.notes.push(format!(
        "exhaustive part: {} predicates x argument lists of length <= {} over {} keys x all partial bindings over 2 values: {} cases",
        all_preds().len(), maxlen, nkeys, n_ex
    ));
    let n_random = if tier == Tier::Thorough { 100_000 } else { 3_000 };
    for _ in 0..n_random {
        let pred = match rng.below(6) {
            0 => TPred::Always,
            1 => TPred::EqConst(rng.below(4)),
            2 => TPred::EqKeys,
            3 => TPred::NeKeys,
            _ => TPred::Rec(rng.below(6)),
        };
        let len = if rng.chance(4, 5) { pred.arity() } else { rng.below(6) };
        let args = (0..len).map(|_| rng.below(6)).collect();
        let mut map = TMap::default();
        for k in 0..6 {
            if rng.chance(3, 5) {
                map.insert(k, rng.below(3));
            }
        }
        eval(&Case { pred, args, map }, out);
    }
}

pub fn replay(line: &str, out: &mut Out) {
    let c = Case::from_s(&sexp::parse(line).unwrap());
    eval(&c, out);
}
