//! The harness-defined table domain run through ManyMatcher / NaiveManyMatcher with several
//! contract-conforming constraint-tree strategies (C03, C04, C06, C08, C09): multi-valued keys,
//! shared prerequisites, labels on inner nodes and on the root, extra required bindings,
//! patterns whose conversion fails (PatternFallback).
use crate::dom::{wf_oracle, Heur};
use crate::out::{catch, Out};
use crate::rng::Rng;
use crate::sexp::{self, S};
use crate::table::{set_scheme, TConstraint, TMap, TPred, TableHost, TableScheme};
use crate::Tier;
use portmatching::{
    Constraint, ConstraintTree, DetHeuristic, IndexedData, ManyMatcher, NaiveManyMatcher, Pattern, PatternFallback, PatternID, PortMatcher,
    ToConstraintsTree,
};
use std::cell::{Cell, RefCell};
use std::collections::BTreeSet;
use std::rc::Rc;

thread_local! {
    /// which tree strategy `TPred::to_constraints_tree` uses
    pub static STRATEGY: Cell<usize> = Cell::new(0);
}

fn ckey(c: &TConstraint) -> (usize, TPred, Vec<usize>) {
    (c.required_bindings().iter().copied().max().unwrap_or(0), c.predicate().clone(), c.required_bindings().to_vec())
}

impl ToConstraintsTree<usize> for TPred {
    fn to_constraints_tree(cs: Vec<TConstraint>) -> ConstraintTree<TConstraint> {
        if cs.is_empty() {
            return ConstraintTree::new();
        }
        let mut order: Vec<usize> = (0..cs.len()).collect();
        order.sort_by_key(|&i| ckey(&cs[i]));
        let s0 = order[0];
        let strategy = STRATEGY.with(|s| s.get());
        // an always-true constraint may label the root itself (strategies 3 and 4)
        if (strategy == 3 || strategy == 4) && *cs[s0].predicate() == TPred::Always {
            let mut t = ConstraintTree::with_make_det(strategy == 4);
            let root = t.root();
            t.add_constraint_index(root, s0);
            return t;
        }
        if strategy == 5 {
            // label on the root (an always-true constraint) *and* mutually exclusive children
            let mut t = ConstraintTree::with_make_det(true);
            let root = t.root();
            let mut any = false;
            for &i in &order {
                if *cs[i].predicate() == TPred::Always {
                    t.add_constraint_index(root, i);
                    any = true;
                }
            }
            if let Some(&e0) = order.iter().find(|&&i| matches!(cs[i].predicate(), TPred::EqConst(_))) {
                let k = cs[e0].required_bindings()[0];
                for &i in &order {
                    if matches!(cs[i].predicate(), TPred::EqConst(_)) && cs[i].required_bindings()[0] == k {
                        let n = t.get_or_add_child(root, cs[i].clone());
                        t.add_constraint_index(n, i);
                        any = true;
                    }
                }
            }
            if any {
                return t;
            }
        }
        match strategy {
            1 | 4 => {
                // depth-one mutex: equality with different constants on the same key
                if let TPred::EqConst(_) = cs[s0].predicate() {
                    let k = cs[s0].required_bindings()[0];
                    let items: Vec<(TConstraint, usize)> = order
                        .iter()
                        .filter(|&&i| matches!(cs[i].predicate(), TPred::EqConst(_)) && cs[i].required_bindings()[0] == k)
                        .map(|&i| (cs[i].clone(), i))
                        .collect();
                    return ConstraintTree::with_transitive_mutex(items, |a, b| a != b);
                }
                ConstraintTree::with_children([(cs[s0].clone(), vec![s0])])
            }
            2 if order.len() >= 2 => {
                // two levels, labels on the inner node: c0 [0] -> c1 [1], and c1 [1] below the root
                let s1 = order[1];
                let mut t = ConstraintTree::new();
                let root = t.root();
                let n0 = t.get_or_add_child(root, cs[s0].clone());
                t.add_constraint_index(n0, s0);
                if cs[s1] != cs[s0] {
                    let n01 = t.get_or_add_child(n0, cs[s1].clone());
                    t.add_constraint_index(n01, s1);
                    let n1 = t.get_or_add_child(root, cs[s1].clone());
                    t.add_constraint_index(n1, s1);
                } else {
                    t.add_constraint_index(n0, s1);
                }
                t
            }
            _ => ConstraintTree::with_children([(cs[s0].clone(), vec![s0])]),
        }
    }
}

#[derive(Clone, Debug, PartialEq)]
pub struct TPattern {
    pub cs: Vec<TConstraint>,
    pub convertible: bool,
    pub extra: Option<Vec<usize>>,
    pub tag: usize,
}

impl Pattern for TPattern {
    type Key = usize;
    type Predicate = TPred;
    type Error = ();
    fn try_to_constraint_vec(&self) -> Result<Vec<TConstraint>, ()> {
        if self.convertible { Ok(self.cs.clone()) } else { Err(()) }
    }
    fn required_bindings(&self) -> Option<Vec<usize>> {
        self.extra.clone()
    }
}

type TMany = ManyMatcher<TPattern, usize, TPred, TableScheme>;
type TNaive = NaiveManyMatcher<usize, TPred, TableScheme>;

fn cons_s(c: &TConstraint) -> S {
    sexp::l(vec![c.predicate().to_s(), sexp::nums(c.required_bindings())])
}
fn pat_s(p: &TPattern) -> S {
    sexp::l(vec![
        sexp::list(&p.cs, cons_s),
        sexp::b(p.convertible),
        match &p.extra { Some(e) => sexp::nums(e), None => sexp::a("-") },
    ])
}
fn pat_from_s(s: &S, tag: usize) -> TPattern {
    let l = s.as_list();
    TPattern {
        cs: l[0].as_list().iter().map(|c| { let v = c.as_list(); Constraint::try_new(TPred::from_s(&v[0]), v[1].usizes()).unwrap() }).collect(),
        convertible: l[1].as_usize() != 0,
        extra: if let S::A(_) = &l[2] { None } else { Some(l[2].usizes()) },
        tag,
    }
}

fn heur_make(h: &Heur, calls: Rc<Cell<usize>>) -> DetHeuristic<usize, TPred> {
    match h {
        Heur::Never => DetHeuristic::Never,
        Heur::Default => DetHeuristic::Default,
        Heur::Seq(v) => {
            let v = v.clone();
            DetHeuristic::Custom(RefCell::new(Box::new(move |_cs: &[&TConstraint]| {
                let i = calls.get();
                calls.set(i + 1);
                v.get(i).copied().unwrap_or(false)
            })))
        }
    }
}

fn closure(req: &[Vec<usize>], keys: &[usize]) -> Vec<usize> {
    // prerequisite-first closure
    fn go(req: &[Vec<usize>], k: usize, out: &mut Vec<usize>) {
        if out.contains(&k) {
            return;
        }
        if let Some(rs) = req.get(k) {
            for &r in rs {
                go(req, r, out);
            }
        }
        out.push(k);
    }
    let mut out = vec![];
    for &k in keys {
        go(req, k, &mut out);
    }
    out
}

/// the specification: all bindings of the required keys (closure of the constraint keys and the
/// extra keys) that give each key an offered value and satisfy every constraint
fn oracle(host: &TableHost, p: &TPattern) -> BTreeSet<Vec<(usize, usize)>> {
    let mut keys: Vec<usize> = p.extra.clone().unwrap_or_default();
    for c in &p.cs {
        keys.extend(c.required_bindings());
    }
    let order = closure(&host.req, &keys);
    let mut res = BTreeSet::new();
    fn go(host: &TableHost, p: &TPattern, order: &[usize], i: usize, m: &mut TMap, res: &mut BTreeSet<Vec<(usize, usize)>>) {
        if i == order.len() {
            let ok = p.cs.iter().all(|c| {
                let vs: Vec<usize> = c.required_bindings().iter().map(|k| m[k]).collect();
                match (c.predicate(), vs.as_slice()) {
                    (TPred::Always, []) => true,
                    (TPred::EqConst(x), [v]) => v == x,
                    (TPred::EqKeys, [a, b]) => a == b,
                    (TPred::NeKeys, [a, b]) => a != b,
                    (TPred::Rec(_), vs) => vs.windows(2).all(|w| w[0] == w[1]),
                    _ => false,
                }
            });
            if ok {
                let mut v: Vec<(usize, usize)> = m.iter().map(|(k, v)| (*k, *v)).collect();
                v.sort();
                res.insert(v);
            }
            return;
        }
        let k = order[i];
        for v in host.list_bind_options(&k, m) {
            m.insert(k, v);
            go(host, p, order, i + 1, m, res);
            m.remove(&k);
        }
    }
    go(host, p, &order, 0, &mut TMap::default(), &mut res);
    res
}

fn gen_host(rng: &mut Rng) -> TableHost {
    let n = rng.range(2, 5);
    let mut req: Vec<Vec<usize>> = vec![];
    for k in 0..n {
        let mut r = vec![];
        for j in 0..k {
            if rng.chance(1, 3) {
                r.push(j);
            }
        }
        req.push(r);
    }
    let rows = (0..n).map(|_| (0..rng.range(1, 2)).map(|_| (0..rng.range(0, 3)).map(|_| rng.below(3)).collect()).collect()).collect();
    TableHost { req, rows }
}

fn gen_pattern(rng: &mut Rng, n_keys: usize, tag: usize) -> TPattern {
    let n = rng.range(0, 4);
    let mut cs: Vec<TConstraint> = vec![];
    for _ in 0..n {
        let c = match rng.below(8) {
            0 => Constraint::try_new(TPred::Always, vec![]).unwrap(),
            1..=4 => Constraint::try_new(TPred::EqConst(rng.below(3)), vec![rng.below(n_keys)]).unwrap(),
            5 => Constraint::try_new(TPred::EqKeys, vec![rng.below(n_keys), rng.below(n_keys)]).unwrap(),
            _ => Constraint::try_new(TPred::NeKeys, vec![rng.below(n_keys), rng.below(n_keys)]).unwrap(),
        };
        cs.push(c);
    }
    TPattern {
        cs,
        convertible: !rng.chance(1, 8),
        extra: if rng.chance(1, 6) { Some(vec![rng.below(n_keys)]) } else { None },
        tag,
    }
}

fn matches_of(ms: impl Iterator<Item = portmatching::PatternMatch<TMap>>) -> Vec<(usize, Vec<(usize, usize)>)> {
    ms.map(|pm| {
        let mut v: Vec<(usize, usize)> = pm.match_data.iter().map(|(k, v)| (*k, *v)).collect();
        v.sort();
        (pm.pattern.0, v)
    })
    .collect()
}

fn case_s(strategy: usize, host: &TableHost, pats: &[TPattern], heur: &Heur) -> String {
    sexp::l(vec![sexp::a("tabcase"), sexp::a(strategy), host.to_s(), sexp::list(pats, pat_s), heur.to_s()]).to_string()
}

/// One (host, pattern list, strategy) case under every heuristic and both fallback modes.
pub fn eval(mode: &str, strategy: usize, host: &TableHost, pats: &[TPattern], heurs: &[Heur], o: &mut Out) {
    set_scheme(&host.req);
    STRATEGY.with(|s| s.set(strategy));
    let replay0 = case_s(strategy, host, pats, &Heur::Default);
    o.oracle_case(&replay0, pats.iter().filter(|p| p.convertible).count() >= 2);
    o.count("table_strategy", strategy);
    let convertible: Vec<usize> = (0..pats.len()).filter(|i| pats[*i].convertible).collect();
    let want: Vec<BTreeSet<Vec<(usize, usize)>>> = pats.iter().map(|p| if p.convertible { oracle(host, p) } else { BTreeSet::new() }).collect();
    // the naive matcher over the convertible patterns (renumbered back to input positions)
    let conv_pats: Vec<TPattern> = convertible.iter().map(|i| pats[*i].clone()).collect();
    let naive = catch(|| {
        let m: TNaive = NaiveManyMatcher::try_from_patterns(conv_pats.iter()).unwrap();
        matches_of(m.find_matches(host))
    });
    let naive_set: Option<BTreeSet<(usize, Vec<(usize, usize)>)>> = naive.map(|v| v.into_iter().map(|(p, m)| (convertible[p], m)).collect());
    for heur in heurs {
        let replay = case_s(strategy, host, pats, heur);
        // PatternFallback::Fail
        if mode == "c06" {
            let calls = Rc::new(Cell::new(0));
            let r = catch(|| TMany::try_from_patterns_with_det_heuristic(pats.to_vec(), PatternFallback::Fail, heur_make(heur, calls)));
            // the model of the glue around the builder (Model/ManyGlue.v): ids, n_patterns, get_pattern
            let flags = sexp::list(pats, |p| sexp::b(p.convertible));
            let table_s = |m: &TMany| -> String {
                let ids: Vec<usize> = (0..pats.len()).filter(|i| m.get_pattern(PatternID(*i)).is_some()).collect();
                let tags: Vec<S> = (0..pats.len())
                    .map(|i| match m.get_pattern(PatternID(i)) {
                        // the position of the returned pattern in the input vector (tags are positions)
                        Some(q) => sexp::a(q.tag),
                        None => sexp::a("-"),
                    })
                    .collect();
                sexp::l(vec![sexp::a("ok"), sexp::nums(&ids), sexp::a(m.n_patterns()), S::L(tags)]).to_string()
            };
            if let Some(r) = &r {
                o.case(
                    sexp::l(vec![sexp::a("glue"), sexp::a("fail"), flags.clone()]).to_string(),
                    match r { Ok(m) => table_s(m), Err(()) => "(err)".to_string() },
                    convertible.len() < pats.len(),
                );
            }
            match r {
                None => o.violation("table: construction with PatternFallback::Fail panicked".into(), replay.clone()),
                Some(r) => {
                    if r.is_ok() != (convertible.len() == pats.len()) {
                        o.violation(format!("table: PatternFallback::Fail returned {} although {} of {} patterns are convertible", if r.is_ok() { "Ok" } else { "Err" }, convertible.len(), pats.len()), replay.clone());
                    }
                }
            }
        }
        let calls = Rc::new(Cell::new(0));
        let built = catch(|| TMany::try_from_patterns_with_det_heuristic(pats.to_vec(), PatternFallback::Skip, heur_make(heur, calls)));
        let Some(Ok(m)) = built else {
            o.violation(format!("table: construction of ManyMatcher (Skip) panicked or failed (strategy {}, {})", strategy, heur.to_s()), replay);
            continue;
        };
        if mode == "c06" {
            let ids: Vec<usize> = (0..pats.len()).filter(|i| m.get_pattern(PatternID(*i)).is_some()).collect();
            let tags: Vec<S> = (0..pats.len()).map(|i| match m.get_pattern(PatternID(i)) { Some(q) => sexp::a(q.tag), None => sexp::a("-") }).collect();
            o.case(
                sexp::l(vec![sexp::a("glue"), sexp::a("skip"), sexp::list(pats, |p| sexp::b(p.convertible))]).to_string(),
                sexp::l(vec![sexp::a("ok"), sexp::nums(&ids), sexp::a(m.n_patterns()), S::L(tags)]).to_string(),
                convertible.len() < pats.len(),
            );
            if m.n_patterns() != convertible.len() {
                o.violation(format!("table: n_patterns() = {} but {} patterns were compiled", m.n_patterns(), convertible.len()), replay.clone());
            }
            for (i, p) in pats.iter().enumerate() {
                let got = m.get_pattern(PatternID(i)).map(|q| q.tag);
                let want_tag = if p.convertible { Some(p.tag) } else { None };
                if got != want_tag {
                    o.violation(format!("table: get_pattern({}) returns the pattern tagged {:?}, expected {:?}", i, got, want_tag), replay.clone());
                }
            }
        }
        if mode == "c09" {
            let aut = m.verif_automaton();
            let raw = aut.verif_dump();
            let req = host.req.clone();
            let reqf = move |k: &usize| req.get(*k).cloned().unwrap_or_default();
            let mut problem = wf_oracle(aut.verif_root(), &raw, &reqf, &convertible);
            if problem.is_none() {
                for s in &raw {
                    for e in &s.outgoing {
                        if let Some(c) = &e.constraint {
                            if let Some(k) = c.required_bindings().iter().find(|k| !s.scope.contains(k)) {
                                problem = Some(format!("state {}: key {} of an outgoing constraint is not in the scope {:?}", s.id, k, s.scope));
                            }
                        }
                    }
                }
            }
            if let Some(msg) = problem {
                o.violation(format!("table (strategy {}, {}): the automaton is not well-formed: {}", strategy, heur.to_s(), msg), replay.clone());
            }
        }
        let Some(ms) = catch(|| matches_of(m.find_matches(host))) else {
            o.violation(format!("table: find_matches panicked (strategy {}, {})", strategy, heur.to_s()), replay);
            continue;
        };
        // correspondence: the modelled traversal on the dump of this automaton (multi-valued keys, exotic trees),
        // and the verified structural / soundness checkers on it
        {
            let aut = m.verif_automaton();
            let raw = aut.verif_dump();
            let dump = sexp::l(vec![
                sexp::a(aut.verif_root()),
                sexp::list(&raw, |st| {
                    sexp::l(vec![
                        sexp::a(st.id),
                        sexp::b(st.deterministic),
                        sexp::list(&st.matches, |(p, ks)| sexp::l(vec![sexp::a(p.0), sexp::nums(ks)])),
                        sexp::nums(&st.scope),
                        sexp::nums(&st.constraint_order),
                        sexp::nums(&st.epsilon_order),
                        sexp::list(&st.outgoing, |e| {
                            sexp::l(vec![sexp::a(e.id), sexp::a(e.target), match &e.constraint { Some(c) => cons_s(c), None => sexp::a("-") }])
                        }),
                    ])
                }),
            ]);
            let mut sorted: Vec<(String, S)> = ms.iter().map(|(p, b)| {
                let s = sexp::l(vec![sexp::a(p), sexp::list(b, |(k, v)| sexp::nums([*k, *v]))]);
                (s.to_string(), s)
            }).collect();
            sorted.sort_by(|a, b| a.0.as_bytes().cmp(b.0.as_bytes()));
            let exp = sexp::l(vec![sexp::a("ok"), S::L(sorted.into_iter().map(|x| x.1).collect())]).to_string();
            if mode != "c09" {
                o.case(sexp::l(vec![sexp::a("tab-run"), host.to_s(), dump.clone()]).to_string(), exp, raw.len() >= 3);
            }
            let css = S::L(pats.iter().map(|p| if p.convertible { sexp::list(&p.cs, cons_s) } else { S::L(vec![]) }).collect());
            let present = sexp::list(pats, |p| sexp::b(p.convertible));
            let extras = sexp::list(pats, |p| sexp::nums(p.extra.clone().unwrap_or_default()));
            o.case(sexp::l(vec![sexp::a("tab-cert"), host.to_s(), dump, present, css, extras]).to_string(), "(wf 1 sound 1 scopes () mkeys ())".to_string(), raw.len() >= 3);
        }
        let got: BTreeSet<(usize, Vec<(usize, usize)>)> = ms.into_iter().collect();
        if mode == "c03" || mode == "c04" || mode == "c06" {
            // against the specification ...
            let mut spec: BTreeSet<(usize, Vec<(usize, usize)>)> = BTreeSet::new();
            for (i, w) in want.iter().enumerate() {
                for b in w {
                    spec.insert((i, b.clone()));
                }
            }
            if got != spec {
                let extra_keys = pats.iter().any(|p| p.extra.is_some());
                let root_label = (strategy == 4) && pats.iter().any(|p| p.convertible && p.cs.iter().any(|c| *c.predicate() == TPred::Always));
                let _ = (extra_keys, root_label);
                o.violation(format!("table (strategy {}, {}): ManyMatcher returns {:?}, the specification gives {:?}", strategy, heur.to_s(),
                    got.difference(&spec).take(3).collect::<Vec<_>>(), spec.difference(&got).take(3).collect::<Vec<_>>()), replay.clone());
            }
            // ... and against the naive matcher
            if mode == "c03" {
                if let Some(nv) = &naive_set {
                    if *nv != got {
                        o.violation(format!("table (strategy {}, {}): ManyMatcher and NaiveManyMatcher differ: only automaton {:?}; only naive {:?}", strategy, heur.to_s(),
                            got.difference(nv).take(3).collect::<Vec<_>>(), nv.difference(&got).take(3).collect::<Vec<_>>()), replay.clone());
                    }
                } else {
                    o.violation("table: NaiveManyMatcher panicked".into(), replay.clone());
                }
            }
        }
    }
}

pub fn run(mode: &str, tier: Tier, seed: u64, o: &mut Out) {
    let mut rng = Rng::new(seed ^ 0x7AB);
    let n = if tier == Tier::Thorough { 20000 } else { 800 };
    for i in 0..n {
        let host = gen_host(&mut rng);
        let n_pats = rng.range(1, 4);
        let pats: Vec<TPattern> = (0..n_pats).map(|t| gen_pattern(&mut rng, host.req.len(), t)).collect();
        let heurs = vec![Heur::Never, Heur::Default, Heur::Seq((0..10).map(|_| rng.chance(1, 2)).collect())];
        eval(mode, i % 6, &host, &pats, &heurs, o);
    }
    o.notes.push(format!("table domain: {} cases (hosts with shared prerequisites and multi-valued keys, 1-4 patterns incl. unconvertible ones and extra required bindings) x 6 tree strategies (single smallest constraint; depth-one mutex; two levels with labels on an inner node; label on the root with make_det false / true; label on the root plus mutually exclusive children) x Never / Default / Custom", n));
}

pub fn replay(line: &str, mode: &str, o: &mut Out) {
    let s = sexp::parse(line).unwrap();
    let l = s.as_list();
    let strategy = l[1].as_usize();
    let host = TableHost::from_s(&l[2]);
    let pats: Vec<TPattern> = l[3].as_list().iter().enumerate().map(|(i, p)| pat_from_s(p, i)).collect();
    let heur = Heur::from_s(&l[4]);
    let heurs = if mode == "c04" { vec![Heur::Never, heur] } else { vec![heur] };
    eval(mode, strategy, &host, &pats, &heurs, o);
}
