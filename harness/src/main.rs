//! pmv — correspondence / oracle harness for the portmatching verification.
//! usage: pmv <prop> --tier quick|thorough --seed N --out DIR [--replay FILE]
mod c12;
mod c13;
mod c14;
mod c15;
mod c11;
mod c10;
mod pg;
mod pgm;
mod pgref;
mod parse;
mod tabaut;
mod aut;
mod dom;
mod autprops;
mod c16;
mod json;
mod out;
mod rng;
mod sexp;
mod table;

#[derive(Clone, Copy, PartialEq, Eq, Debug)]
pub enum Tier {
    Quick,
    Thorough,
}

fn main() {
    // panics inside the library are expected results, not noise
    if std::env::var("PMV_PANIC").is_err() {
        std::panic::set_hook(Box::new(|_| {}));
    }
    let args: Vec<String> = std::env::args().collect();
    let prop = args.get(1).cloned().unwrap_or_default();
    let mut tier = Tier::Quick;
    let mut seed = 0u64;
    let mut outdir = String::from("/verif/.build/run/tmp");
    let mut replay: Option<String> = None;
    let mut i = 2;
    while i < args.len() {
        match args[i].as_str() {
            "--tier" => {
                tier = if args[i + 1] == "thorough" { Tier::Thorough } else { Tier::Quick };
                i += 1;
            }
            "--seed" => {
                seed = args[i + 1].parse().unwrap_or(0);
                i += 1;
            }
            "--out" => {
                outdir = args[i + 1].clone();
                i += 1;
            }
            "--replay" => {
                replay = Some(args[i + 1].clone());
                i += 1;
            }
            _ => {}
        }
        i += 1;
    }
    let mut o = out::Out::default();
    if let Some(file) = replay {
        let text = std::fs::read_to_string(&file).expect("replay file");
        // a replay file is JSON with a "replay" field holding the s-expression, or the bare line
        let line = extract_replay(&text);
        if line.starts_with("(pgmcase") || (prop == "pgm" && line.starts_with("(pgcase")) {
            pgm::replay(&line, &mut o);
            o.write(&outdir);
            return;
        }
        if line.starts_with("(pgcase") {
            pg::replay(&line, "", &mut o);
            o.write(&outdir);
            return;
        }
        if line.starts_with("(tabcase") {
            tabaut::replay(&line, &prop, &mut o);
            o.write(&outdir);
            return;
        }
        if line.starts_with("(pgc11") {
            pg::replay_c11(&line, &mut o);
            o.write(&outdir);
            return;
        }
        match prop.as_str() {
            "c12" => c12::replay(&line, &mut o),
            "c13" => c13::replay(&line, &mut o),
            "c14" => c14::replay(&line, &mut o),
            "c15" => c15::replay(&line, &mut o),
            "c11" => c11::replay(&line, &mut o),
            "c10" => c10::replay(&line, &mut o),
            "c01" | "c02" | "c03" | "c04" | "c05" | "c06" | "c07" | "c08" | "c09" | "c17" => autprops::replay(&line, &mut o),
            "c16" => c16::replay(&line, &mut o),
            _ => panic!("unknown property"),
        }
    } else {
        match prop.as_str() {
            "c12" => c12::run(tier, seed, &mut o),
            "c13" => c13::run(tier, seed, &mut o),
            "c14" => c14::run(tier, seed, &mut o),
            "c15" => c15::run(tier, seed, &mut o),
            "c11" => c11::run(tier, seed, &mut o),
            "c10" => c10::run(tier, seed, &mut o),
            "c01" | "c02" | "c03" | "c04" | "c05" | "c06" | "c07" | "c08" | "c09" | "c17" => autprops::run(&prop, tier, seed, &mut o),
            "pg01" => pg::run("c01", tier, seed, &mut o),
            "pg02" => pg::run("c02", tier, seed, &mut o),
            "pg03" => pg::run("c03", tier, seed, &mut o),
            "pg04" => pg::run("c04", tier, seed, &mut o),
            "pg05" => {
                pg::run("c05", tier, seed, &mut o);
                pg::run_weighted(tier, seed, &mut o);
            }
            "pg08" => pg::run("c08", tier, seed, &mut o),
            "pg11" => pg::run_c11(tier, seed, &mut o),
            "pgm" => pgm::run(tier, seed, &mut o),
            "parse" => parse::run(tier, seed, &mut o),
            "pg09" => pgm::run_c09(tier, seed, &mut o),
            "tab03" => tabaut::run("c03", tier, seed, &mut o),
            "tab06" => tabaut::run("c06", tier, seed, &mut o),
            "tab09" => tabaut::run("c09", tier, seed, &mut o),
            "c17fp" => {
                print!("{}", autprops::fingerprints(tier, seed));
                return;
            }
            "c16" => c16::run(tier, seed, &mut o),
            _ => {
                eprintln!("unknown property {}", prop);
                std::process::exit(2);
            }
        }
    }
    o.write(&outdir);
}

fn extract_replay(text: &str) -> String {
    let t = text.trim();
    if t.starts_with('(') {
        return t.lines().next().unwrap().to_string();
    }
    // crude JSON field extraction: "replay": "...."
    if let Some(p) = t.find("\"replay\"") {
        let rest = &t[p + 8..];
        if let Some(q) = rest.find('"') {
            let rest = &rest[q + 1..];
            let mut s = String::new();
            let mut chars = rest.chars();
            while let Some(c) = chars.next() {
                match c {
                    '\\' => {
                        if let Some(n) = chars.next() {
                            match n {
                                'n' => s.push('\n'),
                                't' => s.push('\t'),
                                other => s.push(other),
                            }
                        }
                    }
                    '"' => break,
                    c => s.push(c),
                }
            }
            return s;
        }
    }
    panic!("no replay input found in file");
}
