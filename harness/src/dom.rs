//! The string and matrix domains as seen by the harness: patterns, hosts,
//! matchers, automaton dumps, and the occurrence semantics written directly
//! (the oracle shares no code with the library).
use crate::out::catch;
use crate::rng::Rng;
use crate::sexp::{self, S};
use portmatching::matrix::{
    MatrixIndexingScheme, MatrixManyMatcher, MatrixNaiveManyMatcher, MatrixPattern, MatrixPatternPosition,
    MatrixPositionMap, MatrixString, MatrixSubjectPosition,
};
use portmatching::string::{
    CharVar, CharacterPredicate, StringIndexingScheme, StringManyMatcher, StringPattern, StringPatternPosition,
    StringPositionMap, StringSubjectPosition,
};
use portmatching::verif::StateDump;
use portmatching::{
    BindMap, Constraint, DetHeuristic, NaiveManyMatcher, Pattern, PatternFallback, PatternID, PortMatcher,
    SinglePatternMatcher,
};
use std::cell::{Cell, RefCell};
use std::rc::Rc;

#[derive(Clone, Copy, Debug, PartialEq, Eq, Hash, PartialOrd, Ord)]
pub enum Cv {
    Lit(char),
    Var(char),
}

fn cv_s(c: &Cv) -> S {
    match c {
        Cv::Lit(c) => sexp::l(vec![sexp::a("l"), sexp::a(*c as u32)]),
        Cv::Var(c) => sexp::l(vec![sexp::a("v"), sexp::a(*c as u32)]),
    }
}
fn cv_from_s(s: &S) -> Cv {
    let l = s.as_list();
    let c = char::from_u32(l[1].as_usize() as u32).unwrap();
    if l[0].as_str() == "l" {
        Cv::Lit(c)
    } else {
        Cv::Var(c)
    }
}
fn to_charvar(c: &Cv) -> CharVar {
    match c {
        Cv::Lit(c) => CharVar::Literal(*c),
        Cv::Var(c) => CharVar::Variable(*c),
    }
}

/// The determinisation heuristic used for one build.
#[derive(Clone, Debug, PartialEq)]
pub enum Heur {
    Never,
    Default,
    /// answers of a Custom heuristic, in call order; `false` once exhausted
    Seq(Vec<bool>),
}

impl Heur {
    pub fn to_s(&self) -> S {
        match self {
            Heur::Never => sexp::a("never"),
            Heur::Default => sexp::a("default"),
            Heur::Seq(v) => sexp::l(vec![sexp::a("seq"), sexp::list(v, |b| sexp::b(*b))]),
        }
    }
    pub fn from_s(s: &S) -> Heur {
        match s {
            S::A(a) if a == "never" => Heur::Never,
            S::A(_) => Heur::Default,
            S::L(l) => Heur::Seq(l[1].as_list().iter().map(|b| b.as_usize() != 0).collect()),
        }
    }
    fn make<K: 'static, P: 'static>(&self, calls: Rc<Cell<usize>>) -> DetHeuristic<K, P> {
        match self {
            Heur::Never => DetHeuristic::Never,
            Heur::Default => DetHeuristic::Default,
            Heur::Seq(v) => {
                let v = v.clone();
                DetHeuristic::Custom(RefCell::new(Box::new(move |_cs: &[&Constraint<K, P>]| {
                    let i = calls.get();
                    calls.set(i + 1);
                    v.get(i).copied().unwrap_or(false)
                })))
            }
        }
    }
}

/// A compiled ManyMatcher, reduced to what the checks observe.
pub struct Built<H> {
    pub dump: S,
    pub n_states: usize,
    pub dot: String,
    pub heur_calls: usize,
    pub n_patterns: usize,
    pub present: Vec<bool>,
    /// structural defect found by the direct (Rust-side) reading of C09, if any
    pub wf_problem: Option<String>,
    pub run: Box<dyn Fn(&H) -> Option<Vec<(usize, S)>>>,
}

pub trait Dom {
    type Pat: Clone + std::fmt::Debug + PartialEq;
    type Host;
    const NAME: &'static str;
    fn gen_pat(rng: &mut Rng) -> Self::Pat;
    fn gen_host(rng: &mut Rng, pats: &[Self::Pat]) -> Self::Host;
    fn degenerate_hosts() -> Vec<Self::Host>;
    fn pat_s(p: &Self::Pat) -> S;
    fn pat_from_s(s: &S) -> Self::Pat;
    fn host_s(h: &Self::Host) -> S;
    fn host_from_s(s: &S) -> Self::Host;
    fn build(pats: &[Self::Pat], heur: &Heur) -> Option<Built<Self::Host>>;
    fn naive(pats: &[Self::Pat], h: &Self::Host) -> Option<Vec<(usize, S)>>;
    /// (find_matches, match_exists, every key of the constraints is bound in every match)
    fn single(p: &Self::Pat, h: &Self::Host) -> Option<(Vec<S>, bool, bool)>;
    fn cvec_s(p: &Self::Pat) -> S;
    /// anchors at which the pattern occurs, in the host's enumeration order (the specification)
    fn occurrences(p: &Self::Pat, h: &Self::Host) -> Vec<S>;
    /// the anchor of a reported match
    fn anchor(m: &S) -> S;
    fn pat_size(p: &Self::Pat) -> usize;
    /// the pattern itself as a host (variables instantiated consistently, possibly with equal
    /// characters for different variables) and the anchor at which it must be found; None when
    /// the start cell of that host does not exist
    fn inst(p: &Self::Pat, rng: &mut Rng) -> Option<(Self::Host, S)>;
    /// one host-extension step; returns the new host and the anchor corresponding to `anchor`
    fn extend(h: &Self::Host, anchor: &S, rng: &mut Rng) -> (Self::Host, S, &'static str);
}

// ------------------------------------------------------------------ dump → S

pub fn cons_s<K>(c: &Constraint<K, CharacterPredicate>, kf: &impl Fn(&K) -> S) -> S {
    let args = c.required_bindings();
    match c.predicate() {
        CharacterPredicate::BindingEq => {
            let mut v = vec![sexp::a("eq")];
            v.extend(args.iter().map(kf));
            S::L(v)
        }
        CharacterPredicate::ConstVal(ch) => {
            let mut v = vec![sexp::a("const"), sexp::a(*ch as u32)];
            v.extend(args.iter().map(kf));
            S::L(v)
        }
    }
}

pub fn dump_s<K>(root: usize, dump: &[StateDump<K, CharacterPredicate>], kf: &impl Fn(&K) -> S) -> S {
    sexp::l(vec![
        sexp::a(root),
        sexp::list(dump, |st| {
            sexp::l(vec![
                sexp::a(st.id),
                sexp::b(st.deterministic),
                sexp::list(&st.matches, |(p, ks)| sexp::l(vec![sexp::a(p.0), sexp::list(ks, kf)])),
                sexp::list(&st.scope, kf),
                sexp::nums(&st.constraint_order),
                sexp::nums(&st.epsilon_order),
                sexp::list(&st.outgoing, |e| {
                    sexp::l(vec![
                        sexp::a(e.id),
                        sexp::a(e.target),
                        match &e.constraint {
                            Some(c) => cons_s(c, kf),
                            None => sexp::a("-"),
                        },
                    ])
                }),
            ])
        }),
    ])
}

/// C09 read directly off the dump (independent of the Coq checker).
pub fn wf_oracle<K: Eq + Clone + std::fmt::Debug, P: Clone>(
    root: usize,
    dump: &[StateDump<K, P>],
    req: &impl Fn(&K) -> Vec<K>,
    ids: &[usize],
) -> Option<String> {
    use std::collections::{BTreeMap, BTreeSet};
    let by_id: BTreeMap<usize, &StateDump<K, P>> = dump.iter().map(|s| (s.id, s)).collect();
    if by_id.len() != dump.len() {
        return Some("duplicate state ids".into());
    }
    if !by_id.contains_key(&root) {
        return Some("the root is not a state".into());
    }
    // reachability
    let mut seen = BTreeSet::from([root]);
    let mut todo = vec![root];
    while let Some(s) = todo.pop() {
        for e in &by_id[&s].outgoing {
            if !by_id.contains_key(&e.target) {
                return Some(format!("transition {} of state {} ends on a missing state", e.id, s));
            }
            if seen.insert(e.target) {
                todo.push(e.target);
            }
        }
    }
    let unreachable: Vec<usize> = dump.iter().map(|s| s.id).filter(|i| !seen.contains(i)).collect();
    if !unreachable.is_empty() {
        return Some(format!("states {:?} are not reachable from the root", unreachable));
    }
    // acyclicity (Kahn)
    let mut indeg: BTreeMap<usize, usize> = dump.iter().map(|s| (s.id, 0)).collect();
    for s in dump {
        for e in &s.outgoing {
            *indeg.get_mut(&e.target).unwrap() += 1;
        }
    }
    let mut ready: Vec<usize> = indeg.iter().filter(|(_, d)| **d == 0).map(|(i, _)| *i).collect();
    let mut n_done = 0;
    while let Some(s) = ready.pop() {
        n_done += 1;
        for e in &by_id[&s].outgoing {
            let d = indeg.get_mut(&e.target).unwrap();
            *d -= 1;
            if *d == 0 {
                ready.push(e.target);
            }
        }
    }
    if n_done != dump.len() {
        return Some("the transition graph has a cycle".into());
    }
    let ordered = |l: &[K]| -> bool {
        for (i, k) in l.iter().enumerate() {
            if l[..i].contains(k) || !req(k).iter().all(|r| l[..i].contains(r)) {
                return false;
            }
        }
        true
    };
    for s in dump {
        if s.epsilon_order.len() > 1 {
            return Some(format!("state {} has {} fallback transitions", s.id, s.epsilon_order.len()));
        }
        if s.outgoing.iter().any(|e| e.target == s.id) {
            return Some(format!("state {} has a transition to itself", s.id));
        }
        let mut cons_ids: Vec<usize> = s.outgoing.iter().filter(|e| e.constraint.is_some()).map(|e| e.id).collect();
        let mut eps_ids: Vec<usize> = s.outgoing.iter().filter(|e| e.constraint.is_none()).map(|e| e.id).collect();
        let mut co = s.constraint_order.clone();
        let mut eo = s.epsilon_order.clone();
        cons_ids.sort();
        eps_ids.sort();
        co.sort();
        eo.sort();
        if co != cons_ids || eo != eps_ids {
            return Some(format!("state {}: the transition orderings {:?} / {:?} do not list exactly the outgoing transitions {:?} / {:?}", s.id, s.constraint_order, s.epsilon_order, cons_ids, eps_ids));
        }
        if !ordered(&s.scope) {
            return Some(format!("state {}: scope {:?} is not prerequisite-first", s.id, s.scope));
        }
        for (p, ks) in &s.matches {
            if !ordered(ks) {
                return Some(format!("state {}: keys {:?} recorded for pattern {} are not prerequisite-first", s.id, ks, p.0));
            }
        }
    }
    for i in ids {
        if !dump.iter().any(|s| s.matches.iter().any(|(p, _)| p.0 == *i)) {
            return Some(format!("pattern {} is accepted by no state", i));
        }
    }
    None
}

pub fn scope_covers<K: Eq + Clone + std::fmt::Debug>(dump: &[StateDump<K, CharacterPredicate>]) -> Option<String> {
    for s in dump {
        for e in &s.outgoing {
            if let Some(c) = &e.constraint {
                if let Some(k) = c.required_bindings().iter().find(|k| !s.scope.contains(k)) {
                    return Some(format!("state {}: key {:?} of an outgoing constraint is not in the scope {:?}", s.id, k, s.scope));
                }
            }
        }
    }
    None
}

// ------------------------------------------------------------------ strings

pub struct StrDom;

const LITS: [char; 4] = ['a', 'b', 'c', 'é'];
const VARS: [char; 3] = ['x', 'y', 'z'];

fn gen_cv(rng: &mut Rng, n_lits: usize, n_vars: usize) -> Cv {
    if n_vars > 0 && rng.chance(2, 5) {
        Cv::Var(VARS[rng.below(n_vars)])
    } else {
        Cv::Lit(LITS[rng.below(n_lits)])
    }
}

pub fn skey_s(k: &StringPatternPosition) -> S {
    sexp::a(Into::<usize>::into(*k))
}
fn smap_s(m: &StringPositionMap) -> S {
    match m {
        StringPositionMap::Unbound => sexp::l(vec![sexp::a("u")]),
        StringPositionMap::Bound { start_pos, str_len } => {
            sexp::l(vec![sexp::a("b"), sexp::a(Into::<usize>::into(*start_pos)), sexp::a(str_len)])
        }
    }
}
fn to_spattern(p: &[Cv]) -> StringPattern {
    StringPattern::new(p.iter().map(to_charvar).collect())
}

impl Dom for StrDom {
    type Pat = Vec<Cv>;
    type Host = String;
    const NAME: &'static str = "str";

    fn gen_pat(rng: &mut Rng) -> Vec<Cv> {
        let n_lits = rng.range(1, 3) + if rng.chance(1, 8) { 1 } else { 0 };
        let n_vars = rng.below(4);
        let len = match rng.below(10) {
            0 => 0,
            1..=3 => rng.range(1, 2),
            4..=7 => rng.range(2, 4),
            _ => rng.range(4, 7),
        };
        (0..len).map(|_| gen_cv(rng, n_lits.min(4), n_vars)).collect()
    }

    fn gen_host(rng: &mut Rng, pats: &[Vec<Cv>]) -> String {
        // planted: instantiated patterns glued together with noise
        let mut s = String::new();
        let pieces = rng.range(0, 3);
        let noise = |rng: &mut Rng, s: &mut String| {
            for _ in 0..rng.below(3) {
                let k = if rng.chance(1, 6) { 4 } else { 3 };
                s.push(LITS[rng.below(k)]);
            }
        };
        noise(rng, &mut s);
        for _ in 0..pieces {
            if !pats.is_empty() && rng.chance(5, 6) {
                let p = rng.pick(pats).clone();
                let env: Vec<char> = (0..3).map(|_| LITS[rng.below(3)]).collect();
                let cut = if rng.chance(1, 6) && !p.is_empty() { rng.below(p.len()) } else { p.len() };
                for c in p.iter().take(cut) {
                    s.push(match c {
                        Cv::Lit(c) => *c,
                        Cv::Var(v) => env[VARS.iter().position(|x| x == v).unwrap_or(0)],
                    });
                }
            }
            noise(rng, &mut s);
        }
        s
    }

    fn degenerate_hosts() -> Vec<String> {
        vec![String::new(), "a".into(), "é".into(), "aé".into(), "éa".into(), "ééé".into(), "aaaa".into()]
    }

    fn pat_s(p: &Vec<Cv>) -> S {
        sexp::list(p, cv_s)
    }
    fn pat_from_s(s: &S) -> Vec<Cv> {
        s.as_list().iter().map(cv_from_s).collect()
    }
    fn host_s(h: &String) -> S {
        sexp::nums(h.chars().map(|c| c as u32))
    }
    fn host_from_s(s: &S) -> String {
        s.as_list().iter().map(|c| char::from_u32(c.as_usize() as u32).unwrap()).collect()
    }

    fn build(pats: &[Vec<Cv>], heur: &Heur) -> Option<Built<String>> {
        let calls = Rc::new(Cell::new(0usize));
        let h = heur.make(calls.clone());
        let patterns: Vec<StringPattern> = pats.iter().map(|p| to_spattern(p)).collect();
        let m: StringManyMatcher =
            catch(move || StringManyMatcher::try_from_patterns_with_det_heuristic(patterns, PatternFallback::Fail, h))?.ok()?;
        let aut = m.verif_automaton();
        let raw = aut.verif_dump();
        let dump = dump_s(aut.verif_root(), &raw, &skey_s);
        let n = pats.len();
        let ids: Vec<usize> = (0..n).collect();
        let sreq = |k: &StringPatternPosition| if Into::<usize>::into(*k) == 0 { vec![] } else { vec![StringPatternPosition::start()] };
        let wf_problem = wf_oracle(aut.verif_root(), &raw, &sreq, &ids).or_else(|| scope_covers(&raw));
        Some(Built {
            wf_problem,
            dump,
            n_states: m.n_states(),
            dot: m.dot_string(),
            heur_calls: calls.get(),
            n_patterns: m.n_patterns(),
            present: (0..n).map(|i| m.get_pattern(PatternID(i)).is_some()).collect(),
            run: Box::new(move |host: &String| {
                catch(|| m.find_matches(host).map(|pm| (pm.pattern.0, smap_s(&pm.match_data))).collect())
            }),
        })
    }

    fn naive(pats: &[Vec<Cv>], h: &String) -> Option<Vec<(usize, S)>> {
        let patterns: Vec<StringPattern> = pats.iter().map(|p| to_spattern(p)).collect();
        catch(|| {
            let m: NaiveManyMatcher<StringPatternPosition, CharacterPredicate, StringIndexingScheme> =
                NaiveManyMatcher::try_from_patterns(patterns.iter()).unwrap();
            m.find_matches(h).map(|pm| (pm.pattern.0, smap_s(&pm.match_data))).collect()
        })
    }

    fn single(p: &Vec<Cv>, h: &String) -> Option<(Vec<S>, bool, bool)> {
        let pat = to_spattern(p);
        catch(|| {
            let m: SinglePatternMatcher<StringPatternPosition, CharacterPredicate, StringIndexingScheme> =
                SinglePatternMatcher::try_from_pattern(&pat).unwrap();
            let keys: Vec<StringPatternPosition> =
                pat.try_to_constraint_vec().unwrap().iter().flat_map(|c| c.required_bindings().to_vec()).collect();
            let ms: Vec<StringPositionMap> = m.find_matches(h).map(|pm| pm.match_data).collect();
            let all_bound = ms.iter().all(|m| keys.iter().all(|k| m.get(k).is_some()));
            (ms.iter().map(smap_s).collect(), m.match_exists(h), all_bound)
        })
    }

    fn cvec_s(p: &Vec<Cv>) -> S {
        let cs = to_spattern(p).try_to_constraint_vec().unwrap();
        sexp::list(&cs, |c| cons_s(c, &skey_s))
    }

    fn occurrences(p: &Vec<Cv>, h: &String) -> Vec<S> {
        if p.is_empty() {
            return vec![sexp::a("u")];
        }
        let chars: Vec<char> = h.chars().collect();
        let mut res = vec![];
        for i in 0..chars.len() {
            let mut env: Vec<(char, char)> = vec![];
            let mut ok = true;
            for (j, cv) in p.iter().enumerate() {
                let Some(&c) = chars.get(i + j) else {
                    ok = false;
                    break;
                };
                match cv {
                    Cv::Lit(l) => ok &= *l == c,
                    Cv::Var(v) => match env.iter().find(|(x, _)| x == v) {
                        Some((_, c0)) => ok &= *c0 == c,
                        None => env.push((*v, c)),
                    },
                }
                if !ok {
                    break;
                }
            }
            if ok {
                res.push(sexp::a(i));
            }
        }
        res
    }

    fn anchor(m: &S) -> S {
        let l = m.as_list();
        if l[0].as_str() == "u" {
            sexp::a("u")
        } else {
            l[1].clone()
        }
    }
    fn pat_size(p: &Vec<Cv>) -> usize {
        p.len()
    }
    fn inst(p: &Vec<Cv>, rng: &mut Rng) -> Option<(String, S)> {
        let env: Vec<char> = (0..3).map(|_| LITS[rng.below(4)]).collect();
        let h: String = p
            .iter()
            .map(|c| match c {
                Cv::Lit(c) => *c,
                Cv::Var(v) => env[VARS.iter().position(|x| x == v).unwrap_or(0)],
            })
            .collect();
        Some((h, if p.is_empty() { sexp::a("u") } else { sexp::a(0) }))
    }
    fn extend(h: &String, anchor: &S, rng: &mut Rng) -> (String, S, &'static str) {
        let t: String = (0..rng.range(1, 3)).map(|_| LITS[rng.below(4)]).collect();
        if rng.chance(1, 2) {
            (format!("{}{}", h, t), anchor.clone(), "append")
        } else {
            let a2 = match anchor {
                S::A(a) if a != "u" => sexp::a(a.parse::<usize>().unwrap() + t.chars().count()),
                other => other.clone(),
            };
            (format!("{}{}", t, h), a2, "prepend")
        }
    }
}

// ------------------------------------------------------------------ matrices

pub struct MatDom;

pub fn mkey_s(k: &MatrixPatternPosition) -> S {
    let (r, c): (isize, isize) = (*k).into();
    sexp::nums([r, c])
}
fn mmap_s(m: &MatrixPositionMap) -> S {
    match m {
        MatrixPositionMap::Unbound => sexp::l(vec![sexp::a("u")]),
        MatrixPositionMap::Bound { start_pos, min_pos, max_pos } => {
            let (r, c): (usize, usize) = (*start_pos).into();
            let (a, b): (isize, isize) = (*min_pos).into();
            let (x, y): (isize, isize) = (*max_pos).into();
            sexp::l(vec![sexp::a("b"), sexp::a(r), sexp::a(c), sexp::a(a), sexp::a(b), sexp::a(x), sexp::a(y)])
        }
    }
}
fn to_mpattern(p: &[Vec<Option<Cv>>]) -> MatrixPattern {
    MatrixPattern::new(p.iter().map(|row| row.iter().map(|c| c.as_ref().map(to_charvar)).collect()).collect())
}
fn mhost(rows: &[Vec<char>]) -> MatrixString {
    MatrixString { rows: rows.to_vec() }
}

impl Dom for MatDom {
    type Pat = Vec<Vec<Option<Cv>>>;
    type Host = Vec<Vec<char>>;
    const NAME: &'static str = "mat";

    fn gen_pat(rng: &mut Rng) -> Self::Pat {
        let n_lits = rng.range(1, 3);
        let n_vars = rng.below(4);
        let nrows = match rng.below(8) {
            0 => 0,
            1..=4 => rng.range(1, 2),
            _ => rng.range(2, 3),
        };
        (0..nrows)
            .map(|_| {
                let w = rng.below(4);
                (0..w).map(|_| if rng.chance(1, 5) { None } else { Some(gen_cv(rng, n_lits, n_vars)) }).collect()
            })
            .collect()
    }

    fn gen_host(rng: &mut Rng, pats: &[Self::Pat]) -> Self::Host {
        let nrows = rng.range(0, 4);
        let mut rows: Vec<Vec<char>> = (0..nrows)
            .map(|_| {
                let w = if rng.chance(1, 6) { 0 } else { rng.range(1, 5) };
                (0..w).map(|_| LITS[rng.below(3)]).collect()
            })
            .collect();
        // plant instantiated patterns
        for _ in 0..rng.below(3) {
            if pats.is_empty() || rows.is_empty() {
                break;
            }
            let p = rng.pick(pats).clone();
            let env: Vec<char> = (0..3).map(|_| LITS[rng.below(3)]).collect();
            let r0 = rng.below(rows.len());
            let c0 = rng.below(3);
            for (i, prow) in p.iter().enumerate() {
                for (j, cell) in prow.iter().enumerate() {
                    let Some(cv) = cell else { continue };
                    if rng.chance(1, 12) {
                        continue; // near miss
                    }
                    while rows.len() <= r0 + i {
                        rows.push(vec![]);
                    }
                    let row = &mut rows[r0 + i];
                    while row.len() <= c0 + j {
                        row.push(LITS[rng.below(3)]);
                    }
                    row[c0 + j] = match cv {
                        Cv::Lit(c) => *c,
                        Cv::Var(v) => env[VARS.iter().position(|x| x == v).unwrap_or(0)],
                    };
                }
            }
        }
        rows
    }

    fn degenerate_hosts() -> Vec<Self::Host> {
        vec![vec![], vec![vec![]], vec![vec!['a']], vec![vec![], vec!['a', 'b']], vec![vec!['a'], vec![], vec!['b', 'c', 'a']], vec![vec!['é', 'a'], vec!['a']]]
    }

    fn pat_s(p: &Self::Pat) -> S {
        sexp::list(p, |row| sexp::list(row, |c| match c { Some(c) => cv_s(c), None => sexp::a("-") }))
    }
    fn pat_from_s(s: &S) -> Self::Pat {
        s.as_list()
            .iter()
            .map(|row| row.as_list().iter().map(|c| if let S::A(_) = c { None } else { Some(cv_from_s(c)) }).collect())
            .collect()
    }
    fn host_s(h: &Self::Host) -> S {
        sexp::list(h, |row| sexp::nums(row.iter().map(|c| *c as u32)))
    }
    fn host_from_s(s: &S) -> Self::Host {
        s.as_list().iter().map(|r| r.as_list().iter().map(|c| char::from_u32(c.as_usize() as u32).unwrap()).collect()).collect()
    }

    fn build(pats: &[Self::Pat], heur: &Heur) -> Option<Built<Self::Host>> {
        let calls = Rc::new(Cell::new(0usize));
        let h = heur.make(calls.clone());
        let patterns: Vec<MatrixPattern> = pats.iter().map(|p| to_mpattern(p)).collect();
        let m: MatrixManyMatcher =
            catch(move || MatrixManyMatcher::try_from_patterns_with_det_heuristic(patterns, PatternFallback::Fail, h))?.ok()?;
        let aut = m.verif_automaton();
        let raw = aut.verif_dump();
        let dump = dump_s(aut.verif_root(), &raw, &mkey_s);
        let n = pats.len();
        let ids: Vec<usize> = (0..n).collect();
        let mreq = |k: &MatrixPatternPosition| if *k == MatrixPatternPosition::start() { vec![] } else { vec![MatrixPatternPosition::start()] };
        let wf_problem = wf_oracle(aut.verif_root(), &raw, &mreq, &ids).or_else(|| scope_covers(&raw));
        Some(Built {
            wf_problem,
            dump,
            n_states: m.n_states(),
            dot: m.dot_string(),
            heur_calls: calls.get(),
            n_patterns: m.n_patterns(),
            present: (0..n).map(|i| m.get_pattern(PatternID(i)).is_some()).collect(),
            run: Box::new(move |host: &Vec<Vec<char>>| {
                let hs = mhost(host);
                catch(|| m.find_matches(&hs).map(|pm| (pm.pattern.0, mmap_s(&pm.match_data))).collect())
            }),
        })
    }

    fn naive(pats: &[Self::Pat], h: &Self::Host) -> Option<Vec<(usize, S)>> {
        let patterns: Vec<MatrixPattern> = pats.iter().map(|p| to_mpattern(p)).collect();
        let hs = mhost(h);
        catch(|| {
            let m: MatrixNaiveManyMatcher = NaiveManyMatcher::try_from_patterns(patterns.iter()).unwrap();
            m.find_matches(&hs).map(|pm| (pm.pattern.0, mmap_s(&pm.match_data))).collect()
        })
    }

    fn single(p: &Self::Pat, h: &Self::Host) -> Option<(Vec<S>, bool, bool)> {
        let pat = to_mpattern(p);
        let hs = mhost(h);
        catch(|| {
            let m: SinglePatternMatcher<MatrixPatternPosition, CharacterPredicate, MatrixIndexingScheme> =
                SinglePatternMatcher::try_from_pattern(&pat).unwrap();
            let keys: Vec<MatrixPatternPosition> =
                pat.try_to_constraint_vec().unwrap().iter().flat_map(|c| c.required_bindings().to_vec()).collect();
            let ms: Vec<MatrixPositionMap> = m.find_matches(&hs).map(|pm| pm.match_data).collect();
            let all_bound = ms.iter().all(|m| keys.iter().all(|k| m.get(k).is_some()));
            (ms.iter().map(mmap_s).collect(), m.match_exists(&hs), all_bound)
        })
    }

    fn cvec_s(p: &Self::Pat) -> S {
        let cs = to_mpattern(p).try_to_constraint_vec().unwrap();
        sexp::list(&cs, |c| cons_s(c, &mkey_s))
    }

    fn occurrences(p: &Self::Pat, h: &Self::Host) -> Vec<S> {
        let mut res = vec![];
        for (r, row) in h.iter().enumerate() {
            for c in 0..row.len() {
                let mut env: Vec<(char, char)> = vec![];
                let mut ok = true;
                'cells: for (i, prow) in p.iter().enumerate() {
                    for (j, cell) in prow.iter().enumerate() {
                        let Some(cv) = cell else { continue };
                        let Some(&ch) = h.get(r + i).and_then(|hr| hr.get(c + j)) else {
                            ok = false;
                            break 'cells;
                        };
                        match cv {
                            Cv::Lit(l) => ok &= *l == ch,
                            Cv::Var(v) => match env.iter().find(|(x, _)| x == v) {
                                Some((_, c0)) => ok &= *c0 == ch,
                                None => env.push((*v, ch)),
                            },
                        }
                        if !ok {
                            break 'cells;
                        }
                    }
                }
                if ok {
                    res.push(sexp::nums([r, c]));
                }
            }
        }
        res
    }

    fn anchor(m: &S) -> S {
        let l = m.as_list();
        if l[0].as_str() == "u" {
            sexp::a("u")
        } else {
            sexp::l(vec![l[1].clone(), l[2].clone()])
        }
    }
    fn pat_size(p: &Self::Pat) -> usize {
        p.iter().map(|r| r.iter().filter(|c| c.is_some()).count()).sum()
    }
    fn inst(p: &Self::Pat, rng: &mut Rng) -> Option<(Self::Host, S)> {
        let env: Vec<char> = (0..3).map(|_| LITS[rng.below(3)]).collect();
        let h: Vec<Vec<char>> = p
            .iter()
            .map(|row| {
                row.iter()
                    .map(|c| match c {
                        Some(Cv::Lit(c)) => *c,
                        Some(Cv::Var(v)) => env[VARS.iter().position(|x| x == v).unwrap_or(0)],
                        None => LITS[rng.below(3)],
                    })
                    .collect()
            })
            .collect();
        if h.first().map_or(true, |r| r.is_empty()) {
            return None;
        }
        Some((h, sexp::nums([0, 0])))
    }
    fn extend(h: &Self::Host, anchor: &S, rng: &mut Rng) -> (Self::Host, S, &'static str) {
        let (r, c) = { let l = anchor.as_list(); (l[0].as_usize(), l[1].as_usize()) };
        let mut h2 = h.clone();
        let new_row = |rng: &mut Rng| -> Vec<char> { (0..rng.below(4)).map(|_| LITS[rng.below(3)]).collect() };
        match rng.below(4) {
            0 => {
                for _ in 0..rng.range(1, 2) { let nr = new_row(rng); h2.push(nr); }
                (h2, anchor.clone(), "rows appended")
            }
            1 => {
                let n = rng.range(1, 2);
                for _ in 0..n { let nr = new_row(rng); h2.insert(0, nr); }
                (h2, sexp::nums([r + n, c]), "rows prepended")
            }
            2 => {
                for row in h2.iter_mut() {
                    if rng.chance(1, 2) { for _ in 0..rng.range(1, 2) { row.push(LITS[rng.below(3)]); } }
                }
                (h2, anchor.clone(), "rows widened")
            }
            _ => {
                let n = rng.range(1, 2);
                for row in h2.iter_mut() { for _ in 0..n { row.insert(0, LITS[rng.below(3)]); } }
                (h2, sexp::nums([r, c + n]), "columns prepended")
            }
        }
    }
}

#[allow(dead_code)]
pub fn unused(_: MatrixSubjectPosition, _: StringSubjectPosition) {}
