//! Port graphs: generators, the embedding oracle (injective, link-preserving maps with a
//! fixed root image) and the checks of C01/C02/C03/C04/C05/C08/C11 on this domain.
//! No Gallina model of the host side exists for port graphs: these checks are
//! implementation-versus-specification only (see DESIGN.md).
use crate::dom::Heur;
use crate::out::{catch, Out};
use crate::rng::Rng;
use crate::sexp::{self, S};
use crate::Tier;
use portgraph::{LinkMut, LinkView, NodeIndex, PortGraph, PortMut, PortOffset, PortView, UnmanagedDenseMap};
use portmatching::portgraph::indexing::{PGIndexKey, PGIndexingScheme};
use portmatching::portgraph::{PGManyPatternMatcher, PGNaiveManyPatternMatcher, PGPattern, PGPredicate, PGSinglePatternMatcher};
use portmatching::{Constraint, DetHeuristic, Pattern, PatternFallback, PatternID, PortMatcher, SinglePatternMatcher};
use std::cell::{Cell, RefCell};
use std::collections::BTreeSet;
use std::rc::Rc;

/// A port graph as plain data: nodes with (inputs, outputs) — None = removed node —
/// and links (src node, out port) -> (dst node, in port).
#[derive(Clone, Debug, PartialEq)]
pub struct G {
    pub nodes: Vec<Option<(usize, usize)>>,
    pub links: Vec<(usize, usize, usize, usize)>,
}

impl G {
    pub fn to_s(&self) -> S {
        sexp::l(vec![
            sexp::list(&self.nodes, |n| match n { Some((i, o)) => sexp::nums([*i, *o]), None => sexp::a("-") }),
            sexp::list(&self.links, |(a, oa, b, ib)| sexp::nums([*a, *oa, *b, *ib])),
        ])
    }
    pub fn from_s(s: &S) -> G {
        let l = s.as_list();
        G {
            nodes: l[0].as_list().iter().map(|n| if let S::A(_) = n { None } else { let v = n.usizes(); Some((v[0], v[1])) }).collect(),
            links: l[1].as_list().iter().map(|e| { let v = e.usizes(); (v[0], v[1], v[2], v[3]) }).collect(),
        }
    }
    /// node indices of the PortGraph equal the positions in `nodes`
    pub fn build(&self) -> PortGraph {
        let mut g = PortGraph::new();
        for n in &self.nodes {
            let (i, o) = n.unwrap_or((0, 0));
            g.add_node(i, o);
        }
        for &(a, oa, b, ib) in &self.links {
            let _ = g.link_nodes(NodeIndex::new(a), oa, NodeIndex::new(b), ib);
        }
        for (i, n) in self.nodes.iter().enumerate() {
            if n.is_none() {
                g.remove_node(NodeIndex::new(i));
            }
        }
        g
    }
    fn out_link(&self, a: usize, oa: usize) -> Option<(usize, usize)> {
        self.links.iter().find(|l| l.0 == a && l.1 == oa).map(|l| (l.2, l.3))
    }
    fn in_link(&self, b: usize, ib: usize) -> Option<(usize, usize)> {
        self.links.iter().find(|l| l.2 == b && l.3 == ib).map(|l| (l.0, l.1))
    }
    pub fn live(&self) -> Vec<usize> {
        (0..self.nodes.len()).filter(|i| self.nodes[*i].is_some()).collect()
    }
}

/// The embedding of pattern `p` (connected, rooted at `root`) into `h` with root image `r`,
/// if there is one: forced by propagation along links in both directions.
pub fn embedding(p: &G, root: usize, h: &G, r: usize) -> Option<Vec<Option<usize>>> {
    h.nodes.get(r)?.as_ref()?;
    let mut f: Vec<Option<usize>> = vec![None; p.nodes.len()];
    f[root] = Some(r);
    let mut todo = vec![root];
    while let Some(u) = todo.pop() {
        let fu = f[u].unwrap();
        for &(a, oa, b, ib) in &p.links {
            if a == u {
                let (hb, hib) = h.out_link(fu, oa)?;
                if hib != ib {
                    return None;
                }
                match f[b] {
                    Some(x) if x != hb => return None,
                    Some(_) => {}
                    None => {
                        f[b] = Some(hb);
                        todo.push(b);
                    }
                }
            }
            if b == u {
                let (ha, hoa) = h.in_link(fu, ib)?;
                if hoa != oa {
                    return None;
                }
                match f[a] {
                    Some(x) if x != ha => return None,
                    Some(_) => {}
                    None => {
                        f[a] = Some(ha);
                        todo.push(a);
                    }
                }
            }
        }
    }
    // injective on the pattern's live nodes (all of them are reached: the pattern is connected)
    let img: Vec<usize> = p.live().iter().map(|u| f[*u]).collect::<Option<Vec<_>>>()?;
    let set: BTreeSet<usize> = img.iter().copied().collect();
    if set.len() != img.len() {
        return None;
    }
    Some(f)
}

pub fn occurrences(p: &G, root: usize, h: &G) -> Vec<usize> {
    h.live().into_iter().filter(|r| embedding(p, root, h, *r).is_some()).collect()
}

// ---------------------------------------------------------------- generators
fn free_out(g: &G, rng: &mut Rng) -> Option<(usize, usize)> {
    let mut v = vec![];
    for n in g.live() {
        for o in 0..g.nodes[n].unwrap().1 {
            if g.out_link(n, o).is_none() {
                v.push((n, o));
            }
        }
    }
    if v.is_empty() { None } else { Some(*rng.pick(&v)) }
}
fn free_in(g: &G, rng: &mut Rng) -> Option<(usize, usize)> {
    let mut v = vec![];
    for n in g.live() {
        for i in 0..g.nodes[n].unwrap().0 {
            if g.in_link(n, i).is_none() {
                v.push((n, i));
            }
        }
    }
    if v.is_empty() { None } else { Some(*rng.pick(&v)) }
}

/// a connected pattern with 1..=max_nodes nodes, <= 3 ports per side
pub fn gen_pattern(rng: &mut Rng, max_nodes: usize) -> G {
    let n = rng.range(1, max_nodes);
    let mut g = G { nodes: vec![Some((rng.below(4), rng.below(4)))], links: vec![] };
    for _ in 1..n {
        // attach a new node to an existing one through a new or free port
        let ni = g.nodes.len();
        let (mut i, mut o) = (rng.below(3), rng.below(3));
        let m = *rng.pick(&g.live());
        if rng.chance(1, 2) {
            // existing.out -> new.in
            let (mi, mo) = g.nodes[m].unwrap();
            let op = (0..mo).find(|p| g.out_link(m, *p).is_none()).unwrap_or_else(|| { g.nodes[m] = Some((mi, mo + 1)); mo });
            i = i.max(1);
            g.nodes.push(Some((i, o)));
            g.links.push((m, op, ni, rng.below(i)));
        } else {
            let (mi, mo) = g.nodes[m].unwrap();
            let ip = (0..mi).find(|p| g.in_link(m, *p).is_none()).unwrap_or_else(|| { g.nodes[m] = Some((mi + 1, mo)); mi });
            o = o.max(1);
            g.nodes.push(Some((i, o)));
            g.links.push((ni, rng.below(o), m, ip));
        }
    }
    // extra links between free ports (cycles, parallel paths, self-loops)
    for _ in 0..rng.below(3) {
        if let (Some((a, oa)), Some((b, ib))) = (free_out(&g, rng), free_in(&g, rng)) {
            g.links.push((a, oa, b, ib));
        }
    }
    g
}

/// a host containing a relabelled copy of `p` plus extra nodes, ports and links
pub fn plant(rng: &mut Rng, p: &G, extra_nodes: usize) -> (G, Vec<usize>) {
    let total = p.nodes.len() + extra_nodes;
    let mut slots: Vec<usize> = (0..total).collect();
    rng.shuffle(&mut slots);
    let map: Vec<usize> = slots[..p.nodes.len()].to_vec();
    let mut h = G { nodes: vec![None; total], links: vec![] };
    for (u, n) in p.nodes.iter().enumerate() {
        if let Some((i, o)) = n {
            h.nodes[map[u]] = Some((i + rng.below(2), o + rng.below(2)));
        }
    }
    for &s in &slots[p.nodes.len()..] {
        h.nodes[s] = if rng.chance(1, 6) { None } else { Some((rng.below(3), rng.below(3))) };
    }
    for &(a, oa, b, ib) in &p.links {
        h.links.push((map[a], oa, map[b], ib));
    }
    for _ in 0..rng.below(4) {
        if let (Some((a, oa)), Some((b, ib))) = (free_out(&h, rng), free_in(&h, rng)) {
            h.links.push((a, oa, b, ib));
        }
    }
    (h, map)
}

/// a homomorphic, non-injective image of `p`: two nodes with compatible links are identified
/// (an edge between them becomes a self-loop).  No embedding of `p` uses the merged node for
/// both, so this is where a lost injectivity (not-equal) constraint shows.
pub fn quotient(rng: &mut Rng, p: &G) -> Option<G> {
    let live = p.live();
    if live.len() < 2 {
        return None;
    }
    for _ in 0..8 {
        let u = *rng.pick(&live);
        let v = *rng.pick(&live);
        if u == v {
            continue;
        }
        let (ui, uo) = p.nodes[u].unwrap();
        let (vi, vo) = p.nodes[v].unwrap();
        // ports of v must be free at u
        let clash = p.links.iter().any(|l| (l.0 == v && p.out_link(u, l.1).is_some()) || (l.2 == v && p.in_link(u, l.3).is_some()));
        if clash {
            continue;
        }
        let mut h = p.clone();
        h.nodes[u] = Some((ui.max(vi), uo.max(vo)));
        h.nodes[v] = if rng.chance(1, 2) { None } else { Some((rng.below(2), rng.below(2))) };
        for l in h.links.iter_mut() {
            if l.0 == v {
                l.0 = u;
            }
            if l.2 == v {
                l.2 = u;
            }
        }
        return Some(h);
    }
    None
}

/// every quotient of `p` that identifies one pair of nodes with compatible links (deterministic)
pub fn all_quotients(p: &G) -> Vec<G> {
    let live = p.live();
    let mut res = vec![];
    for &u in &live {
        for &v in &live {
            if u == v {
                continue;
            }
            let (ui, uo) = p.nodes[u].unwrap();
            let (vi, vo) = p.nodes[v].unwrap();
            let clash = p.links.iter().any(|l| (l.0 == v && p.out_link(u, l.1).is_some()) || (l.2 == v && p.in_link(u, l.3).is_some()));
            if clash {
                continue;
            }
            let mut h = p.clone();
            h.nodes[u] = Some((ui.max(vi), uo.max(vo)));
            h.nodes[v] = None;
            for l in h.links.iter_mut() {
                if l.0 == v {
                    l.0 = u;
                }
                if l.2 == v {
                    l.2 = u;
                }
            }
            res.push(h);
        }
    }
    res
}

/// a small dense host: 3-4 nodes with two input and two output ports each, most output ports
/// linked to a random free input port (parallel links, short cycles, paths that re-enter a node)
pub fn dense_host(rng: &mut Rng) -> G {
    let n = rng.range(3, 5);
    let mut g = G { nodes: vec![Some((2, 2)); n], links: vec![] };
    let mut free_in: Vec<(usize, usize)> = (0..n).flat_map(|b| (0..2).map(move |i| (b, i))).collect();
    rng.shuffle(&mut free_in);
    for a in 0..n {
        for oa in 0..2 {
            if rng.chance(4, 5) {
                if let Some((b, ib)) = free_in.pop() {
                    g.links.push((a, oa, b, ib));
                }
            }
        }
    }
    g
}

pub fn gen_host(rng: &mut Rng, pats: &[(G, usize)]) -> G {
    if !pats.is_empty() && rng.chance(1, 6) {
        let (p, _) = rng.pick(pats).clone();
        if let Some(q) = quotient(rng, &p) {
            let extra = rng.below(2);
            return plant(rng, &q, extra).0;
        }
    }
    if !pats.is_empty() && rng.chance(3, 4) {
        let (p, _) = rng.pick(pats).clone();
        let extra = rng.below(4);
        plant(rng, &p, extra).0
    } else {
        let mut g = gen_pattern(rng, 6);
        if rng.chance(1, 3) {
            g.nodes.push(None);
            g.nodes.push(Some((rng.below(2), rng.below(2))));
        }
        g
    }
}

// ---------------------------------------------------------------- matchers
fn heur_make(h: &Heur, calls: Rc<Cell<usize>>) -> DetHeuristic<PGIndexKey, PGPredicate> {
    match h {
        Heur::Never => DetHeuristic::Never,
        Heur::Default => DetHeuristic::Default,
        Heur::Seq(v) => {
            let v = v.clone();
            DetHeuristic::Custom(RefCell::new(Box::new(move |_cs: &[&Constraint<PGIndexKey, PGPredicate>]| {
                let i = calls.get();
                calls.set(i + 1);
                v.get(i).copied().unwrap_or(false)
            })))
        }
    }
}

fn pattern_of(p: &G, root: Option<usize>) -> PGPattern<PortGraph> {
    match root {
        Some(r) => PGPattern::from_host_with_root(p.build(), NodeIndex::new(r)),
        None => PGPattern::from_host(p.build()),
    }
}

type Match = (usize, Vec<(PGIndexKey, usize)>);

fn match_of(pm: portmatching::PatternMatch<rustc_hash::FxHashMap<PGIndexKey, NodeIndex>>) -> Match {
    let mut v: Vec<(PGIndexKey, usize)> = pm.match_data.iter().map(|(k, n)| (*k, n.index())).collect();
    v.sort_by(|a, b| a.0.cmp(&b.0));
    (pm.pattern.0, v)
}

pub struct BuiltPG {
    pub m: PGManyPatternMatcher,
    pub n_states: usize,
    pub dot: String,
}

pub fn build_many(pats: &[(G, Option<usize>)], heur: &Heur, fallback: PatternFallback) -> Option<Result<BuiltPG, ()>> {
    let calls = Rc::new(Cell::new(0usize));
    let h = heur_make(heur, calls);
    let patterns: Vec<PGPattern<PortGraph>> = pats.iter().map(|(g, r)| pattern_of(g, *r)).collect();
    let r = catch(move || PGManyPatternMatcher::try_from_patterns_with_det_heuristic(patterns, fallback, h))?;
    Some(match r {
        Ok(m) => Ok(BuiltPG { n_states: m.n_states(), dot: m.dot_string(), m }),
        Err(_) => Err(()),
    })
}

pub fn run_many(b: &BuiltPG, host: &PortGraph) -> Option<Vec<Match>> {
    catch(|| b.m.find_matches(host).map(match_of).collect())
}

pub fn run_naive(pats: &[(G, usize)], host: &PortGraph) -> Option<Vec<Match>> {
    let patterns: Vec<PGPattern<PortGraph>> = pats.iter().map(|(g, r)| pattern_of(g, Some(*r))).collect();
    catch(|| {
        let m = PGNaiveManyPatternMatcher::try_from_patterns(patterns.iter()).unwrap();
        m.find_matches(host).map(match_of).collect()
    })
}

pub fn run_single(p: &G, root: usize, host: &PortGraph) -> Option<(Vec<Match>, bool)> {
    let pat = pattern_of(p, Some(root));
    catch(|| {
        let m = PGSinglePatternMatcher::try_from_pattern(&pat).unwrap();
        (m.find_matches(host).map(match_of).collect(), m.match_exists(host))
    })
}

fn root_of(m: &Match) -> Option<usize> {
    m.1.iter().find(|(k, _)| *k == PGIndexKey::PathRoot { index: 0 }).map(|(_, n)| *n)
}

// ---------------------------------------------------------------- known structural classes
/// D5: walking from some node along a port and always leaving through the opposite port
/// comes back to that node (a line that passes through its own start).
pub fn has_line_cycle(p: &G) -> bool {
    for n in p.live() {
        let (ni, no) = p.nodes[n].unwrap();
        // forward walks: leave through out o
        for o in 0..no {
            let mut cur = p.out_link(n, o);
            let mut steps = 0;
            while let Some((m, ip)) = cur {
                if m == n {
                    return true;
                }
                steps += 1;
                if steps > p.links.len() + 1 {
                    break;
                }
                cur = p.out_link(m, ip);
            }
        }
        for i in 0..ni {
            let mut cur = p.in_link(n, i);
            let mut steps = 0;
            while let Some((m, op)) = cur {
                if m == n {
                    return true;
                }
                steps += 1;
                if steps > p.links.len() + 1 {
                    break;
                }
                cur = p.in_link(m, op);
            }
        }
    }
    false
}

/// D6: the pattern needs more than one index root (some key refers to root >= 1)
pub fn n_index_roots(p: &G, root: usize) -> usize {
    let pat = pattern_of(p, Some(root));
    let cs = pat.try_to_constraint_vec().unwrap_or_default();
    let mut max = 0;
    for c in &cs {
        for k in c.required_bindings() {
            let r = match k {
                PGIndexKey::PathRoot { index } => *index,
                PGIndexKey::AlongPath { path_root, .. } => *path_root,
            };
            max = max.max(r);
        }
    }
    max + 1
}

/// does the frozen pinned indexing scheme (reference matcher) bind the occurrence with root image r?
pub fn reference_finds(p: &G, root: usize, hg: &PortGraph, r: usize) -> bool {
    let pat = pattern_of(p, Some(root));
    let Ok(cs) = pat.try_to_constraint_vec() else { return false };
    crate::pgref::ref_single(hg, &cs).iter().any(|b| b.get(&PGIndexKey::PathRoot { index: 0 }).map(|n| n.index()) == Some(r))
}

/// the class of a missed occurrence, and — when it is put down to a known finding — the claim that
/// goes with it: the pattern is outside the class for which Theorem pg_single_reports_embedding
/// (Proofs/PGSingleGood.v) proves that the baseline reports every embedding. The model evaluates
/// the hypothesis of that theorem on the pattern (`pg-good`); an answer 1 contradicts the claim.
fn indexing_class_checked(p: &G, root: usize, hg: &PortGraph, r: usize, o: &mut Out) -> Option<&'static str> {
    let c = indexing_class(p, root, hg, r);
    if c.is_some() {
        o.case(sexp::l(vec![sexp::a("pg-good"), p.to_s(), sexp::a(root)]).to_string(), "0".into(), true);
    }
    c
}

fn indexing_class(p: &G, root: usize, hg: &PortGraph, r: usize) -> Option<&'static str> {
    if reference_finds(p, root, hg, r) {
        None
    } else if has_line_cycle(p) {
        Some("pg_line_through_root")
    } else if n_index_roots(p, root) >= 2 {
        Some("pg_root_hidden")
    } else {
        None
    }
}

fn case_s(mode: &str, pats: &[(G, usize)], host: &G, heur: &Heur) -> String {
    sexp::l(vec![
        sexp::a("pgcase"),
        sexp::a(mode),
        sexp::list(pats, |(g, r)| sexp::l(vec![g.to_s(), sexp::a(r)])),
        host.to_s(),
        heur.to_s(),
    ])
    .to_string()
}

/// Evaluate (patterns, host) under `mode` (c01, c02, c03, c04, c05, c08).
pub fn eval(mode: &str, pats: &[(G, usize)], host: &G, heurs: &[Heur], o: &mut Out) {
    let hg = host.build();
    let occ: Vec<Vec<usize>> = pats.iter().map(|(p, r)| occurrences(p, *r, host)).collect();
    let any_occ = occ.iter().any(|l| !l.is_empty());
    let replay0 = case_s(mode, pats, host, &Heur::Default);
    o.oracle_case(&replay0, any_occ && pats.iter().any(|(p, _)| p.live().len() >= 2));
    o.count("pg_patterns", pats.len());
    o.count("pg_hosts_with_occurrence", any_occ);
    let opt_pats: Vec<(G, Option<usize>)> = pats.iter().map(|(g, r)| (g.clone(), Some(*r))).collect();
    // the baselines
    let naive = run_naive(pats, &hg);
    if naive.is_none() {
        if mode == "c08" || mode == "c05" {
            o.violation("pg: NaiveManyMatcher panicked".into(), replay0.clone());
        }
    }
    let singles: Vec<Option<(Vec<Match>, bool)>> = pats.iter().map(|(p, r)| run_single(p, *r, &hg)).collect();
    if mode == "c05" || mode == "c08" {
        for (pi, s) in singles.iter().enumerate() {
            let Some((ms, exists)) = s else {
                o.violation("pg: SinglePatternMatcher panicked".into(), replay0.clone());
                continue;
            };
            if mode == "c08" {
                continue;
            }
            let (p, root) = &pats[pi];
            let got: BTreeSet<usize> = ms.iter().filter_map(root_of).collect();
            for m in ms {
                let img: Option<BTreeSet<usize>> = root_of(m).and_then(|r| embedding(p, *root, host, r)).map(|f| p.live().iter().map(|u| f[*u].unwrap()).collect());
                let vals: BTreeSet<usize> = m.1.iter().map(|(_, n)| *n).collect();
                let vals_core: BTreeSet<usize> = m.1.iter().filter(|(k, _)| !matches!(k, PGIndexKey::PathRoot { index } if *index >= 1)).map(|(_, n)| *n).collect();
                if img.as_ref() == Some(&vals) {
                    continue;
                }
                if img.as_ref() == Some(&vals_core) {
                    o.known_finding("pg_secondary_root_unconstrained", replay0.clone());
                } else {
                    o.violation(format!("pg: SinglePatternMatcher reports {:?} for pattern {}, which is not an embedding of the pattern", m.1, pi), replay0.clone());
                }
            }
            if *exists != !ms.is_empty() {
                o.violation("pg: match_exists disagrees with find_matches".into(), replay0.clone());
            }
            for r in &occ[pi] {
                if !got.contains(r) {
                    match indexing_class_checked(p, *root, &hg, *r, o) {
                        Some(c) => o.known_finding(c, replay0.clone()),
                        None => o.violation(format!("pg: SinglePatternMatcher misses the occurrence of pattern {} with root image {}", pi, r), replay0.clone()),
                    }
                }
            }
        }
        if let Some(nv) = &naive {
            // numbering by input position, and the same matches as the single matchers
            let mut want: Vec<Match> = vec![];
            for (pi, s) in singles.iter().enumerate() {
                if let Some((ms, _)) = s {
                    for m in ms {
                        want.push((pi, m.1.clone()));
                    }
                }
            }
            if mode == "c05" && *nv != want {
                o.violation("pg: NaiveManyMatcher does not report, numbered by input position, what the single matchers report".into(), replay0.clone());
            }
        }
        if mode == "c05" {
            return;
        }
    }
    let mut all_runs: Vec<(Heur, Vec<Match>)> = vec![];
    for heur in heurs {
        let replay = case_s(mode, pats, host, heur);
        let Some(Ok(b)) = build_many(&opt_pats, heur, PatternFallback::Fail) else {
            o.violation(format!("pg: construction of ManyMatcher panicked or failed ({})", heur.to_s()), replay);
            continue;
        };
        if std::env::var("PMV_DOT").is_ok() {
            eprintln!("=== {} ===\n{}", heur.to_s(), b.dot);
        }
        let Some(ms) = run_many(&b, &hg) else {
            o.violation(format!("pg: find_matches panicked ({})", heur.to_s()), replay);
            continue;
        };
        o.count("pg_states", (b.n_states / 4) * 4);
        match mode {
            "c01" => {
                for m in &ms {
                    let (p, root) = &pats[m.0];
                    let exist = m.1.iter().all(|(_, n)| host.nodes.get(*n).map_or(false, |x| x.is_some()));
                    let img: Option<BTreeSet<usize>> = root_of(m).and_then(|r| embedding(p, *root, host, r)).map(|f| p.live().iter().map(|u| f[*u].unwrap()).collect());
                    let vals: BTreeSet<usize> = m.1.iter().map(|(_, n)| *n).collect();
                    // the same, ignoring the keys Root(i), i >= 1 (which no constraint of the pattern mentions)
                    let vals_core: BTreeSet<usize> = m.1.iter().filter(|(k, _)| !matches!(k, PGIndexKey::PathRoot { index } if *index >= 1)).map(|(_, n)| *n).collect();
                    if exist && img.as_ref() == Some(&vals) {
                        continue;
                    }
                    if exist && img.as_ref() == Some(&vals_core) {
                        o.known_finding("pg_secondary_root_unconstrained", replay.clone());
                    } else {
                        o.violation(format!("pg: ManyMatcher ({}) reports {:?} for pattern {}: the bound nodes are not an injective link-preserving image of the pattern", heur.to_s(), m.1, m.0), replay.clone());
                    }
                }
            }
            "c02" => {
                for (pi, (p, root)) in pats.iter().enumerate() {
                    let got: BTreeSet<usize> = ms.iter().filter(|m| m.0 == pi).filter_map(root_of).collect();
                    for r in &occ[pi] {
                        if !got.contains(r) {
                            // known classes: the indexing scheme itself cannot bind the occurrence (the baseline misses it too)
                            let single_misses = singles[pi].as_ref().map_or(false, |(s, _)| !s.iter().any(|m| root_of(m) == Some(*r)));
                            let class = if !single_misses {
                                // found by the baseline, lost in the automaton: known only for multi-root patterns compiled with others
                                if n_index_roots(p, *root) >= 2 && pats.len() >= 2 { Some("pg_foreign_bindings_change_root_candidates") } else { None }
                            } else { indexing_class_checked(p, *root, &hg, *r, o) };
                            match class {
                                Some(c) => o.known_finding(c, replay.clone()),
                                None => o.violation(format!("pg: ManyMatcher ({}) misses the occurrence of pattern {} with root image {}", heur.to_s(), pi, r), replay.clone()),
                            }
                        }
                    }
                }
            }
            "c03" => {
                if let Some(nv) = &naive {
                    let a: BTreeSet<String> = ms.iter().map(|m| format!("{:?}", m)).collect();
                    let b2: BTreeSet<String> = nv.iter().map(|m| format!("{:?}", m)).collect();
                    if a != b2 {
                        // which patterns differ
                        let differing: BTreeSet<usize> = ms.iter().filter(|m| !b2.contains(&format!("{:?}", m))).map(|m| m.0)
                            .chain(nv.iter().filter(|m| !a.contains(&format!("{:?}", m))).map(|m| m.0)).collect();
                        // the known class (D10) makes one side miss real occurrences; a match that only the
                        // automaton reports must still be an embedding of its pattern
                        let extra_unsound = ms.iter().filter(|m| !b2.contains(&format!("{:?}", m))).any(|m| {
                            let (p, root) = &pats[m.0];
                            let exist = m.1.iter().all(|(_, n)| host.nodes.get(*n).map_or(false, |x| x.is_some()));
                            let img: Option<BTreeSet<usize>> = root_of(m).and_then(|r| embedding(p, *root, host, r)).map(|f| p.live().iter().map(|u| f[*u].unwrap()).collect());
                            let vals_core: BTreeSet<usize> = m.1.iter().filter(|(k, _)| !matches!(k, PGIndexKey::PathRoot { index } if *index >= 1)).map(|(_, n)| *n).collect();
                            !(exist && img.as_ref() == Some(&vals_core))
                        });
                        if !extra_unsound && pats.len() >= 2 && differing.iter().all(|pi| n_index_roots(&pats[*pi].0, pats[*pi].1) >= 2) {
                            o.known_finding("pg_foreign_bindings_change_root_candidates", replay.clone());
                        } else {
                            o.violation(format!("pg: ManyMatcher ({}) and NaiveManyMatcher return different sets of (pattern, bindings): only automaton {:?}; only naive {:?}", heur.to_s(), a.difference(&b2).take(2).collect::<Vec<_>>(), b2.difference(&a).take(2).collect::<Vec<_>>()), replay.clone());
                        }
                    }
                }
            }
            _ => {}
        }
        all_runs.push((heur.clone(), ms));
    }
    if mode == "c04" {
        for (h, ms) in all_runs.iter().skip(1) {
            let a: BTreeSet<String> = all_runs[0].1.iter().map(|m| format!("{:?}", m)).collect();
            let b: BTreeSet<String> = ms.iter().map(|m| format!("{:?}", m)).collect();
            let differing: BTreeSet<usize> = all_runs[0].1.iter().filter(|m| !b.contains(&format!("{:?}", m))).map(|m| m.0)
                .chain(ms.iter().filter(|m| !a.contains(&format!("{:?}", m))).map(|m| m.0)).collect();
            // D10 makes a heuristic miss real occurrences; every match reported by only one of the two
            // must still be an embedding of its pattern
            let unsound = |m: &Match| {
                let (p, root) = &pats[m.0];
                let exist = m.1.iter().all(|(_, n)| host.nodes.get(*n).map_or(false, |x| x.is_some()));
                let img: Option<BTreeSet<usize>> = root_of(m).and_then(|r| embedding(p, *root, host, r)).map(|f| p.live().iter().map(|u| f[*u].unwrap()).collect());
                let vals_core: BTreeSet<usize> = m.1.iter().filter(|(k, _)| !matches!(k, PGIndexKey::PathRoot { index } if *index >= 1)).map(|(_, n)| *n).collect();
                !(exist && img.as_ref() == Some(&vals_core))
            };
            let extra_unsound = all_runs[0].1.iter().filter(|m| !b.contains(&format!("{:?}", m))).any(|m| unsound(m))
                || ms.iter().filter(|m| !a.contains(&format!("{:?}", m))).any(|m| unsound(m));
            if a != b && !extra_unsound && pats.len() >= 2 && differing.iter().all(|pi| n_index_roots(&pats[*pi].0, pats[*pi].1) >= 2) {
                o.known_finding("pg_foreign_bindings_change_root_candidates", case_s(mode, pats, host, h));
            } else if a != b {
                o.violation(format!("pg: heuristic {} and heuristic {} yield different match sets: only first {:?}; only second {:?}", all_runs[0].0.to_s(), h.to_s(), a.difference(&b).collect::<Vec<_>>(), b.difference(&a).collect::<Vec<_>>()), case_s(mode, pats, host, h));
            }
        }
    }
}

/// a variant of `g` that shares most of it: a leaf (a node with exactly one link, not the root)
/// removed, re-attached through another port of the same neighbour, or a new leaf added
pub fn derive_pattern(rng: &mut Rng, g: &G, root: usize) -> G {
    let mut h = g.clone();
    let degree = |g: &G, n: usize| g.links.iter().filter(|l| l.0 == n).count() + g.links.iter().filter(|l| l.2 == n).count();
    let leaves: Vec<usize> = h.live().into_iter().filter(|&n| n != root && degree(&h, n) == 1).collect();
    match rng.below(3) {
        0 | 1 if !leaves.is_empty() => {
            let leaf = *rng.pick(&leaves);
            let li = h.links.iter().position(|l| l.0 == leaf || l.2 == leaf).unwrap();
            let (a, oa, b, ib) = h.links.remove(li);
            if rng.chance(1, 2) && leaf == h.nodes.len() - 1 {
                // drop the leaf altogether
                h.nodes.pop();
            } else if b == leaf {
                // the same neighbour, another (new) output port
                let (ai, ao) = h.nodes[a].unwrap();
                h.nodes[a] = Some((ai, ao + 1));
                let (li_, lo_) = h.nodes[leaf].unwrap();
                h.nodes[leaf] = Some((li_ + 1, lo_));
                h.links.push((a, ao, leaf, li_));
                let _ = (oa, ib);
            } else {
                let (bi, bo) = h.nodes[b].unwrap();
                h.nodes[b] = Some((bi + 1, bo));
                let (li_, lo_) = h.nodes[leaf].unwrap();
                h.nodes[leaf] = Some((li_, lo_ + 1));
                h.links.push((leaf, lo_, b, bi));
            }
        }
        _ => {
            // a new leaf on a new port of some node
            let m = *rng.pick(&h.live());
            let ni = h.nodes.len();
            let (mi, mo) = h.nodes[m].unwrap();
            if rng.chance(1, 2) {
                h.nodes[m] = Some((mi, mo + 1));
                h.nodes.push(Some((2, rng.below(2))));
                h.links.push((m, mo, ni, rng.below(2)));
            } else {
                h.nodes[m] = Some((mi + 1, mo));
                h.nodes.push(Some((rng.below(2), 2)));
                h.links.push((ni, rng.below(2), m, mi));
            }
        }
    }
    h
}

pub fn gen_pats(rng: &mut Rng) -> Vec<(G, usize)> {
    let n = match rng.below(8) { 0 => 0, 1..=3 => 1, _ => rng.range(2, 4) };
    let mut v: Vec<(G, usize)> = vec![];
    for _ in 0..n {
        if !v.is_empty() && rng.chance(1, 6) {
            // same graph, another root
            let (g, _) = rng.pick(&v).clone();
            let r = *rng.pick(&g.live());
            v.push((g, r));
        } else if !v.is_empty() && rng.chance(1, 4) {
            // a variant of an earlier pattern with the same root (patterns sharing a prefix of constraints)
            let (g, r) = rng.pick(&v).clone();
            let h = derive_pattern(rng, &g, r);
            v.push((h, r));
        } else {
            let mx = if rng.chance(1, 4) { 6 } else { 4 };
            let g = gen_pattern(rng, mx);
            let r = *rng.pick(&g.live());
            v.push((g, r));
        }
    }
    v
}

pub fn run(mode: &str, tier: Tier, seed: u64, o: &mut Out) {
    let mut rng = Rng::new(seed ^ 0x9067);
    let n = match (mode, tier) {
        ("c04", Tier::Quick) => 500,
        ("c04", Tier::Thorough) => 8000,
        (_, Tier::Quick) => 1500,
        (_, Tier::Thorough) => 30000,
    };
    // corpus: self-loop root (D5), single node, portless node
    let corpus = [
        "(pgcase c02 (((((1 1)) ((0 0 0 0))) 0)) (((1 1)) ((0 0 0 0))) default)",
        "(pgcase c02 (((((0 0)) ()) 0)) (((0 0) (1 1)) ()) default)",
        // D10, the case pinned as Theorem c04_portgraph_runs_differ_refuted (Cert/D10Witness.v)
        "(pgcase c04 (((((3 1) (1 2)) ((1 1 0 0) (0 0 0 1))) 1) ((((1 2) (2 2) (1 2)) ((1 1 0 0) (1 0 2 0))) 0)) (((1 1) (2 2) (1 2) (1 2)) ((1 0 0 0) (1 1 2 0) (0 0 3 0) (2 1 1 0) (3 1 1 1))) default)",
        // D5, smallest witness (Theorem c05_portgraph_complete_refuted_line_through_root)
        "(pgcase c02 (((((2 2) (2 0)) ((0 1 1 0) (0 0 0 1))) 0)) (((2 2) (2 0)) ((0 1 1 0) (0 0 0 1))) default)",
        // D6, smallest witness (Theorem c05_portgraph_complete_refuted_root_hidden): found in itself, hidden by one more port
        "(pgcase c02 (((((0 1) (1 1) (2 0) (0 1)) ((0 0 1 0) (1 0 2 0) (3 0 2 1))) 0)) (((0 1) (1 1) (2 0) (0 1)) ((0 0 1 0) (1 0 2 0) (3 0 2 1))) default)",
        "(pgcase c02 (((((0 1) (1 1) (2 0) (0 1)) ((0 0 1 0) (1 0 2 0) (3 0 2 1))) 0)) (((0 1) (1 2) (2 0) (0 1)) ((0 0 1 0) (1 0 2 0) (3 0 2 1))) default)",
    ];
    for line in corpus {
        replay(line, mode, o);
    }
    for _ in 0..n {
        let pats = gen_pats(&mut rng);
        let hosts: Vec<G> = (0..rng.range(1, 3)).map(|_| gen_host(&mut rng, &pats)).collect();
        let heurs: Vec<Heur> = if mode == "c04" {
            let mut v = vec![Heur::Never, Heur::Default];
            for _ in 0..6 {
                v.push(Heur::Seq((0..12).map(|_| rng.chance(1, 2)).collect()));
            }
            v
        } else {
            vec![Heur::Default, Heur::Never, Heur::Seq((0..12).map(|_| rng.chance(1, 2)).collect())]
        };
        for h in &hosts {
            eval(mode, &pats, h, &heurs, o);
        }
        // soundness: every homomorphic image of a pattern that identifies two of its nodes (where a
        // lost injectivity constraint shows: a path that re-enters one of its own nodes, ...)
        // a sweep over small dense hosts (every pattern set of 1 in 6 cases)
        if (mode == "c01" || mode == "c03" || mode == "c05") && !pats.is_empty() && rng.chance(1, 6) {
            for _ in 0..40 {
                let h = dense_host(&mut rng);
                eval(mode, &pats, &h, &heurs[..2], o);
                o.count("pg_host", "dense small host (sweep)");
            }
        }
        if (mode == "c01" || mode == "c05" || mode == "c03") && !pats.is_empty() && rng.chance(1, 3) {
            for (pg, _) in pats.iter().take(2) {
                if pg.live().len() < 3 {
                    continue;
                }
                for q in all_quotients(pg).into_iter().take(8) {
                    eval(mode, &pats, &q, &heurs[..2], o);
                    o.count("pg_host", "quotient of a pattern (all pairs), whole pattern set");
                }
            }
        }
    }
    o.notes.push(format!("port graphs: {} random pattern sets (connected patterns of 1-6 nodes, <= 4 ports per side, self-loops, parallel paths, every node as root), planted / random hosts incl. removed nodes; judged by the embedding oracle", n));
}

pub fn replay(line: &str, mode: &str, o: &mut Out) {
    let s = sexp::parse(line).unwrap();
    let l = s.as_list();
    let pats: Vec<(G, usize)> = l[2].as_list().iter().map(|p| { let v = p.as_list(); (G::from_s(&v[0]), v[1].as_usize()) }).collect();
    let host = G::from_s(&l[3]);
    let heur = Heur::from_s(&l[4]);
    let m = if mode.is_empty() { l[1].as_str().to_string() } else { mode.to_string() };
    if m == "c04" {
        eval(&m, &pats, &host, &[Heur::Never, heur], o);
    } else {
        eval(&m, &pats, &host, &[heur], o);
    }
}

// ---------------------------------------------------------------- C11: self-occurrence and extension
pub fn run_c11(tier: Tier, seed: u64, o: &mut Out) {
    let mut rng = Rng::new(seed ^ 0x9C11);
    let n = if tier == Tier::Thorough { 40000 } else { 3000 };
    let max_steps = if tier == Tier::Thorough { 20 } else { 6 };
    for _ in 0..n {
        let p = gen_pattern(&mut rng, 5);
        let root = *rng.pick(&p.live());
        let pats = vec![(p.clone(), root)];
        let mut host = p.clone();
        let mut map: Vec<usize> = (0..p.nodes.len()).collect();
        let steps = rng.range(0, max_steps);
        for step in 0..=steps {
            let what = if step == 0 { "the pattern itself" } else {
                // one extension step
                match rng.below(4) {
                    0 => {
                        // relabel: insert a fresh node slot and permute
                        // into a larger index space: removed-node slots (holes) below live indices
                        let slots = host.nodes.len() + rng.below(3);
                        let mut perm: Vec<usize> = (0..slots).collect();
                        rng.shuffle(&mut perm);
                        let mut h2 = G { nodes: vec![None; slots], links: vec![] };
                        for (i, n) in host.nodes.iter().enumerate() {
                            h2.nodes[perm[i]] = *n;
                        }
                        for &(a, oa, b, ib) in &host.links {
                            h2.links.push((perm[a], oa, perm[b], ib));
                        }
                        for m in map.iter_mut() {
                            *m = perm[*m];
                        }
                        host = h2;
                        "nodes relabelled (with removed-node slots)"
                    }
                    1 => {
                        host.nodes.push(Some((rng.below(3), rng.below(3))));
                        "node added"
                    }
                    2 => {
                        let m = *rng.pick(&host.live());
                        let (i, o2) = host.nodes[m].unwrap();
                        host.nodes[m] = Some(if rng.chance(1, 2) { (i + 1, o2) } else { (i, o2 + 1) });
                        "port added"
                    }
                    _ => {
                        if let (Some((a, oa)), Some((b, ib))) = (free_out(&host, &mut rng), free_in(&host, &mut rng)) {
                            host.links.push((a, oa, b, ib));
                        }
                        "link added between unlinked ports"
                    }
                }
            };
            o.count("pg_extension", what);
            let r = map[root];
            let replay = sexp::l(vec![sexp::a("pgc11"), p.to_s(), sexp::a(root), host.to_s(), sexp::a(r)]).to_string();
            o.oracle_case(&replay, true);
            if embedding(&p, root, &host, r).is_none() {
                o.violation(format!("pg: harness error? the occurrence is not preserved by '{}' according to the oracle", what), replay);
                break;
            }
            let hg = host.build();
            let single = run_single(&p, root, &hg);
            let single_found = single.as_ref().map_or(false, |(ms, _)| ms.iter().any(|m| root_of(m) == Some(r)));
            let opt: Vec<(G, Option<usize>)> = vec![(p.clone(), Some(root))];
            let many_found = match build_many(&opt, &Heur::Default, PatternFallback::Fail) {
                Some(Ok(b)) => run_many(&b, &hg).map_or(false, |ms| ms.iter().any(|m| root_of(m) == Some(r))),
                _ => false,
            };
            if !single_found || !many_found {
                match indexing_class_checked(&p, root, &hg, r, o) {
                    Some(c) if !single_found => o.known_finding(c, replay.clone()),
                    _ => o.violation(format!("pg: the occurrence at root image {} is not reported after '{}' (single: {}, automaton: {})", r, what, single_found, many_found), replay.clone()),
                }
                break;
            }
        }
        let _ = pats;
    }
}

pub fn replay_c11(line: &str, o: &mut Out) {
    let s = sexp::parse(line).unwrap();
    let l = s.as_list();
    let p = G::from_s(&l[1]);
    let root = l[2].as_usize();
    let host = G::from_s(&l[3]);
    let r = l[4].as_usize();
    let hg = host.build();
    let single_found = run_single(&p, root, &hg).map_or(false, |(ms, _)| ms.iter().any(|m| root_of(m) == Some(r)));
    let opt: Vec<(G, Option<usize>)> = vec![(p.clone(), Some(root))];
    let many_found = match build_many(&opt, &Heur::Default, PatternFallback::Fail) {
        Some(Ok(b)) => run_many(&b, &hg).map_or(false, |ms| ms.iter().any(|m| root_of(m) == Some(r))),
        _ => false,
    };
    if embedding(&p, root, &host, r).is_some() && (!single_found || !many_found) {
        o.violation(format!("pg: occurrence at {} not reported (single: {}, automaton: {})", r, single_found, many_found), line.to_string());
    }
}

// ---------------------------------------------------------------- C05: weighted graphs through hand-built constraints
pub struct VecPattern(pub Vec<Constraint<PGIndexKey, PGPredicate<usize>>>);
impl Pattern for VecPattern {
    type Key = PGIndexKey;
    type Predicate = PGPredicate<usize>;
    type Error = ();
    fn try_to_constraint_vec(&self) -> Result<Vec<Constraint<PGIndexKey, PGPredicate<usize>>>, ()> {
        Ok(self.0.clone())
    }
}

pub fn run_weighted(tier: Tier, seed: u64, o: &mut Out) {
    let mut rng = Rng::new(seed ^ 0x3E16);
    let n = if tier == Tier::Thorough { 30000 } else { 1500 };
    for _ in 0..n {
        let p = gen_pattern(&mut rng, 4);
        let root = *rng.pick(&p.live());
        if has_line_cycle(&p) {
            continue;
        }
        let pat = pattern_of(&p, Some(root));
        let Ok(cs) = pat.try_to_constraint_vec() else { continue };
        // pattern-side key -> node, by following the constraints on the pattern graph itself
        let pg = p.build();
        let Some((self_matches, _)) = run_single(&p, root, &pg) else { continue };
        let Some(idm) = self_matches.iter().find(|m| root_of(m) == Some(root)) else { continue };
        let key_node: Vec<(PGIndexKey, usize)> = idm.1.clone();
        // weights on pattern nodes, constraints on a random subset of keys
        let pw: Vec<usize> = (0..p.nodes.len()).map(|_| rng.below(2)).collect();
        let mut wcs: Vec<Constraint<PGIndexKey, PGPredicate<usize>>> = vec![];
        let mut constrained: Vec<usize> = vec![];
        let mut seen: Vec<PGIndexKey> = vec![];
        for c in &cs {
            let pred = match c.predicate() {
                PGPredicate::HasNodeWeight(()) => continue,
                PGPredicate::IsConnected { left_port, right_port } => PGPredicate::IsConnected { left_port: *left_port, right_port: *right_port },
                PGPredicate::IsNotEqual { n_other } => PGPredicate::IsNotEqual { n_other: *n_other },
            };
            wcs.push(Constraint::try_new(pred, c.required_bindings().to_vec()).unwrap());
            for k in c.required_bindings() {
                if !seen.contains(k) {
                    seen.push(*k);
                    if rng.chance(1, 2) {
                        if let Some((_, node)) = key_node.iter().find(|(kk, _)| kk == k) {
                            wcs.push(Constraint::try_new(PGPredicate::HasNodeWeight(pw[*node]), vec![*k]).unwrap());
                            constrained.push(*node);
                        }
                    }
                }
            }
        }
        if wcs.is_empty() {
            wcs.push(Constraint::try_new(PGPredicate::HasNodeWeight(pw[root]), vec![PGIndexKey::root(0)]).unwrap());
            constrained.push(root);
        }
        let extra = rng.below(3);
        let (host, map) = plant(&mut rng, &p, extra);
        let mut hw: Vec<usize> = (0..host.nodes.len()).map(|_| rng.below(2)).collect();
        if rng.chance(3, 4) {
            for (u, &m) in map.iter().enumerate() {
                hw[m] = pw[u];
            }
        }
        let hg = host.build();
        let mut weights: UnmanagedDenseMap<NodeIndex, usize> = UnmanagedDenseMap::new();
        for (i, w) in hw.iter().enumerate() {
            weights[NodeIndex::new(i)] = *w;
        }
        let replay = sexp::l(vec![sexp::a("pgweighted"), p.to_s(), sexp::a(root), host.to_s(), sexp::nums(&pw), sexp::nums(&hw), sexp::nums(&constrained)]).to_string();
        o.oracle_case(&replay, true);
        let vp = VecPattern(wcs);
        let data = (&hg, &weights);
        let res = catch(|| {
            let m: SinglePatternMatcher<PGIndexKey, PGPredicate<usize>, PGIndexingScheme> = SinglePatternMatcher::try_from_pattern(&vp).unwrap();
            let ms: Vec<Match> = m.find_matches(&data).map(match_of).collect();
            (ms, m.match_exists(&data))
        });
        let Some((ms, exists)) = res else {
            o.violation("pg (weighted): SinglePatternMatcher panicked".into(), replay);
            continue;
        };
        let want: Vec<usize> = occurrences(&p, root, &host)
            .into_iter()
            .filter(|r| {
                let f = embedding(&p, root, &host, *r).unwrap();
                constrained.iter().all(|u| hw[f[*u].unwrap()] == pw[*u])
            })
            .collect();
        let got: BTreeSet<usize> = ms.iter().filter_map(root_of).collect();
        if exists != !ms.is_empty() {
            o.violation("pg (weighted): match_exists disagrees with find_matches".into(), replay.clone());
        }
        for r in &got {
            if !want.contains(r) {
                o.violation(format!("pg (weighted): a match with root image {} is reported, but the weighted pattern does not occur there", r), replay.clone());
            }
        }
        for r in &want {
            if !got.contains(r) {
                // the unweighted pattern must be found there by the unweighted baseline, else it is the known indexing limitation
                let base = run_single(&p, root, &hg).map_or(false, |(b, _)| b.iter().any(|m| root_of(m) == Some(*r)));
                if base {
                    o.violation(format!("pg (weighted): the occurrence with root image {} is found without weights but lost with the hand-built weighted constraints", r), replay.clone());
                } else if let Some(c) = indexing_class_checked(&p, root, &hg, *r, o) {
                    o.known_finding(c, replay.clone());
                } else {
                    o.violation(format!("pg (weighted): the occurrence with root image {} is missed", r), replay.clone());
                }
            }
        }
    }
}

#[allow(dead_code)]
pub fn unused(_: PatternID, _: PortOffset) {}
