//! Tiny JSON value + writer (no serde dependency needed).
use std::collections::BTreeMap;
use std::fmt::Write;

#[derive(Clone, Debug)]
pub enum J {
    Null,
    Bool(bool),
    Int(i64),
    Num(f64),
    Str(String),
    Arr(Vec<J>),
    Obj(BTreeMap<String, J>),
}

impl J {
    pub fn obj() -> J {
        J::Obj(BTreeMap::new())
    }
    pub fn set(&mut self, k: &str, v: J) -> &mut Self {
        if let J::Obj(m) = self {
            m.insert(k.to_string(), v);
        }
        self
    }
    pub fn s(x: impl ToString) -> J {
        J::Str(x.to_string())
    }
    pub fn i(x: usize) -> J {
        J::Int(x as i64)
    }
    pub fn render(&self) -> String {
        let mut out = String::new();
        self.write(&mut out);
        out
    }
    fn write(&self, out: &mut String) {
        match self {
            J::Null => out.push_str("null"),
            J::Bool(b) => out.push_str(if *b { "true" } else { "false" }),
            J::Int(i) => write!(out, "{}", i).unwrap(),
            J::Num(x) => write!(out, "{}", x).unwrap(),
            J::Str(s) => {
                out.push('"');
                for c in s.chars() {
                    match c {
                        '"' => out.push_str("\\\""),
                        '\\' => out.push_str("\\\\"),
                        '\n' => out.push_str("\\n"),
                        '\r' => out.push_str("\\r"),
                        '\t' => out.push_str("\\t"),
                        c if (c as u32) < 0x20 => write!(out, "\\u{:04x}", c as u32).unwrap(),
                        c => out.push(c),
                    }
                }
                out.push('"');
            }
            J::Arr(v) => {
                out.push('[');
                for (i, x) in v.iter().enumerate() {
                    if i > 0 {
                        out.push(',');
                    }
                    x.write(out);
                }
                out.push(']');
            }
            J::Obj(m) => {
                out.push('{');
                for (i, (k, v)) in m.iter().enumerate() {
                    if i > 0 {
                        out.push(',');
                    }
                    J::Str(k.clone()).write(out);
                    out.push(':');
                    v.write(out);
                }
                out.push('}');
            }
        }
    }
}
