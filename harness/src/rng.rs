//! Deterministic PRNG (splitmix64); every random choice of the harness derives
//! from one state seeded by VERIF_SEED.
#[derive(Clone)]
pub struct Rng(pub u64);

impl Rng {
    pub fn new(seed: u64) -> Self {
        Rng(seed ^ 0x9E3779B97F4A7C15)
    }
    pub fn next(&mut self) -> u64 {
        self.0 = self.0.wrapping_add(0x9E3779B97F4A7C15);
        let mut z = self.0;
        z = (z ^ (z >> 30)).wrapping_mul(0xBF58476D1CE4E5B9);
        z = (z ^ (z >> 27)).wrapping_mul(0x94D049BB133111EB);
        z ^ (z >> 31)
    }
    /// uniform in 0..n (n > 0)
    pub fn below(&mut self, n: usize) -> usize {
        (self.next() % (n as u64)) as usize
    }
    pub fn range(&mut self, lo: usize, hi_incl: usize) -> usize {
        lo + self.below(hi_incl - lo + 1)
    }
    pub fn chance(&mut self, num: usize, den: usize) -> bool {
        self.below(den) < num
    }
    pub fn pick<'a, T>(&mut self, v: &'a [T]) -> &'a T {
        &v[self.below(v.len())]
    }
    pub fn shuffle<T>(&mut self, v: &mut [T]) {
        for i in (1..v.len()).rev() {
            let j = self.below(i + 1);
            v.swap(i, j);
        }
    }
    pub fn fork(&mut self) -> Rng {
        Rng(self.next())
    }
}
