//! Minimal s-expression writer (the OCaml driver parses these).
use std::fmt;

#[derive(Clone, Debug, PartialEq, Eq, Hash, PartialOrd, Ord)]
pub enum S {
    A(String),
    L(Vec<S>),
}

impl fmt::Display for S {
    fn fmt(&self, f: &mut fmt::Formatter<'_>) -> fmt::Result {
        match self {
            S::A(s) => write!(f, "{}", s),
            S::L(l) => {
                write!(f, "(")?;
                for (i, x) in l.iter().enumerate() {
                    if i > 0 {
                        write!(f, " ")?;
                    }
                    write!(f, "{}", x)?;
                }
                write!(f, ")")
            }
        }
    }
}

pub fn a(s: impl ToString) -> S {
    S::A(s.to_string())
}
pub fn l(v: Vec<S>) -> S {
    S::L(v)
}
pub fn nums<T: ToString>(v: impl IntoIterator<Item = T>) -> S {
    S::L(v.into_iter().map(|x| S::A(x.to_string())).collect())
}
pub fn list<T>(v: impl IntoIterator<Item = T>, f: impl Fn(T) -> S) -> S {
    S::L(v.into_iter().map(f).collect())
}
pub fn b(x: bool) -> S {
    S::A(if x { "1" } else { "0" }.to_string())
}

/// Parse a single s-expression (for replay files).
pub fn parse(s: &str) -> Result<S, String> {
    let bytes = s.as_bytes();
    let mut pos = 0usize;
    fn skip(b: &[u8], pos: &mut usize) {
        while *pos < b.len() && (b[*pos] as char).is_whitespace() {
            *pos += 1;
        }
    }
    fn go(b: &[u8], pos: &mut usize) -> Result<S, String> {
        skip(b, pos);
        if *pos >= b.len() {
            return Err("unexpected end".into());
        }
        if b[*pos] == b'(' {
            *pos += 1;
            let mut items = vec![];
            loop {
                skip(b, pos);
                if *pos >= b.len() {
                    return Err("unclosed".into());
                }
                if b[*pos] == b')' {
                    *pos += 1;
                    break;
                }
                items.push(go(b, pos)?);
            }
            Ok(S::L(items))
        } else {
            let st = *pos;
            while *pos < b.len()
                && !(b[*pos] as char).is_whitespace()
                && b[*pos] != b'('
                && b[*pos] != b')'
            {
                *pos += 1;
            }
            Ok(S::A(String::from_utf8_lossy(&b[st..*pos]).to_string()))
        }
    }
    go(bytes, &mut pos)
}

impl S {
    pub fn as_list(&self) -> &[S] {
        match self {
            S::L(v) => v,
            _ => panic!("expected list, got {}", self),
        }
    }
    pub fn as_usize(&self) -> usize {
        match self {
            S::A(s) => s.parse().unwrap(),
            _ => panic!("expected atom"),
        }
    }
    pub fn as_i64(&self) -> i64 {
        match self {
            S::A(s) => s.parse().unwrap(),
            _ => panic!("expected atom"),
        }
    }
    pub fn as_str(&self) -> &str {
        match self {
            S::A(s) => s,
            _ => panic!("expected atom"),
        }
    }
    pub fn usizes(&self) -> Vec<usize> {
        self.as_list().iter().map(|x| x.as_usize()).collect()
    }
}
