//! C12 — missing_bindings / all_missing_bindings on table schemes.
use crate::out::{catch, Out};
use crate::rng::Rng;
use crate::sexp::{self, S};
use crate::table::{set_scheme, TableScheme};
use crate::Tier;
use portmatching::IndexingScheme;
use rustc_hash::FxHashSet;
use std::collections::BTreeSet;

#[derive(Clone, Debug)]
pub struct Case {
    pub scheme: Vec<Vec<usize>>,
    pub keys: Vec<usize>,
    pub known: Vec<usize>,
}

impl Case {
    fn to_s(&self, cmd: &str) -> S {
        sexp::l(vec![
            sexp::a(cmd),
            sexp::list(&self.scheme, |r| sexp::nums(r)),
            sexp::nums(&self.keys),
            sexp::nums(&self.known),
        ])
    }
    fn from_s(s: &S) -> Case {
        let l = s.as_list();
        Case {
            scheme: l[1].as_list().iter().map(|x| x.usizes()).collect(),
            keys: l[2].usizes(),
            known: l[3].usizes(),
        }
    }
}

fn is_acyclic(scheme: &[Vec<usize>]) -> bool {
    // Kahn-style: repeatedly remove keys all of whose prerequisites are removed
    let n = scheme.len();
    let mut done = vec![false; n];
    loop {
        let mut progress = false;
        for k in 0..n {
            if !done[k] && scheme[k].iter().all(|&r| r < n && done[r] ) {
                done[k] = true;
                progress = true;
            }
        }
        if !progress {
            break;
        }
    }
    done.iter().all(|&d| d)
}

/// The specification, written directly: no repetition, exactly the closure
/// through unknown keys, every key after its own missing prerequisites, nothing known.
pub fn spec_check(c: &Case, result: &[usize]) -> Option<String> {
    let known: BTreeSet<usize> = c.known.iter().copied().collect();
    let empty = vec![];
    let req = |k: usize| c.scheme.get(k).unwrap_or(&empty);
    // closure
    let mut clo = BTreeSet::new();
    let mut todo: Vec<usize> = c.keys.iter().copied().filter(|k| !known.contains(k)).collect();
    while let Some(k) = todo.pop() {
        if clo.insert(k) {
            for &r in req(k) {
                if !known.contains(&r) {
                    todo.push(r);
                }
            }
        }
    }
    let as_set: BTreeSet<usize> = result.iter().copied().collect();
    if as_set.len() != result.len() {
        return Some(format!("repetition in result {:?}", result));
    }
    if as_set != clo {
        return Some(format!("result {:?} is not the set of missing keys {:?}", result, clo));
    }
    for (i, &k) in result.iter().enumerate() {
        for &r in req(k) {
            if !known.contains(&r) && !result[..i].contains(&r) {
                return Some(format!(
                    "key {} is listed before its missing prerequisite {} in {:?}",
                    k, r, result
                ));
            }
        }
    }
    None
}

fn eval(c: &Case, out: &mut Out, oracle: bool) {
    set_scheme(&c.scheme);
    let keys = c.keys.clone();
    let known = c.known.clone();
    let res = catch(|| TableScheme.all_missing_bindings(keys, known));
    let shown = match &res {
        Some(v) => format!("(ok {})", sexp::nums(v)),
        None => "(panic)".to_string(),
    };
    let nontrivial = (c.scheme.iter().any(|r| r.len() >= 2) || !c.known.is_empty())
        && res.as_ref().map_or(false, |v| v.len() >= 2);
    out.case(c.to_s("c12").to_string(), shown, nontrivial);
    out.count("n_keys", c.scheme.len());
    out.count("n_requested", c.keys.len());
    out.count("n_known", c.known.len());
    out.count("answer_len", res.as_ref().map_or(-1, |v| v.len() as i64));
    // the verified answer checker (Cert/SchemeCheck.v) on the implementation's list: the property
    // fixes the set and "prerequisites first", not one order
    if oracle {
        if let Some(v) = &res {
            let mut l = c.to_s("c12v").as_list().to_vec();
            l.push(sexp::nums(v));
            out.case(S::L(l).to_string(), "1".into(), nontrivial);
        }
    }
    if oracle {
        match &res {
            None => out.violation(
                "all_missing_bindings panicked on an acyclic scheme".into(),
                c.to_s("c12").to_string(),
            ),
            Some(v) => {
                if let Some(msg) = spec_check(c, v) {
                    out.violation(format!("all_missing_bindings: {}", msg), c.to_s("c12").to_string());
                }
            }
        }
    }
    // single-key entry point
    for &k in c.keys.iter().take(2) {
        let known_set: FxHashSet<usize> = c.known.iter().copied().collect();
        let res = catch(|| TableScheme.missing_bindings(&k, &known_set));
        let shown = match &res {
            Some(v) => format!("(ok {})", sexp::nums(v)),
            None => "(panic)".to_string(),
        };
        let c1 = Case { scheme: c.scheme.clone(), keys: vec![k], known: c.known.clone() };
        let inp = sexp::l(vec![
            sexp::a("c12m"),
            sexp::list(&c.scheme, |r| sexp::nums(r)),
            sexp::a(k),
            sexp::nums(&c.known),
        ]);
        out.case(inp.to_string(), shown, false);
        if oracle {
            if let Some(v) = &res {
                let mut l = c1.to_s("c12v").as_list().to_vec();
                l.push(sexp::nums(v));
                out.case(S::L(l).to_string(), "1".into(), false);
            }
        }
        if oracle {
            if let Some(v) = &res {
                if let Some(msg) = spec_check(&c1, v) {
                    out.violation(format!("missing_bindings: {}", msg), c1.to_s("c12").to_string());
                }
            }
        }
    }
}

fn gen_scheme(rng: &mut Rng, n: usize, acyclic: bool) -> Vec<Vec<usize>> {
    // random relabelling so that prerequisites are not always smaller keys
    let mut perm: Vec<usize> = (0..n).collect();
    if rng.chance(1, 2) {
        rng.shuffle(&mut perm);
    }
    let mut scheme = vec![vec![]; n];
    for i in 0..n {
        let k = perm[i];
        let mut reqs = vec![];
        let candidates: Vec<usize> = if acyclic { perm[..i].to_vec() } else { perm.clone() };
        if !candidates.is_empty() {
            let m = match rng.below(10) {
                0..=2 => 0,
                3..=5 => 1,
                6..=8 => 2,
                _ => 3,
            };
            for _ in 0..m {
                reqs.push(*rng.pick(&candidates));
            }
        }
        scheme[k] = reqs;
    }
    scheme
}

fn gen_case(rng: &mut Rng, acyclic: bool) -> Case {
    let n = rng.range(1, 8);
    let scheme = gen_scheme(rng, n, acyclic);
    let nk = rng.range(0, 3);
    let keys = (0..nk).map(|_| rng.below(n + 1)).collect(); // n itself: a key outside the table
    let mut known: Vec<usize> = (0..n).filter(|_| rng.chance(1, 4)).collect();
    if rng.chance(1, 2) {
        // make the known set prerequisite-closed (what every call site passes)
        let mut changed = true;
        while changed {
            changed = false;
            for k in known.clone() {
                for &r in &scheme[k] {
                    if !known.contains(&r) {
                        known.push(r);
                        changed = true;
                    }
                }
            }
        }
    }
    rng.shuffle(&mut known);
    Case { scheme, keys, known }
}

/// All schemes on `n` keys whose prerequisite lists are ordered lists (no
/// repetition) over smaller keys, of length <= 2.
fn all_schemes(n: usize) -> Vec<Vec<Vec<usize>>> {
    fn lists(k: usize) -> Vec<Vec<usize>> {
        let mut v = vec![vec![]];
        for a in 0..k {
            v.push(vec![a]);
            for b in 0..k {
                if a != b {
                    v.push(vec![a, b]);
                }
            }
        }
        v
    }
    let mut acc: Vec<Vec<Vec<usize>>> = vec![vec![]];
    for k in 0..n {
        let mut next = vec![];
        for s in &acc {
            for l in lists(k) {
                let mut s2 = s.clone();
                s2.push(l);
                next.push(s2);
            }
        }
        acc = next;
    }
    acc
}

pub fn run(tier: Tier, seed: u64, out: &mut Out) {
    let mut rng = Rng::new(seed);
    // corpus first: D1 witness and the pinned unit test
    for c in [
        Case { scheme: vec![vec![1, 2], vec![], vec![1]], keys: vec![0], known: vec![] },
        Case { scheme: vec![vec![], vec![0], vec![1], vec![2], vec![3]], keys: vec![1, 4], known: vec![3] },
        Case { scheme: vec![vec![], vec![0], vec![1], vec![2], vec![3]], keys: vec![4], known: vec![] },
    ] {
        eval(&c, out, true);
    }
    // exhaustive small space
    let nmax = if tier == Tier::Thorough { 4 } else { 3 };
    let mut n_ex = 0usize;
    for n in 1..=nmax {
        for scheme in all_schemes(n) {
            let mut reqs: Vec<Vec<usize>> = vec![vec![]];
            for a in 0..n {
                reqs.push(vec![a]);
                for b in 0..n {
                    reqs.push(vec![a, b]);
                }
            }
            for keys in &reqs {
                for mask in 0..(1usize << n) {
                    let known: Vec<usize> = (0..n).filter(|i| mask & (1 << i) != 0).collect();
                    eval(&Case { scheme: scheme.clone(), keys: keys.clone(), known }, out, true);
                    n_ex += 1;
                }
            }
        }
    }
    out.notes.push(format!(
        "exhaustive part: all schemes on <= {} keys (ordered prerequisite lists of length <= 2 over smaller keys) x all requested lists of length <= 2 x all known sets: {} cases",
        nmax, n_ex
    ));
    let n_random = if tier == Tier::Thorough { 200_000 } else { 4_000 };
    for _ in 0..n_random {
        let c = gen_case(&mut rng, true);
        debug_assert!(is_acyclic(&c.scheme));
        eval(&c, out, true);
    }
    // malformed stream: cyclic schemes, correspondence only (the property does not apply)
    for _ in 0..n_random / 10 {
        let c = gen_case(&mut rng, false);
        let acyc = is_acyclic(&c.scheme);
        out.count("malformed_stream_acyclic", acyc);
        eval(&c, out, acyc);
    }
}

pub fn replay(line: &str, out: &mut Out) {
    let c = Case::from_s(&sexp::parse(line).unwrap());
    eval(&c, out, is_acyclic(&c.scheme));
}
