//! C13 — IndexedData::bind_all on the table domain.
use crate::out::{catch, Out};
use crate::rng::Rng;
use crate::sexp::{self, S};
use crate::table::{set_scheme, tmap_from_s, tmap_s, TMap, TableHost};
use crate::Tier;
use portmatching::{BindMap, IndexedData};

#[derive(Clone, Debug)]
pub struct Case {
    pub host: TableHost,
    pub start: TMap,
    pub keys: Vec<usize>,
    pub inc: bool,
}

impl Case {
    fn to_s(&self) -> S {
        sexp::l(vec![
            sexp::a("c13"),
            self.host.to_s(),
            tmap_s(&self.start),
            sexp::nums(&self.keys),
            sexp::b(self.inc),
        ])
    }
    fn from_s(s: &S) -> Case {
        let l = s.as_list();
        Case {
            host: TableHost::from_s(&l[1]),
            start: tmap_from_s(&l[2]),
            keys: l[3].usizes(),
            inc: l[4].as_usize() != 0,
        }
    }
}

/// The specification: recursive depth-first enumeration.
fn extend(host: &TableHost, m: &TMap, keys: &[usize], inc: bool, acc: &mut Vec<TMap>) {
    let Some((&k, rest)) = keys.split_first() else {
        acc.push(m.clone());
        return;
    };
    if m.get(&k).is_some() {
        return extend(host, m, rest, inc, acc);
    }
    let offered = host.list_bind_options(&k, m);
    if offered.is_empty() {
        if inc {
            extend(host, m, rest, inc, acc);
        }
        return;
    }
    for v in offered {
        // a fresh key accepts any value in a lawful map; the spec does not call bind
        let mut m2 = m.clone();
        m2.insert(k, v);
        extend(host, &m2, rest, inc, acc);
    }
}

fn eval(c: &Case, out: &mut Out) {
    set_scheme(&c.host.req);
    let res = catch(|| c.host.bind_all(c.start.clone(), c.keys.iter().copied(), c.inc));
    let shown = match &res {
        Some(v) => format!("(ok {})", sexp::list(v, tmap_s)),
        None => "(panic)".to_string(),
    };
    // non-trivial: some listed key has >= 2 options, is pre-bound, or has no option
    let mut nontrivial = false;
    for &k in &c.keys {
        if c.start.contains_key(&k) {
            nontrivial = true;
        }
        if let Some(rows) = c.host.rows.get(k) {
            if rows.iter().any(|r| r.len() >= 2 || r.is_empty()) {
                nontrivial = true;
            }
        } else {
            nontrivial = true;
        }
    }
    out.case(c.to_s().to_string(), shown, nontrivial);
    out.count("n_keys_listed", c.keys.len());
    out.count("n_prebound", c.start.len());
    out.count("allow_incomplete", c.inc);
    out.count("n_results", res.as_ref().map_or(-1, |v| v.len() as i64));
    match &res {
        None => out.violation("bind_all panicked".into(), c.to_s().to_string()),
        Some(v) => {
            let mut spec = vec![];
            extend(&c.host, &c.start, &c.keys, c.inc, &mut spec);
            // "exactly the maps ..., one map per combination": a multiset, the order of the
            // returned vector is not part of the property
            let canon = |l: &Vec<_>| {
                let mut t: Vec<String> = l.iter().map(|m| tmap_s(m).to_string()).collect();
                t.sort();
                t
            };
            if canon(&spec) != canon(v) {
                out.violation(
                    format!(
                        "bind_all returned {} but the extensions are {}",
                        sexp::list(v, tmap_s),
                        sexp::list(&spec, tmap_s)
                    ),
                    c.to_s().to_string(),
                );
            }
            for m in v {
                for (k, val) in &c.start {
                    if BindMap::get(m, k) != Some(val) {
                        out.violation(
                            format!("existing binding {}->{} altered", k, val),
                            c.to_s().to_string(),
                        );
                    }
                }
                if !c.inc {
                    for k in &c.keys {
                        if m.get(k).is_none() {
                            out.violation(format!("listed key {} left unbound", k), c.to_s().to_string());
                        }
                    }
                }
            }
        }
    }
}

fn gen_host(rng: &mut Rng, n: usize, maxval: usize) -> TableHost {
    let mut req = vec![];
    let mut rows = vec![];
    for k in 0..n {
        let mut r = vec![];
        if k > 0 {
            for _ in 0..rng.below(3) {
                r.push(rng.below(k));
            }
        }
        req.push(r);
        let nrows = rng.range(0, 3);
        let mut rs = vec![];
        for _ in 0..nrows {
            let nv = match rng.below(8) {
                0 => 0,
                1..=3 => 1,
                4..=6 => 2,
                _ => 3,
            };
            rs.push((0..nv).map(|_| rng.below(maxval + 1)).collect());
        }
        rows.push(rs);
    }
    TableHost { req, rows }
}

fn gen_case(rng: &mut Rng) -> Case {
    let n = rng.range(1, 6);
    let host = gen_host(rng, n, 3);
    let mut start = TMap::default();
    for k in 0..n {
        if rng.chance(1, 5) {
            start.insert(k, rng.below(4));
        }
    }
    let nk = rng.range(0, 6);
    let keys = if rng.chance(1, 2) {
        // prerequisite-first order, as the engine passes
        let mut ks: Vec<usize> = (0..n).filter(|_| rng.chance(2, 3)).collect();
        ks.truncate(nk);
        ks
    } else {
        (0..nk).map(|_| rng.below(n + 1)).collect()
    };
    Case { host, start, keys, inc: rng.chance(1, 2) }
}

pub fn run(tier: Tier, seed: u64, out: &mut Out) {
    let mut rng = Rng::new(seed);
    // corpus
    eval(
        &Case {
            host: TableHost {
                req: vec![vec![], vec![0], vec![]],
                rows: vec![vec![vec![1, 2]], vec![vec![7], vec![8, 9], vec![10]], vec![vec![4]]],
            },
            start: [(2usize, 4usize)].into_iter().collect(),
            keys: vec![0, 1, 2],
            inc: false,
        },
        out,
    );
    // exhaustive: tables with <= 2 (quick) / 3 (thorough) keys over values {0,1}, chain prerequisites
    let nmax = if tier == Tier::Thorough { 3 } else { 2 };
    let row_choices: Vec<Vec<usize>> = vec![vec![], vec![0], vec![1], vec![0, 1]];
    let mut n_ex = 0;
    for n in 1..=nmax {
        // each key: one or two rows chosen from row_choices; key k depends on k-1
        let per_key: Vec<Vec<Vec<usize>>> = {
            let mut v = vec![];
            for a in &row_choices {
                v.push(vec![a.clone()]);
                for b in &row_choices {
                    v.push(vec![a.clone(), b.clone()]);
                }
            }
            v
        };
        let mut idx = vec![0usize; n];
        loop {
            let host = TableHost {
                req: (0..n).map(|k| if k == 0 { vec![] } else { vec![k - 1] }).collect(),
                rows: idx.iter().map(|&i| per_key[i].clone()).collect(),
            };
            let all_keys: Vec<usize> = (0..n).collect();
            for inc in [false, true] {
                for pre in 0..=n {
                    // pre == n: nothing pre-bound; else key `pre` pre-bound to 1
                    let mut start = TMap::default();
                    if pre < n {
                        start.insert(pre, 1);
                    }
                    eval(&Case { host: host.clone(), start, keys: all_keys.clone(), inc }, out);
                    n_ex += 1;
                }
            }
            // next index vector
            let mut i = 0;
            loop {
                if i == n {
                    break;
                }
                idx[i] += 1;
                if idx[i] < per_key.len() {
                    break;
                }
                idx[i] = 0;
                i += 1;
            }
            if i == n {
                break;
            }
        }
    }
    out.notes.push(format!(
        "exhaustive part: chain tables with <= {} keys, 1-2 rows per key over subsets of {{0,1}}, both modes, each single pre-bound key: {} cases",
        nmax, n_ex
    ));
    let n_random = if tier == Tier::Thorough { 200_000 } else { 5_000 };
    for _ in 0..n_random {
        let c = gen_case(&mut rng);
        eval(&c, out);
    }
}

pub fn replay(line: &str, out: &mut Out) {
    let c = Case::from_s(&sexp::parse(line).unwrap());
    eval(&c, out);
}
