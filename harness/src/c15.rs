//! C15 — OnlineToposort::next under graph edits (utils/toposort.rs via the `verif` hook).
use crate::out::{catch, Out};
use crate::rng::Rng;
use crate::sexp::{self, S};
use crate::Tier;
use petgraph::stable_graph::{NodeIndex, StableDiGraph};
use petgraph::visit::{EdgeRef, IntoEdgeReferences};
use petgraph::Direction;
use portmatching::verif::online_toposort;
use rustc_hash::FxHashSet;

#[derive(Clone, Debug, PartialEq)]
pub enum Step {
    Next,
    AddNode(Vec<usize>),
    AddEdge(usize, usize),
    RemoveEdge(usize, usize),
    RemoveNode(usize),
}

#[derive(Clone, Debug)]
pub struct Case {
    pub n_init: usize,
    pub init_edges: Vec<(usize, usize)>,
    pub steps: Vec<Step>,
}

type G = StableDiGraph<(), ()>;

fn step_s(s: &Step) -> S {
    match s {
        Step::Next => sexp::l(vec![sexp::a("n")]),
        Step::AddNode(ps) => sexp::l(vec![sexp::a("an"), sexp::nums(ps)]),
        Step::AddEdge(a, b) => sexp::l(vec![sexp::a("ae"), sexp::a(a), sexp::a(b)]),
        Step::RemoveEdge(a, b) => sexp::l(vec![sexp::a("re"), sexp::a(a), sexp::a(b)]),
        Step::RemoveNode(a) => sexp::l(vec![sexp::a("rn"), sexp::a(a)]),
    }
}

impl Case {
    fn replay_s(&self) -> String {
        sexp::l(vec![
            sexp::a("c15r"),
            sexp::a(self.n_init),
            sexp::list(&self.init_edges, |(a, b)| sexp::nums([*a, *b])),
            sexp::list(&self.steps, step_s),
        ])
        .to_string()
    }
    fn from_s(s: &S) -> Case {
        let l = s.as_list();
        Case {
            n_init: l[1].as_usize(),
            init_edges: l[2].as_list().iter().map(|e| { let v = e.usizes(); (v[0], v[1]) }).collect(),
            steps: l[3]
                .as_list()
                .iter()
                .map(|st| {
                    let st = st.as_list();
                    match st[0].as_str() {
                        "n" => Step::Next,
                        "an" => Step::AddNode(st[1].usizes()),
                        "ae" => Step::AddEdge(st[1].as_usize(), st[2].as_usize()),
                        "re" => Step::RemoveEdge(st[1].as_usize(), st[2].as_usize()),
                        _ => Step::RemoveNode(st[1].as_usize()),
                    }
                })
                .collect(),
        }
    }
}

fn build_init(c: &Case) -> G {
    let mut g = G::default();
    for _ in 0..c.n_init {
        g.add_node(());
    }
    for &(a, b) in &c.init_edges {
        if a < c.n_init && b < c.n_init {
            g.add_edge(NodeIndex::new(a), NodeIndex::new(b), ());
        }
    }
    g
}

/// Apply an edit; returns the index of an added node.
fn apply(g: &mut G, s: &Step) -> Option<usize> {
    match s {
        Step::Next => None,
        Step::AddNode(ps) => {
            let n = g.add_node(());
            for &p in ps {
                if g.contains_node(NodeIndex::new(p)) {
                    g.add_edge(NodeIndex::new(p), n, ());
                }
            }
            Some(n.index())
        }
        Step::AddEdge(a, b) => {
            if g.contains_node(NodeIndex::new(*a)) && g.contains_node(NodeIndex::new(*b)) {
                g.add_edge(NodeIndex::new(*a), NodeIndex::new(*b), ());
            }
            None
        }
        Step::RemoveEdge(a, b) => {
            if let Some(e) = g.find_edge(NodeIndex::new(*a), NodeIndex::new(*b)) {
                g.remove_edge(e);
            }
            None
        }
        Step::RemoveNode(a) => {
            g.remove_node(NodeIndex::new(*a));
            None
        }
    }
}

fn preds(g: &G, n: NodeIndex) -> Vec<usize> {
    g.neighbors_directed(n, Direction::Incoming).map(|p| p.index()).collect()
}

fn is_acyclic(g: &G) -> bool {
    petgraph::algo::toposort(g, None).is_ok()
}

fn sources(g: &G) -> Vec<usize> {
    g.node_indices().filter(|&n| g.neighbors_directed(n, Direction::Incoming).next().is_none()).map(|n| n.index()).collect()
}

fn snapshot(g: &G) -> S {
    sexp::list(g.node_indices(), |n| {
        sexp::l(vec![sexp::a(n.index()), sexp::nums(g.neighbors_directed(n, Direction::Outgoing).map(|m| m.index()))])
    })
}

pub struct Outcome {
    pub emitted: Vec<Option<usize>>,
    pub panicked: bool,
    pub admissible: bool,
    pub verdict: Option<String>,
    pub model_input: String,
    pub edits_between_nexts: bool,
}

/// Run the implementation on a history; judge it against the three clauses of
/// C15 when the history is admissible.
pub fn run_case(c: &Case) -> Outcome {
    let mut g = build_init(c);
    let root = NodeIndex::new(0);
    let mut ts = online_toposort(root);
    let mut shadow: FxHashSet<NodeIndex> = FxHashSet::default();
    let mut emitted_set: Vec<usize> = vec![];
    let mut ever_used: FxHashSet<usize> = (0..c.n_init).collect();
    let mut out = vec![];
    let mut calls = vec![];
    let mut admissible = is_acyclic(&g) && sources(&g) == vec![0];
    let mut verdict: Option<String> = None;
    let mut panicked = false;
    let mut seen_next = false;
    let mut edits_between = false;
    let mut pending_edit = false;
    for (i, s) in c.steps.iter().enumerate() {
        match s {
            Step::Next => {
                if seen_next && pending_edit {
                    edits_between = true;
                }
                seen_next = true;
                pending_edit = false;
                let order: Vec<usize> = shadow.iter().map(|n| n.index()).collect();
                calls.push(sexp::l(vec![snapshot(&g), sexp::nums(order)]));
                let r = catch(|| ts.next(&g));
                match r {
                    None => {
                        panicked = true;
                        if admissible && verdict.is_none() {
                            verdict = Some(format!("step {}: next() panicked", i));
                        }
                        break;
                    }
                    Some(Some(n)) => {
                        if admissible && verdict.is_none() {
                            if emitted_set.contains(&n.index()) {
                                verdict = Some(format!("step {}: node {} emitted twice", i, n.index()));
                            } else if !g.contains_node(n) {
                                verdict = Some(format!("step {}: emitted node {} is not in the graph", i, n.index()));
                            } else if let Some(p) = preds(&g, n).into_iter().find(|p| !emitted_set.contains(p)) {
                                verdict = Some(format!("step {}: node {} emitted before its current predecessor {}", i, n.index(), p));
                            }
                        }
                        shadow.insert(n);
                        emitted_set.push(n.index());
                        out.push(Some(n.index()));
                    }
                    Some(None) => {
                        if admissible && verdict.is_none() {
                            if let Some(n) = g.node_indices().find(|n| !emitted_set.contains(&n.index())) {
                                // sources == {root}: exhaustion may only be reported once the root was emitted
                                verdict = Some(format!("step {}: exhaustion reported but node {} was never emitted", i, n.index()));
                            }
                        }
                        out.push(None);
                    }
                }
            }
            edit => {
                pending_edit = true;
                // admissibility of this edit
                match edit {
                    Step::AddEdge(a, b) => {
                        if emitted_set.contains(b) && !emitted_set.contains(a) {
                            admissible = false;
                        }
                    }
                    Step::AddNode(_) => {}
                    _ => {}
                }
                if let Some(n) = apply(&mut g, edit) {
                    if !ever_used.insert(n) {
                        admissible = false; // identifier reused
                    }
                }
                if !g.contains_node(root) || !is_acyclic(&g) || sources(&g) != vec![0] {
                    admissible = false;
                }
            }
        }
    }
    let model_input = sexp::l(vec![sexp::a("c15"), sexp::a(0), S::L(calls)]).to_string();
    Outcome { emitted: out, panicked, admissible, verdict, model_input, edits_between_nexts: edits_between }
}

fn eval(c: &Case, o: &mut Out) {
    let r = run_case(c);
    let res = if r.panicked {
        "(panic)".to_string()
    } else {
        sexp::list(&r.emitted, |e| match e { Some(n) => sexp::a(n), None => sexp::a("-") }).to_string()
    };
    // inadmissible histories are outside the property: their comparison with the model is kept as
    // information (case kind c15x: a difference there is recorded, not reported)
    let model_input = if r.admissible { r.model_input.clone() } else { r.model_input.replacen("(c15 ", "(c15x ", 1) };
    o.case(model_input, res.clone(), r.edits_between_nexts);
    // admissible histories: the verified validator (Cert/TopoCheck.v) on the history itself —
    // the property does not say which of several ready nodes is emitted first
    if r.admissible && !r.panicked {
        let calls = sexp::parse(&r.model_input).unwrap().as_list()[2].clone();
        o.case(sexp::l(vec![sexp::a("c15v"), calls, sexp::parse(&res).unwrap()]).to_string(), "1".into(), r.edits_between_nexts);
    }
    o.count("history", if r.admissible { "admissible" } else { "inadmissible" });
    o.count("nexts", c.steps.iter().filter(|s| **s == Step::Next).count().min(12));
    o.count("edits", c.steps.iter().filter(|s| **s != Step::Next).count().min(12));
    o.count("exhaustion_reported", r.emitted.iter().any(|e| e.is_none()));
    if let Some(v) = r.verdict {
        o.violation(format!("OnlineToposort on an admissible edit history: {}", v), c.replay_s());
    }
}

/// Random history. `admissible`: edits are filtered so that the graph stays an
/// acyclic graph whose only source is node 0, no edge is added into an emitted
/// node from an unemitted one, and no identifier is reused.
fn gen_case(rng: &mut Rng, admissible: bool, max_nodes: usize, max_steps: usize) -> Case {
    let n = rng.range(1, max_nodes);
    let mut init_edges = vec![];
    for b in 1..n {
        // at least one predecessor among the smaller nodes
        let a = rng.below(b);
        init_edges.push((a, b));
        for a in 0..b {
            if rng.chance(1, 4) {
                init_edges.push((a, b));
            }
        }
        if rng.chance(1, 6) {
            init_edges.push((a, b)); // parallel edge
        }
    }
    if !admissible && rng.chance(1, 4) && n >= 2 {
        init_edges.push((rng.below(n), rng.below(n)));
    }
    rng.shuffle(&mut init_edges);
    let mut c = Case { n_init: n, init_edges, steps: vec![] };
    let n_steps = rng.range(1, max_steps);
    // simulate to filter edits
    let mut g = build_init(&c);
    let mut ts = online_toposort(NodeIndex::new(0));
    let mut emitted: Vec<usize> = vec![];
    let mut removed_any = false;
    for _ in 0..n_steps {
        if rng.chance(1, 2) {
            c.steps.push(Step::Next);
            if let Some(Some(x)) = catch(|| ts.next(&g)) {
                emitted.push(x.index());
            }
            continue;
        }
        let nodes: Vec<usize> = g.node_indices().map(|x| x.index()).collect();
        if nodes.is_empty() {
            continue;
        }
        let pick = |rng: &mut Rng| nodes[rng.below(nodes.len())];
        let edit = match rng.below(10) {
            0..=2 => {
                let k = rng.range(1, 2);
                Step::AddNode((0..k).map(|_| pick(rng)).collect())
            }
            3..=5 => Step::AddEdge(pick(rng), pick(rng)),
            6..=7 => {
                let es: Vec<(usize, usize)> = g.edge_references().map(|e| (e.source().index(), e.target().index())).collect();
                if es.is_empty() { continue; }
                let (a, b) = es[rng.below(es.len())];
                Step::RemoveEdge(a, b)
            }
            _ => Step::RemoveNode(pick(rng)),
        };
        if admissible {
            if removed_any && matches!(edit, Step::AddNode(_)) {
                continue; // petgraph would reuse the freed identifier
            }
            if let Step::AddEdge(a, b) = &edit {
                if emitted.contains(b) && !emitted.contains(a) {
                    continue;
                }
            }
            let mut g2 = g.clone();
            apply(&mut g2, &edit);
            if !g2.contains_node(NodeIndex::new(0)) || !is_acyclic(&g2) || sources(&g2) != vec![0] {
                continue;
            }
        }
        if matches!(edit, Step::RemoveNode(_)) {
            removed_any = true;
        }
        apply(&mut g, &edit);
        c.steps.push(edit);
    }
    // drain
    let extra = if rng.chance(3, 4) { g.node_count() + 2 } else { rng.below(3) };
    for _ in 0..extra {
        c.steps.push(Step::Next);
    }
    c
}

pub fn run(tier: Tier, seed: u64, o: &mut Out) {
    let mut rng = Rng::new(seed ^ 0xC15);
    // corpus: the scripted edit of the repository's unit test, and parallel edges c,d,c
    let corpus = [
        "(c15r 4 ((0 2) (2 3) (3 1)) ((n) (n) (n) (re 3 1) (ae 2 1) (n) (an (0)) (n) (n)))",
        "(c15r 3 ((0 1) (0 2) (0 1)) ((n) (n) (n) (n)))",
        "(c15r 3 ((0 1) (0 2)) ((n) (n) (ae 1 2) (n) (n) (n)))",
        "(c15r 3 ((0 1) (0 2)) ((n) (n) (an (0)) (ae 3 1) (ae 3 2) (n) (n) (n) (n)))",
    ];
    for line in corpus {
        eval(&Case::from_s(&sexp::parse(line).unwrap()), o);
    }
    let n = if tier == Tier::Thorough { 400_000 } else { 12_000 };
    for i in 0..n {
        let admissible = i % 4 != 3;
        let c = gen_case(&mut rng, admissible, if i % 2 == 0 { 5 } else { 8 }, if i % 3 == 0 { 24 } else { 10 });
        eval(&c, o);
    }
    o.notes.push(format!("{} random edit histories (3/4 admissible by construction, 1/4 unrestricted incl. cycles, identifier reuse and edges into emitted nodes), graphs of <= 8 initial nodes with parallel edges, <= 24 steps + drain", n));
}

pub fn replay(line: &str, o: &mut Out) {
    let s = sexp::parse(line).unwrap();
    eval(&Case::from_s(&s), o);
}
