//! Common output of one property run: model input lines, implementation
//! results, oracle violations, known-finding classes met, statistics.
use crate::json::J;
use std::collections::{BTreeMap, HashSet};
use std::hash::{Hash, Hasher};
use std::io::Write;

pub struct Violation {
    /// what the oracle found, human readable
    pub what: String,
    /// the replayable input (an s-expression line understood by `pmv <prop> --replay`)
    pub replay: String,
    /// size measure used to keep the smallest ones
    pub size: usize,
}

#[derive(Default)]
pub struct Out {
    pub cases: Vec<String>,
    pub rust: Vec<String>,
    pub violations: Vec<Violation>,
    /// known-finding class -> (count, first example)
    pub known: BTreeMap<String, (usize, String)>,
    pub evaluations: usize,
    pub nontrivial: HashSet<u64>,
    pub samples: Vec<String>,
    pub hist: BTreeMap<String, BTreeMap<String, usize>>,
    pub exhaustive: bool,
    pub notes: Vec<String>,
}

pub fn hash_str(s: &str) -> u64 {
    let mut h = std::collections::hash_map::DefaultHasher::new();
    s.hash(&mut h);
    h.finish()
}

impl Out {
    /// Record one case that is compared with the model.
    pub fn case(&mut self, model_input: String, rust_result: String, nontrivial: bool) {
        self.evaluations += 1;
        if nontrivial {
            self.nontrivial.insert(hash_str(&model_input));
        }
        if self.samples.len() < 5 && (nontrivial || self.evaluations % 97 == 0) {
            self.samples.push(format!("{} => {}", model_input, rust_result));
        }
        self.cases.push(model_input);
        self.rust.push(rust_result);
    }
    /// Record a case that is only checked by the oracle (not sent to the model).
    pub fn oracle_case(&mut self, canon: &str, nontrivial: bool) {
        self.evaluations += 1;
        if nontrivial {
            self.nontrivial.insert(hash_str(canon));
        }
        if self.samples.len() < 5 && nontrivial {
            self.samples.push(canon.to_string());
        }
    }
    pub fn count(&mut self, hist: &str, bucket: impl ToString) {
        *self
            .hist
            .entry(hist.to_string())
            .or_default()
            .entry(bucket.to_string())
            .or_default() += 1;
    }
    pub fn violation(&mut self, what: String, replay: String) {
        let size = replay.len();
        self.violations.push(Violation { what, replay, size });
    }
    pub fn known_finding(&mut self, class: &str, example: String) {
        let e = self.known.entry(class.to_string()).or_insert((0, example));
        e.0 += 1;
    }

    pub fn write(&mut self, dir: &str) {
        std::fs::create_dir_all(dir).unwrap();
        let mut f = std::fs::File::create(format!("{}/cases.sexp", dir)).unwrap();
        for c in &self.cases {
            writeln!(f, "{}", c).unwrap();
        }
        let mut f = std::fs::File::create(format!("{}/rust.out", dir)).unwrap();
        for c in &self.rust {
            writeln!(f, "{}", c).unwrap();
        }
        self.violations.sort_by_key(|v| v.size);
        let mut o = J::obj();
        o.set(
            "violations",
            J::Arr(
                self.violations
                    .iter()
                    .take(20)
                    .map(|v| {
                        let mut j = J::obj();
                        j.set("what", J::s(&v.what)).set("replay", J::s(&v.replay));
                        j
                    })
                    .collect(),
            ),
        );
        o.set("n_violations", J::i(self.violations.len()));
        o.set(
            "known",
            J::Arr(
                self.known
                    .iter()
                    .map(|(k, (n, ex))| {
                        let mut j = J::obj();
                        j.set("class", J::s(k)).set("count", J::i(*n)).set("example", J::s(ex));
                        j
                    })
                    .collect(),
            ),
        );
        o.set("evaluations", J::i(self.evaluations));
        o.set("distinct_nontrivial", J::i(self.nontrivial.len()));
        o.set("samples", J::Arr(self.samples.iter().map(J::s).collect()));
        o.set("exhaustive", J::Bool(self.exhaustive));
        o.set("notes", J::Arr(self.notes.iter().map(J::s).collect()));
        let mut h = J::obj();
        for (k, m) in &self.hist {
            let mut hm = J::obj();
            for (b, n) in m {
                hm.set(b, J::i(*n));
            }
            h.set(k, hm);
        }
        o.set("histograms", h);
        std::fs::write(format!("{}/stats.json", dir), o.render()).unwrap();
    }
}

/// Run a closure, turning a panic into None (the default panic hook is silenced
/// by main()).
pub fn catch<T>(f: impl FnOnce() -> T) -> Option<T> {
    std::panic::catch_unwind(std::panic::AssertUnwindSafe(f)).ok()
}
