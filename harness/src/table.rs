//! The harness-defined table domain (mirrors coq/theories/Model/DomTable.v).
use portmatching::{
    ArityPredicate, Constraint, IndexedData, IndexingScheme, Predicate,
};
use rustc_hash::FxHashMap;
use std::borrow::Borrow;
use std::cell::RefCell;

use crate::sexp::{self, S};

thread_local! {
    /// The prerequisite lists used by `TableScheme::default()`.
    pub static SCHEME: RefCell<Vec<Vec<usize>>> = RefCell::new(vec![]);
    /// Number of predicate invocations (recording predicate).
    pub static CALLS: RefCell<usize> = RefCell::new(0);
}

pub fn set_scheme(s: &[Vec<usize>]) {
    SCHEME.with(|x| *x.borrow_mut() = s.to_vec());
}

#[derive(Clone, Debug, Default)]
pub struct TableScheme;

pub type TMap = FxHashMap<usize, usize>;

impl IndexingScheme for TableScheme {
    type BindMap = TMap;
    fn required_bindings(&self, key: &usize) -> Vec<usize> {
        SCHEME.with(|s| s.borrow().get(*key).cloned().unwrap_or_default())
    }
}

#[derive(Clone, Debug)]
pub struct TableHost {
    pub req: Vec<Vec<usize>>,
    pub rows: Vec<Vec<Vec<usize>>>,
}

impl TableHost {
    pub fn to_s(&self) -> S {
        sexp::l(vec![
            sexp::list(&self.req, |r| sexp::nums(r)),
            sexp::list(&self.rows, |rows| sexp::list(rows, |r| sexp::nums(r))),
        ])
    }
    pub fn from_s(s: &S) -> Self {
        let l = s.as_list();
        TableHost {
            req: l[0].as_list().iter().map(|x| x.usizes()).collect(),
            rows: l[1]
                .as_list()
                .iter()
                .map(|rows| rows.as_list().iter().map(|r| r.usizes()).collect())
                .collect(),
        }
    }
}

impl IndexedData for TableHost {
    type IndexingScheme = TableScheme;
    fn list_bind_options(&self, key: &usize, known: &TMap) -> Vec<usize> {
        let empty = vec![];
        let prereqs = self.req.get(*key).unwrap_or(&empty);
        let mut sum = 0usize;
        for r in prereqs {
            match known.get(r) {
                Some(v) => sum += *v,
                None => return vec![],
            }
        }
        let Some(rows) = self.rows.get(*key) else {
            return vec![];
        };
        if rows.is_empty() {
            return vec![];
        }
        rows[sum % rows.len()].clone()
    }
}

#[derive(Clone, Debug, PartialEq, Eq, Hash, PartialOrd, Ord)]
pub enum TPred {
    Always,
    EqConst(usize),
    EqKeys,
    NeKeys,
    Rec(usize),
}

impl TPred {
    pub fn to_s(&self) -> S {
        match self {
            TPred::Always => sexp::l(vec![sexp::a("always")]),
            TPred::EqConst(c) => sexp::l(vec![sexp::a("eqc"), sexp::a(c)]),
            TPred::EqKeys => sexp::l(vec![sexp::a("eqk")]),
            TPred::NeKeys => sexp::l(vec![sexp::a("nek")]),
            TPred::Rec(n) => sexp::l(vec![sexp::a("rec"), sexp::a(n)]),
        }
    }
    pub fn from_s(s: &S) -> Self {
        let l = s.as_list();
        match l[0].as_str() {
            "always" => TPred::Always,
            "eqc" => TPred::EqConst(l[1].as_usize()),
            "eqk" => TPred::EqKeys,
            "nek" => TPred::NeKeys,
            "rec" => TPred::Rec(l[1].as_usize()),
            x => panic!("bad tpred {}", x),
        }
    }
}

impl ArityPredicate for TPred {
    fn arity(&self) -> usize {
        match self {
            TPred::Always => 0,
            TPred::EqConst(_) => 1,
            TPred::EqKeys | TPred::NeKeys => 2,
            TPred::Rec(n) => *n,
        }
    }
}

impl Predicate<TableHost> for TPred {
    fn check(&self, _: &TableHost, args: &[impl Borrow<usize>]) -> bool {
        CALLS.with(|c| *c.borrow_mut() += 1);
        let vs: Vec<usize> = args.iter().map(|a| *a.borrow()).collect();
        match (self, vs.as_slice()) {
            (TPred::Always, []) => true,
            (TPred::EqConst(c), [v]) => v == c,
            (TPred::EqKeys, [a, b]) => a == b,
            (TPred::NeKeys, [a, b]) => a != b,
            (TPred::Rec(n), vs) if vs.len() == *n => vs.windows(2).all(|w| w[0] == w[1]),
            _ => panic!("arity mismatch"),
        }
    }
}

pub type TConstraint = Constraint<usize, TPred>;

pub fn tmap_s(m: &TMap) -> S {
    let mut v: Vec<(usize, usize)> = m.iter().map(|(k, v)| (*k, *v)).collect();
    v.sort();
    sexp::list(v, |(k, v)| sexp::nums([k, v]))
}

pub fn tmap_from_s(s: &S) -> TMap {
    s.as_list()
        .iter()
        .map(|e| {
            let l = e.usizes();
            (l[0], l[1])
        })
        .collect()
}
