(** C16 — Constraints check arity and report unbound arguments instead of evaluating.
    Statements only; proofs live in Proofs/ConstraintProofs.v. *)
From PM Require Import Model.Prelude Model.Domain Model.Constraint Model.DomTable
  Proofs.ConstraintProofs.

Theorem c16_try_new_ok_iff :
  forall (K V M H P : Type) (D : DomOps K V M H P) (p : P) (args : list K),
    (exists c, try_new D p args = inr c) <-> length args = arity D p.
Proof. exact @try_new_ok_iff. Qed.

Theorem c16_try_new_value :
  forall (K V M H P : Type) (D : DomOps K V M H P) (p : P) (args : list K) c,
    try_new D p args = inr c -> cpred c = p /\ cargs c = args.
Proof. exact @try_new_ok_value. Qed.

Theorem c16_try_new_err :
  forall (K V M H P : Type) (D : DomOps K V M H P) (p : P) (args : list K) e,
    try_new D p args = inl e -> e = (arity D p, length args) /\ length args <> arity D p.
Proof. exact @try_new_err. Qed.

Theorem c16_try_binary_ok_iff :
  forall (K V M H P : Type) (D : DomOps K V M H P) (l : K) (p : P) (r : K),
    (exists c, try_binary_from_triple D l p r = inr c) <-> arity D p = 2.
Proof. exact @try_binary_ok_iff. Qed.

Theorem c16_is_satisfied_bound :
  forall (K V M H P : Type) (D : DomOps K V M H P) (h : H) (c : constraint K P) (m : M)
         (vs : list V),
    Forall2 (fun k v => mget D m k = Some v) (cargs c) vs ->
    is_satisfied_calls D h c m = (let* b := check D h (cpred c) vs in Ok (SatVerdict b, 1)).
Proof. exact @is_satisfied_bound. Qed.

Theorem c16_first_unbound_is_first :
  forall (K V M H P : Type) (D : DomOps K V M H P) (m : M) (args : list K) (k : K),
    first_unbound D m args = Some k <->
    exists l1 l2, args = l1 ++ k :: l2 /\ mget D m k = None
                  /\ forall x, In x l1 -> mget D m x <> None.
Proof. exact @first_unbound_spec. Qed.

Theorem c16_is_satisfied_unbound :
  forall (K V M H P : Type) (D : DomOps K V M H P) (h : H) (c : constraint K P) (m : M) (k : K),
    first_unbound D m (cargs c) = Some k ->
    is_satisfied_calls D h c m = Ok (SatUnbound k, 0).
Proof. exact @is_satisfied_unbound. Qed.

Theorem c16_is_satisfied_cases :
  forall (K V M H P : Type) (D : DomOps K V M H P) (h : H) (c : constraint K P) (m : M),
    (exists k, first_unbound D m (cargs c) = Some k
               /\ is_satisfied_calls D h c m = Ok (SatUnbound k, 0))
    \/ (exists vs, Forall2 (fun k v => mget D m k = Some v) (cargs c) vs
               /\ is_satisfied_calls D h c m
                  = (let* b := check D h (cpred c) vs in Ok (SatVerdict b, 1))).
Proof. exact @is_satisfied_cases. Qed.

(** Non-vacuity: a concrete mixed bound/unbound instance in the table domain. *)
Example c16_example_unbound :
  is_satisfied_calls (table_dom []) {| t_req := []; t_rows := [] |}
    {| cpred := TRec 3; cargs := [0; 2; 1]%N |} [(0, 5); (1, 5)]%N
  = Ok (SatUnbound 2%N, 0).
Proof. vm_compute. reflexivity. Qed.

Example c16_example_bound :
  is_satisfied_calls (table_dom []) {| t_req := []; t_rows := [] |}
    {| cpred := TRec 2; cargs := [0; 1]%N |} [(0, 5); (1, 5)]%N
  = Ok (SatVerdict true, 1).
Proof. vm_compute. reflexivity. Qed.

Print Assumptions c16_try_new_ok_iff.
Print Assumptions c16_try_new_value.
Print Assumptions c16_try_new_err.
Print Assumptions c16_try_binary_ok_iff.
Print Assumptions c16_is_satisfied_bound.
Print Assumptions c16_first_unbound_is_first.
Print Assumptions c16_is_satisfied_unbound.
Print Assumptions c16_is_satisfied_cases.
