(** C12 — missing_bindings lists exactly the unbound keys, prerequisites first.
    Statements only; proofs live in Proofs/SchemeProofs.v. *)
From PM Require Import Model.Prelude Model.Scheme Model.DomTable Spec.TopoSpec
  Proofs.SchemeProofs Proofs.SchemeTotal Cert.SchemeCheck Proofs.SchemeCheckSound.

Theorem c12_missing_ok :
  forall (K : Type) (keqb : K -> K -> bool) (req : K -> list K),
    (forall a b, keqb a b = true <-> a = b) ->
    forall (fuel : nat) (key : K) (known l : list K),
      acyclic req ->
      missing_bindings keqb req fuel key known = Ok l ->
      NoDup l
      /\ (forall x, In x l <-> closure req (fun x => In x known) key x)
      /\ prereq_first req (fun x => In x known) l.
Proof. exact @missing_ok. Qed.

Theorem c12_missing_known_nil :
  forall (K : Type) (keqb : K -> K -> bool) (req : K -> list K),
    (forall a b, keqb a b = true <-> a = b) ->
    forall (fuel : nat) (key : K) (known : list K),
      In key known -> missing_bindings keqb req fuel key known = Ok [].
Proof. exact @missing_known_nil. Qed.

Theorem c12_all_missing_ok :
  forall (K : Type) (keqb : K -> K -> bool) (req : K -> list K),
    (forall a b, keqb a b = true <-> a = b) ->
    forall (fuel : nat) (keys known l : list K),
      acyclic req ->
      all_missing_bindings keqb req fuel keys known = Ok l ->
      NoDup l
      /\ (forall x, In x l <-> closure_list req (fun x => In x known) keys x)
      /\ prereq_first req (fun x => In x known) l
      /\ (forall x, In x l -> ~ In x known).
Proof. exact @all_missing_ok. Qed.

(** "return": on every acyclic scheme both functions terminate (the model's fuel
    is sufficient beyond an explicit bound — the weight of the requested keys). *)
Theorem c12_missing_terminates :
  forall (K : Type) (keqb : K -> K -> bool) (req : K -> list K),
    acyclic req ->
    forall (key : K) (known : list K),
      exists fuel0, forall fuel, fuel0 <= fuel ->
        exists l, missing_bindings keqb req fuel key known = Ok l.
Proof. exact @missing_terminates. Qed.

Theorem c12_all_missing_terminates :
  forall (K : Type) (keqb : K -> K -> bool) (req : K -> list K),
    acyclic req ->
    forall (keys known : list K),
      exists fuel0, forall fuel, fuel0 <= fuel ->
        exists l, all_missing_bindings keqb req fuel keys known = Ok l.
Proof. exact @all_missing_terminates. Qed.

(** The property fixes the set of listed keys and "prerequisites first", not one
    particular order.  When the implementation's list differs from the model's,
    the check evaluates [valid_answerb] (extracted) on the implementation's list
    with the model's answer as the reference set: any list it accepts satisfies
    the same four clauses. *)
Theorem c12_valid_answer_sound :
  forall (K : Type) (keqb : K -> K -> bool) (req : K -> list K),
    (forall a b, keqb a b = true <-> a = b) ->
    forall (fuel : nat) (keys known l out : list K),
      acyclic req ->
      all_missing_bindings keqb req fuel keys known = Ok l ->
      valid_answerb keqb req known l out = true ->
      NoDup out
      /\ (forall x, In x out <-> closure_list req (fun x => In x known) keys x)
      /\ prereq_first req (fun x => In x known) out
      /\ (forall x, In x out -> ~ In x known).
Proof. exact @valid_answer_sound. Qed.

(** D1: the algorithm of the pinned commit (keys marked visited when pushed)
    violates the prerequisite-first clause on a shared prerequisite. *)
Definition d1_req (k : N) : list N :=
  match k with 0%N => [1; 2]%N | 2%N => [1]%N | _ => [] end.

Lemma d1_acyclic : acyclic d1_req.
Proof.
  exists (fun k => match k with 0%N => 2 | 2%N => 1 | _ => 0 end).
  intros k r. unfold d1_req.
  destruct k as [|[p|[p|p|]|]]; cbn; try tauto.
  - intros [<-|[<-|[]]]; lia.
  - intros [<-|[]]. lia.
Qed.

Theorem c12_pinned_refuted :
  exists l, missing_bindings_pinned N.eqb d1_req 100 0%N [] = Ok l
            /\ ~ prereq_first d1_req (fun x => In x []) l.
Proof.
  exists [2; 1; 0]%N. split; [vm_compute; reflexivity|].
  intros Hpf. specialize (Hpf [] 2%N [1; 0]%N eq_refl 1%N).
  cbn in Hpf. apply Hpf; auto.
Qed.

(** The current algorithm on the same input. *)
Example c12_example_shared_prerequisite :
  missing_bindings N.eqb d1_req 100 0%N [] = Ok [1; 2; 0]%N.
Proof. vm_compute. reflexivity. Qed.

Example c12_example_known :
  all_missing_bindings N.eqb (t_reqf [[]; [0]; [1]; [2]; [3]]%N) 100 [1; 4]%N [3]%N
  = Ok [0; 1; 4]%N.
Proof. vm_compute. reflexivity. Qed.

Print Assumptions c12_missing_ok.
Print Assumptions c12_missing_known_nil.
Print Assumptions c12_all_missing_ok.
Print Assumptions c12_missing_terminates.
Print Assumptions c12_valid_answer_sound.
Print Assumptions c12_all_missing_terminates.
Print Assumptions c12_pinned_refuted.
