(** C15 — the online topological traversal survives graph edits made during the
    traversal.  Statements only; proofs live in Proofs/ToposortProofs.v.
    A history is a list of calls of [next]; each call sees its own graph snapshot
    (so every sequence of edits between calls is covered) and its own iteration
    order of the private visited set. *)
From PM Require Import Model.Prelude Model.Toposort Proofs.ToposortProofs Cert.TopoCheck Proofs.TopoCheckSound.

(** (1) each node is emitted at most once — unconditionally. *)
Theorem c15_at_most_once :
  forall fuel root calls outs st',
    ts_run fuel calls (ts_init root) = Ok (outs, st') -> NoDup (somes outs).
Proof. exact ts_at_most_once. Qed.

(** (2) a node is emitted only if it exists and all of its current predecessors
    have been emitted by earlier calls. *)
Theorem c15_after_preds :
  forall fuel root c1 g ord c2 outs st',
    ts_run fuel (c1 ++ (g, ord) :: c2) (ts_init root) = Ok (outs, st') ->
    exists o1 r o2, outs = o1 ++ r :: o2 /\ length o1 = length c1 /\
      forall n, r = Some n ->
        In n (t_nodes g) /\ ~ In n (somes o1) /\ forall p, In p (t_preds g n) -> In p (somes o1).
Proof. exact ts_after_preds. Qed.

(** (3) when a call reports exhaustion on a graph that is acyclic at that
    moment and all of whose sources have been emitted (the root is its only
    source), every node of that graph has been emitted; [ord] must enumerate
    (at least) the visited set, as an iteration over it does. *)
Theorem c15_exhaustive :
  forall fuel root c1 g ord c2 outs st' (rank : N -> nat),
    ts_run fuel (c1 ++ (g, ord) :: c2) (ts_init root) = Ok (outs, st') ->
    exists o1 r o2, outs = o1 ++ r :: o2 /\ length o1 = length c1 /\
      (r = None ->
       (forall v, In v (somes o1) -> In v ord) ->
       (forall p n, In p (t_nodes g) -> In n (t_outs g p) -> rank p < rank n) ->
       (forall n, In n (t_nodes g) -> t_preds g n = [] -> In n (somes o1)) ->
       forall n, In n (t_nodes g) -> In n (somes o1)).
Proof. exact ts_exhaustive. Qed.

(** (4) no panic, no divergence: on graphs whose edges end on existing nodes
    one call needs at most [length stack + 2] iterations. *)
Theorem c15_next_total :
  forall g order, t_closed g ->
    forall fuel st, length (ts_stack st) + 2 <= fuel -> exists r, ts_next fuel g order st = Ok r.
Proof. exact ts_next_total. Qed.

(** The property constrains what is emitted, not which of several ready nodes
    comes first.  When the implementation's emissions differ from the model's on
    an admissible history, the check evaluates [hist_okb] (extracted) on the
    history itself: what it accepts satisfies the three clauses. *)
Theorem c15_history_check_sound :
  forall (calls : list ts_call) (outs : list (option N)),
    hist_okb calls outs [] = true ->
    NoDup (somes outs) /\
    forall c1 g ord c2, calls = c1 ++ (g, ord) :: c2 ->
      exists o1 r o2, outs = o1 ++ r :: o2 /\ length o1 = length c1 /\
        (forall n, r = Some n ->
           In n (t_nodes g) /\ ~ In n (somes o1) /\ forall p, In p (t_preds g n) -> In p (somes o1)) /\
        (r = None -> forall n, In n (t_nodes g) -> In n (somes o1)).
Proof. exact hist_okb_sound. Qed.

(** Non-vacuity: the scripted edit of the repository's own unit test
    (0 -> 2 -> 3 -> 1; after three calls edge 3->1 is replaced by 2->1, then a
    node 4 is added below 0). *)
Example c15_example_live_changes :
  let g0 := [(0, [2]); (1, []); (2, [3]); (3, [1])]%N in
  let g1 := [(0, [2]); (1, []); (2, [1; 3]); (3, [])]%N in
  let g2 := [(0, [4; 2]); (1, []); (2, [1; 3]); (3, []); (4, [])]%N in
  exists st,
    ts_run 10 [(g0, []); (g0, [0]); (g0, [0; 2]); (g1, [0; 2; 3]); (g2, [0; 2; 3; 1]);
               (g2, [0; 2; 3; 1; 4])]%N (ts_init 0)
    = Ok ([Some 0; Some 2; Some 3; Some 1; Some 4; None]%N, st).
Proof. eexists. vm_compute. reflexivity. Qed.

Print Assumptions c15_at_most_once.
Print Assumptions c15_after_preds.
Print Assumptions c15_exhaustive.
Print Assumptions c15_next_total.
Print Assumptions c15_history_check_sound.
