(** C04 — match results do not depend on the determinisation heuristic: the
    proof part is shared with C03/C06 (Properties/C03.v): any two automata that
    pass the certificates for the same constraint lists accept each pattern
    under exactly the same valuations, whatever answers the heuristic gave. *)
From PM Require Import Model.Prelude Model.Domain Model.Automaton
  Model.Traversal Model.DomString Model.DomMatrix Cert.LabCheck Cert.WinCheck Proofs.AbsEquiv Proofs.StringExact Proofs.MatrixExact Properties.C03
  Model.DomPGKeys Model.DomPG Cert.WfCheck Cert.PGCert Cert.D10Witness
  Model.DomPGKeys Model.DomPG Model.DomPGPattern Cert.PGCert Cert.WfCheck Proofs.PGSingleGood Proofs.PGAgree.

Theorem c04_heuristic_independent_acceptance :
  forall (K V M H P : Type) (D : DomOps K V M H P), DomEq D ->
  forall (goodb : list K -> bool) (atoms : constraint K P -> list (constraint K P))
         (entails refutes : list (constraint K P) -> constraint K P -> bool)
         (v : constraint K P -> bool),
    (forall c, (forall a, In a (atoms c) -> v a = true) -> v c = true) ->
    (forall c, v c = true -> forall a, In a (atoms c) -> v a = true) ->
    (forall cp c, entails cp c = true -> (forall d, In d cp -> v d = true) -> v c = true) ->
    (forall cp c, refutes cp c = true -> (forall d, In d cp -> v d = true) -> v c = false) ->
    forall (A1 A2 : automaton K P) (L1 L2 : labelling) (cs : list (list (constraint K P)))
           (pr : list bool) i cp,
      lab_ok D goodb atoms A1 L1 cs = true -> cert_complete entails refutes A1 cs pr = true ->
      lab_ok D goodb atoms A2 L2 cs = true -> cert_complete entails refutes A2 cs pr = true ->
      nth_error cs i = Some cp -> nth_error pr i = Some true ->
      (aaccepts v A1 (N.of_nat i) <-> aaccepts v A2 (N.of_nat i)).
Proof.
  intros K V M H P D E goodb atoms entails refutes v H1 H2 H3 H4 A1 A2 L1 L2 cs pr i cp C1 W1 C2 W2 Hn Hp.
  exact (c04_c06_certified_automata_agree K V M H P D E goodb atoms entails refutes v H1 H2 H3 H4
           A1 A2 L1 L2 cs cs pr pr i i cp C1 W1 C2 W2 Hn Hp Hn Hp).
Qed.

(** strings, at the level of the run: two automata built from the same pattern
    list under any two heuristics, each passing the four certificate checks,
    report every non-empty pattern at exactly the same host positions. *)
Theorem c04_string_runs_agree :
  forall A1 L1 rk1 ids1 A2 L2 rk2 ids2 (pats : list spattern) (present : list bool) h f1 f2 ms1 ms2 i p a,
    s_certified A1 L1 rk1 ids1 pats present -> s_certified A2 L2 rk2 ids2 pats present ->
    run string_dom f1 A1 h = Ok ms1 -> run string_dom f2 A2 h = Ok ms2 ->
    nth_error pats i = Some p -> nth_error present i = Some true -> p <> [] ->
    ((exists len, In (N.of_nat i, SBound a len) ms1) <-> (exists len, In (N.of_nat i, SBound a len) ms2)).
Proof.
  intros A1 L1 rk1 ids1 A2 L2 rk2 ids2 pats present h f1 f2 ms1 ms2 i p a C1 C2 R1 R2 Hp Hpr Hne.
  exact (s_certified_agree A1 L1 rk1 ids1 pats present A2 L2 rk2 ids2 pats present h f1 f2 ms1 ms2 i i p a
           C1 C2 R1 R2 Hp Hpr Hp Hpr Hne).
Qed.

Theorem c04_matrix_runs_agree :
  forall A1 L1 rk1 ids1 A2 L2 rk2 ids2 (pats : list mpattern) (present : list bool) h f1 f2 ms1 ms2 i p s,
    m_certified A1 L1 rk1 ids1 pats present -> m_certified A2 L2 rk2 ids2 pats present ->
    run matrix_dom f1 A1 h = Ok ms1 -> run matrix_dom f2 A2 h = Ok ms2 ->
    nth_error pats i = Some p -> nth_error present i = Some true ->
    ((exists a b, In (N.of_nat i, MBound s a b) ms1) <-> (exists a b, In (N.of_nat i, MBound s a b) ms2)).
Proof.
  intros A1 L1 rk1 ids1 A2 L2 rk2 ids2 pats present h f1 f2 ms1 ms2 i p s C1 C2 R1 R2 Hp Hpr.
  exact (m_certified_agree A1 L1 rk1 ids1 pats present A2 L2 rk2 ids2 pats present h f1 f2 ms1 ms2 i i p s
           C1 C2 R1 R2 Hp Hpr Hp Hpr).
Qed.

(** Port graphs: heuristic independence of the *run* is refuted on the faithful
    model (known finding D10): both dumped automata pass all certificates, the
    runs differ.  (Acceptance in the abstract semantics does agree:
    c04_heuristic_independent_acceptance applies to them.) *)
Theorem c04_portgraph_runs_differ_refuted :
  wf_check pg_dom d10_default (compute_rank d10_default) [0; 1]%N = true
  /\ wf_check pg_dom d10_never (compute_rank d10_never) [0; 1]%N = true
  /\ lab_ok pg_dom (fun _ => true) pg_atoms d10_default (compute_lab pg_dom pg_atoms d10_default) d10_css = true
  /\ lab_ok pg_dom (fun _ => true) pg_atoms d10_never (compute_lab pg_dom pg_atoms d10_never) d10_css = true
  /\ cert_complete pg_entails pg_refutes d10_default d10_css d10_present = true
  /\ cert_complete pg_entails pg_refutes d10_never d10_css d10_present = true
  /\ run pg_dom 2000 d10_default d10_host = Ok []
  /\ exists m, run pg_dom 2000 d10_never d10_host = Ok [(1%N, m)].
Proof. vm_compute. repeat split; eauto. Qed.

(** Port graphs, where the property does hold (it is refuted in general,
    c04_portgraph_runs_differ_refuted: the known class D10): two automata - any
    heuristics, any pattern lists (also C03 / C06: alone or together, another
    order) - over single-root keys that both contain the good pattern P and pass
    the certificates report the same matches of P: whatever the first reports, the
    second reports with the same values on the keys it records for P.
    ([lab_ok]: soundness of the first; [wf_check], [cert_complete],
    [aut_single_root], [match_keys_in]: completeness of the second; swap the roles
    for the converse.) *)
Theorem c04_portgraph_runs_agree_on_single_root_pattern_sets :
  forall (P : pghost) (root : N) cs nk (H : pghost)
         (A1 : automaton pgkey pgpred) (L1 : labelling) css1 i1 fuel1 ms1 b1
         (A2 : automaton pgkey pgpred) rk2 ids2 css2 pres2 i2 fuel2 ms2,
    pg_cvec_full P root = Ok (cs, nk) -> lines_cover P root = true -> lines_sound P root = true ->
    nodes_keyed P nk = true -> keys_distinct nk = true -> pg_good_pattern P root cs nk = true ->
    root_linked P root = true -> pg_host_wfb P = true -> pg_host_wfb H = true ->
    lab_ok pg_dom (fun _ => true) pg_atoms A1 L1 css1 = true -> nth_error css1 i1 = Some cs ->
    run pg_dom fuel1 A1 H = Ok ms1 -> In (N.of_nat i1, b1) ms1 ->
    wf_check pg_dom A2 rk2 ids2 = true -> cert_complete pg_entails pg_refutes A2 css2 pres2 = true ->
    nth_error css2 i2 = Some cs -> nth_error pres2 i2 = Some true ->
    aut_single_root A2 = true -> match_keys_in nk A2 (N.of_nat i2) = true ->
    run pg_dom fuel2 A2 H = Ok ms2 ->
    exists st keys b2, In st (au_states A2) /\ In (N.of_nat i2, keys) (a_matches st) /\ In (N.of_nat i2, b2) ms2
      /\ forall k, In k keys -> pgget b2 k = pgget b1 k.
Proof. exact pg_runs_agree. Qed.

Print Assumptions c04_heuristic_independent_acceptance.
Print Assumptions c04_portgraph_runs_differ_refuted.
Print Assumptions c04_matrix_runs_agree.
Print Assumptions c04_string_runs_agree.
Print Assumptions c04_portgraph_runs_agree_on_single_root_pattern_sets.
