(** C13 — bind_all enumerates exactly the ways of extending a binding.
    Statements only; proofs live in Proofs/BindAllProofs.v. *)
From PM Require Import Model.Prelude Model.Domain Model.BindAll Model.DomTable
  Spec.Extends Proofs.BindAllProofs.

(** Equality of lists (order and multiplicity included) with the recursive
    specification; a panic/out-of-fuel on one side is one on the other. *)
Theorem c13_bind_all_eq_spec :
  forall (K V M H P : Type) (D : DomOps K V M H P) (h : H) (m : M) (ks : list K) (inc : bool)
         (r : list M),
    bind_all D h m ks inc = Ok r <-> extend D h inc ks m = Ok r.
Proof. exact @bind_all_eq_spec. Qed.

(** The enumerated maps are exactly those related to [m] by walking the key list:
    bound keys left alone, unbound keys given one offered value each,
    with [inc] keys without offer are skipped. *)
Theorem c13_results_are_exactly_extensions :
  forall (K V M H P : Type) (D : DomOps K V M H P) (h : H) (inc : bool) (ks : list K)
         (m : M) (r : list M) (m' : M),
    bind_all D h m ks inc = Ok r -> (In m' r <-> ext_rel D h inc ks m m').
Proof.
  intros K V M H P D h inc ks m r m' E. apply bind_all_eq_spec in E.
  exact (extend_rel D h inc ks m r m' E).
Qed.

Theorem c13_existing_bindings_unchanged :
  forall (K V M H P : Type) (D : DomOps K V M H P) (h : H) (inc : bool) (ks : list K)
         (m : M) (r : list M) (m' : M),
    bind_monotone D -> bind_all D h m ks inc = Ok r -> In m' r ->
    forall k v, mget D m k = Some v -> mget D m' k = Some v.
Proof.
  intros K V M H P D h inc ks m r m' Mono E Hin.
  apply bind_all_eq_spec in E. apply (extend_rel D h inc ks m r m' E) in Hin.
  exact (ext_rel_preserves D h inc ks m m' Mono Hin).
Qed.

Theorem c13_all_listed_bound :
  forall (K V M H P : Type) (D : DomOps K V M H P) (h : H) (ks : list K)
         (m : M) (r : list M) (m' : M),
    bind_monotone D -> bind_binds D -> bind_all D h m ks false = Ok r -> In m' r ->
    forall k, In k ks -> exists v, mget D m' k = Some v.
Proof.
  intros K V M H P D h ks m r m' Mono BB E Hin.
  apply bind_all_eq_spec in E. apply (extend_rel D h false ks m r m' E) in Hin.
  exact (ext_rel_all_bound D h ks m m' Mono BB Hin).
Qed.

Theorem c13_total :
  forall (K V M H P : Type) (D : DomOps K V M H P) (h : H) (inc : bool) (ks : list K),
    (forall k m, exists vs, opts D h k m = Ok vs) ->
    forall m, exists r, bind_all D h m ks inc = Ok r.
Proof.
  intros K V M H P D h inc ks T m. destruct (extend_total D h inc ks T m) as [r Hr].
  exists r. now apply bind_all_eq_spec.
Qed.

(** Non-vacuity: options depending on an earlier binding, two options, a pre-bound key. *)
Example c13_example :
  let h := {| t_req := [[]; [0]; []]%N; t_rows := [[[1; 2]]; [[7]; [8; 9]; [10]]; [[4]]]%N |} in
  bind_all (table_dom (t_req h)) h [(2, 4)]%N [0; 1; 2]%N false
  = Ok [[(2, 4); (0, 1); (1, 8)]; [(2, 4); (0, 1); (1, 9)]; [(2, 4); (0, 2); (1, 10)]]%N.
Proof. vm_compute. reflexivity. Qed.

Print Assumptions c13_bind_all_eq_spec.
Print Assumptions c13_results_are_exactly_extensions.
Print Assumptions c13_existing_bindings_unchanged.
Print Assumptions c13_all_listed_bound.
Print Assumptions c13_total.
