(** C07 — strings: each (pattern, anchor position) occurrence is reported
    exactly once.  Proved for strings, for every automaton (as dumped from the
    implementation) that passes the certificate checks — the four of C01/C02/C09
    (lab_ok, wf_check, cert_complete, keys_tight) and the unambiguity
    certificates (slab_ok: a signed labelling with alternatives; cert_unamb: two
    accepting entries of one pattern sit in states with contradictory labels;
    accept_vdet: all transitions into an accepting state deliver the same view of
    its keys, unless their labels contradict; empty_scope_closed): for every
    host, fuel and Ok result of the modelled breadth-first run, the number of
    entries (i, bound at a) in the result is 1 if pattern i occurs at a and 0
    otherwise; and the empty pattern (no constraints) is reported exactly once
    per host (c07_string_empty_pattern_once).  Not proved: matrices (decided by
    the multiset comparison with the occurrence oracle and the correspondence of
    the traversal). *)
From PM Require Import Model.Prelude Model.Domain Model.Automaton Model.Traversal Model.DomString
  Spec.Occ Cert.LabCheck Cert.WfCheck Cert.WinCheck Cert.CharCert Cert.UnambCheck Cert.ExampleAut
  Proofs.WfSound Proofs.LawfulDomains Proofs.StringUnique Proofs.StringExact
  Model.DomMatrix Proofs.UnambSound Proofs.AbsEquiv.

(** at most once: needs only well-formedness and the unambiguity certificates *)
Theorem c07_string_at_most_once :
  forall (A : automaton N cpredicate) (rk : list (N * nat)) (ids : list N) (Ls : slabelling)
         (h : shost) (fuel : nat) (ms : list (N * spm)) (i a : N),
    wf_check string_dom A rk ids = true ->
    slab_ok (char_ceqb N.eqb) (char_refutes N.eqb) A Ls = true ->
    cert_unamb (char_ceqb N.eqb) (char_refutes N.eqb) A Ls = true ->
    accept_vdet A Ls = true ->
    empty_scope_closed A = true ->
    run string_dom fuel A h = Ok ms ->
    (cnt i a ms <= 1)%nat.
Proof.
  intros A rk ids Ls h fuel ms i a W U1 U2 U3 U4 R.
  exact (s_run_unique A ids (wf_check_sound string_dom string_dom_eq A rk ids W) Ls U1 U2 U3 U4 h i a fuel ms R).
Qed.

(** exactly once *)
Theorem c07_string_exactly_once :
  forall (A : automaton N cpredicate) (L : labelling) (Ls : slabelling) (rk : list (N * nat)) (ids : list N)
         (pats : list spattern) (present : list bool) (h : shost) (fuel : nat) (ms : list (N * spm))
         (i : nat) (p : spattern) (a : N),
    s_certified A L rk ids pats present -> s_unamb_certified A Ls ->
    run string_dom fuel A h = Ok ms ->
    nth_error pats i = Some p -> nth_error present i = Some true -> p <> [] ->
    cnt (N.of_nat i) a ms = if occ_stringb p h a then 1%nat else 0%nat.
Proof. exact s_run_exactly_once. Qed.

(** the empty pattern: exactly once per host *)
Theorem c07_string_empty_pattern_once :
  forall (A : automaton N cpredicate) (rk : list (N * nat)) (ids : list N) (Ls : slabelling)
         (cs : list (list (constraint N cpredicate))) (present : list bool) (h : shost) (i : nat) (fuel : nat) (ms : list (N * spm)),
    wf_check string_dom A rk ids = true ->
    slab_ok (char_ceqb N.eqb) (char_refutes N.eqb) A Ls = true ->
    cert_unamb (char_ceqb N.eqb) (char_refutes N.eqb) A Ls = true ->
    empty_scope_closed A = true -> empty_keys_at_root A = true -> empty_pattern_keys A cs = true ->
    cert_complete (char_entails N.eqb) (char_refutes N.eqb) A cs present = true ->
    nth_error cs i = Some [] -> nth_error present i = Some true ->
    run string_dom fuel A h = Ok ms ->
    cntp (N.of_nat i) ms = 1%nat.
Proof.
  intros A rk ids Ls cs present h i fuel ms W U1 U2 U4 U5 U6 CC Hi Hp R.
  exact (s_empty_once A ids (wf_check_sound string_dom string_dom_eq A rk ids W) Ls U1 U2 U4 U5 cs present U6 CC h i Hi Hp fuel ms R).
Qed.

(** the hypotheses are satisfiable: the example automaton passes every certificate *)
Example c07_example :
  s_unamb_certified ex_aut (compute_slab (char_ceqb N.eqb) (char_refutes N.eqb) ex_aut)
  /\ exists ms, run string_dom 100 ex_aut [98; 97; 97]%N = Ok ms /\ cnt 1 1 ms = 1%nat /\ cnt 1 0 ms = 0%nat.
Proof. unfold s_unamb_certified. vm_compute. repeat split; eauto. Qed.

(** Matrices, the half that the signed labelling decides (partial: the other half —
    one state, two different views of the same anchor — is not proved for
    matrices and is decided by the multiset comparison with the occurrence
    oracle): on a matrix automaton that passes [slab_ok] and [cert_unamb], at
    every anchor of every host a pattern is accepted by at most one of the states
    that the abstract semantics reaches.  The two certificates are evaluated on
    every dumped matrix automaton as information (they are not complete for
    matrices: the labelling has no rule "a cell compared with another exists"). *)
Theorem c07_matrix_accepting_states_exclusive_partial :
  forall (A : automaton mkey cpredicate) (Ls : slabelling) (h : mhost) (a : mval)
         (s1 s2 : N) (st1 st2 : astate mkey cpredicate) (p : N),
    slab_ok (char_ceqb mkey_eqb) (char_refutes mkey_eqb) A Ls = true ->
    cert_unamb (char_ceqb mkey_eqb) (char_refutes mkey_eqb) A Ls = true ->
    areach (mval_of h a) A s1 -> areach (mval_of h a) A s2 ->
    get_state A s1 = Ok st1 -> get_state A s2 = Ok st2 ->
    In p (map fst (a_matches st1)) -> In p (map fst (a_matches st2)) -> s1 = s2.
Proof.
  intros A Ls h a s1 s2 st1 st2 p HL HU R1 R2 G1 G2 P1 P2.
  assert (Hk : forall x y, mkey_eqb x y = true <-> x = y).
  { intros [x1 x2] [y1 y2]. unfold mkey_eqb; cbn. rewrite andb_true_iff, !Z.eqb_eq.
    split; [intros [-> ->]; reflexivity|intros X; inversion X; auto]. }
  exact (cert_unamb_sound (char_ceqb mkey_eqb) (char_ceqb_spec mkey_eqb Hk) (char_refutes mkey_eqb) (mval_of h a)
           (m_refutes_sound h a) A Ls HL s1 s2 st1 st2 p HU R1 R2 G1 G2 P1 P2).
Qed.

Print Assumptions c07_string_at_most_once.
Print Assumptions c07_string_exactly_once.
Print Assumptions c07_string_empty_pattern_once.
Print Assumptions c07_matrix_accepting_states_exclusive_partial.
