(** C05 — the baseline matchers and the occurrence semantics.
    Proved: every binding reported by the single-pattern matcher (strings,
    matrices) is anchored at an occurrence of the pattern (Spec/Occ.v) and binds
    every key of the pattern's constraints; match_exists = true only if an
    occurrence exists; NaiveManyMatcher reports for pattern number j exactly the
    bindings of the single-pattern matcher of the j-th pattern.
    For strings and matrices also the converse (c05_string_*_exact,
    c05_matrix_*_exact): every occurrence is reported, so the reported anchors
    are exactly the occurrences.  Not proved: that an occurrence is reported once
    and in scan order (decided by the exact-sequence comparison of
    implementation, model and occurrence scan on every generated case). *)
From PM Require Import Model.Prelude Model.Domain Model.Constraint Model.Matchers
  Model.DomString Model.DomMatrix Spec.Occ Proofs.SingleDomains Proofs.NaiveProofs Proofs.OccProofs Proofs.StringSingle Proofs.MatrixSingle
  Model.DomPGKeys Model.DomPG Model.DomPGPattern Proofs.PGEmbed
  Proofs.PGSingleGood Proofs.PGSingleTotal Proofs.PGWalkEmbed.

Theorem c05_string_single_sound_partial :
  forall p h fuel r, p <> [] ->
    single string_dom fuel (s_cvec p) h = Ok r ->
    forall m, In m r ->
      exists a len, m = SBound a len /\ occ_string p h a
                    /\ forall c k, In c (s_cvec p) -> In k (cargs c) -> sget m k <> None.
Proof. exact s_single_sound. Qed.

Theorem c05_matrix_single_sound_partial :
  forall p h fuel r,
    single matrix_dom fuel (m_cvec p) h = Ok r ->
    forall m, In m r ->
      exists s a b, m = MBound s a b /\ occ_matrix p h s
                    /\ forall c k, In c (m_cvec p) -> In k (cargs c) -> mmget m k <> None.
Proof. exact m_single_sound. Qed.

Theorem c05_string_match_exists_sound :
  forall p h fuel, p <> [] ->
    match_exists string_dom fuel (s_cvec p) h = Ok true -> exists a, occ_string p h a.
Proof. exact s_match_exists_sound. Qed.

Theorem c05_matrix_match_exists_sound :
  forall p h fuel,
    match_exists matrix_dom fuel (m_cvec p) h = Ok true -> exists s, occ_matrix p h s.
Proof. exact m_match_exists_sound. Qed.

Theorem c05_naive_numbers_by_position :
  forall (K V M H P : Type) (D : DomOps K V M H P) fuel h css r,
    naive D fuel css h = Ok r ->
    forall n m, In (n, m) r <->
      exists j cs rj, nth_error css j = Some cs /\ single D fuel cs h = Ok rj /\ In m rj
                      /\ n = N.of_nat j.
Proof. exact @naive_spec. Qed.

(** Non-vacuity, and the executable specification at work *)
(** strings: exactly the occurrences *)
Theorem c05_string_single_exact :
  forall p h fuel r, p <> [] ->
    single string_dom fuel (s_cvec p) h = Ok r ->
    (forall m, In m r -> exists a len, m = SBound a len /\ occ_string p h a)
    /\ (forall a, occ_string p h a <-> exists len, In (SBound a len) r).
Proof. exact s_single_exact. Qed.

Theorem c05_string_match_exists_exact :
  forall p h fuel b, p <> [] ->
    match_exists string_dom fuel (s_cvec p) h = Ok b ->
    (b = true <-> exists a, occ_string p h a).
Proof. exact s_match_exists_exact. Qed.

Theorem c05_string_naive_exact :
  forall pats h fuel ms i p a,
    naive string_dom fuel (map s_cvec pats) h = Ok ms ->
    nth_error pats i = Some p -> p <> [] ->
    ((exists len, In (N.of_nat i, SBound a len) ms) <-> occ_string p h a).
Proof. exact s_naive_exact. Qed.

(** matrices: exactly the occurrences *)
Theorem c05_matrix_single_exact :
  forall p h fuel r,
    single matrix_dom fuel (m_cvec p) h = Ok r ->
    (forall m, In m r -> exists s a b, m = MBound s a b /\ occ_matrix p h s)
    /\ (forall s, occ_matrix p h s <-> exists a b, In (MBound s a b) r).
Proof. exact m_single_exact. Qed.

Theorem c05_matrix_match_exists_exact :
  forall p h fuel b,
    match_exists matrix_dom fuel (m_cvec p) h = Ok b ->
    (b = true <-> exists s, occ_matrix p h s).
Proof. exact m_match_exists_exact. Qed.

Theorem c05_matrix_naive_exact :
  forall pats h fuel ms i p s,
    naive matrix_dom fuel (map m_cvec pats) h = Ok ms ->
    nth_error pats i = Some p ->
    ((exists a b, In (N.of_nat i, MBound s a b) ms) <-> occ_matrix p h s).
Proof. exact m_naive_exact. Qed.

(** port graphs (host and pattern side modelled): every binding reported by the
    single-pattern matcher maps every link of the pattern to a link of the host
    and distinct pattern nodes to distinct host nodes (soundness half; the
    completeness half is false on the implementation: known classes) *)
Theorem c05_portgraph_single_embeds :
  forall (P : pghost) (root : N) cs nk h fuel r,
    pg_cvec_full P root = Ok (cs, nk) -> lines_cover P root = true ->
    single pg_dom fuel cs h = Ok r ->
    forall m, In m r ->
      (forall a oa b ib, In (a, oa, b, ib) (pg_links P) ->
         exists va vb, image m nk a = Some va /\ image m nk b = Some vb /\ In (va, oa, vb, ib) (pg_links h))
      /\ Dist m nk.
Proof. exact pg_single_embeds. Qed.

(** Port graphs, completeness half, where it holds: a pattern that passes the
    per-pattern validation [pg_good_pattern] — every key hangs off the single index
    root Root(0), and the pattern's own walks from the root reach every keyed node
    at the recorded distance (evaluated by the extracted model on the pattern of
    every miss that the harness puts down to a known finding: always 0 there) —
    has every embedding into a well-formed host reported by the single-pattern
    matcher, each pattern node bound to its image.  [pg_embedding]: links go to
    links, [f] is injective on the nodes of the pattern, the image of the root is
    a node of the host.  The proof: walks commute with embeddings
    (Proofs/PGWalkEmbed.v), so list_bind_options offers the image of every key;
    then the generic completeness of the FIFO loop. *)
Theorem c05_portgraph_single_reports_embeddings_of_good_patterns :
  forall (P : pghost) (root : N) cs nk (H : pghost) (f : N -> N) fuel r,
    pg_cvec_full P root = Ok (cs, nk) -> lines_sound P root = true -> keys_distinct nk = true ->
    pg_good_pattern P root cs nk = true -> pg_host_wfb P = true -> pg_host_wfb H = true ->
    pg_embedding P H root nk f ->
    single pg_dom fuel cs H = Ok r ->
    exists m, In m r /\ forall u k, In (u, k) nk -> pgget m k = Some (f u).
Proof. exact pg_single_reports_embedding. Qed.

(** with termination (C08): beyond some fuel the baseline returns, and reports it *)
Theorem c05_portgraph_single_reports_embeddings_total :
  forall (P : pghost) (root : N) cs nk (H : pghost) (f : N -> N),
    pg_cvec_full P root = Ok (cs, nk) -> lines_sound P root = true -> keys_distinct nk = true ->
    pg_good_pattern P root cs nk = true -> pg_host_wfb P = true -> pg_host_wfb H = true ->
    pg_embedding P H root nk f ->
    exists fuel0, forall fuel, (fuel0 <= fuel)%nat ->
      exists r m, single pg_dom fuel cs H = Ok r /\ In m r /\ forall u k, In (u, k) nk -> pgget m k = Some (f u).
Proof.
  intros P root cs nk H f CV Hls Hkd Hg HwP HwH He.
  destruct (pg_single_total P root cs H) as [f0 Hf0].
  { unfold pg_constraint_vec. now rewrite CV. }
  exists f0. intros fuel Hle. destruct (Hf0 fuel Hle) as [r Hr].
  destruct (pg_single_reports_embedding P root cs nk H f fuel r CV Hls Hkd Hg HwP HwH He Hr) as [m [Hm HQ]].
  exists r, m. auto.
Qed.

(** Non-vacuity: a path of three nodes rooted at its first node is a good pattern *)
Example c05_good_pattern_example :
  let P := {| pg_nodes := [Some (0, 1); Some (1, 1); Some (1, 0)]%N; pg_links := [(0, 0, 1, 0); (1, 0, 2, 0)]%N |} in
  exists cs nk, pg_cvec_full P 0 = Ok (cs, nk) /\ pg_good_pattern P 0 cs nk = true
                /\ lines_sound P 0 = true /\ keys_distinct nk = true /\ pg_host_wfb P = true.
Proof. eexists. eexists. split; [vm_compute; reflexivity|]. vm_compute. auto. Qed.

(** Port graphs, completeness half: refuted on the faithful model (known
    findings D5, D6 of KNOWN_FINDINGS.json; the same witnesses fail on the
    implementation — corpus of the pg sub-checks).  In both cases the identity is
    an embedding (and by [pg_embedding_satisfies] satisfies every constraint), yet
    the single-pattern matcher reports nothing: the host-side indexing never
    offers the binding. *)
Definition d5_pattern : pghost := {| pg_nodes := [Some (2, 2); Some (2, 0)]%N; pg_links := [(0, 1, 1, 0); (0, 0, 0, 1)]%N |}.

(** D5: a line that passes through its own start node (self-loop out0 -> in1, the
    line goes on through out1): key Along(0, out0)@2 lies beyond the root, where
    walk_path stops *)
Theorem c05_portgraph_complete_refuted_line_through_root :
  exists cs nk, pg_cvec_full d5_pattern 0 = Ok (cs, nk)
    /\ lines_sound d5_pattern 0 = true /\ keys_distinct nk = true /\ pg_host_wfb d5_pattern = true
    /\ single pg_dom 1000 cs d5_pattern = Ok [].
Proof. eexists _, _. split; [vm_compute; reflexivity|]. vm_compute. auto. Qed.

Definition d6_pattern : pghost :=
  {| pg_nodes := [Some (0, 1); Some (1, 1); Some (2, 0); Some (0, 1)]%N; pg_links := [(0, 0, 1, 0); (1, 0, 2, 0); (3, 0, 2, 1)]%N |}.
Definition d6_host : pghost :=
  {| pg_nodes := [Some (0, 1); Some (1, 2); Some (2, 0); Some (0, 1)]%N; pg_links := [(0, 0, 1, 0); (1, 0, 2, 0); (3, 0, 2, 1)]%N |}.

(** D6: the pattern needs a second index root (node 2); in the host node 1 has one
    more, unlinked, output port, so the root search proposes node 1 and never node 2.
    The pattern is found in itself. *)
Theorem c05_portgraph_complete_refuted_root_hidden :
  exists cs nk, pg_cvec_full d6_pattern 0 = Ok (cs, nk)
    /\ lines_sound d6_pattern 0 = true /\ keys_distinct nk = true /\ pg_host_wfb d6_host = true
    /\ pg_links d6_host = pg_links d6_pattern
    /\ (exists m, single pg_dom 1000 cs d6_pattern = Ok [m])
    /\ single pg_dom 1000 cs d6_host = Ok [].
Proof. eexists _, _. split; [vm_compute; reflexivity|]. vm_compute. repeat split; eauto. Qed.

Example c05_example :
  single string_dom 100 (s_cvec [Lit 97; Var 1; Var 1]%N) [98; 97; 99; 99; 97; 98; 98]%N
  = Ok [SBound 1 3; SBound 4 3]%N
  /\ occ_stringb [Lit 97; Var 1; Var 1]%N [98; 97; 99; 99; 97; 98; 98]%N 1 = true
  /\ occ_stringb [Lit 97; Var 1; Var 1]%N [98; 97; 99; 99; 97; 98; 98]%N 2 = false.
Proof. repeat split; vm_compute; reflexivity. Qed.

(** strings, independent of the order of the constraint vector: the matcher built from any
    constraint list with the same elements as the model's [s_cvec p] — which is what the
    comparison of the implementation's try_to_constraint_vec with [s_cvec], as multisets,
    establishes — reports exactly the occurrences *)
From PM Require Import Proofs.StringSingleAnyOrder.

Theorem c05_string_single_exact_in_any_constraint_order :
  forall (p : spattern) (cs : list sconstraint),
    (forall c, In c cs <-> In c (s_cvec p)) -> p <> [] ->
  forall h fuel r,
    single string_dom fuel cs h = Ok r ->
    (forall m, In m r -> exists a len, m = SBound a len /\ occ_string p h a)
    /\ (forall a, occ_string p h a <-> exists len, In (SBound a len) r).
Proof. exact s_single_exact_any. Qed.

From PM Require Import Proofs.MatrixSingleAnyOrder.

Theorem c05_matrix_single_exact_in_any_constraint_order :
  forall (p : mpattern) (cs : list mconstraint),
    (forall c, In c cs <-> In c (m_cvec p)) ->
  forall h fuel r,
    single matrix_dom fuel cs h = Ok r ->
    (forall m, In m r -> exists s a b, m = MBound s a b /\ occ_matrix p h s)
    /\ (forall s, occ_matrix p h s <-> exists a b, In (MBound s a b) r).
Proof. exact m_single_exact_any. Qed.

(** ** the text front end of the two pattern types (beyond the property: the glue in
    front of the baselines).  Model/Parse.v models StringPattern::parse_str and
    MatrixPattern::parse_str; both are compared with the implementation through
    try_to_constraint_vec on random texts (case kind [parse]).  Printing and parsing
    are inverse to each other; the only text that fails to parse as a string pattern
    ends in a '$' (the implementation panics there). *)
From PM Require Import Model.Parse Proofs.ParseProofs.

Theorem c05_string_parse_print :
  forall p : spattern, (forall c, In (Lit c) p -> c <> c_dollar) -> s_parse (s_print p) = Ok p.
Proof. exact s_parse_print. Qed.

Theorem c05_string_print_parse :
  forall (l : list N) (p : spattern), s_parse l = Ok p -> s_print p = l.
Proof. intros l p. exact (s_print_parse (length l) l p (le_n _)). Qed.

Theorem c05_string_parse_fails_only_on_trailing_dollar :
  forall l : list N, (exists p, s_parse l = Ok p) \/ (exists l0, l = l0 ++ [c_dollar]).
Proof. intros l. exact (s_parse_total (length l) l (le_n _)). Qed.

Theorem c05_matrix_parse_print :
  forall p : mpattern,
    (forall row cv, In row p -> In (Some cv) row ->
       match cv with
       | Lit c => c <> c_dollar /\ c <> c_dash /\ is_whitespace c = false
       | Var v => is_whitespace v = false
       end) ->
    m_parse (m_print p) = Ok p.
Proof. exact m_parse_print. Qed.

Theorem c05_matrix_parse_fails_only_on_trailing_dollar :
  forall l : list N,
    (exists p, m_parse l = Ok p)
    \/ (exists row l0, In row (lines l) /\ filter (fun c => negb (is_whitespace c)) row = l0 ++ [c_dollar]).
Proof. exact m_parse_total. Qed.

Print Assumptions c05_string_single_sound_partial.
Print Assumptions c05_matrix_single_sound_partial.
Print Assumptions c05_string_match_exists_sound.
Print Assumptions c05_matrix_match_exists_sound.
Print Assumptions c05_naive_numbers_by_position.
Print Assumptions c05_string_single_exact.
Print Assumptions c05_string_match_exists_exact.
Print Assumptions c05_string_naive_exact.
Print Assumptions c05_matrix_single_exact.
Print Assumptions c05_matrix_match_exists_exact.
Print Assumptions c05_matrix_naive_exact.
Print Assumptions c05_portgraph_single_embeds.
Print Assumptions c05_portgraph_single_reports_embeddings_of_good_patterns.
Print Assumptions c05_portgraph_single_reports_embeddings_total.
Print Assumptions c05_portgraph_complete_refuted_line_through_root.
Print Assumptions c05_portgraph_complete_refuted_root_hidden.
Print Assumptions c05_string_parse_print.
Print Assumptions c05_string_print_parse.
Print Assumptions c05_string_parse_fails_only_on_trailing_dollar.
Print Assumptions c05_matrix_parse_print.
Print Assumptions c05_matrix_parse_fails_only_on_trailing_dollar.
Print Assumptions c05_string_single_exact_in_any_constraint_order.
Print Assumptions c05_matrix_single_exact_in_any_constraint_order.
