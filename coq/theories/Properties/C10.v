(** C10 — constraint trees faithfully encode their constraints and make
    progress.  Semantics in Spec/TreeSem.v: a node is reachable under a
    valuation [v] of the constraints when it is the root or the child, along an
    edge whose constraint is true, of a reachable node; [faithful v T cs]: for
    every index i labelling some node of T, a node labelled i is reachable iff
    constraint i of [cs] is true; [valid_indices T n]: every label is < n;
    [in_tree T i]: some node carries label i.
    The built-in decompositions are proved faithful for *every* valuation
    (character predicates), resp. for every valuation induced by an assignment
    of nodes to keys with arbitrary truth of the opaque predicates (port graphs):
    that covers every host and binding. *)
From PM Require Import Model.Prelude Model.Domain Model.CTree Model.CTreeChar Model.DomPGKeys
  Model.DomString Model.DomMatrix Spec.TreeSem
  Proofs.TreeProofs Proofs.TreeDomains Proofs.PowersetProofs Proofs.PGTreeProofs
  Model.Constraint Model.DomPG Proofs.RunSound Spec.TreeDet Proofs.TreeRootExclusive Proofs.PowersetDet Proofs.PGTreeDet Proofs.CellsProofs Proofs.CharTreeDet.

(** helper constructors *)
Theorem c10_with_children :
  forall (C : Type) (ceqb : C -> C -> bool) (v : C -> bool) (cs : list C),
    (forall a b, ceqb a b = true -> v a = v b) ->
    forall children T,
      (forall c is, In (c, is) children -> forall i, In i is ->
         exists c0, nth_error cs i = Some c0 /\ v c0 = v c) ->
      with_children ceqb children = Ok T ->
      faithful v T cs /\ valid_indices T (length cs)
      /\ forall c is i, In (c, is) children -> In i is -> in_tree T i.
Proof. exact @with_children_ok. Qed.

Theorem c10_with_pairwise_mutex :
  forall (C : Type) (ceqb : C -> C -> bool) (v : C -> bool),
    (forall a b, ceqb a b = true -> v a = v b) ->
    forall cs items is_mutex T,
      (forall c i, In (c, i) items -> nth_error cs i = Some c) ->
      with_pairwise_mutex ceqb items is_mutex = Ok T ->
      faithful v T cs /\ valid_indices T (length cs)
      /\ (forall c i rest, items = (c, i) :: rest -> in_tree T i).
Proof. exact @with_pairwise_mutex_ok. Qed.

Theorem c10_with_transitive_mutex :
  forall (C : Type) (ceqb : C -> C -> bool) (v : C -> bool),
    (forall a b, ceqb a b = true -> v a = v b) ->
    forall cs items is_mutex T,
      (forall c i, In (c, i) items -> nth_error cs i = Some c) ->
      with_transitive_mutex ceqb items is_mutex = Ok T ->
      faithful v T cs /\ valid_indices T (length cs)
      /\ (forall c i rest, items = (c, i) :: rest -> in_tree T i).
Proof. exact @with_transitive_mutex_ok. Qed.

(** with_powerset, for every valuation under which [conditioned] is an
    equivalence given the satisfied constraints *)
Theorem c10_with_powerset :
  forall (C : Type) (ceqb : C -> C -> bool) (conditioned : C -> list C -> option C) (v : C -> bool)
         (cs : list (C * nat)) (orig : list C),
    (forall c i, In (c, i) cs -> nth_error orig i = Some c) ->
    (forall a b, ceqb a b = true -> v a = v b) ->
    (forall c sat, In c (map fst cs) -> incl sat (map fst cs) -> (forall s, In s sat -> v s = true) ->
       match conditioned c sat with None => v c = true | Some c' => v c' = v c end) ->
    forall fuel T,
      with_powerset ceqb conditioned fuel cs = Ok T ->
      faithful v T orig /\ valid_indices T (length orig)
      /\ (forall c i, In (c, i) cs -> in_tree T i).
Proof. exact @with_powerset_ok. Qed.

(** the port-graph [conditioned] is such an equivalence on a not-equal family *)
Theorem c10_pg_conditioned_equiv :
  forall (beta : pgkey -> N) (atomv : pgconstraint -> bool) k0 cs c sat,
    ne_family k0 cs ->
    In c (map fst cs) -> incl sat (map fst cs) -> (forall s, In s sat -> pgv beta atomv s = true) ->
    match pg_conditioned c sat with
    | None => pgv beta atomv c = true
    | Some c' => pgv beta atomv c' = pgv beta atomv c
    end.
Proof. exact pg_conditioned_equiv. Qed.

(** built-in decompositions: strings, matrices, port graphs *)
Theorem c10_string_tree :
  forall (v : sconstraint -> bool) cs T,
    cs <> [] -> char_tree N.compare cs = Ok T ->
    faithful v T cs /\ valid_indices T (length cs)
    /\ exists c0 i0 rest, sort_with_indices (cc_cmp N.compare) cs = (c0, i0) :: rest /\ in_tree T i0.
Proof.
  intros v cs T. apply char_tree_ok.
  - intros a b. apply N.compare_eq_iff.
  - intros a. apply N.compare_refl.
Qed.

Theorem c10_matrix_tree :
  forall (v : mconstraint -> bool) cs T,
    cs <> [] -> char_tree mkey_cmp cs = Ok T ->
    faithful v T cs /\ valid_indices T (length cs)
    /\ exists c0 i0 rest, sort_with_indices (cc_cmp mkey_cmp) cs = (c0, i0) :: rest /\ in_tree T i0.
Proof.
  intros v cs T. apply char_tree_ok.
  - intros [a1 a2] [b1 b2]. unfold mkey_cmp. cbn.
    destruct (Z.compare a1 b1) eqn:E1; try discriminate. intros E2.
    apply Z.compare_eq_iff in E1, E2. now subst.
  - intros [a1 a2]. unfold mkey_cmp. cbn. now rewrite !Z.compare_refl.
Qed.

Theorem c10_pg_tree :
  forall (beta : pgkey -> N) (atomv : pgconstraint -> bool) cs fuel T,
    cs <> [] -> pg_tree fuel cs = Ok T ->
    faithful (pgv beta atomv) T cs /\ valid_indices T (length cs)
    /\ exists c0 i0 rest, sort_with_indices pgc_cmp cs = (c0, i0) :: rest /\ in_tree T i0.
Proof. exact pg_tree_ok. Qed.

(** the index singled out above is that of a smallest constraint: the head of
    the stable sort is minimal for any comparison that is a total preorder *)
Theorem c10_sorted_head_is_minimal :
  forall (A : Type) (cmp : A -> A -> comparison),
    (forall a b, cmp a b = Gt -> cmp b a <> Gt) ->
    (forall a b c, cmp a b <> Gt -> cmp b c <> Gt -> cmp a c <> Gt) ->
    forall l c0 i0 rest c i,
      sort_with_indices cmp l = (c0, i0) :: rest -> nth_error l i = Some c -> cmp c0 c <> Gt.
Proof. exact @sort_head_minimal. Qed.

(** Beyond the property: mutual exclusion at the root, and the first-satisfied-child
    reading (Spec/TreeDet.v).  C10 as stated follows every satisfied edge, and so
    does the traversal of a deterministic state (only its fallback transition is
    conditional); a tree that sets make_det announces that the children of its
    root exclude each other, which is what keeps a deterministic state from
    reaching the copied successors of its fallback state twice.  Generic part:
    the children of the root of [with_transitive_mutex] carry pairwise different
    constraints, each the first one or mutex with it.  Port graphs (smallest
    constraint IsConnected or HasNodeWeight): no host and no binding that is
    injective on their arguments satisfies two of them — a port carries at most
    one link.  For a smallest constraint IsNotEqual (a powerset tree) the root's
    children are not exclusive; there the subtree of the first satisfied child
    repeats every later constraint: [c10_with_powerset_det_faithful],
    [c10_pg_ne_tree_det_faithful] below. *)
Theorem c10_transitive_mutex_root :
  forall (C : Type) (ceqb : C -> C -> bool) (items : list (C * nat)) is_mutex T first fi rest,
    items = (first, fi) :: rest -> with_transitive_mutex ceqb items is_mutex = Ok T ->
    ct_make_det T = true /\
    exists root, nth_error (ct_nodes T) 0 = Some root
      /\ (forall c k, In (c, k) (tn_children root) -> In c (map fst items) /\ (c = first \/ is_mutex first c = true))
      /\ (forall l1 c1 k1 l2 c2 k2 l3, tn_children root = l1 ++ (c1, k1) :: l2 ++ (c2, k2) :: l3 -> ceqb c1 c2 = false).
Proof. exact @transitive_mutex_root. Qed.

Theorem c10_pg_tree_root_exclusive :
  forall cs fuel T first fi rest,
    sort_with_indices pgc_cmp cs = (first, fi) :: rest -> is_ne first = false ->
    pg_tree fuel cs = Ok T ->
    (forall c, In c cs -> length (cargs c) = pg_arity (cpred c)) ->
    ct_make_det T = true /\
    exists root, nth_error (ct_nodes T) 0 = Some root /\
      forall l1 c1 k1 l2 c2 k2 l3, tn_children root = l1 ++ (c1, k1) :: l2 ++ (c2, k2) :: l3 ->
        forall h m, inj_on m (cargs c1 ++ cargs c2) -> holds pg_dom h c1 m -> holds pg_dom h c2 m -> False.
Proof. exact pg_tree_root_exclusive. Qed.

(** Spec/TreeDet.v: [dreach] follows only the first satisfied child of the root;
    [det_faithful] is [faithful] with [dreach].  When no two children of the root
    hold together the two readings coincide. *)
Theorem c10_det_faithful_of_exclusive :
  forall (C : Type) (v : C -> bool) (T : ctree C) (cs : list C),
    root_exclusive v T -> faithful v T cs -> det_faithful v T cs.
Proof. exact @det_faithful_of_exclusive. Qed.

(** hence: the port-graph tree of a list whose smallest constraint is IsConnected
    or HasNodeWeight is faithful under the deterministic reading, on every host
    and under every binding that is injective on the keys of the list ([pg_vb h m c]
    is the verdict of is_satisfied, [pg_vb_holds]) *)
Theorem c10_pg_mutex_tree_det_faithful :
  forall cs fuel T first fi rest (h : pghost) (m : pgmap),
    sort_with_indices pgc_cmp cs = (first, fi) :: rest -> is_ne first = false ->
    pg_tree fuel cs = Ok T ->
    (forall c, In c cs -> length (cargs c) = pg_arity (cpred c)) ->
    inj_on m (flat_map cargs cs) ->
    det_faithful (pg_vb h m) T cs.
Proof. exact pg_mutex_tree_det_faithful. Qed.

(** the powerset tree under the deterministic reading: a second invariant of the
    loop (Proofs/PowersetDet.v: a queue item at the root only counts while no
    child of the root is satisfied) *)
Theorem c10_with_powerset_det_faithful :
  forall (C : Type) (ceqb : C -> C -> bool) (conditioned : C -> list C -> option C) (v : C -> bool)
         (cs : list (C * nat)) (orig : list C),
    (forall c i, In (c, i) cs -> nth_error orig i = Some c) ->
    (forall a b, ceqb a b = true -> v a = v b) ->
    (forall c sat, In c (map fst cs) -> incl sat (map fst cs) -> (forall s, In s sat -> v s = true) ->
       match conditioned c sat with None => v c = true | Some c' => v c' = v c end) ->
    forall fuel T, with_powerset ceqb conditioned fuel cs = Ok T -> det_faithful v T orig.
Proof. exact @with_powerset_det_faithful. Qed.

(** hence the port-graph tree of a list whose smallest constraint is IsNotEqual:
    every node assignment, every truth of the opaque predicates *)
Theorem c10_pg_ne_tree_det_faithful :
  forall (beta : pgkey -> N) (atomv : pgconstraint -> bool) cs fuel T first fi rest,
    sort_with_indices pgc_cmp cs = (first, fi) :: rest -> is_ne first = true ->
    pg_tree fuel cs = Ok T ->
    det_faithful (pgv beta atomv) T cs.
Proof. exact pg_ne_tree_det_faithful. Qed.

(** strings and matrices: the children of the root test one cell for pairwise
    different characters, so under every valuation that reads the constraints off
    characters ([cvalb char_of]: key k denotes the character [char_of k], any host,
    any anchor) the two readings coincide *)
Theorem c10_string_tree_det_faithful :
  forall (char_of : N -> option N) cs T,
    cs <> [] -> char_tree N.compare cs = Ok T -> det_faithful (cvalb char_of) T cs.
Proof.
  intros char_of cs T. apply char_tree_det_faithful.
  - intros a b. apply N.compare_eq_iff.
  - intros a. apply N.compare_refl.
Qed.

Theorem c10_matrix_tree_det_faithful :
  forall (char_of : mkey -> option N) cs T,
    cs <> [] -> char_tree mkey_cmp cs = Ok T -> det_faithful (cvalb char_of) T cs.
Proof.
  intros char_of cs T. apply char_tree_det_faithful.
  - intros [a1 a2] [b1 b2]. unfold mkey_cmp. cbn.
    destruct (Z.compare a1 b1) eqn:E1; try discriminate. intros E2.
    apply Z.compare_eq_iff in E1, E2. now subst.
  - intros [a1 a2]. unfold mkey_cmp. cbn. now rewrite !Z.compare_refl.
Qed.

(** Non-vacuity of the above: two links leaving the same port *)
Example c10_example_exclusive :
  let r := PathRoot 0 in let x := AlongPath 0 (POut 0) 1 in let y := AlongPath 0 (PIn 0) 1 in
  let cs := [{| cpred := IsConnected (POut 0) (PIn 0); cargs := [r; x] |};
             {| cpred := IsConnected (POut 0) (PIn 1); cargs := [r; y] |}] in
  exists T root, pg_tree 100 cs = Ok T /\ nth_error (ct_nodes T) 0 = Some root /\ length (tn_children root) = 2.
Proof. eexists. eexists. split; [vm_compute; reflexivity|split; reflexivity]. Qed.

(** Non-vacuity: the family NE(k; a, b), NE(k; b, c) *)
Example c10_example :
  let k := AlongPath 0 (POut 0) 1 in
  let a := PathRoot 0 in let b := PathRoot 1 in let c := AlongPath 0 (PIn 1) 1 in
  let cs := [{| cpred := IsNotEqual 2; cargs := [k; a; b] |}; {| cpred := IsNotEqual 2; cargs := [k; b; c] |}] in
  exists T, pg_tree 100 cs = Ok T /\ length (ct_nodes T) = 4 /\ ct_make_det T = true.
Proof. eexists. split; [vm_compute; reflexivity|split; reflexivity]. Qed.

(** what the property states — faithfulness, valid indices, which indices occur — does not
    depend on the make_det hint of a tree: a tree that differs from the modelled one only in
    that hint (what the comparison of `tree` cases establishes of the implementation's
    decomposition) has the same properties *)
Theorem c10_statement_independent_of_make_det_hint :
  forall (C : Type) (v : C -> bool) (T : ctree C) (b : bool) (cs : list C) (len : nat),
    (faithful v (set_make_det T b) cs <-> faithful v T cs)
    /\ (valid_indices (set_make_det T b) len <-> valid_indices T len)
    /\ (forall i, in_tree (set_make_det T b) i <-> in_tree T i).
Proof.
  intros C v T b cs len.
  assert (Hl : forall i n, labelled (set_make_det T b) i n <-> labelled T i n) by (intros; reflexivity).
  assert (Hi : forall i, in_tree (set_make_det T b) i <-> in_tree T i) by (intros; reflexivity).
  assert (Hr : forall n, treach v (set_make_det T b) n <-> treach v T n).
  { intros n. split; induction 1 as [|n0 nd c m Hr IH Hn Hc Hv]; try constructor.
    - eapply tr_child; eauto.
    - eapply (tr_child v (set_make_det T b)); eauto. }
  split; [|split; [reflexivity|exact Hi]].
  unfold faithful. split; intros F i Hin.
  - rewrite <- (F i Hin). split; intros [n [R L]]; exists n; split; auto; now apply Hr.
  - rewrite <- (F i Hin). split; intros [n [R L]]; exists n; split; auto; now apply Hr.
Qed.

Print Assumptions c10_with_children.
Print Assumptions c10_with_pairwise_mutex.
Print Assumptions c10_with_transitive_mutex.
Print Assumptions c10_with_powerset.
Print Assumptions c10_pg_conditioned_equiv.
Print Assumptions c10_string_tree.
Print Assumptions c10_matrix_tree.
Print Assumptions c10_pg_tree.
Print Assumptions c10_sorted_head_is_minimal.
Print Assumptions c10_transitive_mutex_root.
Print Assumptions c10_pg_tree_root_exclusive.
Print Assumptions c10_det_faithful_of_exclusive.
Print Assumptions c10_pg_mutex_tree_det_faithful.
Print Assumptions c10_with_powerset_det_faithful.
Print Assumptions c10_pg_ne_tree_det_faithful.
Print Assumptions c10_string_tree_det_faithful.
Print Assumptions c10_matrix_tree_det_faithful.
Print Assumptions c10_statement_independent_of_make_det_hint.
