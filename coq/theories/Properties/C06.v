(** C06 — pattern independence: the proof part is shared with C03/C04
    (Properties/C03.v): in any two certified automata, compiled from different
    pattern lists (other patterns, another order, duplicates) in which the same
    constraint list sits at positions i and j, pattern i of the first is
    accepted under exactly the valuations under which pattern j of the second
    is; in particular compiled alone or together makes no difference. *)
From PM Require Import Model.Prelude Model.Domain Model.Automaton
  Model.Traversal Model.DomString Model.DomMatrix Cert.LabCheck Cert.WinCheck Proofs.AbsEquiv Proofs.StringExact Proofs.MatrixExact Properties.C03
  Model.ManyGlue Proofs.ManyGlueProofs
  Model.DomPGKeys Model.DomPG Model.DomPGPattern Cert.PGCert Cert.WfCheck Proofs.PGSingleGood Proofs.PGAgree.

Theorem c06_pattern_independent_acceptance :
  forall (K V M H P : Type) (D : DomOps K V M H P), DomEq D ->
  forall (goodb : list K -> bool) (atoms : constraint K P -> list (constraint K P))
         (entails refutes : list (constraint K P) -> constraint K P -> bool)
         (v : constraint K P -> bool),
    (forall c, (forall a, In a (atoms c) -> v a = true) -> v c = true) ->
    (forall c, v c = true -> forall a, In a (atoms c) -> v a = true) ->
    (forall cp c, entails cp c = true -> (forall d, In d cp -> v d = true) -> v c = true) ->
    (forall cp c, refutes cp c = true -> (forall d, In d cp -> v d = true) -> v c = false) ->
    forall (A1 A2 : automaton K P) (L1 L2 : labelling) (cs1 cs2 : list (list (constraint K P)))
           (pr1 pr2 : list bool) i j cp,
      lab_ok D goodb atoms A1 L1 cs1 = true -> cert_complete entails refutes A1 cs1 pr1 = true ->
      lab_ok D goodb atoms A2 L2 cs2 = true -> cert_complete entails refutes A2 cs2 pr2 = true ->
      nth_error cs1 i = Some cp -> nth_error pr1 i = Some true ->
      nth_error cs2 j = Some cp -> nth_error pr2 j = Some true ->
      (aaccepts v A1 (N.of_nat i) <-> aaccepts v A2 (N.of_nat j)).
Proof. exact c04_c06_certified_automata_agree. Qed.

(** strings, at the level of the run: a pattern that sits at position i of one
    pattern list and position j of another (other patterns around it, another
    order, duplicates, alone) is reported at exactly the same host positions by
    any two automata compiled from the two lists that pass the certificate checks. *)
Theorem c06_string_runs_agree :
  forall A1 L1 rk1 ids1 pats1 pr1 A2 L2 rk2 ids2 pats2 pr2 h f1 f2 ms1 ms2 i j (p : spattern) a,
    s_certified A1 L1 rk1 ids1 pats1 pr1 -> s_certified A2 L2 rk2 ids2 pats2 pr2 ->
    run string_dom f1 A1 h = Ok ms1 -> run string_dom f2 A2 h = Ok ms2 ->
    nth_error pats1 i = Some p -> nth_error pr1 i = Some true ->
    nth_error pats2 j = Some p -> nth_error pr2 j = Some true -> p <> [] ->
    ((exists len, In (N.of_nat i, SBound a len) ms1) <-> (exists len, In (N.of_nat j, SBound a len) ms2)).
Proof. exact s_certified_agree. Qed.

Theorem c06_matrix_runs_agree :
  forall A1 L1 rk1 ids1 pats1 pr1 A2 L2 rk2 ids2 pats2 pr2 h f1 f2 ms1 ms2 i j (p : mpattern) s,
    m_certified A1 L1 rk1 ids1 pats1 pr1 -> m_certified A2 L2 rk2 ids2 pats2 pr2 ->
    run matrix_dom f1 A1 h = Ok ms1 -> run matrix_dom f2 A2 h = Ok ms2 ->
    nth_error pats1 i = Some p -> nth_error pr1 i = Some true ->
    nth_error pats2 j = Some p -> nth_error pr2 j = Some true ->
    ((exists a b, In (N.of_nat i, MBound s a b) ms1) <-> (exists a b, In (N.of_nat j, MBound s a b) ms2)).
Proof. exact m_certified_agree. Qed.

(** ** identifiers, fallback modes, the pattern table (Model/ManyGlue.v: the part of
    ManyMatcher::try_from_patterns_with_det_heuristic around the builder; [convert]
    is Pattern::try_to_constraint_vec)

    Skip: construction never fails on account of a conversion; exactly the
    convertible patterns are handed to the builder, each under its position in the
    input vector (no renumbering), once. *)
Theorem c06_skip_ids_are_input_positions :
  forall (PT CS E : Type) (convert : PT -> E + CS) (pats : list PT),
    exists l, compile convert FSkip pats = inr l
      /\ (forall id cs, In (id, cs) l <->
            exists p, nth_error pats (N.to_nat id) = Some p /\ convert p = inr cs)
      /\ NoDup (map fst l).
Proof. exact @compile_skip. Qed.

(** Fail: the conversion error of the first pattern that does not convert; when
    all convert, the same as Skip. *)
Theorem c06_fail_returns_first_error :
  forall (PT CS E : Type) (convert : PT -> E + CS) (pats : list PT),
    match compile convert FFail pats with
    | inr l => (forall p, In p pats -> exists cs, convert p = inr cs) /\ compile convert FSkip pats = inr l
    | inl e => exists l1 p l2, pats = l1 ++ p :: l2 /\ convert p = inl e
                               /\ forall q, In q l1 -> exists cs, convert q = inr cs
    end.
Proof. exact @compile_fail. Qed.

(** get_pattern answers exactly for the compiled patterns, with the pattern at
    that input position; n_patterns counts them. *)
Theorem c06_get_pattern_reflects_compiled :
  forall (PT CS E : Type) (convert : PT -> E + CS) (pats : list PT) l,
    compile convert FSkip pats = inr l ->
    forall id, get_pattern (pattern_table pats (map fst l)) id =
               match nth_error pats (N.to_nat id) with
               | Some p => match convert p with inr _ => Some p | inl _ => None end
               | None => None
               end.
Proof. exact @skip_table. Qed.

Theorem c06_n_patterns_counts_compiled :
  forall (PT CS E : Type) (convert : PT -> E + CS) (pats : list PT) l,
    compile convert FSkip pats = inr l -> n_patterns (pattern_table pats (map fst l)) = length l.
Proof. exact @skip_n_patterns. Qed.

(** port graphs: in general refuted (D10, Properties/C04.v); on pattern lists whose
    automata only use keys of the first root — every set of single-root patterns —
    a good pattern that sits at position i1 of one list and i2 of another (other
    patterns around it, another order, duplicates, alone) is reported by the second
    automaton whenever the first reports it, with the same bindings. *)
Theorem c06_portgraph_runs_agree_on_single_root_pattern_sets :
  forall (P : pghost) (root : N) cs nk (H : pghost)
         (A1 : automaton pgkey pgpred) (L1 : labelling) css1 i1 fuel1 ms1 b1
         (A2 : automaton pgkey pgpred) rk2 ids2 css2 pres2 i2 fuel2 ms2,
    pg_cvec_full P root = Ok (cs, nk) -> lines_cover P root = true -> lines_sound P root = true ->
    nodes_keyed P nk = true -> keys_distinct nk = true -> pg_good_pattern P root cs nk = true ->
    root_linked P root = true -> pg_host_wfb P = true -> pg_host_wfb H = true ->
    lab_ok pg_dom (fun _ => true) pg_atoms A1 L1 css1 = true -> nth_error css1 i1 = Some cs ->
    run pg_dom fuel1 A1 H = Ok ms1 -> In (N.of_nat i1, b1) ms1 ->
    wf_check pg_dom A2 rk2 ids2 = true -> cert_complete pg_entails pg_refutes A2 css2 pres2 = true ->
    nth_error css2 i2 = Some cs -> nth_error pres2 i2 = Some true ->
    aut_single_root A2 = true -> match_keys_in nk A2 (N.of_nat i2) = true ->
    run pg_dom fuel2 A2 H = Ok ms2 ->
    exists st keys b2, In st (au_states A2) /\ In (N.of_nat i2, keys) (a_matches st) /\ In (N.of_nat i2, b2) ms2
      /\ forall k, In k keys -> pgget b2 k = pgget b1 k.
Proof. exact pg_runs_agree. Qed.

Example c06_example_skip :
  compile (fun p : N => if N.eqb p 7 then inl tt else inr [p]) FSkip [1; 7; 3]%N = inr [(0, [1]); (2, [3])]%N
  /\ compile (fun p : N => if N.eqb p 7 then inl tt else inr [p]) FFail [1; 7; 3]%N = inl tt.
Proof. split; reflexivity. Qed.

Print Assumptions c06_pattern_independent_acceptance.
Print Assumptions c06_skip_ids_are_input_positions.
Print Assumptions c06_fail_returns_first_error.
Print Assumptions c06_get_pattern_reflects_compiled.
Print Assumptions c06_n_patterns_counts_compiled.
Print Assumptions c06_matrix_runs_agree.
Print Assumptions c06_string_runs_agree.
Print Assumptions c06_portgraph_runs_agree_on_single_root_pattern_sets.
