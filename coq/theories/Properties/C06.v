(** C06 — pattern independence: the proof part is shared with C03/C04
    (Properties/C03.v): in any two certified automata, compiled from different
    pattern lists (other patterns, another order, duplicates) in which the same
    constraint list sits at positions i and j, pattern i of the first is
    accepted under exactly the valuations under which pattern j of the second
    is; in particular compiled alone or together makes no difference. *)
From PM Require Import Model.Prelude Model.Domain Model.Automaton
  Model.Traversal Model.DomString Model.DomMatrix Cert.LabCheck Cert.WinCheck Proofs.AbsEquiv Proofs.StringExact Proofs.MatrixExact Properties.C03.

Theorem c06_pattern_independent_acceptance :
  forall (K V M H P : Type) (D : DomOps K V M H P), DomEq D ->
  forall (goodb : list K -> bool) (atoms : constraint K P -> list (constraint K P))
         (entails refutes : list (constraint K P) -> constraint K P -> bool)
         (v : constraint K P -> bool),
    (forall c, (forall a, In a (atoms c) -> v a = true) -> v c = true) ->
    (forall c, v c = true -> forall a, In a (atoms c) -> v a = true) ->
    (forall cp c, entails cp c = true -> (forall d, In d cp -> v d = true) -> v c = true) ->
    (forall cp c, refutes cp c = true -> (forall d, In d cp -> v d = true) -> v c = false) ->
    forall (A1 A2 : automaton K P) (L1 L2 : labelling) (cs1 cs2 : list (list (constraint K P)))
           (pr1 pr2 : list bool) i j cp,
      lab_ok D goodb atoms A1 L1 cs1 = true -> cert_complete entails refutes A1 cs1 pr1 = true ->
      lab_ok D goodb atoms A2 L2 cs2 = true -> cert_complete entails refutes A2 cs2 pr2 = true ->
      nth_error cs1 i = Some cp -> nth_error pr1 i = Some true ->
      nth_error cs2 j = Some cp -> nth_error pr2 j = Some true ->
      (aaccepts v A1 (N.of_nat i) <-> aaccepts v A2 (N.of_nat j)).
Proof. exact c04_c06_certified_automata_agree. Qed.

(** strings, at the level of the run: a pattern that sits at position i of one
    pattern list and position j of another (other patterns around it, another
    order, duplicates, alone) is reported at exactly the same host positions by
    any two automata compiled from the two lists that pass the certificate checks. *)
Theorem c06_string_runs_agree :
  forall A1 L1 rk1 ids1 pats1 pr1 A2 L2 rk2 ids2 pats2 pr2 h f1 f2 ms1 ms2 i j (p : spattern) a,
    s_certified A1 L1 rk1 ids1 pats1 pr1 -> s_certified A2 L2 rk2 ids2 pats2 pr2 ->
    run string_dom f1 A1 h = Ok ms1 -> run string_dom f2 A2 h = Ok ms2 ->
    nth_error pats1 i = Some p -> nth_error pr1 i = Some true ->
    nth_error pats2 j = Some p -> nth_error pr2 j = Some true -> p <> [] ->
    ((exists len, In (N.of_nat i, SBound a len) ms1) <-> (exists len, In (N.of_nat j, SBound a len) ms2)).
Proof. exact s_certified_agree. Qed.

Theorem c06_matrix_runs_agree :
  forall A1 L1 rk1 ids1 pats1 pr1 A2 L2 rk2 ids2 pats2 pr2 h f1 f2 ms1 ms2 i j (p : mpattern) s,
    m_certified A1 L1 rk1 ids1 pats1 pr1 -> m_certified A2 L2 rk2 ids2 pats2 pr2 ->
    run matrix_dom f1 A1 h = Ok ms1 -> run matrix_dom f2 A2 h = Ok ms2 ->
    nth_error pats1 i = Some p -> nth_error pr1 i = Some true ->
    nth_error pats2 j = Some p -> nth_error pr2 j = Some true ->
    ((exists a b, In (N.of_nat i, MBound s a b) ms1) <-> (exists a b, In (N.of_nat j, MBound s a b) ms2)).
Proof. exact m_certified_agree. Qed.

Print Assumptions c06_pattern_independent_acceptance.
Print Assumptions c06_matrix_runs_agree.
Print Assumptions c06_string_runs_agree.
