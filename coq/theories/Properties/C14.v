(** C14 — Binding maps behave like maps and agree with what their host offers.
    Statements only; proofs live in Proofs/BindMap*.v.
    [amap] stands for both generic maps (HashMap, BTreeMap): only get / bind /
    retain_keys are observable through the trait. [spm]/[mpm] are the string and
    matrix position maps; [mretain string_dom]/[m_retain] are the (repaired)
    default retain_keys, which receives the key set in its iteration order. *)
From PM Require Import Model.Prelude Model.Domain Model.BindMaps Model.DomString Model.DomMatrix
  Proofs.BindMapProofs Proofs.BindMapMatrixProofs Proofs.BindMapHistories.

(** ** generic maps *)
Theorem c14_generic_bind_ok_iff :
  forall (K V : Type) (keqb : K -> K -> bool) (veqb : V -> V -> bool),
    (forall a b, keqb a b = true <-> a = b) -> (forall a b, veqb a b = true <-> a = b) ->
    forall (m : @amap K V) k v,
      (exists m', abind keqb veqb m k v = Some m') <-> (aget keqb m k = None \/ aget keqb m k = Some v).
Proof. intros K V keqb veqb Hk Hv. exact (abind_ok_iff keqb veqb Hv). Qed.

Theorem c14_generic_bind_get :
  forall (K V : Type) (keqb : K -> K -> bool) (veqb : V -> V -> bool),
    (forall a b, keqb a b = true <-> a = b) ->
    forall (m : @amap K V) k v m',
      abind keqb veqb m k v = Some m' ->
      aget keqb m' k = Some v /\ forall k', k' <> k -> aget keqb m' k' = aget keqb m k'.
Proof. intros K V keqb veqb Hk. exact (abind_get keqb veqb Hk). Qed.

Theorem c14_generic_retain_get :
  forall (K V : Type) (keqb : K -> K -> bool),
    (forall a b, keqb a b = true <-> a = b) ->
    forall keys (m : @amap K V) k,
      aget keqb (aretain keqb keys m) k = if memb keqb k keys then aget keqb m k else None.
Proof. intros K V keqb Hk. exact (aretain_get keqb Hk). Qed.

Theorem c14_generic_history :
  forall (K V : Type) (keqb : K -> K -> bool) (veqb : V -> V -> bool),
    (forall a b, keqb a b = true <-> a = b) -> (forall a b, veqb a b = true <-> a = b) ->
    forall ops (m : @amap K V) k v,
      aget keqb m k = Some v -> retains_keep k ops ->
      aget keqb (mfinal (aget keqb) (abind keqb veqb)
                   (fun keys m => Ok (aretain keqb keys m)) m ops) k = Some v.
Proof. exact @a_history_get_stable. Qed.

(** ** string position map *)
Local Open Scope N_scope.

Theorem c14_string_get_within_extent :
  forall m k v, sget m k = Some v -> exists s l, m = SBound s l /\ k < l /\ v = s + k.
Proof. exact sget_extent. Qed.

Theorem c14_string_bind_ok_iff :
  forall m k v,
    (exists m', sbind m k v = Some m') <-> ((k = 0 /\ m = SUnbound) \/ (k <> 0 /\ m <> SUnbound)).
Proof. exact sbind_ok_iff. Qed.

Theorem c14_string_bind_offered :
  forall h m k v m', sbind m k v = Some m' -> In v (s_opts h k m) -> sget m' k = Some v.
Proof. exact sbind_offered. Qed.

Theorem c14_string_retain_ok :
  forall order m, NoDup order -> In 0 order ->
    exists m', mretain string_dom order m = Ok m'
      /\ (forall k, In k order -> sget m' k = sget m k)
      /\ (forall k v, sget m' k = Some v -> sget m k = Some v).
Proof. exact s_retain_ok. Qed.

Theorem c14_string_history :
  forall ops m k v,
    sget m k = Some v ->
    hist_ok sget sbind (mretain string_dom) s_good k m ops ->
    sget (mfinal sget sbind (mretain string_dom) m ops) k = Some v.
Proof. exact s_history_get_stable. Qed.

(** ** matrix position map *)
Local Open Scope Z_scope.

Theorem c14_matrix_get_within_extent :
  forall m k v, mmget m k = Some v ->
    exists s a b, m = MBound s a b /\ inbox k a b
      /\ add_signed (fst s) (fst k) = Some (fst v) /\ add_signed (snd s) (snd k) = Some (snd v).
Proof. exact mmget_extent. Qed.

Theorem c14_matrix_bind_ok_iff :
  forall m k v,
    (exists m', mmbind m k v = Some m')
    <-> ((k = (0, 0) /\ m = MUnbound) \/ (k <> (0, 0) /\ m <> MUnbound)).
Proof. exact mmbind_ok_iff. Qed.

Theorem c14_matrix_bind_offered :
  forall h m k v m' vs,
    mm_wf m -> mmbind m k v = Some m' -> m_opts h k m = Ok vs -> In v vs -> mmget m' k = Some v.
Proof. exact mmbind_offered. Qed.

Theorem c14_matrix_retain_ok :
  forall order m, NoDup order -> In (0, 0) order -> mm_wf m ->
    existsb (mmget_panics m) order = false ->
    exists m', m_retain order m = Ok m' /\ mm_wf m'
      /\ (forall k, In k order -> mmget m' k = mmget m k)
      /\ (forall k v, mmget m' k = Some v -> mmget m k = Some v).
Proof. exact m_retain_ok. Qed.

Theorem c14_matrix_history :
  forall ops m k v,
    mm_wf m -> mmget m k = Some v ->
    hist_ok mmget mmbind m_retain m_good k m ops ->
    mmget (mfinal mmget mmbind m_retain m ops) k = Some v
    /\ mm_wf (mfinal mmget mmbind m_retain m ops).
Proof. exact m_history_get_stable. Qed.

(** ** D3: the default retain_keys of the pinned commit panics on a
    prerequisite-closed set iterated with the start key last. *)
Theorem c14_pinned_retain_refuted :
  exists order m, NoDup order /\ In 0%N order
    /\ retain_default SUnbound sget sbind order m = Panic SiteRetainUnwrap.
Proof. exact s_retain_pinned_refuted. Qed.

(** Non-vacuity: concrete histories meeting the hypotheses. *)
Example c14_example_string :
  let ops := [OBind 0%N 3%N; OBind 4%N 7%N; ORetain [4; 0]%N; OBind 2%N 5%N] in
  mfinal sget sbind (mretain string_dom) SUnbound ops = SBound 3 5
  /\ hist_ok sget sbind (mretain string_dom) s_good 0%N SUnbound ops.
Proof.
  split; [vm_compute; reflexivity|].
  cbn. repeat split; auto; repeat constructor; cbn; intuition discriminate.
Qed.

Example c14_example_matrix :
  let ops := [OBind (0, 0) (1%N, 1%N); OBind (1, 2) (2%N, 3%N); ORetain [(1, 2); (0, 0)]] in
  mfinal mmget mmbind m_retain MUnbound ops = MBound (1%N, 1%N) (0, 0) (1, 2)
  /\ hist_ok mmget mmbind m_retain m_good (0, 0) MUnbound ops.
Proof.
  split; [vm_compute; reflexivity|].
  cbn. repeat split; auto; repeat constructor; cbn; intuition discriminate.
Qed.

Print Assumptions c14_generic_bind_ok_iff.
Print Assumptions c14_generic_bind_get.
Print Assumptions c14_generic_retain_get.
Print Assumptions c14_generic_history.
Print Assumptions c14_string_get_within_extent.
Print Assumptions c14_string_bind_ok_iff.
Print Assumptions c14_string_bind_offered.
Print Assumptions c14_string_retain_ok.
Print Assumptions c14_string_history.
Print Assumptions c14_matrix_get_within_extent.
Print Assumptions c14_matrix_bind_ok_iff.
Print Assumptions c14_matrix_bind_offered.
Print Assumptions c14_matrix_retain_ok.
Print Assumptions c14_matrix_history.
Print Assumptions c14_pinned_retain_refuted.
