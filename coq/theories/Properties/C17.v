(** C17 — reproducibility.  In the model every source of order that is not a
    function of the input values is an explicit argument (the dump fixes the
    stored order of matches and transitions; retain_keys receives its key list),
    so the modelled construction-independent part is a function: the same dumped
    automaton and host give the same match sequence.  What could break
    reproducibility in the implementation lives in the runtime (hasher seeds,
    address-space layout) and is decided by the source audit and the in-process
    and cross-process differential check, not by these (thin) theorems. *)
From PM Require Import Model.Prelude Model.Domain Model.Automaton Model.Traversal Model.Matchers.

Theorem c17_run_is_a_function :
  forall (K V M H P : Type) (D : DomOps K V M H P) fuel (A1 A2 : automaton K P) (h1 h2 : H),
    A1 = A2 -> h1 = h2 -> run D fuel A1 h1 = run D fuel A2 h2.
Proof. intros; subst; reflexivity. Qed.

Theorem c17_naive_is_a_function :
  forall (K V M H P : Type) (D : DomOps K V M H P) fuel (c1 c2 : list (list (constraint K P))) (h1 h2 : H),
    c1 = c2 -> h1 = h2 -> naive D fuel c1 h1 = naive D fuel c2 h2.
Proof. intros; subst; reflexivity. Qed.

Print Assumptions c17_run_is_a_function.
Print Assumptions c17_naive_is_a_function.
