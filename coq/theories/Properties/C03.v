(** C03 / C04 / C06 — what the proof part carries: on every automaton that
    passes both certificates, acceptance of pattern i under a valuation is
    *equivalent* to the truth of the constraints of pattern i alone.  Hence two
    certified automata for constraint lists that agree at position i (other
    patterns, another order, another determinisation heuristic) accept pattern
    i under exactly the same valuations (same hosts and anchors), and so does
    the one-pattern automaton.  For strings the statement is carried down to
    the two matchers themselves (c03_string_many_equals_naive): the run on a
    certified automaton and NaiveManyMatcher report every non-empty pattern at
    exactly the same host positions.  For the other domains the step from
    abstract acceptance to the concrete traversal is as in C01 (proved,
    soundness direction) and C02 (correspondence/oracle, completeness direction).
    Proofs in Proofs/AbsEquiv.v, StringExact.v, StringSingle.v. *)
From PM Require Import Model.Prelude Model.Domain Model.Automaton
  Model.Traversal Model.Matchers Model.DomString
  Cert.LabCheck Cert.WinCheck Proofs.AbsEquiv Proofs.StringExact Proofs.StringSingle
  Model.DomPGKeys Model.DomPG Cert.PGCert Proofs.PGComplete Model.DomMatrix Proofs.MatrixExact Proofs.MatrixSingle
  Model.Matchers Model.DomPGPattern Cert.WfCheck Proofs.PGSingleGood Proofs.PGAgree.

Theorem c03_accepts_iff_constraints :
  forall (K V M H P : Type) (D : DomOps K V M H P), DomEq D ->
  forall (goodb : list K -> bool) (atoms : constraint K P -> list (constraint K P))
         (entails refutes : list (constraint K P) -> constraint K P -> bool)
         (v : constraint K P -> bool),
    (forall c, (forall a, In a (atoms c) -> v a = true) -> v c = true) ->
    (forall c, v c = true -> forall a, In a (atoms c) -> v a = true) ->
    (forall cp c, entails cp c = true -> (forall d, In d cp -> v d = true) -> v c = true) ->
    (forall cp c, refutes cp c = true -> (forall d, In d cp -> v d = true) -> v c = false) ->
    forall (A : automaton K P) (L : labelling) (cs : list (list (constraint K P))),
      lab_ok D goodb atoms A L cs = true ->
      forall present i cp,
        cert_complete entails refutes A cs present = true ->
        nth_error cs i = Some cp -> nth_error present i = Some true ->
        (aaccepts v A (N.of_nat i) <-> forall c, In c cp -> v c = true).
Proof. exact @accepts_iff. Qed.

(** heuristic / pattern-set independence at the abstract level *)
Theorem c04_c06_certified_automata_agree :
  forall (K V M H P : Type) (D : DomOps K V M H P), DomEq D ->
  forall (goodb : list K -> bool) (atoms : constraint K P -> list (constraint K P))
         (entails refutes : list (constraint K P) -> constraint K P -> bool)
         (v : constraint K P -> bool),
    (forall c, (forall a, In a (atoms c) -> v a = true) -> v c = true) ->
    (forall c, v c = true -> forall a, In a (atoms c) -> v a = true) ->
    (forall cp c, entails cp c = true -> (forall d, In d cp -> v d = true) -> v c = true) ->
    (forall cp c, refutes cp c = true -> (forall d, In d cp -> v d = true) -> v c = false) ->
    forall (A1 A2 : automaton K P) (L1 L2 : labelling) (cs1 cs2 : list (list (constraint K P)))
           (pr1 pr2 : list bool) i j cp,
      lab_ok D goodb atoms A1 L1 cs1 = true -> cert_complete entails refutes A1 cs1 pr1 = true ->
      lab_ok D goodb atoms A2 L2 cs2 = true -> cert_complete entails refutes A2 cs2 pr2 = true ->
      nth_error cs1 i = Some cp -> nth_error pr1 i = Some true ->
      nth_error cs2 j = Some cp -> nth_error pr2 j = Some true ->
      (aaccepts v A1 (N.of_nat i) <-> aaccepts v A2 (N.of_nat j)).
Proof.
  intros K V M H P D E goodb atoms entails refutes v H1 H2 H3 H4 A1 A2 L1 L2 cs1 cs2 pr1 pr2 i j cp
         C1 W1 C2 W2 N1 P1 N2 P2.
  rewrite (accepts_iff D E goodb atoms entails refutes v H1 H2 H3 H4 A1 L1 cs1 C1 pr1 i cp W1 N1 P1).
  rewrite (accepts_iff D E goodb atoms entails refutes v H1 H2 H3 H4 A2 L2 cs2 C2 pr2 j cp W2 N2 P2).
  tauto.
Qed.

Theorem c03_string_many_equals_naive :
  forall A L rk ids (pats : list spattern) present h f1 f2 ms1 ms2 i p a,
    s_certified A L rk ids pats present ->
    run string_dom f1 A h = Ok ms1 ->
    naive string_dom f2 (map s_cvec pats) h = Ok ms2 ->
    nth_error pats i = Some p -> nth_error present i = Some true -> p <> [] ->
    ((exists len, In (N.of_nat i, SBound a len) ms1) <-> (exists len, In (N.of_nat i, SBound a len) ms2)).
Proof.
  intros A L rk ids pats present h f1 f2 ms1 ms2 i p a C R Nv Hp Hpr Hne.
  rewrite (s_run_exact A L rk ids pats present h f1 ms1 i p a C R Hp Hpr Hne).
  rewrite (s_naive_exact pats h f2 ms2 i p a Nv Hp Hne). tauto.
Qed.

Theorem c03_matrix_many_equals_naive :
  forall A L rk ids (pats : list mpattern) present h f1 f2 ms1 ms2 i p s,
    m_certified A L rk ids pats present ->
    run matrix_dom f1 A h = Ok ms1 ->
    naive matrix_dom f2 (map m_cvec pats) h = Ok ms2 ->
    nth_error pats i = Some p -> nth_error present i = Some true ->
    ((exists a b, In (N.of_nat i, MBound s a b) ms1) <-> (exists a b, In (N.of_nat i, MBound s a b) ms2)).
Proof.
  intros A L rk ids pats present h f1 f2 ms1 ms2 i p s C R Nv Hp Hpr.
  rewrite (m_run_exact A L rk ids pats present h f1 ms1 i p s C R Hp Hpr).
  rewrite (m_naive_exact pats h f2 ms2 i p s Nv Hp). tauto.
Qed.

(** port graphs: the same equivalence under the valuation of a host and a binding map *)
Theorem c03_portgraph_accepts_iff_constraints :
  forall (A : automaton pgkey pgpred) (L : labelling) cs present i cp (h : pghost) (m : pgmap),
    lab_ok pg_dom (fun _ => true) pg_atoms A L cs = true ->
    cert_complete pg_entails pg_refutes A cs present = true ->
    nth_error cs i = Some cp -> nth_error present i = Some true ->
    (aaccepts (pgval h m) A (N.of_nat i) <-> forall c, In c cp -> pgval h m c = true).
Proof. exact pg_accepts_iff. Qed.

(** Port graphs, where the property does hold (in general it is refuted, see C04):
    on good patterns ([pg_good_pattern]; the root on a link) the automaton and
    SinglePatternMatcher report the same matches, bindings included - what the
    baseline reports, every complete automaton over single-root keys reports with
    the same values on its recorded keys; what a sound automaton reports, the
    baseline reports with the same values on every key of the pattern. *)
Theorem c03_portgraph_single_then_many_on_single_root_sets :
  forall (P : pghost) (root : N) cs nk (H : pghost) fuel1 r1 m1
         (A2 : automaton pgkey pgpred) rk2 ids2 css2 pres2 i2 fuel2 ms2,
    pg_cvec_full P root = Ok (cs, nk) -> lines_cover P root = true -> lines_sound P root = true ->
    nodes_keyed P nk = true -> keys_distinct nk = true -> pg_good_pattern P root cs nk = true ->
    root_linked P root = true -> pg_host_wfb P = true -> pg_host_wfb H = true ->
    single pg_dom fuel1 cs H = Ok r1 -> In m1 r1 ->
    wf_check pg_dom A2 rk2 ids2 = true -> cert_complete pg_entails pg_refutes A2 css2 pres2 = true ->
    nth_error css2 i2 = Some cs -> nth_error pres2 i2 = Some true ->
    aut_single_root A2 = true -> match_keys_in nk A2 (N.of_nat i2) = true ->
    run pg_dom fuel2 A2 H = Ok ms2 ->
    exists st keys b2, In st (au_states A2) /\ In (N.of_nat i2, keys) (a_matches st) /\ In (N.of_nat i2, b2) ms2
      /\ forall k, In k keys -> pgget b2 k = pgget m1 k.
Proof. exact pg_single_then_run. Qed.

Theorem c03_portgraph_many_then_single_on_good_patterns :
  forall (P : pghost) (root : N) cs nk (H : pghost)
         (A1 : automaton pgkey pgpred) (L1 : labelling) css1 i1 fuel1 ms1 b1 fuel2 r2,
    pg_cvec_full P root = Ok (cs, nk) -> lines_cover P root = true -> lines_sound P root = true ->
    nodes_keyed P nk = true -> keys_distinct nk = true -> pg_good_pattern P root cs nk = true ->
    root_linked P root = true -> pg_host_wfb P = true -> pg_host_wfb H = true ->
    lab_ok pg_dom (fun _ => true) pg_atoms A1 L1 css1 = true -> nth_error css1 i1 = Some cs ->
    run pg_dom fuel1 A1 H = Ok ms1 -> In (N.of_nat i1, b1) ms1 ->
    single pg_dom fuel2 cs H = Ok r2 ->
    exists m2, In m2 r2 /\ forall u k, In (u, k) nk -> pgget m2 k = pgget b1 k.
Proof. exact pg_run_then_single. Qed.

(** the keys an accepting state records for a pattern (add_pattern, Model/Scopes.v; compared
    with every dump: case field [mkeys]) are, as a set, the keys the one-pattern matcher
    requests and binds for it ([Matchers.requested], single_pattern.rs): both matchers
    report bindings of the same keys, in every domain *)
From PM Require Import Model.Scheme Model.Scopes Spec.TopoSpec Proofs.ScopesProofs.

Theorem c03_recorded_keys_are_the_single_matcher_keys :
  forall (K V M H P : Type) (D : DomOps K V M H P), DomEq D -> acyclic (req D) ->
  forall (fuel fuel' : nat) (extra : list K) (cs : list (constraint K P)) (l l' : list K),
    pattern_keys D fuel extra cs = Ok l ->
    Matchers.requested D fuel' extra cs = Ok l' ->
    forall x, In x l <-> In x l'.
Proof.
  intros K V M H P D HD Hac fuel fuel' extra cs l l' E E'.
  exact (pattern_keys_same_as_requested D HD Hac fuel fuel' extra cs l l' E E').
Qed.

(** ... and on a dump whose recorded key lists pass the recomputation (case field [mkeys ()]):
    what an accepting state records for pattern i is, as a set, what the one-pattern matcher
    of pattern i requests *)
Theorem c03_dump_records_the_single_matcher_keys :
  forall (K V M H P : Type) (D : DomOps K V M H P), DomEq D -> acyclic (req D) ->
  forall (fuel fuel' : nat) (A : Automaton.automaton K P)
         (pats : list (option (list K * list (constraint K P)))),
    match_key_mismatches D fuel A pats = [] ->
    forall s pk, In s (Automaton.au_states A) -> In pk (Automaton.a_matches s) ->
      exists extra cs, nth_error pats (N.to_nat (fst pk)) = Some (Some (extra, cs))
        /\ forall l', Matchers.requested D fuel' extra cs = Ok l' -> forall x, In x (snd pk) <-> In x l'.
Proof.
  intros K V M H P D HD Hac fuel fuel' A pats Em s pk Hs Hpk.
  destruct (match_keys_cover D HD Hac fuel A pats Em s pk Hs Hpk) as [extra [cs [l [En [Ep [H1 [H2 _]]]]]]].
  exists extra, cs. split; [exact En|]. intros l' El' x.
  rewrite <- (pattern_keys_same_as_requested D HD Hac fuel fuel' extra cs l l' Ep El' x).
  split; [apply H2|apply H1].
Qed.

Print Assumptions c03_accepts_iff_constraints.
Print Assumptions c03_portgraph_accepts_iff_constraints.
Print Assumptions c03_string_many_equals_naive.
Print Assumptions c03_matrix_many_equals_naive.
Print Assumptions c04_c06_certified_automata_agree.
Print Assumptions c03_portgraph_single_then_many_on_single_root_sets.
Print Assumptions c03_portgraph_many_then_single_on_good_patterns.
Print Assumptions c03_recorded_keys_are_the_single_matcher_keys.
Print Assumptions c03_dump_records_the_single_matcher_keys.
