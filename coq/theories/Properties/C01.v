(** C01 — Soundness: every reported match satisfies every constraint of its
    pattern, on every host, for every automaton that passes the labelling
    certificate [lab_ok] (evaluated on each automaton the real builder
    produces).  Statements only; proofs in Proofs/RunSound.v. *)
From PM Require Import Model.Prelude Model.Domain Model.Constraint Model.Automaton Model.Traversal
  Model.DomString Model.DomMatrix Cert.LabCheck Cert.CharCert Cert.ExampleAut
  Proofs.RunSound Proofs.LawfulDomains Proofs.BindMapMatrixProofs
  Spec.Occ Proofs.OccProofs Proofs.CellsProofs Proofs.OccString Proofs.OccMatrix
  Model.DomPGKeys Model.DomPG Model.DomPGPattern Cert.PGCert Proofs.PGLawful Proofs.PGEmbed
  Model.BindMaps Model.DomTable Proofs.TableLawful.

(** generic over the domain: lawful binding maps, any host, any execution *)
Theorem c01_run_sound :
  forall (K V M H P : Type) (D : DomOps K V M H P), DomEq D ->
  forall (Inv : H -> M -> Prop) (goodb : list K -> bool)
         (atoms : constraint K P -> list (constraint K P)),
    Lawful D Inv goodb ->
    (forall h c m, (forall a, In a (atoms c) -> holds D h a m) -> holds D h c m) ->
    (forall h c m, holds D h c m -> forall a, In a (atoms c) -> holds D h a m) ->
    forall (A : automaton K P) (L : labelling) (cs : list (list (constraint K P))),
      lab_ok D goodb atoms A L cs = true ->
      forall (h : H) (fuel : nat) (ms : list (N * M)),
        run D fuel A h = Ok ms ->
        forall pm, In pm ms ->
          Inv h (snd pm)
          /\ exists cp, nth_error cs (N.to_nat (fst pm)) = Some cp
                        /\ forall c, In c cp -> holds D h c (snd pm).
Proof. exact @run_sound. Qed.

Theorem c01_string_run_sound :
  forall (A : automaton N cpredicate) (L : labelling) (cs : list (list sconstraint)),
    lab_ok string_dom s_goodb atoms_self A L cs = true ->
    forall (h : shost) (fuel : nat) (ms : list (N * spm)),
      run string_dom fuel A h = Ok ms ->
      forall pm, In pm ms ->
        exists cp, nth_error cs (N.to_nat (fst pm)) = Some cp
                   /\ forall c, In c cp -> holds string_dom h c (snd pm).
Proof.
  intros A L cs C h fuel ms R pm Hin.
  refine (proj2 (run_sound string_dom string_dom_eq (fun _ _ => True) s_goodb atoms_self string_lawful
                   _ _ A L cs C h fuel ms R pm Hin)).
  - intros h0 c m. apply atoms_self_sound.
  - intros h0 c m. apply atoms_self_complete.
Qed.

Theorem c01_matrix_run_sound :
  forall (A : automaton mkey cpredicate) (L : labelling) (cs : list (list mconstraint)),
    lab_ok matrix_dom m_goodb atoms_self A L cs = true ->
    forall (h : mhost) (fuel : nat) (ms : list (N * mpm)),
      run matrix_dom fuel A h = Ok ms ->
      forall pm, In pm ms ->
        m_inv h (snd pm)
        /\ exists cp, nth_error cs (N.to_nat (fst pm)) = Some cp
                      /\ forall c, In c cp -> holds matrix_dom h c (snd pm).
Proof.
  intros A L cs. apply (run_sound matrix_dom matrix_dom_eq m_inv m_goodb atoms_self matrix_lawful).
  - intros h c m. apply atoms_self_sound.
  - intros h c m. apply atoms_self_complete.
Qed.

(** Strings, against the occurrence semantics (Spec/Occ.v): every match reported
    for a non-empty pattern is anchored at a character position where the
    pattern occurs (each literal equals the host character, equal variables see
    equal characters, every cell lies on an existing character). *)
Theorem c01_string :
  forall (pats : list spattern) (A : automaton N cpredicate) (L : labelling),
    lab_ok string_dom s_goodb atoms_self A L (map s_cvec pats) = true ->
    forall (h : shost) (fuel : nat) (ms : list (N * spm)),
      run string_dom fuel A h = Ok ms ->
      forall pid m, In (pid, m) ms ->
        exists p, nth_error pats (N.to_nat pid) = Some p
                  /\ (p = [] \/ exists a len, m = SBound a len /\ occ_string p h a).
Proof.
  intros pats A L C h fuel ms R pid m Hin.
  destruct (c01_string_run_sound A L _ C h fuel ms R (pid, m) Hin) as [cp [Hn Hall]]. cbn in Hn, Hall.
  rewrite nth_error_map in Hn. destruct (nth_error pats (N.to_nat pid)) as [p|]; [|discriminate].
  inversion Hn; subst. exists p. split; auto.
  destruct p as [|cv p']; [now left|right].
  apply s_constraints_sound; [discriminate|exact Hall].
Qed.

(** Matrices: every reported match is anchored at an existing host cell on which
    the pattern occurs. *)
Theorem c01_matrix :
  forall (pats : list mpattern) (A : automaton mkey cpredicate) (L : labelling),
    lab_ok matrix_dom m_goodb atoms_self A L (map m_cvec pats) = true ->
    forall (h : mhost) (fuel : nat) (ms : list (N * mpm)),
      run matrix_dom fuel A h = Ok ms ->
      forall pid m, In (pid, m) ms ->
        exists p, nth_error pats (N.to_nat pid) = Some p
                  /\ exists s a b, m = MBound s a b /\ occ_matrix p h s.
Proof.
  intros pats A L C h fuel ms R pid m Hin.
  destruct (c01_matrix_run_sound A L _ C h fuel ms R (pid, m) Hin) as [Iv [cp [Hn Hall]]]. cbn in Iv, Hn, Hall.
  rewrite nth_error_map in Hn. destruct (nth_error pats (N.to_nat pid)) as [p|]; [|discriminate].
  inversion Hn; subst. exists p. split; auto.
  apply m_constraints_sound; assumption.
Qed.

(** D2 (repaired by commit 8a57af0): with the constraint vector of the pinned
    commit a variable that occurs once is never required to exist. *)
Theorem c01_matrix_pinned_refuted :
  exists (p : mpattern) (h : mhost) (s : mval),
    forallb (cvalb (m_char_of h s)) (m_cvec_pinned p) = true /\ ~ occ_matrix p h s.
Proof.
  exists [[Some (Var 120); Some (Var 121)]]%N, [[120]]%N, (0, 0)%N. split.
  - vm_compute. reflexivity.
  - intros C. apply occ_matrix_iff in C. vm_compute in C. discriminate.
Qed.

(** Non-vacuity: a real dumped automaton passes the certificate and reports
    matches on a host. *)
Example c01_example :
  lab_ok string_dom s_goodb atoms_self ex_aut (compute_lab string_dom atoms_self ex_aut)
         (map s_cvec ex_pats) = true
  /\ run string_dom 100 ex_aut [97; 97; 98]%N
     = Ok [(1, SBound 0 2); (2, SBound 0 2); (0, SBound 0 1); (0, SBound 1 1); (0, SBound 2 1)]%N.
Proof. split; vm_compute; reflexivity. Qed.

(** Port graphs (host side modelled in Model/DomPG.v): every match reported on an
    automaton that passes lab_ok (with a not-equal constraint split into its
    pairwise atoms) satisfies every constraint of its pattern's constraint vector
    under the reported bindings, which bind all their arguments. *)
Theorem c01_portgraph_run_sound :
  forall (A : automaton pgkey pgpred) (L : labelling) (cs : list (list pgconstraint)),
    lab_ok pg_dom (fun _ => true) pg_atoms A L cs = true ->
    forall (h : pghost) (fuel : nat) (ms : list (N * pgmap)),
      run pg_dom fuel A h = Ok ms ->
      forall pm, In pm ms ->
        exists cp, nth_error cs (N.to_nat (fst pm)) = Some cp
                   /\ forall c, In c cp -> holds pg_dom h c (snd pm).
Proof. exact pg_run_sound. Qed.

Print Assumptions c01_run_sound.
Print Assumptions c01_string_run_sound.
Print Assumptions c01_matrix_run_sound.
Print Assumptions c01_string.
Print Assumptions c01_matrix.
Print Assumptions c01_matrix_pinned_refuted.
Print Assumptions c01_portgraph_run_sound.

(** Port graphs, down to embeddings: with the pattern side modelled as well
    (Model/DomPGPattern.v, compared with try_to_constraint_vec) and the per-pattern
    validation [lines_cover], every reported match maps every link of its pattern
    to a link of the host and distinct pattern nodes to distinct host nodes. *)
Theorem c01_portgraph_embedding :
  forall (A : automaton pgkey pgpred) (L : labelling)
         (pats : list (pghost * N)) (full : list (list pgconstraint * list (N * pgkey))),
    Forall2 (fun pr f => pg_cvec_full (fst pr) (snd pr) = Ok f /\ lines_cover (fst pr) (snd pr) = true) pats full ->
    lab_ok pg_dom (fun _ => true) pg_atoms A L (map fst full) = true ->
    forall (h : pghost) (fuel : nat) (ms : list (N * pgmap)),
      run pg_dom fuel A h = Ok ms ->
      forall pid m, In (pid, m) ms ->
        exists P root cs nk, nth_error pats (N.to_nat pid) = Some (P, root) /\ nth_error full (N.to_nat pid) = Some (cs, nk)
          /\ (forall a oa b ib, In (a, oa, b, ib) (pg_links P) ->
                exists va vb, image m nk a = Some va /\ image m nk b = Some vb /\ In (va, oa, vb, ib) (pg_links h))
          /\ Dist m nk.
Proof. exact pg_run_embeds. Qed.
Print Assumptions c01_portgraph_embedding.

(** The harness-defined table domain (multi-valued keys, shared prerequisites,
    exotic constraint trees with labels on the root and on inner nodes, extra
    required bindings): same statement; lab_ok is evaluated on every automaton the
    builder produces for it (the tab sub-checks). *)
Theorem c01_table_run_sound :
  forall sch (A : automaton N tpred) (L : labelling) (cs : list (list (constraint N tpred))),
    lab_ok (table_dom sch) (fun _ => true) t_atoms A L cs = true ->
    forall (h : thost) (fuel : nat) (ms : list (N * tmap)),
      run (table_dom sch) fuel A h = Ok ms ->
      forall pm, In pm ms ->
        exists cp, nth_error cs (N.to_nat (fst pm)) = Some cp
                   /\ forall c, In c cp -> holds (table_dom sch) h c (snd pm).
Proof. exact table_run_sound. Qed.
Print Assumptions c01_table_run_sound.
