(** C01 — Soundness: every reported match satisfies every constraint of its
    pattern, on every host, for every automaton that passes the labelling
    certificate [lab_ok] (evaluated on each automaton the real builder
    produces).  Statements only; proofs in Proofs/RunSound.v. *)
From PM Require Import Model.Prelude Model.Domain Model.Constraint Model.Automaton Model.Traversal
  Model.DomString Model.DomMatrix Cert.LabCheck Cert.CharCert Cert.ExampleAut
  Proofs.RunSound Proofs.LawfulDomains Proofs.BindMapMatrixProofs.

(** generic over the domain: lawful binding maps, any host, any execution *)
Theorem c01_run_sound :
  forall (K V M H P : Type) (D : DomOps K V M H P), DomEq D ->
  forall (Inv : M -> Prop) (goodb : list K -> bool)
         (atoms : constraint K P -> list (constraint K P)),
    Lawful D Inv goodb ->
    (forall h c m, (forall a, In a (atoms c) -> holds D h a m) -> holds D h c m) ->
    (forall h c m, holds D h c m -> forall a, In a (atoms c) -> holds D h a m) ->
    forall (A : automaton K P) (L : labelling) (cs : list (list (constraint K P))),
      lab_ok D goodb atoms A L cs = true ->
      forall (h : H) (fuel : nat) (ms : list (N * M)),
        run D fuel A h = Ok ms ->
        forall pm, In pm ms ->
          exists cp, nth_error cs (N.to_nat (fst pm)) = Some cp
                     /\ forall c, In c cp -> holds D h c (snd pm).
Proof. exact @run_sound. Qed.

Theorem c01_string_run_sound :
  forall (A : automaton N cpredicate) (L : labelling) (cs : list (list sconstraint)),
    lab_ok string_dom s_goodb atoms_self A L cs = true ->
    forall (h : shost) (fuel : nat) (ms : list (N * spm)),
      run string_dom fuel A h = Ok ms ->
      forall pm, In pm ms ->
        exists cp, nth_error cs (N.to_nat (fst pm)) = Some cp
                   /\ forall c, In c cp -> holds string_dom h c (snd pm).
Proof.
  intros A L cs. apply (run_sound string_dom string_dom_eq (fun _ => True) s_goodb atoms_self string_lawful).
  - intros h c m. apply atoms_self_sound.
  - intros h c m. apply atoms_self_complete.
Qed.

Theorem c01_matrix_run_sound :
  forall (A : automaton mkey cpredicate) (L : labelling) (cs : list (list mconstraint)),
    lab_ok matrix_dom m_goodb atoms_self A L cs = true ->
    forall (h : mhost) (fuel : nat) (ms : list (N * mpm)),
      run matrix_dom fuel A h = Ok ms ->
      forall pm, In pm ms ->
        exists cp, nth_error cs (N.to_nat (fst pm)) = Some cp
                   /\ forall c, In c cp -> holds matrix_dom h c (snd pm).
Proof.
  intros A L cs. apply (run_sound matrix_dom matrix_dom_eq mm_wf m_goodb atoms_self matrix_lawful).
  - intros h c m. apply atoms_self_sound.
  - intros h c m. apply atoms_self_complete.
Qed.

(** Non-vacuity: a real dumped automaton passes the certificate and reports
    matches on a host. *)
Example c01_example :
  lab_ok string_dom s_goodb atoms_self ex_aut (compute_lab string_dom atoms_self ex_aut)
         (map s_cvec ex_pats) = true
  /\ run string_dom 100 ex_aut [97; 97; 98]%N
     = Ok [(1, SBound 0 2); (2, SBound 0 2); (0, SBound 0 1); (0, SBound 1 1); (0, SBound 2 1)]%N.
Proof. split; vm_compute; reflexivity. Qed.

Print Assumptions c01_run_sound.
Print Assumptions c01_string_run_sound.
Print Assumptions c01_matrix_run_sound.
