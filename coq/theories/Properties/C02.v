(** C02 — Completeness.  What is proved here: for every automaton that passes
    the completeness certificate, every valuation of the constraints (in
    particular the one induced by a host and an anchor) that makes all
    constraints of a compiled pattern true drives the automaton, in its abstract
    semantics (constraint edges taken when true; the fallback edge taken from a
    non-deterministic state, or when no constraint edge is true), into a state
    accepting that pattern (the *_partial theorems).  For strings the step from
    the abstract semantics to the breadth-first traversal with scope-restricted
    bindings and visited-set pruning is proved as well (c02_string): every
    occurrence of every compiled non-empty pattern is in the list returned by
    the run, bound at the position of the occurrence; likewise for matrices
    (c02_matrix, keys non-negative as produced by every MatrixPattern).  For port
    graphs the abstract statement is proved in general (c02_portgraph_partial,
    c02_portgraph_embedding_accepted); at run level the property is false in
    general (known findings D5, D6, D10) and proved where none of them can
    interfere: c02_portgraph_run_complete_on_single_root_pattern_sets (and its
    special case c02_portgraph_run_reports_embeddings_of_good_patterns). *)
From PM Require Import Model.Prelude Model.Domain Model.Automaton Model.DomString Model.DomMatrix
  Model.Traversal Spec.Occ Cert.WfCheck Cert.WinCheck Cert.CharCert Cert.ExampleAut Proofs.WinSound Proofs.StringRun
  Model.DomPGKeys Model.DomPG Model.DomPGPattern Cert.PGCert Proofs.PGComplete Proofs.PGEmbedComplete Proofs.MatrixRun
  Proofs.PGSingleGood Proofs.PGWalkEmbed.

Theorem c02_cert_complete_partial :
  forall (K P : Type) (entails refutes : list (constraint K P) -> constraint K P -> bool)
         (v : constraint K P -> bool),
    (forall cp c, entails cp c = true -> (forall d, In d cp -> v d = true) -> v c = true) ->
    (forall cp c, refutes cp c = true -> (forall d, In d cp -> v d = true) -> v c = false) ->
    forall (A : automaton K P) (cs : list (list (constraint K P))) (present : list bool) i cp,
      cert_complete entails refutes A cs present = true ->
      nth_error cs i = Some cp -> nth_error present i = Some true ->
      (forall d, In d cp -> v d = true) -> aaccepts v A (N.of_nat i).
Proof. intros K P. exact (@cert_complete_sound K P). Qed.

(** strings: the valuation of a host [h] at anchor [a] *)
Theorem c02_string_partial :
  forall (A : automaton N cpredicate) (cs : list (list sconstraint)) (present : list bool) i cp h a,
    cert_complete (char_entails N.eqb) (char_refutes N.eqb) A cs present = true ->
    nth_error cs i = Some cp -> nth_error present i = Some true ->
    (forall d, In d cp -> sval h a d = true) -> aaccepts (sval h a) A (N.of_nat i).
Proof.
  intros A cs present i cp h a. apply cert_complete_sound.
  - apply s_entails_sound.
  - apply s_refutes_sound.
Qed.

Theorem c02_matrix_partial :
  forall (A : automaton mkey cpredicate) (cs : list (list mconstraint)) (present : list bool) i cp h a,
    cert_complete (char_entails mkey_eqb) (char_refutes mkey_eqb) A cs present = true ->
    nth_error cs i = Some cp -> nth_error present i = Some true ->
    (forall d, In d cp -> mval_of h a d = true) -> aaccepts (mval_of h a) A (N.of_nat i).
Proof.
  intros A cs present i cp h a. apply cert_complete_sound.
  - apply m_entails_sound.
  - apply m_refutes_sound.
Qed.

(** port graphs: the valuation of a host [h] under a binding map [m] *)
Theorem c02_portgraph_partial :
  forall (A : automaton pgkey pgpred) (cs : list (list pgconstraint)) (present : list bool) i cp h m,
    cert_complete pg_entails pg_refutes A cs present = true ->
    nth_error cs i = Some cp -> nth_error present i = Some true ->
    (forall d, In d cp -> pgval h m d = true) -> aaccepts (pgval h m) A (N.of_nat i).
Proof. exact pg_cert_complete_sound. Qed.

(** port graphs, from embeddings: an injective, link-preserving map [f] of the
    pattern into a well-formed host satisfies the pattern's constraint vector
    under the bindings it induces, hence is accepted (abstract semantics) by
    every automaton that passes the completeness certificate.  [lines_sound],
    [keys_distinct] are per-pattern validations of the modelled conversion,
    [pg_host_wfb] holds of every PortGraph; all three are evaluated by the check. *)
Theorem c02_portgraph_embedding_accepted :
  forall (A : automaton pgkey pgpred) (cs : list (list pgconstraint)) (present : list bool) i
         (P : pghost) (root : N) (H : pghost) (f : N -> N) cp nk,
    cert_complete pg_entails pg_refutes A cs present = true ->
    nth_error cs i = Some cp -> nth_error present i = Some true ->
    pg_cvec_full P root = Ok (cp, nk) -> lines_sound P root = true -> keys_distinct nk = true ->
    pg_host_wfb H = true ->
    (forall a oa b ib, In (a, oa, b, ib) (pg_links P) -> In (f a, oa, f b, ib) (pg_links H)) ->
    (forall u k u' k', In (u, k) nk -> In (u', k') nk -> u <> u' -> f u <> f u') ->
    aaccepts (pgval H (bind_of f nk)) A (N.of_nat i).
Proof.
  intros A cs present i P root H f cp nk CC Hn Hp CV Hls Hkd Hwf Hl Hinj.
  apply (pg_cert_complete_sound A cs present i cp H (bind_of f nk) CC Hn Hp).
  exact (pg_embedding_satisfies P root H f cp nk CV Hls Hkd Hwf Hl Hinj).
Qed.

(** strings, the run itself: an automaton (as dumped from the implementation)
    that passes the three certificate checks reports, for every host [h], every
    occurrence [a] of every compiled non-empty pattern [p]. *)
Theorem c02_string :
  forall (A : automaton N cpredicate) (rk : list (N * nat)) (ids : list N) (pats : list spattern)
         (present : list bool) (fuel : nat) (h : shost) (ms : list (N * spm)) (i : nat) (p : spattern) (a : N),
    wf_check string_dom A rk ids = true ->
    cert_complete (char_entails N.eqb) (char_refutes N.eqb) A (map s_cvec pats) present = true ->
    s_keys_tight A (map s_cvec pats) = true ->
    nth_error pats i = Some p -> nth_error present i = Some true -> p <> [] ->
    occ_string p h a ->
    run string_dom fuel A h = Ok ms ->
    exists L, In (N.of_nat i, SBound a L) ms.
Proof. exact s_complete. Qed.

(** matrices, the run itself: every occurrence (anchor cell [s]) of every compiled
    pattern is reported, bound at [s] *)
Theorem c02_matrix :
  forall (A : automaton mkey cpredicate) (rk : list (N * nat)) (ids : list N) (pats : list mpattern)
         (present : list bool) (fuel : nat) (h : mhost) (ms : list (N * mpm)) (i : nat) (p : mpattern) (s : mval),
    wf_check matrix_dom A rk ids = true ->
    cert_complete (char_entails mkey_eqb) (char_refutes mkey_eqb) A (map m_cvec pats) present = true ->
    m_keys_tight A (map m_cvec pats) = true -> m_keys_nn A = true ->
    nth_error pats i = Some p -> nth_error present i = Some true ->
    occ_matrix p h s ->
    run matrix_dom fuel A h = Ok ms ->
    exists a b, In (N.of_nat i, MBound s a b) ms.
Proof. exact m_complete. Qed.

Example c02_string_example :
  wf_check string_dom ex_aut (compute_rank ex_aut) [0; 1; 2]%N = true
  /\ s_keys_tight ex_aut (map s_cvec ex_pats) = true
  /\ occ_stringb [Lit 97; Lit 97]%N [98; 97; 97]%N 1 = true
  /\ exists ms, run string_dom 100 ex_aut [98; 97; 97]%N = Ok ms.
Proof. vm_compute. repeat split; eauto. Qed.

Example c02_example :
  cert_complete (char_entails N.eqb) (char_refutes N.eqb) ex_aut (map s_cvec ex_pats) [true; true; true] = true
  /\ (forall d, In d (s_cvec [Lit 97; Lit 97]%N) -> sval [98; 97; 97]%N 1 d = true).
Proof.
  split; [vm_compute; reflexivity|].
  intros d Hd. vm_compute in Hd. destruct Hd as [<-|[<-|[]]]; vm_compute; reflexivity.
Qed.

(** Port graphs, run level, where it holds.  P passes the per-pattern validation
    [pg_good_pattern] (single index root; the pattern's own walks from the root
    reach every keyed node at the recorded distance: no line returns to its start),
    the automaton is well-formed, passes the completeness certificate with the
    constraint list of P at position i, and all of its keys are keys of P
    ([aut_keys_in]: P compiled alone, or with patterns over the same keys - so that
    no binding foreign to the embedding can be made, which is what goes wrong in
    D10).  Then the breadth-first run on any well-formed host reports every
    embedding of P, every recorded key bound to the image of its node. *)
Theorem c02_portgraph_run_reports_embeddings_of_good_patterns :
  forall (P : pghost) (root : N) cs nk (H : pghost) (f : N -> N)
         (A : automaton pgkey pgpred) rk ids css pres i fuel ms,
    pg_cvec_full P root = Ok (cs, nk) -> lines_sound P root = true -> keys_distinct nk = true ->
    pg_good_pattern P root cs nk = true -> pg_host_wfb P = true -> pg_host_wfb H = true ->
    pg_embedding P H root nk f ->
    wf_check pg_dom A rk ids = true -> cert_complete pg_entails pg_refutes A css pres = true ->
    nth_error css i = Some cs -> nth_error pres i = Some true -> aut_keys_in nk A = true ->
    run pg_dom fuel A H = Ok ms ->
    exists st keys b, In st (au_states A) /\ In (N.of_nat i, keys) (a_matches st) /\ In (N.of_nat i, b) ms
      /\ forall k, In k keys -> exists u, In (u, k) nk /\ pgget b k = Some (f u).
Proof. exact pg_run_reports_embedding. Qed.

(** The general positive statement for port graphs: any set of patterns none of
    which needs a second index root ([aut_single_root]: every key of the automaton
    hangs off Root(0)); the keys recorded for pattern i are keys of the good
    pattern P ([match_keys_in]).  list_bind_options is then a function of the
    image of the root, every binding map of the run is a restriction of one
    canonical map, and the constraints - of every pattern of the set - have the same
    truth value concretely and abstractly (Proofs/PGRunSingleRoot.v).  The known
    class D10 is exactly the failure of this with a second index root. *)
Theorem c02_portgraph_run_complete_on_single_root_pattern_sets :
  forall (P : pghost) (root : N) cs nk (H : pghost) (f : N -> N)
         (A : automaton pgkey pgpred) rk ids css pres i fuel ms,
    pg_cvec_full P root = Ok (cs, nk) -> lines_sound P root = true -> keys_distinct nk = true ->
    pg_good_pattern P root cs nk = true -> pg_host_wfb P = true -> pg_host_wfb H = true ->
    pg_embedding P H root nk f ->
    wf_check pg_dom A rk ids = true -> cert_complete pg_entails pg_refutes A css pres = true ->
    nth_error css i = Some cs -> nth_error pres i = Some true ->
    aut_single_root A = true -> match_keys_in nk A (N.of_nat i) = true ->
    run pg_dom fuel A H = Ok ms ->
    exists st keys b, In st (au_states A) /\ In (N.of_nat i, keys) (a_matches st) /\ In (N.of_nat i, b) ms
      /\ forall k, In k keys -> exists u, In (u, k) nk /\ pgget b k = Some (f u).
Proof. exact pg_run_reports_embedding_single_root_sets. Qed.

Print Assumptions c02_cert_complete_partial.
Print Assumptions c02_string_partial.
Print Assumptions c02_string.
Print Assumptions c02_matrix.
Print Assumptions c02_matrix_partial.
Print Assumptions c02_portgraph_partial.
Print Assumptions c02_portgraph_embedding_accepted.
Print Assumptions c02_portgraph_run_reports_embeddings_of_good_patterns.
Print Assumptions c02_portgraph_run_complete_on_single_root_pattern_sets.
