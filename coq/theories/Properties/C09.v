(** C09 — every compiled automaton is structurally well-formed: the executable
    check [wf_check], run on the dump of every automaton the real builder
    produces, establishes each clause of the property (record [WF]).
    Statements only; proof in Proofs/WfSound.v. *)
From PM Require Import Model.Prelude Model.Domain Model.Automaton Model.DomString
  Cert.WfCheck Cert.ExampleAut Proofs.WfSound Model.Scheme Model.Scopes Spec.TopoSpec Proofs.ScopesProofs.

Theorem c09_wf_check_sound :
  forall (K V M H P : Type) (D : DomOps K V M H P), DomEq D ->
  forall (A : automaton K P) (rk : list (N * nat)) (ids : list N),
    wf_check D A rk ids = true -> WF D A ids.
Proof. exact @wf_check_sound. Qed.

(** The clauses, spelled out (projections of [WF]) so that the statement cannot
    be weakened silently. *)
Theorem c09_clauses :
  forall (K V M H P : Type) (D : DomOps K V M H P) (A : automaton K P) (ids : list N),
    WF D A ids ->
    (* rooted, acyclic, every state reachable *)
    In (au_root A) (state_ids A)
    /\ (exists rank : N -> nat, forall s e, In s (au_states A) -> In e (a_out s) ->
          rank (a_id s) < rank (e_target e))
    /\ (forall s, In s (au_states A) -> reachable A (a_id s))
    (* at most one fallback transition, no transition to itself *)
    /\ (forall s, In s (au_states A) -> length (a_eorder s) <= 1)
    /\ (forall s e, In s (au_states A) -> In e (a_out s) -> e_target e <> a_id s)
    (* the orderings list exactly the outgoing transitions of each kind, once *)
    /\ (forall s, In s (au_states A) ->
          NoDup (a_corder s) /\ forall id, In id (a_corder s) <->
            exists e, In e (a_out s) /\ e_id e = id /\ e_cons e <> None)
    /\ (forall s, In s (au_states A) ->
          NoDup (a_eorder s) /\ forall id, In id (a_eorder s) <->
            exists e, In e (a_out s) /\ e_id e = id /\ e_cons e = None)
    (* every compiled pattern is accepted somewhere *)
    /\ (forall p, In p ids -> exists s, In s (au_states A) /\ In p (map fst (a_matches s)))
    (* key lists are prerequisite-first; scopes cover the outgoing constraints *)
    /\ (forall s, In s (au_states A) -> prereq_ordered D (a_scope s))
    /\ (forall s pk, In s (au_states A) -> In pk (a_matches s) -> prereq_ordered D (snd pk))
    /\ (forall s e c, In s (au_states A) -> In e (a_out s) -> e_cons e = Some c ->
          incl (cargs c) (a_scope s)).
Proof.
  intros K V M H P D A ids W.
  destruct W as [w1 w2 w3 w4 w5 w6 w7 w8 w9 w10 w11 w12 w13 w14].
  split; [exact w2|]. split; [exact w3|]. split; [exact w4|]. split; [exact w6|].
  split; [exact w7|]. split; [exact w8|]. split; [exact w9|]. split; [exact w11|].
  split; [exact w12|]. split; [exact w13|]. exact w14.
Qed.

(** The scopes, of the algorithm rather than of its output: [populate_scopes]
    (Model/Scopes.v — the last stage of AutomatonBuilder::finish, compared with the
    implementation on every dump: case field [scopes]) yields, on every transition
    graph on which it returns and in whichever order the states are handed to it,
    for every state a key list in which each key's prerequisites precede it, without
    repetition, and which includes every key used by the constraints of the state's
    constraint order — given only that the key lists recorded with the accepted
    patterns are prerequisite-first. *)
Theorem c09_populate_scopes_ordered_and_covering :
  forall (K V M H P : Type) (D : DomOps K V M H P), DomEq D -> acyclic (req D) ->
  forall (A : automaton K P),
    (forall s pk, In s (au_states A) -> In pk (a_matches s) -> prereq_ordered D (snd pk)) ->
  forall (fuel : nat) (order : list N) (sc : list (N * list K)),
    populate_scopes D fuel A order = Ok sc ->
    Forall2 (fun (s : astate K P) (entry : N * list K) =>
               fst entry = a_id s
               /\ prereq_ordered D (snd entry)
               /\ exists cts, cons_transitions s = Ok cts
                    /\ forall c t, In (c, t) cts -> incl (cargs c) (snd entry))
            (au_states A) sc.
Proof. exact @populate_scopes_ok. Qed.

(** the keys recorded with an accepted pattern, of the algorithm (add_pattern; compared
    as a set with every accepting state of every dump: case field [mkeys]):
    each key after its prerequisites, no key twice, and the pattern's own required
    bindings and every key of its constraints are among them *)
Theorem c09_pattern_keys_ordered_and_covering :
  forall (K V M H P : Type) (D : DomOps K V M H P), DomEq D -> acyclic (req D) ->
  forall (fuel : nat) (extra : list K) (cs : list (constraint K P)) (l : list K),
    pattern_keys D fuel extra cs = Ok l ->
    prereq_ordered D l /\ incl extra l /\ forall c, In c cs -> incl (cargs c) l.
Proof. exact @pattern_keys_ok. Qed.

(** together, on a dump: when the recorded key lists have the elements add_pattern computes
    (field [mkeys]) they contain the pattern's own required bindings and every key of its
    constraints; when they are prerequisite-first (a clause of wf_check), populate_scopes
    yields prerequisite-first, covering scopes *)
Theorem c09_recorded_keys_cover_the_pattern :
  forall (K V M H P : Type) (D : DomOps K V M H P), DomEq D -> acyclic (req D) ->
  forall (fuel : nat) (A : automaton K P) (pats : list (option (list K * list (constraint K P)))),
    match_key_mismatches D fuel A pats = [] ->
    forall s pk, In s (au_states A) -> In pk (a_matches s) ->
      exists extra cs l, nth_error pats (N.to_nat (fst pk)) = Some (Some (extra, cs))
        /\ pattern_keys D fuel extra cs = Ok l
        /\ incl l (snd pk) /\ incl (snd pk) l
        /\ incl extra (snd pk) /\ forall c, In c cs -> incl (cargs c) (snd pk).
Proof. exact @match_keys_cover. Qed.

Theorem c09_scopes_after_add_pattern :
  forall (K V M H P : Type) (D : DomOps K V M H P), DomEq D -> acyclic (req D) ->
  forall (fuel : nat) (A : automaton K P) (order : list N) (sc : list (N * list K)),
    (forall s pk, In s (au_states A) -> In pk (a_matches s) -> prereq_orderedb D [] (snd pk) = true) ->
    populate_scopes D fuel A order = Ok sc ->
    Forall2 (fun (s : astate K P) (entry : N * list K) =>
               fst entry = a_id s
               /\ prereq_ordered D (snd entry)
               /\ exists cts, cons_transitions s = Ok cts
                    /\ forall c t, In (c, t) cts -> incl (cargs c) (snd entry))
            (au_states A) sc.
Proof.
  intros K V M H P D HD Hac fuel A order sc Hb. apply (populate_scopes_ok D HD Hac A).
  intros s pk Hs Hpk. apply (prereq_orderedb_ok D HD). exact (Hb s pk Hs Hpk).
Qed.

(** from the tie back to the real automaton: when the recomputed scopes equal the recorded ones
    as sets (case field [scopes ()]), the recorded scope of every state contains the arguments
    of every constraint in its constraint order — the covering clause of the property for the
    dumped automaton, obtained from the theorem about the algorithm instead of from wf_check *)
Theorem c09_recorded_scopes_cover_the_constraints :
  forall (K V M H P : Type) (D : DomOps K V M H P), DomEq D -> acyclic (req D) ->
  forall (fuel : nat) (A : automaton K P) (order : list N) (sc : list (N * list K)),
    (forall s pk, In s (au_states A) -> In pk (a_matches s) -> prereq_orderedb D [] (snd pk) = true) ->
    NoDup (map (@a_id K P) (au_states A)) ->
    populate_scopes D fuel A order = Ok sc ->
    scope_mismatches D A sc = [] ->
    forall s cts c t, In s (au_states A) -> cons_transitions s = Ok cts -> In (c, t) cts ->
      incl (cargs c) (a_scope s).
Proof.
  intros K V M H P D HD Hac fuel A order sc Hb Hnd E Em.
  apply (scopes_tie_covers D HD Hac fuel A order sc); auto.
  intros s pk Hs Hpk. apply (prereq_orderedb_ok D HD). exact (Hb s pk Hs Hpk).
Qed.

(** on the example automaton the algorithm returns, and returns the recorded scopes *)
Example c09_example_scopes :
  match populate_scopes string_dom 1000 ex_aut [0; 4; 6; 1; 2]%N with
  | Ok sc => scope_mismatches string_dom ex_aut sc
  | _ => [99%N]
  end = []
  /\ match_key_mismatches string_dom 1000 ex_aut (map (fun p => Some ([], s_cvec p)) ex_pats) = []
  /\ pattern_keys string_dom 1000 [] (s_cvec [Lit 97%N; Lit 97%N]) = Ok [0; 1]%N.
Proof. vm_compute. repeat split; reflexivity. Qed.

Example c09_example : wf_check string_dom ex_aut (compute_rank ex_aut) [0; 1; 2]%N = true.
Proof. vm_compute. reflexivity. Qed.

Print Assumptions c09_wf_check_sound.
Print Assumptions c09_clauses.
Print Assumptions c09_populate_scopes_ordered_and_covering.
Print Assumptions c09_pattern_keys_ordered_and_covering.
Print Assumptions c09_scopes_after_add_pattern.
Print Assumptions c09_recorded_keys_cover_the_pattern.
Print Assumptions c09_recorded_scopes_cover_the_constraints.
