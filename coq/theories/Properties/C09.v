(** C09 — every compiled automaton is structurally well-formed: the executable
    check [wf_check], run on the dump of every automaton the real builder
    produces, establishes each clause of the property (record [WF]).
    Statements only; proof in Proofs/WfSound.v. *)
From PM Require Import Model.Prelude Model.Domain Model.Automaton Model.DomString
  Cert.WfCheck Cert.ExampleAut Proofs.WfSound.

Theorem c09_wf_check_sound :
  forall (K V M H P : Type) (D : DomOps K V M H P), DomEq D ->
  forall (A : automaton K P) (rk : list (N * nat)) (ids : list N),
    wf_check D A rk ids = true -> WF D A ids.
Proof. exact @wf_check_sound. Qed.

(** The clauses, spelled out (projections of [WF]) so that the statement cannot
    be weakened silently. *)
Theorem c09_clauses :
  forall (K V M H P : Type) (D : DomOps K V M H P) (A : automaton K P) (ids : list N),
    WF D A ids ->
    (* rooted, acyclic, every state reachable *)
    In (au_root A) (state_ids A)
    /\ (exists rank : N -> nat, forall s e, In s (au_states A) -> In e (a_out s) ->
          rank (a_id s) < rank (e_target e))
    /\ (forall s, In s (au_states A) -> reachable A (a_id s))
    (* at most one fallback transition, no transition to itself *)
    /\ (forall s, In s (au_states A) -> length (a_eorder s) <= 1)
    /\ (forall s e, In s (au_states A) -> In e (a_out s) -> e_target e <> a_id s)
    (* the orderings list exactly the outgoing transitions of each kind, once *)
    /\ (forall s, In s (au_states A) ->
          NoDup (a_corder s) /\ forall id, In id (a_corder s) <->
            exists e, In e (a_out s) /\ e_id e = id /\ e_cons e <> None)
    /\ (forall s, In s (au_states A) ->
          NoDup (a_eorder s) /\ forall id, In id (a_eorder s) <->
            exists e, In e (a_out s) /\ e_id e = id /\ e_cons e = None)
    (* every compiled pattern is accepted somewhere *)
    /\ (forall p, In p ids -> exists s, In s (au_states A) /\ In p (map fst (a_matches s)))
    (* key lists are prerequisite-first; scopes cover the outgoing constraints *)
    /\ (forall s, In s (au_states A) -> prereq_ordered D (a_scope s))
    /\ (forall s pk, In s (au_states A) -> In pk (a_matches s) -> prereq_ordered D (snd pk))
    /\ (forall s e c, In s (au_states A) -> In e (a_out s) -> e_cons e = Some c ->
          incl (cargs c) (a_scope s)).
Proof.
  intros K V M H P D A ids W.
  destruct W as [w1 w2 w3 w4 w5 w6 w7 w8 w9 w10 w11 w12 w13 w14].
  split; [exact w2|]. split; [exact w3|]. split; [exact w4|]. split; [exact w6|].
  split; [exact w7|]. split; [exact w8|]. split; [exact w9|]. split; [exact w11|].
  split; [exact w12|]. split; [exact w13|]. exact w14.
Qed.

Example c09_example : wf_check string_dom ex_aut (compute_rank ex_aut) [0; 1; 2]%N = true.
Proof. vm_compute. reflexivity. Qed.

Print Assumptions c09_wf_check_sound.
Print Assumptions c09_clauses.
