(** C11 — a pattern occurs in itself, and extending the host never removes an
    occurrence.  Proved on the occurrence semantics (Spec/Occ.v), for all
    patterns, instantiations, hosts and extension histories; that an occurrence
    is *reported* is C02 (completeness) / C05, see those files.  The port-graph
    part of the property is decided by exploration only (DESIGN.md §6 C11). *)
From PM Require Import Model.Prelude Model.Domain Model.Matchers Model.DomString Model.DomMatrix Spec.Occ Proofs.OccMono
  Model.DomPGKeys Model.DomPG Model.DomPGPattern Properties.C05.

Theorem c11_string_self :
  forall (sigma : N -> N) (p : spattern), occ_string p (s_inst sigma p) 0.
Proof. exact occ_string_self. Qed.

(** any history of appends and prepends; the anchor shifts by the number of
    characters prepended *)
Theorem c11_string_extension :
  forall p h a h' a', s_ext h a h' a' -> occ_string p h a -> occ_string p h' a'.
Proof. exact occ_string_ext. Qed.

Theorem c11_matrix_self :
  forall (sigma : N -> N) (fill : N) (p : mpattern),
    cell_at (m_inst sigma fill p) (0%N, 0%N) <> None ->
    occ_matrix p (m_inst sigma fill p) (0%N, 0%N).
Proof. exact occ_matrix_self. Qed.

Theorem c11_matrix_rows_appended :
  forall p h rows a, occ_matrix p h a -> occ_matrix p (h ++ rows) a.
Proof. exact occ_matrix_add_rows. Qed.

Theorem c11_matrix_rows_prepended :
  forall p h rows a,
    occ_matrix p h a -> occ_matrix p (rows ++ h) ((fst a + N.of_nat (length rows))%N, snd a).
Proof. exact occ_matrix_prepend_rows. Qed.

Theorem c11_matrix_rows_widened :
  forall p h ext a, occ_matrix p h a -> occ_matrix p (widen h ext) a.
Proof. exact occ_matrix_widen. Qed.

Theorem c11_matrix_columns_prepended :
  forall p h pre n a,
    length pre = length h -> (forall e, In e pre -> length e = n) ->
    occ_matrix p h a -> occ_matrix p (shift_right pre h) (fst a, (snd a + N.of_nat n)%N).
Proof. exact occ_matrix_shift_right. Qed.

(** Port graphs.  At the level of the specification (an embedding: an injective
    map of the pattern nodes that sends links to links) both clauses are
    immediate; at the level of the matchers the extension clause is refuted on
    the faithful model (known finding D6): the pattern is found in itself and is
    no longer found after one unlinked port is added to a host node. *)
Definition pg_embeds (P H : pghost) (f : N -> N) : Prop :=
  (forall u v, In u (live_nodes P) -> In v (live_nodes P) -> f u = f v -> u = v)
  /\ (forall a oa b ib, In (a, oa, b, ib) (pg_links P) -> In (f a, oa, f b, ib) (pg_links H)).

Theorem c11_portgraph_self_spec : forall P, pg_embeds P P (fun u => u).
Proof. intros P. split; auto. Qed.

Theorem c11_portgraph_extension_spec :
  forall P H H' f, pg_embeds P H f -> incl (pg_links H) (pg_links H') -> pg_embeds P H' f.
Proof. intros P H H' f [Hi Hl] Hinc. split; auto. Qed.

Theorem c11_portgraph_matcher_extension_refuted :
  exists cs nk, pg_cvec_full d6_pattern 0 = Ok (cs, nk)
    /\ pg_embeds d6_pattern d6_pattern (fun u => u) /\ pg_embeds d6_pattern d6_host (fun u => u)
    /\ incl (pg_links d6_pattern) (pg_links d6_host)
    /\ (exists m, single pg_dom 1000 cs d6_pattern = Ok [m])
    /\ single pg_dom 1000 cs d6_host = Ok [].
Proof.
  destruct c05_portgraph_complete_refuted_root_hidden as [cs [nk [CV [_ [_ [_ [El [Hs Hn]]]]]]]].
  exists cs, nk. split; [exact CV|]. split; [apply c11_portgraph_self_spec|].
  split; [split; [auto|intros a oa b ib Hin; rewrite El; exact Hin]|].
  split; [rewrite El; apply incl_refl|]. split; assumption.
Qed.

Example c11_example :
  occ_stringb [Lit 97; Var 1; Var 1]%N (s_inst (fun _ => 98%N) [Lit 97; Var 1; Var 1]%N) 0 = true
  /\ s_ext [97; 98; 98]%N 0 ([99] ++ ([97; 98; 98] ++ [97]))%N 1.
Proof.
  split; [vm_compute; reflexivity|].
  apply (se_prepend _ _ _ 0%N [99%N]). apply se_append. apply se_refl.
Qed.

Print Assumptions c11_string_self.
Print Assumptions c11_string_extension.
Print Assumptions c11_matrix_self.
Print Assumptions c11_matrix_rows_appended.
Print Assumptions c11_matrix_rows_prepended.
Print Assumptions c11_matrix_rows_widened.
Print Assumptions c11_matrix_columns_prepended.
Print Assumptions c11_portgraph_self_spec.
Print Assumptions c11_portgraph_extension_spec.
Print Assumptions c11_portgraph_matcher_extension_refuted.
