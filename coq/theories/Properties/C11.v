(** C11 — a pattern occurs in itself, and extending the host never removes an
    occurrence.  Proved on the occurrence semantics (Spec/Occ.v), for all
    patterns, instantiations, hosts and extension histories, and carried over to
    what the matchers report on strings and matrices (every certified automaton,
    and the single-pattern baseline, which also terminates): [c11_*_matcher_*],
    [c11_*_single_*].  Port graphs: the clauses hold of the specification; for the
    matchers they hold on good patterns ([c11_portgraph_single_self_good],
    [c11_portgraph_single_extension_good]) and are refuted in general (known
    finding D6). *)
From PM Require Import Model.Prelude Model.Domain Model.Matchers Model.DomString Model.DomMatrix Spec.Occ Proofs.OccMono
  Model.DomPGKeys Model.DomPG Model.DomPGPattern Properties.C05
  Model.Automaton Model.Traversal Cert.LabCheck Proofs.StringExact Proofs.MatrixExact Proofs.StringSingle Proofs.MatrixSingle
  Proofs.SingleTotalDomains Proofs.PGSingleGood Proofs.PGWalkEmbed
  Cert.WfCheck Cert.WinCheck Cert.PGCert.

Theorem c11_string_self :
  forall (sigma : N -> N) (p : spattern), occ_string p (s_inst sigma p) 0.
Proof. exact occ_string_self. Qed.

(** any history of appends and prepends; the anchor shifts by the number of
    characters prepended *)
Theorem c11_string_extension :
  forall p h a h' a', s_ext h a h' a' -> occ_string p h a -> occ_string p h' a'.
Proof. exact occ_string_ext. Qed.

Theorem c11_matrix_self :
  forall (sigma : N -> N) (fill : N) (p : mpattern),
    cell_at (m_inst sigma fill p) (0%N, 0%N) <> None ->
    occ_matrix p (m_inst sigma fill p) (0%N, 0%N).
Proof. exact occ_matrix_self. Qed.

Theorem c11_matrix_rows_appended :
  forall p h rows a, occ_matrix p h a -> occ_matrix p (h ++ rows) a.
Proof. exact occ_matrix_add_rows. Qed.

Theorem c11_matrix_rows_prepended :
  forall p h rows a,
    occ_matrix p h a -> occ_matrix p (rows ++ h) ((fst a + N.of_nat (length rows))%N, snd a).
Proof. exact occ_matrix_prepend_rows. Qed.

Theorem c11_matrix_rows_widened :
  forall p h ext a, occ_matrix p h a -> occ_matrix p (widen h ext) a.
Proof. exact occ_matrix_widen. Qed.

Theorem c11_matrix_columns_prepended :
  forall p h pre n a,
    length pre = length h -> (forall e, In e pre -> length e = n) ->
    occ_matrix p h a -> occ_matrix p (shift_right pre h) (fst a, (snd a + N.of_nat n)%N).
Proof. exact occ_matrix_shift_right. Qed.

(** Port graphs.  At the level of the specification (an embedding: an injective
    map of the pattern nodes that sends links to links) both clauses are
    immediate; at the level of the matchers the extension clause is refuted on
    the faithful model (known finding D6): the pattern is found in itself and is
    no longer found after one unlinked port is added to a host node. *)
Definition pg_embeds (P H : pghost) (f : N -> N) : Prop :=
  (forall u v, In u (live_nodes P) -> In v (live_nodes P) -> f u = f v -> u = v)
  /\ (forall a oa b ib, In (a, oa, b, ib) (pg_links P) -> In (f a, oa, f b, ib) (pg_links H)).

Theorem c11_portgraph_self_spec : forall P, pg_embeds P P (fun u => u).
Proof. intros P. split; auto. Qed.

Theorem c11_portgraph_extension_spec :
  forall P H H' f, pg_embeds P H f -> incl (pg_links H) (pg_links H') -> pg_embeds P H' f.
Proof. intros P H H' f [Hi Hl] Hinc. split; auto. Qed.

Theorem c11_portgraph_matcher_extension_refuted :
  exists cs nk, pg_cvec_full d6_pattern 0 = Ok (cs, nk)
    /\ pg_embeds d6_pattern d6_pattern (fun u => u) /\ pg_embeds d6_pattern d6_host (fun u => u)
    /\ incl (pg_links d6_pattern) (pg_links d6_host)
    /\ (exists m, single pg_dom 1000 cs d6_pattern = Ok [m])
    /\ single pg_dom 1000 cs d6_host = Ok [].
Proof.
  destruct c05_portgraph_complete_refuted_root_hidden as [cs [nk [CV [_ [_ [_ [El [Hs Hn]]]]]]]].
  exists cs, nk. split; [exact CV|]. split; [apply c11_portgraph_self_spec|].
  split; [split; [auto|intros a oa b ib Hin; rewrite El; exact Hin]|].
  split; [rewrite El; apply incl_refl|]. split; assumption.
Qed.

(** ** the matchers themselves (strings and matrices)
    With the exactness theorems (C02/C05) and the termination theorems (C08) the
    two clauses carry over from the specification to what the matchers report:
    every automaton that passes the certificates — whatever the heuristic, whatever
    the other patterns — and the single-pattern baseline. *)
Theorem c11_string_matcher_self :
  forall A L rk ids pats present (sigma : N -> N) fuel ms i p,
    s_certified A L rk ids pats present ->
    run string_dom fuel A (s_inst sigma p) = Ok ms ->
    nth_error pats i = Some p -> nth_error present i = Some true -> p <> [] ->
    exists len, In (N.of_nat i, SBound 0 len) ms.
Proof.
  intros A L rk ids pats present sigma fuel ms i p C R Hp Hpr Hne.
  apply (s_run_exact A L rk ids pats present _ fuel ms i p 0%N C R Hp Hpr Hne). apply occ_string_self.
Qed.

Theorem c11_string_matcher_extension :
  forall A L rk ids pats present h a h' a' f1 f2 ms1 ms2 i p,
    s_certified A L rk ids pats present -> s_ext h a h' a' ->
    run string_dom f1 A h = Ok ms1 -> run string_dom f2 A h' = Ok ms2 ->
    nth_error pats i = Some p -> nth_error present i = Some true -> p <> [] ->
    (exists len, In (N.of_nat i, SBound a len) ms1) -> exists len, In (N.of_nat i, SBound a' len) ms2.
Proof.
  intros A L rk ids pats present h a h' a' f1 f2 ms1 ms2 i p C E R1 R2 Hp Hpr Hne H1.
  apply (s_run_exact A L rk ids pats present h' f2 ms2 i p a' C R2 Hp Hpr Hne).
  apply (occ_string_ext p h a h' a' E).
  apply (s_run_exact A L rk ids pats present h f1 ms1 i p a C R1 Hp Hpr Hne). exact H1.
Qed.

(** the baseline: terminates and reports the pattern in its own instantiation *)
Theorem c11_string_single_self :
  forall (sigma : N -> N) p, p <> [] ->
    exists fuel0, forall fuel, (fuel0 <= fuel)%nat ->
      exists r len, single string_dom fuel (s_cvec p) (s_inst sigma p) = Ok r /\ In (SBound 0 len) r.
Proof.
  intros sigma p Hne. destruct (s_single_total p (s_inst sigma p)) as [f0 Hf]. exists f0. intros fuel Hle.
  destruct (Hf fuel Hle) as [r Hr]. destruct (proj2 (s_single_exact p _ fuel r Hne Hr) 0%N) as [Hfw _].
  destruct (Hfw (occ_string_self sigma p)) as [len Hin]. eauto.
Qed.

Theorem c11_string_single_extension :
  forall p h a h' a' f1 f2 r1 r2, p <> [] -> s_ext h a h' a' ->
    single string_dom f1 (s_cvec p) h = Ok r1 -> single string_dom f2 (s_cvec p) h' = Ok r2 ->
    (exists len, In (SBound a len) r1) -> exists len, In (SBound a' len) r2.
Proof.
  intros p h a h' a' f1 f2 r1 r2 Hne E S1 S2 H1.
  apply (proj2 (s_single_exact p h' f2 r2 Hne S2) a'). apply (occ_string_ext p h a h' a' E).
  apply (proj2 (s_single_exact p h f1 r1 Hne S1) a). exact H1.
Qed.

Theorem c11_matrix_matcher_self :
  forall A L rk ids pats present (sigma : N -> N) (fill : N) fuel ms i p,
    m_certified A L rk ids pats present ->
    cell_at (m_inst sigma fill p) (0%N, 0%N) <> None ->
    run matrix_dom fuel A (m_inst sigma fill p) = Ok ms ->
    nth_error pats i = Some p -> nth_error present i = Some true ->
    exists a b, In (N.of_nat i, MBound (0%N, 0%N) a b) ms.
Proof.
  intros A L rk ids pats present sigma fill fuel ms i p C Hc R Hp Hpr.
  apply (m_run_exact A L rk ids pats present _ fuel ms i p (0%N, 0%N) C R Hp Hpr). now apply occ_matrix_self.
Qed.

(** any of the four extension steps of the specification, given as a relation on
    (host, anchor) pairs that preserves occurrences *)
Theorem c11_matrix_matcher_extension :
  forall A L rk ids pats present h s h' s' f1 f2 ms1 ms2 i p,
    m_certified A L rk ids pats present ->
    (occ_matrix p h s -> occ_matrix p h' s') ->
    run matrix_dom f1 A h = Ok ms1 -> run matrix_dom f2 A h' = Ok ms2 ->
    nth_error pats i = Some p -> nth_error present i = Some true ->
    (exists a b, In (N.of_nat i, MBound s a b) ms1) -> exists a b, In (N.of_nat i, MBound s' a b) ms2.
Proof.
  intros A L rk ids pats present h s h' s' f1 f2 ms1 ms2 i p C E R1 R2 Hp Hpr H1.
  apply (m_run_exact A L rk ids pats present h' f2 ms2 i p s' C R2 Hp Hpr). apply E.
  apply (m_run_exact A L rk ids pats present h f1 ms1 i p s C R1 Hp Hpr). exact H1.
Qed.

Theorem c11_matrix_single_self :
  forall (sigma : N -> N) (fill : N) p,
    cell_at (m_inst sigma fill p) (0%N, 0%N) <> None ->
    exists fuel0, forall fuel, (fuel0 <= fuel)%nat ->
      exists r a b, single matrix_dom fuel (m_cvec p) (m_inst sigma fill p) = Ok r /\ In (MBound (0%N, 0%N) a b) r.
Proof.
  intros sigma fill p Hc. destruct (m_single_total p (m_inst sigma fill p)) as [f0 Hf]. exists f0. intros fuel Hle.
  destruct (Hf fuel Hle) as [r Hr]. destruct (proj2 (m_single_exact p _ fuel r Hr) (0%N, 0%N)) as [Hfw _].
  destruct (Hfw (occ_matrix_self sigma fill p Hc)) as [a [b Hin]]. eauto.
Qed.

(** port graphs, where the clauses do hold for the matcher: good patterns
    ([pg_good_pattern], see Properties/C05.v).  Self-occurrence: the baseline
    reports the pattern in itself, every node bound to itself.  Extension: an
    embedding survives every extension of the host that keeps it well-formed
    (links added, nodes added, ports added), and is still reported. *)
Theorem c11_portgraph_single_self_good :
  forall (P : pghost) (root : N) cs nk fuel r,
    pg_cvec_full P root = Ok (cs, nk) -> lines_sound P root = true -> keys_distinct nk = true ->
    pg_good_pattern P root cs nk = true -> pg_host_wfb P = true -> In root (live_nodes P) ->
    single pg_dom fuel cs P = Ok r ->
    exists m, In m r /\ forall u k, In (u, k) nk -> pgget m k = Some u.
Proof.
  intros P root cs nk fuel r CV Hls Hkd Hg Hw Hl S.
  apply (pg_single_reports_embedding P root cs nk P (fun u => u) fuel r CV Hls Hkd Hg Hw Hw); [|exact S].
  split; [auto|]. split; [auto|exact Hl].
Qed.

Theorem c11_portgraph_single_extension_good :
  forall (P : pghost) (root : N) cs nk (H H' : pghost) (f : N -> N) fuel r,
    pg_cvec_full P root = Ok (cs, nk) -> lines_sound P root = true -> keys_distinct nk = true ->
    pg_good_pattern P root cs nk = true -> pg_host_wfb P = true ->
    pg_embedding P H root nk f ->
    incl (pg_links H) (pg_links H') -> incl (live_nodes H) (live_nodes H') -> pg_host_wfb H' = true ->
    single pg_dom fuel cs H' = Ok r ->
    exists m, In m r /\ forall u k, In (u, k) nk -> pgget m k = Some (f u).
Proof.
  intros P root cs nk H H' f fuel r CV Hls Hkd Hg Hw [El [Ei Er]] Hinc Hlive Hw' S.
  apply (pg_single_reports_embedding P root cs nk H' f fuel r CV Hls Hkd Hg Hw Hw'); [|exact S].
  split; [intros a oa b ib Hin; apply Hinc; now apply El|]. split; [exact Ei|now apply Hlive].
Qed.

(** and for the automaton compiled from a good pattern over its own keys
    (Properties/C02.v: c02_portgraph_run_reports_embeddings_of_good_patterns):
    the run reports the pattern in itself, and still reports an embedding after
    every extension of the host that keeps it well-formed *)
Theorem c11_portgraph_matcher_self_good :
  forall (P : pghost) (root : N) cs nk (A : automaton pgkey pgpred) rk ids css pres i fuel ms,
    pg_cvec_full P root = Ok (cs, nk) -> lines_sound P root = true -> keys_distinct nk = true ->
    pg_good_pattern P root cs nk = true -> pg_host_wfb P = true -> In root (live_nodes P) ->
    wf_check pg_dom A rk ids = true -> cert_complete pg_entails pg_refutes A css pres = true ->
    nth_error css i = Some cs -> nth_error pres i = Some true -> aut_keys_in nk A = true ->
    run pg_dom fuel A P = Ok ms ->
    exists st keys b, In st (au_states A) /\ In (N.of_nat i, keys) (a_matches st) /\ In (N.of_nat i, b) ms
      /\ forall k, In k keys -> exists u, In (u, k) nk /\ pgget b k = Some u.
Proof.
  intros P root cs nk A rk ids css pres i fuel ms CV Hls Hkd Hg Hw Hl W CC Hcs Hpr Hak R.
  apply (pg_run_reports_embedding P root cs nk P (fun u => u) A rk ids css pres i fuel ms CV Hls Hkd Hg Hw Hw); auto.
  split; [auto|]. split; [auto|exact Hl].
Qed.

Theorem c11_portgraph_matcher_extension_good :
  forall (P : pghost) (root : N) cs nk (H H' : pghost) (f : N -> N)
         (A : automaton pgkey pgpred) rk ids css pres i fuel ms,
    pg_cvec_full P root = Ok (cs, nk) -> lines_sound P root = true -> keys_distinct nk = true ->
    pg_good_pattern P root cs nk = true -> pg_host_wfb P = true ->
    pg_embedding P H root nk f ->
    incl (pg_links H) (pg_links H') -> incl (live_nodes H) (live_nodes H') -> pg_host_wfb H' = true ->
    wf_check pg_dom A rk ids = true -> cert_complete pg_entails pg_refutes A css pres = true ->
    nth_error css i = Some cs -> nth_error pres i = Some true -> aut_keys_in nk A = true ->
    run pg_dom fuel A H' = Ok ms ->
    exists st keys b, In st (au_states A) /\ In (N.of_nat i, keys) (a_matches st) /\ In (N.of_nat i, b) ms
      /\ forall k, In k keys -> exists u, In (u, k) nk /\ pgget b k = Some (f u).
Proof.
  intros P root cs nk H H' f A rk ids css pres i fuel ms CV Hls Hkd Hg Hw [El [Ei Er]] Hinc Hlive Hw' W CC Hcs Hpr Hak R.
  apply (pg_run_reports_embedding P root cs nk H' f A rk ids css pres i fuel ms CV Hls Hkd Hg Hw Hw'); auto.
  split; [intros a oa b ib Hin; apply Hinc; now apply El|]. split; [exact Ei|now apply Hlive].
Qed.

(** the same for every automaton compiled from single-root patterns only (any number of other
    patterns around the good one): hypotheses [aut_single_root], [match_keys_in], evaluated on
    every such dump (pg-srset) *)
Theorem c11_portgraph_matcher_self_good_in_single_root_sets :
  forall (P : pghost) (root : N) cs nk (A : automaton pgkey pgpred) rk ids css pres i fuel ms,
    pg_cvec_full P root = Ok (cs, nk) -> lines_sound P root = true -> keys_distinct nk = true ->
    pg_good_pattern P root cs nk = true -> pg_host_wfb P = true -> In root (live_nodes P) ->
    wf_check pg_dom A rk ids = true -> cert_complete pg_entails pg_refutes A css pres = true ->
    nth_error css i = Some cs -> nth_error pres i = Some true ->
    aut_single_root A = true -> match_keys_in nk A (N.of_nat i) = true ->
    run pg_dom fuel A P = Ok ms ->
    exists st keys b, In st (au_states A) /\ In (N.of_nat i, keys) (a_matches st) /\ In (N.of_nat i, b) ms
      /\ forall k, In k keys -> exists u, In (u, k) nk /\ pgget b k = Some u.
Proof.
  intros P root cs nk A rk ids css pres i fuel ms CV Hls Hkd Hg Hw Hl W CC Hcs Hpr Hsr Hmk R.
  apply (pg_run_reports_embedding_single_root_sets P root cs nk P (fun u => u) A rk ids css pres i fuel ms CV Hls Hkd Hg Hw Hw); auto.
  split; [auto|]. split; [auto|exact Hl].
Qed.

Theorem c11_portgraph_matcher_extension_good_in_single_root_sets :
  forall (P : pghost) (root : N) cs nk (H H' : pghost) (f : N -> N)
         (A : automaton pgkey pgpred) rk ids css pres i fuel ms,
    pg_cvec_full P root = Ok (cs, nk) -> lines_sound P root = true -> keys_distinct nk = true ->
    pg_good_pattern P root cs nk = true -> pg_host_wfb P = true ->
    pg_embedding P H root nk f ->
    incl (pg_links H) (pg_links H') -> incl (live_nodes H) (live_nodes H') -> pg_host_wfb H' = true ->
    wf_check pg_dom A rk ids = true -> cert_complete pg_entails pg_refutes A css pres = true ->
    nth_error css i = Some cs -> nth_error pres i = Some true ->
    aut_single_root A = true -> match_keys_in nk A (N.of_nat i) = true ->
    run pg_dom fuel A H' = Ok ms ->
    exists st keys b, In st (au_states A) /\ In (N.of_nat i, keys) (a_matches st) /\ In (N.of_nat i, b) ms
      /\ forall k, In k keys -> exists u, In (u, k) nk /\ pgget b k = Some (f u).
Proof.
  intros P root cs nk H H' f A rk ids css pres i fuel ms CV Hls Hkd Hg Hw [El [Ei Er]] Hinc Hlive Hw' W CC Hcs Hpr Hsr Hmk R.
  apply (pg_run_reports_embedding_single_root_sets P root cs nk H' f A rk ids css pres i fuel ms CV Hls Hkd Hg Hw Hw'); auto.
  split; [intros a oa b ib Hin; apply Hinc; now apply El|]. split; [exact Ei|now apply Hlive].
Qed.

Example c11_example :
  occ_stringb [Lit 97; Var 1; Var 1]%N (s_inst (fun _ => 98%N) [Lit 97; Var 1; Var 1]%N) 0 = true
  /\ s_ext [97; 98; 98]%N 0 ([99] ++ ([97; 98; 98] ++ [97]))%N 1.
Proof.
  split; [vm_compute; reflexivity|].
  apply (se_prepend _ _ _ 0%N [99%N]). apply se_append. apply se_refl.
Qed.

Print Assumptions c11_string_self.
Print Assumptions c11_string_extension.
Print Assumptions c11_matrix_self.
Print Assumptions c11_matrix_rows_appended.
Print Assumptions c11_matrix_rows_prepended.
Print Assumptions c11_matrix_rows_widened.
Print Assumptions c11_matrix_columns_prepended.
Print Assumptions c11_string_matcher_self.
Print Assumptions c11_string_matcher_extension.
Print Assumptions c11_string_single_self.
Print Assumptions c11_string_single_extension.
Print Assumptions c11_matrix_matcher_self.
Print Assumptions c11_matrix_matcher_extension.
Print Assumptions c11_matrix_single_self.
Print Assumptions c11_portgraph_matcher_self_good.
Print Assumptions c11_portgraph_matcher_extension_good.
Print Assumptions c11_portgraph_single_self_good.
Print Assumptions c11_portgraph_single_extension_good.
Print Assumptions c11_portgraph_self_spec.
Print Assumptions c11_portgraph_extension_spec.
Print Assumptions c11_portgraph_matcher_extension_refuted.
Print Assumptions c11_portgraph_matcher_self_good_in_single_root_sets.
Print Assumptions c11_portgraph_matcher_extension_good_in_single_root_sets.
