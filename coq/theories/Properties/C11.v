(** C11 — a pattern occurs in itself, and extending the host never removes an
    occurrence.  Proved on the occurrence semantics (Spec/Occ.v), for all
    patterns, instantiations, hosts and extension histories; that an occurrence
    is *reported* is C02 (completeness) / C05, see those files.  The port-graph
    part of the property is decided by exploration only (DESIGN.md §6 C11). *)
From PM Require Import Model.Prelude Model.DomString Model.DomMatrix Spec.Occ Proofs.OccMono.

Theorem c11_string_self :
  forall (sigma : N -> N) (p : spattern), occ_string p (s_inst sigma p) 0.
Proof. exact occ_string_self. Qed.

(** any history of appends and prepends; the anchor shifts by the number of
    characters prepended *)
Theorem c11_string_extension :
  forall p h a h' a', s_ext h a h' a' -> occ_string p h a -> occ_string p h' a'.
Proof. exact occ_string_ext. Qed.

Theorem c11_matrix_self :
  forall (sigma : N -> N) (fill : N) (p : mpattern),
    cell_at (m_inst sigma fill p) (0%N, 0%N) <> None ->
    occ_matrix p (m_inst sigma fill p) (0%N, 0%N).
Proof. exact occ_matrix_self. Qed.

Theorem c11_matrix_rows_appended :
  forall p h rows a, occ_matrix p h a -> occ_matrix p (h ++ rows) a.
Proof. exact occ_matrix_add_rows. Qed.

Theorem c11_matrix_rows_prepended :
  forall p h rows a,
    occ_matrix p h a -> occ_matrix p (rows ++ h) ((fst a + N.of_nat (length rows))%N, snd a).
Proof. exact occ_matrix_prepend_rows. Qed.

Theorem c11_matrix_rows_widened :
  forall p h ext a, occ_matrix p h a -> occ_matrix p (widen h ext) a.
Proof. exact occ_matrix_widen. Qed.

Theorem c11_matrix_columns_prepended :
  forall p h pre n a,
    length pre = length h -> (forall e, In e pre -> length e = n) ->
    occ_matrix p h a -> occ_matrix p (shift_right pre h) (fst a, (snd a + N.of_nat n)%N).
Proof. exact occ_matrix_shift_right. Qed.

Example c11_example :
  occ_stringb [Lit 97; Var 1; Var 1]%N (s_inst (fun _ => 98%N) [Lit 97; Var 1; Var 1]%N) 0 = true
  /\ s_ext [97; 98; 98]%N 0 ([99] ++ ([97; 98; 98] ++ [97]))%N 1.
Proof.
  split; [vm_compute; reflexivity|].
  apply (se_prepend _ _ _ 0%N [99%N]). apply se_append. apply se_refl.
Qed.

Print Assumptions c11_string_self.
Print Assumptions c11_string_extension.
Print Assumptions c11_matrix_self.
Print Assumptions c11_matrix_rows_appended.
Print Assumptions c11_matrix_rows_prepended.
Print Assumptions c11_matrix_rows_widened.
Print Assumptions c11_matrix_columns_prepended.
