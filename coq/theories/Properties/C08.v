(** C08 — totality.  Proved: (strings and matrices, matching) [c08_string_run_total],
    [c08_matrix_run_total] — on every automaton that passes wf_check and arity_ok
    (matrices: and whose keys are non-negative) the modelled traversal never
    reaches a panic site and terminates: for every host there is a fuel bound
    beyond which [run] returns [Ok] (the measure: items weigh (B+1)^(rmax - rank)
    with B a bound on the successors of one item, so the queue gets lighter at
    every step of the acyclic automaton).  Components: one call of the online
    toposort terminates without panic on closed graphs (the builder's driver);
    the repaired default retain_keys never panics on prerequisite-closed key
    sets for the string and matrix maps.  Port graphs (modelled host side):
    [c08_portgraph_run_no_panic], [c08_portgraph_run_total].  The baselines on
    strings and matrices: [c08_string_single_total], [c08_matrix_single_total],
    [c08_string_naive_total], [c08_matrix_naive_total], and on port graphs
    [c08_portgraph_single_total], [c08_portgraph_naive_total].  Construction as a
    whole is decided by exploration: every generated
    and degenerate case of every other property is run under catch_unwind
    (overflow and debug assertions enabled) with a wall-clock limit, and the
    Ok/Panic status of the model's traversal on the dumped automaton is compared
    with the implementation's. *)
From PM Require Import Model.Prelude Model.Domain Model.BindMaps Model.DomString Model.DomMatrix
  Model.Automaton Model.Traversal Cert.WfCheck Cert.ExampleAut
  Model.Toposort Proofs.ToposortProofs Proofs.BindMapHistories Proofs.BindMapMatrixProofs Proofs.StringTotal Proofs.MatrixTotal Cert.CharCert
  Model.DomPGKeys Model.DomPG Proofs.RunTotal Proofs.PGTotal Proofs.PGTerminates
  Model.Matchers Model.Constraint Model.DomPGPattern Proofs.SingleTotalDomains Proofs.PGSingleTotal.

Theorem c08_toposort_next_total_partial :
  forall g order, t_closed g ->
    forall fuel st, length (ts_stack st) + 2 <= fuel -> exists r, ts_next fuel g order st = Ok r.
Proof. exact ts_next_total. Qed.

Theorem c08_string_retain_total_partial :
  forall order m, s_good m order -> exists m', mretain string_dom order m = Ok m'.
Proof. exact s_retain_total. Qed.

Theorem c08_matrix_retain_total_partial :
  forall order m, mm_wf m -> m_good m order -> exists m', m_retain order m = Ok m'.
Proof. exact m_retain_total. Qed.

(** strings: matching never panics and terminates *)
Theorem c08_string_run_total :
  forall (A : automaton N cpredicate) (rk : list (N * nat)) (ids : list N) (h : shost),
    wf_check string_dom A rk ids = true -> arity_ok string_dom A = true ->
    exists fuel0, forall fuel, (fuel0 <= fuel)%nat -> exists ms, run string_dom fuel A h = Ok ms.
Proof. exact s_run_total. Qed.

(** matrices: matching never panics and terminates (keys non-negative) *)
Theorem c08_matrix_run_total :
  forall (A : automaton mkey cpredicate) (rk : list (N * nat)) (ids : list N) (h : mhost),
    wf_check matrix_dom A rk ids = true -> arity_ok matrix_dom A = true -> m_keys_nn A = true ->
    exists fuel0, forall fuel, (fuel0 <= fuel)%nat -> exists ms, run matrix_dom fuel A h = Ok ms.
Proof. exact m_run_total. Qed.

(** port graphs (modelled host side): matching never reaches a panic site — in
    particular never the [expect] of root_candidates.rs free_ports, because every
    bound AlongPath key has its root bound *)
Theorem c08_portgraph_run_no_panic :
  forall (A : automaton pgkey pgpred) (rk : list (N * nat)) (ids : list N) (h : pghost) (fuel : nat),
    wf_check pg_dom A rk ids = true -> arity_ok pg_dom A = true ->
    match run pg_dom fuel A h with Panic _ => False | _ => True end.
Proof. exact pg_run_no_panic. Qed.

(** port graphs: and it terminates — for every host there is a fuel bound beyond
    which [run] returns [Ok] (the number of candidates of one bind_all is bounded:
    a PathRoot key offers at most one node per (known root, port), see
    Proofs/PGTerminates.v) *)
Theorem c08_portgraph_run_total :
  forall (A : automaton pgkey pgpred) (rk : list (N * nat)) (ids : list N) (h : pghost),
    wf_check pg_dom A rk ids = true -> arity_ok pg_dom A = true ->
    exists fuel0, forall fuel, (fuel0 <= fuel)%nat -> exists ms, run pg_dom fuel A h = Ok ms.
Proof. exact pg_run_total. Qed.

(** the baselines (SinglePatternMatcher::get_all_bindings, hence match_exists, and
    NaiveManyMatcher) on the constraints of every string / matrix pattern: never a
    panic site, and termination (the fuel covers both the FIFO loop and the
    missing_bindings calls inside it) *)
Theorem c08_string_single_total :
  forall (p : spattern) (h : shost),
    exists fuel0, forall fuel, (fuel0 <= fuel)%nat -> exists r, single string_dom fuel (s_cvec p) h = Ok r.
Proof. exact s_single_total. Qed.

Theorem c08_matrix_single_total :
  forall (p : mpattern) (h : mhost),
    exists fuel0, forall fuel, (fuel0 <= fuel)%nat -> exists r, single matrix_dom fuel (m_cvec p) h = Ok r.
Proof. exact m_single_total. Qed.

Theorem c08_string_naive_total :
  forall (pats : list spattern) (h : shost),
    exists fuel0, forall fuel, (fuel0 <= fuel)%nat -> exists ms, naive string_dom fuel (map s_cvec pats) h = Ok ms.
Proof. exact s_naive_total. Qed.

Theorem c08_matrix_naive_total :
  forall (pats : list mpattern) (h : mhost),
    exists fuel0, forall fuel, (fuel0 <= fuel)%nat -> exists ms, naive matrix_dom fuel (map m_cvec pats) h = Ok ms.
Proof. exact m_naive_total. Qed.

(** port graphs: the baseline on the constraints of every pattern whose conversion
    succeeds; the naive many-matcher on every list of arity-correct constraint lists *)
Theorem c08_portgraph_single_total :
  forall (g : pghost) (root : N) (cs : list pgconstraint) (h : pghost),
    pg_constraint_vec g root = Ok cs ->
    exists fuel0, forall fuel, (fuel0 <= fuel)%nat -> exists r, single pg_dom fuel cs h = Ok r.
Proof. exact pg_single_total. Qed.

Theorem c08_portgraph_naive_total :
  forall (css : list (list pgconstraint)) (h : pghost),
    (forall cs c, In cs css -> In c cs -> length (cargs c) = pg_arity (cpred c)) ->
    exists fuel0, forall fuel, (fuel0 <= fuel)%nat -> exists ms, naive pg_dom fuel css h = Ok ms.
Proof. exact pg_naive_total_css. Qed.

Example c08_example :
  wf_check string_dom ex_aut (compute_rank ex_aut) [0; 1; 2]%N = true /\ arity_ok string_dom ex_aut = true.
Proof. vm_compute. auto. Qed.

(** ** construction, last stage (partial: the earlier stages of the builder are decided by
    exploration): populate_scopes — modelled in Model/Scopes.v and compared with every
    dump — returns, with neither an index panic nor exhausted fuel, on every graph whose
    states are handed to it parents first (petgraph's toposort on an acyclic graph), whose
    edges lead to states and whose constraint orders are readable; the fuel bound is the
    C12 weight of the keys that occur in constraints. *)
From PM Require Import Model.Automaton Model.Scopes Cert.WfCheck Proofs.SchemeTotal Proofs.ScopesTotal.

Theorem c08_populate_scopes_total_partial :
  forall (K V M H P : Type) (D : DomOps K V M H P) (rank : K -> nat),
    (forall k r, In r (req D k) -> rank r < rank k) ->
  forall (A : automaton K P) (fuel : nat),
    (forall k, In k (all_args A) -> S (kw (req D) rank k) < fuel) ->
    (forall s e, In s (au_states A) -> In e (a_out s) -> exists t, get_state A (e_target e) = Ok t) ->
  forall order : list N,
    (forall s, In s (au_states A) -> In (a_id s) order) ->
    (forall id, In id order -> exists s, get_state A id = Ok s) ->
    (forall l1 id l2, order = l1 ++ id :: l2 -> forall se, In se (incoming A id) -> In (fst se) l1) ->
    (forall l1 id l2 s, order = l1 ++ id :: l2 -> get_state A id = Ok s ->
       forall e, In e (a_out s) -> In (e_target e) l2) ->
    (forall s, In s (au_states A) -> exists cts, cons_transitions s = Ok cts) ->
    exists sc, populate_scopes D fuel A order = Ok sc.
Proof. exact @populate_scopes_total. Qed.

Print Assumptions c08_toposort_next_total_partial.
Print Assumptions c08_string_run_total.
Print Assumptions c08_matrix_run_total.
Print Assumptions c08_portgraph_run_no_panic.
Print Assumptions c08_portgraph_run_total.
Print Assumptions c08_string_single_total.
Print Assumptions c08_matrix_single_total.
Print Assumptions c08_string_naive_total.
Print Assumptions c08_matrix_naive_total.
Print Assumptions c08_portgraph_single_total.
Print Assumptions c08_portgraph_naive_total.
Print Assumptions c08_string_retain_total_partial.
Print Assumptions c08_matrix_retain_total_partial.
Print Assumptions c08_populate_scopes_total_partial.
