(** C08 — totality.  Proved so far (components): one call of the online
    toposort terminates without panic on closed graphs (the builder's driver);
    the repaired default retain_keys never panics on prerequisite-closed key
    sets for the string and matrix maps; reading a binding map never panics
    inside a well-formed matrix map whose listed keys have non-negative
    positions.  Construction and matching as a whole (no panic, no divergence for
    every well-formed pattern set and host) are decided by exploration: every
    generated and degenerate case of every other property is run under
    catch_unwind (overflow and debug assertions enabled) with a wall-clock
    limit, and the Ok/Panic status of the model's traversal on the dumped
    automaton is compared with the implementation's.  [c08_run_total] (no
    engine panic site is reachable on a well-formed automaton, and a fuel bound)
    is the missing theorem. *)
From PM Require Import Model.Prelude Model.Domain Model.BindMaps Model.DomString Model.DomMatrix
  Model.Toposort Proofs.ToposortProofs Proofs.BindMapHistories Proofs.BindMapMatrixProofs.

Theorem c08_toposort_next_total_partial :
  forall g order, t_closed g ->
    forall fuel st, length (ts_stack st) + 2 <= fuel -> exists r, ts_next fuel g order st = Ok r.
Proof. exact ts_next_total. Qed.

Theorem c08_string_retain_total_partial :
  forall order m, s_good m order -> exists m', mretain string_dom order m = Ok m'.
Proof. exact s_retain_total. Qed.

Theorem c08_matrix_retain_total_partial :
  forall order m, mm_wf m -> m_good m order -> exists m', m_retain order m = Ok m'.
Proof. exact m_retain_total. Qed.

Print Assumptions c08_toposort_next_total_partial.
Print Assumptions c08_string_retain_total_partial.
Print Assumptions c08_matrix_retain_total_partial.
