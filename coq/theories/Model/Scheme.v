(** indexing.rs: IndexingScheme::missing_bindings / all_missing_bindings.
    [missing_bindings] models the current algorithm (a key is marked visited when
    its Enter frame is popped); [missing_bindings_pinned] models the algorithm of
    the pinned commit (marked when pushed), kept for the refutation witness D1. *)
From PM Require Import Model.Prelude.

Section Scheme.
  Context {K : Type} (keqb : K -> K -> bool) (req : K -> list K).

  Inductive frame : Type := Enter (k : K) | Exit (k : K).

  Notation mem := (memb keqb).

  (** Current algorithm. [out] is accumulated in reverse. *)
  Fixpoint mb_loop (fuel : nat) (known : list K) (stack : list frame)
           (visited out : list K) : res (list K) :=
    match fuel with
    | O => OutOfFuel
    | S f =>
        match stack with
        | [] => Ok (rev out)
        | Exit k :: st => mb_loop f known st visited (k :: out)
        | Enter k :: st =>
            if mem k visited then mb_loop f known st visited out
            else
              let news := filter (fun r => negb (mem r known) && negb (mem r visited)) (req k) in
              mb_loop f known (rev (map Enter news) ++ Exit k :: st) (k :: visited) out
        end
    end.

  Definition missing_bindings (fuel : nat) (key : K) (known : list K) : res (list K) :=
    if mem key known then Ok []
    else mb_loop fuel known [Enter key] [] [].

  (** Pinned algorithm: [visited.insert(req_key)] at push time. *)
  Fixpoint push_pinned (known : list K) (rs : list K) (stack : list frame) (visited : list K)
    : list frame * list K :=
    match rs with
    | [] => (stack, visited)
    | r :: rs' =>
        if negb (mem r known) && negb (mem r visited)
        then push_pinned known rs' (Enter r :: stack) (r :: visited)
        else push_pinned known rs' stack visited
    end.

  Fixpoint mb_loop_pinned (fuel : nat) (known : list K) (stack : list frame)
           (visited out : list K) : res (list K) :=
    match fuel with
    | O => OutOfFuel
    | S f =>
        match stack with
        | [] => Ok (rev out)
        | Exit k :: st => mb_loop_pinned f known st visited (k :: out)
        | Enter k :: st =>
            let '(st', vis') := push_pinned known (req k) (Exit k :: st) visited in
            mb_loop_pinned f known st' vis' out
        end
    end.

  Definition missing_bindings_pinned (fuel : nat) (key : K) (known : list K) : res (list K) :=
    if mem key known then Ok []
    else mb_loop_pinned fuel known [Enter key] [key] [].

  (** all_missing_bindings: accumulate the known set. *)
  Fixpoint amb_loop (mb : K -> list K -> res (list K)) (keys : list K) (known acc : list K)
    : res (list K) :=
    match keys with
    | [] => Ok acc
    | k :: ks =>
        if mem k known then amb_loop mb ks known acc
        else
          let* miss := mb k known in
          amb_loop mb ks (known ++ miss) (acc ++ miss)
    end.

  Definition all_missing_bindings (fuel : nat) (keys known : list K) : res (list K) :=
    amb_loop (missing_bindings fuel) keys known [].

  Definition all_missing_bindings_pinned (fuel : nat) (keys known : list K) : res (list K) :=
    amb_loop (missing_bindings_pinned fuel) keys known [].
End Scheme.
Arguments Enter {K} k.
Arguments Exit {K} k.
