(** The port-graph domain, host side: portgraph/indexing.rs (walk_path,
    list_bind_options), portgraph/root_candidates.rs (RootSpanningTree,
    free_ports, find_root_candidates), portgraph/predicate.rs (check), with
    FxHashMap<PGIndexKey, NodeIndex> as the binding map.

    A host is a list of node slots (None = removed node; Some (inputs, outputs))
    and a list of links (a, output port of a, b, input port of b); every port
    carries at most one link (PortGraph, not MultiPortGraph).  Node weights are
    the unit type.

    Iteration orders of the hash containers inside root_candidates.rs are not
    modelled: the candidates are produced root by root, ports in the order
    inputs-then-outputs; the correspondence compares them as multisets. *)
From PM Require Import Model.Prelude Model.Domain Model.BindMaps Model.DomString Model.DomPGKeys.
Local Open Scope N_scope.

Record pghost : Type := {
  pg_nodes : list (option (N * N));
  pg_links : list (N * N * N * N);
}.

Definition pgmap := @amap pgkey N.
Definition pgget (m : pgmap) (k : pgkey) : option N := aget pgkey_eqb m k.

Definition node_ports (h : pghost) (n : N) : option (N * N) :=
  match nth_error (pg_nodes h) (N.to_nat n) with Some (Some io) => Some io | _ => None end.

Definition has_port (h : pghost) (n : N) (p : pgport) : bool :=
  match node_ports h n with
  | Some (i, o) => match p with PIn k => k <? i | POut k => k <? o end
  | None => false
  end.

Definition flip (p : pgport) : pgport := match p with PIn k => POut k | POut k => PIn k end.

(** the port linked to port [p] of node [n] *)
Definition port_link (h : pghost) (n : N) (p : pgport) : option (N * pgport) :=
  match p with
  | POut k =>
      match find (fun l => let '(a, oa, _, _) := l in N.eqb a n && N.eqb oa k) (pg_links h) with
      | Some (_, _, b, ib) => Some (b, PIn ib)
      | None => None
      end
  | PIn k =>
      match find (fun l => let '(_, _, b, ib) := l in N.eqb b n && N.eqb ib k) (pg_links h) with
      | Some (a, oa, _, _) => Some (a, POut oa)
      | None => None
      end
  end.

(** walk_path: (port through which the node was entered, node, port through
    which the path leaves it if that port exists) *)
Definition wstep := (option pgport * N * option pgport)%type.

Fixpoint walk_from (fuel : nat) (h : pghost) (start cur : N) (next : option pgport) : list wstep :=
  match fuel with
  | O => []
  | S f =>
      match next with
      | None => []
      | Some np =>
          match port_link h cur np with
          | None => []
          | Some (n', p') =>
              if N.eqb n' start then []
              else
                let nxt := if has_port h n' (flip p') then Some (flip p') else None in
                (Some p', n', nxt) :: walk_from f h start n' nxt
          end
      end
  end.

Definition walk_fuel (h : pghost) : nat := S (2 * length (pg_links h)).

Definition walk_path (h : pghost) (start : N) (off : pgport) : list wstep :=
  let nxt := if has_port h start off then Some off else None in
  (None, start, nxt) :: walk_from (walk_fuel h) h start start nxt.

Definition walk_nodes (h : pghost) (start : N) (off : pgport) : list N :=
  map (fun s => snd (fst s)) (walk_path h start off).

(** all_port_offsets / all_ports: inputs, then outputs *)
Definition all_ports (h : pghost) (n : N) : list pgport :=
  match node_ports h n with
  | Some (i, o) => map PIn (nseq i) ++ map POut (nseq o)
  | None => []
  end.

Definition live_nodes (h : pghost) : list N :=
  flat_map (fun x => match snd x with Some _ => [fst x] | None => [] end)
           (combine (nseq (N.of_nat (length (pg_nodes h)))) (pg_nodes h)).

(** ** root_candidates.rs *)
Definition nmem (n : N) (l : list N) : bool := memb N.eqb n l.

(** the traversed paths: (root index, start port) -> largest bound length *)
Fixpoint path_insert (r : N) (p : pgport) (len : N) (paths : list (N * pgport * N)) : list (N * pgport * N) :=
  match paths with
  | [] => [(r, p, len)]
  | (r', p', l') :: rest =>
      if N.eqb r r' && pgport_eqb p p' then (r', p', N.max l' len) :: rest
      else (r', p', l') :: path_insert r p len rest
  end.

Definition traversed_paths (m : pgmap) : list (N * pgport * N) :=
  fold_left (fun acc kv => match fst kv with AlongPath r p l => path_insert r p l acc | PathRoot _ => acc end) m [].

Definition root_nodes (m : pgmap) : list N :=
  flat_map (fun kv => match fst kv with PathRoot _ => [snd kv] | AlongPath _ _ _ => [] end) m.

Fixpoint fp_get (fp : list (N * list pgport)) (n : N) : option (list pgport) :=
  match fp with
  | [] => None
  | (n', ps) :: r => if N.eqb n n' then Some ps else fp_get r n
  end.
Fixpoint fp_set (fp : list (N * list pgport)) (n : N) (ps : list pgport) : list (N * list pgport) :=
  match fp with
  | [] => [(n, ps)]
  | (n', ps') :: r => if N.eqb n n' then (n, ps) :: r else (n', ps') :: fp_set r n ps
  end.

(** Vec::remove(position): removes the first occurrence *)
Fixpoint remove_first (p : pgport) (ps : list pgport) : list pgport :=
  match ps with
  | [] => []
  | x :: r => if pgport_eqb x p then r else x :: remove_first p r
  end.
Definition remove_opt (p : option pgport) (ps : list pgport) : list pgport :=
  match p with Some q => remove_first q ps | None => ps end.

Definition free_ports (h : pghost) (m : pgmap) : res (list (N * list pgport)) :=
  let roots := root_nodes m in
  fold_left (fun acc path =>
    let* fp := acc in
    let '(r, p, len) := path in
    match pgget m (PathRoot r) with
    | None => Panic SitePGFreePortsRoot
    | Some root_node =>
        Ok (fold_left (fun fp (s : wstep) =>
              let '(p1, node, p2) := s in
              if nmem node roots then fp
              else
                let cur := match fp_get fp node with Some ps => ps | None => all_ports h node end in
                fp_set fp node (remove_opt p2 (remove_opt p1 cur)))
            (firstn (S (N.to_nat len)) (walk_path h root_node p)) fp)
    end) (traversed_paths m) (Ok []).

Definition nodes_with_free_ports (h : pghost) (m : pgmap) : res (list N) :=
  let* fp := free_ports h m in
  Ok (flat_map (fun e => match snd e with [] => [] | _ => [fst e] end) fp).

Inductive neighbour : Type := NParent | NKnownRoot (r : N) | NNewRoot (n : N).

Fixpoint known_roots_from (fuel : nat) (m : pgmap) (i : N) : list N :=
  match fuel with
  | O => []
  | S f => match pgget m (PathRoot i) with
           | Some v => v :: known_roots_from f m (i + 1)
           | None => []
           end
  end.
Definition known_roots (m : pgmap) : list N := known_roots_from (S (length m)) m 0.

(** known_roots_inv: the last index wins (HashMap collected from a zip) *)
Definition root_index_of (roots : list N) (n : N) : option N :=
  fold_left (fun acc x => if N.eqb (snd x) n then Some (fst x) else acc)
            (combine (nseq (N.of_nat (length roots))) roots) None.

Definition port_gt_opt (p : pgport) (q : option pgport) : bool :=
  match q with None => true | Some q' => match pgport_cmp p q' with Gt => true | _ => false end end.

(** traverse_path_neighbour_type: returns the neighbour type and the updated seen_roots *)
Fixpoint traverse_steps (steps : list wstep) (port : pgport) (cur_root : N) (seen : list N)
         (known_nodes : list N) (roots : list N) (free : list N) (path : list N)
  : option neighbour * list N :=
  match steps with
  | [] => (match find (fun n => nmem n free) (rev path) with Some n => Some (NNewRoot n) | None => None end, seen)
  | (inc, node, _) :: rest =>
      if negb (nmem node known_nodes) then
        (match find (fun n => nmem n free) (rev path) with Some n => Some (NNewRoot n) | None => None end, seen)
      else
        match root_index_of roots node with
        | Some r =>
            if r <? cur_root then (Some NParent, seen)
            else if N.eqb r cur_root && port_gt_opt port inc then (Some NParent, seen)
            else if negb (nmem r seen) then (Some (NKnownRoot r), r :: seen)
            else (match find (fun n => nmem n free) (rev path) with Some n => Some (NNewRoot n) | None => None end, seen)
        | None => traverse_steps rest port cur_root seen known_nodes roots free (node :: path)
        end
  end.

Definition spanning_tree (h : pghost) (m : pgmap) (free : list N) : list (list (pgport * neighbour)) :=
  let roots := known_roots m in
  let known_nodes := map snd m in
  let '(tree, _) :=
    fold_left (fun (acc : list (list (pgport * neighbour)) * list N) (ir : N * N) =>
      let '(tree, seen) := acc in
      let '(i, node) := ir in
      let seen := i :: seen in
      let '(nbs, seen') :=
        fold_left (fun (a2 : list (pgport * neighbour) * list N) port =>
          let '(nbs, seen) := a2 in
          let '(nt, seen') := traverse_steps (tl (walk_path h node port)) port i seen known_nodes roots free [] in
          match nt with
          | Some t => (nbs ++ [(port, t)], seen')
          | None => (nbs, seen')
          end) (all_ports h node) ([], seen) in
      (tree ++ [nbs], seen'))
      (combine (nseq (N.of_nat (length roots))) roots) ([], []) in
  tree.

Definition port_max (l : list pgport) : option pgport :=
  fold_left (fun acc p => match acc with
                          | None => Some p
                          | Some q => match pgport_cmp p q with Lt => Some q | _ => Some p end
                          end) l None.

Definition find_root_candidates (h : pghost) (m : pgmap) : res (list N) :=
  let* free := nodes_with_free_ports h m in
  Ok (flat_map (fun nbs =>
        let used := port_max (flat_map (fun pn => match snd pn with NKnownRoot _ => [fst pn] | _ => [] end) nbs) in
        flat_map (fun pn => match snd pn with
                            | NNewRoot n => if port_gt_opt (fst pn) used then [n] else []
                            | _ => []
                            end) nbs) (spanning_tree h m free)).

(** ** list_bind_options *)
Definition pg_opts (h : pghost) (k : pgkey) (m : pgmap) : res (list N) :=
  match pgget m k with
  | Some v => Ok [v]
  | None =>
      match k with
      | PathRoot i =>
          if N.eqb i 0 then Ok (live_nodes h)
          else match pgget m (PathRoot (i - 1)) with
               | None => Ok []
               | Some _ => find_root_candidates h m
               end
      | AlongPath r p len =>
          match pgget m (PathRoot r) with
          | None => Ok []
          | Some root => Ok (match nth_error (walk_nodes h root p) (N.to_nat len) with Some n => [n] | None => [] end)
          end
      end
  end.

Definition pg_req (k : pgkey) : list pgkey :=
  match k with
  | PathRoot i => if N.eqb i 0 then [] else [PathRoot (i - 1)]
  | AlongPath r _ _ => [PathRoot r]
  end.

(** ** predicates *)
Definition has_edge (h : pghost) (l : N) (lp : pgport) (r : N) (rp : pgport) : bool :=
  has_port h l lp &&
  match port_link h l lp with
  | Some (n', p') => N.eqb n' r && pgport_eqb p' rp
  | None => false
  end.

Definition pg_check (h : pghost) (p : pgpred) (vs : list N) : res bool :=
  match p, vs with
  | HasNodeWeight, [_] => Ok true
  | IsConnected lp rp, [l; r] => Ok (has_edge h l lp r rp)
  | IsNotEqual _, n :: others => Ok (negb (nmem n others))
  | _, _ => Panic SiteCheckArity
  end.

Definition pg_dom : DomOps pgkey N pgmap pghost pgpred := {|
  keqb := pgkey_eqb;
  veqb := N.eqb;
  peqb := pgpred_eqb;
  req := pg_req;
  mempty := [];
  mget := pgget;
  mbind := abind pgkey_eqb N.eqb;
  mretain := fun keys m => Ok (aretain pgkey_eqb keys m);
  opts := pg_opts;
  arity := pg_arity;
  check := pg_check;
|}.
