(** constraint_tree.rs and constraint_tree/build.rs: the tree datastructure and
    the helper constructors; utils::sort_with_indices. *)
From PM Require Import Model.Prelude.

Section CTree.
  Context {C : Type} (ceqb : C -> C -> bool).

  Record tnode : Type := { tn_labels : list nat; tn_children : list (C * nat) }.
  Record ctree : Type := { ct_nodes : list tnode; ct_make_det : bool }.

  Definition tnode_new : tnode := {| tn_labels := []; tn_children := [] |}.
  Definition ctree_new : ctree := {| ct_nodes := [tnode_new]; ct_make_det := false |}.
  Definition set_make_det (t : ctree) (b : bool) : ctree :=
    {| ct_nodes := ct_nodes t; ct_make_det := b |}.

  Fixpoint update_nth {A} (l : list A) (n : nat) (f : A -> A) : list A :=
    match l, n with
    | [], _ => []
    | x :: l', O => f x :: l'
    | x :: l', S n' => x :: update_nth l' n' f
    end.

  Fixpoint find_child (cs : list (C * nat)) (c : C) : option nat :=
    match cs with
    | [] => None
    | (c', i) :: cs' => if ceqb c' c then Some i else find_child cs' c
    end.

  (** get_or_add_child: panics when the node does not exist *)
  Definition get_or_add_child (t : ctree) (node : nat) (c : C) : res (ctree * nat) :=
    match nth_error (ct_nodes t) node with
    | None => Panic SiteTreeNode
    | Some nd =>
        match find_child (tn_children nd) c with
        | Some i => Ok (t, i)
        | None =>
            let child := length (ct_nodes t) in
            let nodes := update_nth (ct_nodes t) node
                           (fun nd => {| tn_labels := tn_labels nd;
                                         tn_children := tn_children nd ++ [(c, child)] |}) in
            Ok ({| ct_nodes := nodes ++ [tnode_new]; ct_make_det := ct_make_det t |}, child)
        end
    end.

  (** add_constraint_index: [self.nodes[node]] panics out of bounds *)
  Definition add_index (t : ctree) (node : nat) (i : nat) : res ctree :=
    match nth_error (ct_nodes t) node with
    | None => Panic SiteTreeNode
    | Some _ =>
        Ok {| ct_nodes := update_nth (ct_nodes t) node
                            (fun nd => {| tn_labels := tn_labels nd ++ [i]; tn_children := tn_children nd |});
              ct_make_det := ct_make_det t |}
    end.

  Fixpoint add_indices (t : ctree) (node : nat) (is : list nat) : res ctree :=
    match is with
    | [] => Ok t
    | i :: is' => let* t' := add_index t node i in add_indices t' node is'
    end.

  Fixpoint with_children_from (t : ctree) (children : list (C * list nat)) : res ctree :=
    match children with
    | [] => Ok t
    | (c, is) :: rest =>
        let* r := get_or_add_child t 0 c in
        let* t' := add_indices (fst r) (snd r) is in
        with_children_from t' rest
    end.

  Definition with_children (children : list (C * list nat)) : res ctree :=
    with_children_from ctree_new children.

  (** with_pairwise_mutex: keep a constraint when it is mutex with all kept so far *)
  Fixpoint pairwise_filter (is_mutex : C -> C -> bool) (kept : list (C * list nat)) (cs : list (C * nat))
    : list (C * list nat) :=
    match cs with
    | [] => kept
    | (c, i) :: cs' =>
        if forallb (fun o => is_mutex (fst o) c) kept
        then pairwise_filter is_mutex (kept ++ [(c, [i])]) cs'
        else pairwise_filter is_mutex kept cs'
    end.

  Definition with_pairwise_mutex (cs : list (C * nat)) (is_mutex : C -> C -> bool) : res ctree :=
    let* t := with_children (pairwise_filter is_mutex [] cs) in Ok (set_make_det t true).

  Definition with_transitive_mutex (cs : list (C * nat)) (is_mutex : C -> C -> bool) : res ctree :=
    match cs with
    | [] => Ok ctree_new
    | (first, fi) :: rest =>
        let kept := filter (fun ci => is_mutex first (fst ci)) rest in
        let* t := with_children ((first, [fi]) :: map (fun ci => (fst ci, [snd ci])) kept) in
        Ok (set_make_det t true)
    end.

  (** with_powerset (needs ConditionedPredicate::conditioned) *)
  Variable conditioned : C -> list C -> option C.

  Record qitem : Type := { q_next : nat; q_sat : list C; q_node : nat }.

  (** add_implied_constraints: consume the constraints that are implied
      (conditioned = None), labelling [node]; stop at the first that is not *)
  Fixpoint add_implied (fuel : nat) (cs : list (C * nat)) (t : ctree) (node : nat)
           (sat : list C) (next : nat) : res (ctree * list C * nat * option C) :=
    match fuel with
    | O => OutOfFuel
    | S f =>
        match nth_error cs next with
        | None => Ok (t, sat, next, None)
        | Some (c, ci) =>
            match conditioned c sat with
            | Some c' => Ok (t, sat, next, Some c')
            | None =>
                let* t' := add_index t node ci in
                add_implied f cs t' node (sat ++ [c]) (S next)
            end
        end
    end.

  Fixpoint powerset_loop (fuel : nat) (cs : list (C * nat)) (t : ctree) (queue : list qitem) : res ctree :=
    match fuel with
    | O => OutOfFuel
    | S f =>
        match queue with
        | [] => Ok t
        | it :: q =>
            let* r := add_implied (S (length cs)) cs t (q_node it) (q_sat it) (q_next it) in
            let '(t1, sat, next, oc) := r in
            match oc with
            | None => powerset_loop f cs t1 q
            | Some c' =>
                let skip := {| q_next := S next; q_sat := sat; q_node := q_node it |} in
                let* r2 := get_or_add_child t1 (q_node it) c' in
                match nth_error cs next with
                | None => Panic SiteTreeNode      (* unreachable: next < len when oc = Some *)
                | Some (c, ci) =>
                    let* t3 := add_index (fst r2) (snd r2) ci in
                    let take := {| q_next := S next; q_sat := sat ++ [c]; q_node := snd r2 |} in
                    powerset_loop f cs t3 (q ++ [skip; take])
                end
            end
        end
    end.

  Definition with_powerset (fuel : nat) (cs : list (C * nat)) : res ctree :=
    match cs with
    | [] => Ok ctree_new
    | _ => powerset_loop fuel cs (set_make_det ctree_new true)
                         [{| q_next := 0; q_sat := []; q_node := 0 |}]
    end.
End CTree.
Arguments tnode : clear implicits.
Arguments ctree : clear implicits.

(** utils::sort_with_indices: a stable sort by [cmp], keeping original positions *)
Section Sort.
  Context {A : Type} (cmp : A -> A -> comparison).

  Fixpoint insert_sorted (x : A * nat) (l : list (A * nat)) : list (A * nat) :=
    match l with
    | [] => [x]
    | y :: l' => match cmp (fst x) (fst y) with
                 | Gt => y :: insert_sorted x l'
                 | _ => x :: y :: l'
                 end
    end.

  (* elements are inserted from the right, each one before the first element that is
     not smaller: equal elements keep their original order (stable, like sort_by) *)
  Definition sort_with_indices (l : list A) : list (A * nat) :=
    fold_right insert_sorted [] (combine l (seq 0 (length l))).
End Sort.
