(** utils/toposort.rs: OnlineToposort::next on a graph that may differ from call
    to call.  A graph snapshot is an adjacency list [(node, out-neighbours in the
    order petgraph enumerates them)]; the iteration order of the private
    [visited] hash set is an argument ([vis_order]). *)
From PM Require Import Model.Prelude.

Definition tgraph := list (N * list N).

Definition t_nodes (g : tgraph) : list N := map fst g.

Fixpoint t_outs (g : tgraph) (v : N) : list N :=
  match g with
  | [] => []
  | (n, l) :: g' => if N.eqb v n then l else t_outs g' v
  end.

(** predecessors: existing nodes with an edge to [n] *)
Definition t_preds (g : tgraph) (n : N) : list N :=
  filter (fun p => memb N.eqb n (t_outs g p)) (t_nodes g).

Definition t_ready (g : tgraph) (visited : list N) (n : N) : bool :=
  forallb (fun p => memb N.eqb p visited) (t_preds g n).

Record ts_state : Type := {
  ts_visited : list N;        (* most recent first *)
  ts_stack : list N;          (* top of the stack first *)
}.

Definition ts_init (root : N) : ts_state := {| ts_visited := []; ts_stack := [root] |}.

(** the ready, not yet visited out-neighbours of [v], first occurrences only *)
Definition ready_succs (g : tgraph) (visited : list N) (v : N) : list N :=
  uniq N.eqb (filter (fun n => t_ready g visited n && negb (memb N.eqb n visited)) (t_outs g v)).

(** the refill loop: walk the visited set in iteration order until some node
    contributes at least one candidate *)
Fixpoint refill (g : tgraph) (visited : list N) (vis_order : list N) : option (list N) :=
  match vis_order with
  | [] => None
  | v :: vs =>
      match ready_succs g visited v with
      | [] => refill g visited vs
      | rs => Some rs
      end
  end.

Fixpoint ts_next (fuel : nat) (g : tgraph) (vis_order : list N) (st : ts_state)
  : res (option N * ts_state) :=
  match fuel with
  | O => OutOfFuel
  | S f =>
      let stack :=
        match ts_stack st with
        | [] => match refill g (ts_visited st) vis_order with
                | None => None
                | Some rs => Some (rev rs)      (* extend: the last candidate ends on top *)
                end
        | s => Some s
        end in
      match stack with
      | None => Ok (None, st)
      | Some [] => Ok (None, st)                (* unreachable: refill returns non-empty lists *)
      | Some (n :: rest) =>
          if memb N.eqb n (t_nodes g) && t_ready g (ts_visited st) n
          then Ok (Some n, {| ts_visited := n :: ts_visited st; ts_stack := rest |})
          else ts_next f g vis_order {| ts_visited := ts_visited st; ts_stack := rest |}
      end
  end.

(** A history: one graph snapshot (and one iteration order of the visited set)
    per call of [next]; edits are the differences between consecutive snapshots. *)
Definition ts_call := (tgraph * list N)%type.

Fixpoint ts_run (fuel : nat) (calls : list ts_call) (st : ts_state)
  : res (list (option N) * ts_state) :=
  match calls with
  | [] => Ok ([], st)
  | (g, order) :: cs =>
      let* r := ts_next fuel g order st in
      let* rs := ts_run fuel cs (snd r) in
      Ok (fst r :: fst rs, snd rs)
  end.
