(** automaton/traversal.rs: AutomatonTraverser (the breadth-first run of a
    compiled automaton on a host) and next_legal_states. *)
From PM Require Import Model.Prelude Model.Domain Model.Constraint Model.BindAll Model.Automaton.

Section Traversal.
  Context {K V M H P : Type} (D : DomOps K V M H P).

  Definition unique_keys (l : list K) : list K := uniq (keqb D) l.

  (** the keys whose values [visit] hashes: the scope, then the keys recorded for
      the accepted patterns (first occurrences) *)
  Definition useful_keys (s : astate K P) : list K :=
    a_scope s ++ unique_keys (flat_map snd (a_matches s)).

  Definition view (s : astate K P) (m : M) : list (option V) :=
    map (mget D m) (useful_keys s).

  Definition view_eqb (a b : list (option V)) : bool :=
    list_eqb (option_eqb (veqb D)) a b.

  Definition visited_mem (id : N) (v : list (option V)) (vis : list (N * list (option V))) : bool :=
    existsb (fun e => N.eqb (fst e) id && view_eqb (snd e) v) vis.

  (** matches emitted when a (state, bindings) pair is first visited *)
  Definition emissions (h : H) (s : astate K P) (m : M) : res (list (N * M)) :=
    rflatM (fun pk : N * list K =>
              let '(pid, keys) := pk in
              let new_keys := filter (fun k => match mget D m k with None => true | Some _ => false end) keys in
              let* bs := match new_keys with
                         | [] => Ok [m]
                         | _ => bind_all D h m new_keys false
                         end in
              let* bs' := rmapM (mretain D keys) bs in
              Ok (map (fun b => (pid, b)) bs')) (a_matches s).

  Fixpoint filter_sat (h : H) (m : M) (l : list (constraint K P * N)) : res (list N) :=
    match l with
    | [] => Ok []
    | (c, t) :: l' =>
        let* b := sat_or_false D h c m in
        let* r := filter_sat h m l' in
        Ok (if b then t :: r else r)
    end.

  Definition next_legal_states (h : H) (s : astate K P) (m : M) : res (list (N * M)) :=
    let* cands := bind_all D h m (a_scope s) true in
    let* cands' := rmapM (mretain D (a_scope s)) cands in
    let* ctr := cons_transitions s in
    rflatM (fun b =>
              let* fired := filter_sat h b ctr in
              let needs_fail := negb (a_det s) || match fired with [] => true | _ => false end in
              let* fail := if needs_fail then fail_next_state s else Ok None in
              Ok (map (fun t => (t, b)) fired
                  ++ match fail with Some t => [(t, b)] | None => [] end)) cands'.

  Fixpoint run_loop (fuel : nat) (A : automaton K P) (h : H)
           (queue : list (N * M)) (vis : list (N * list (option V))) (acc : list (N * M))
    : res (list (N * M)) :=
    match fuel with
    | O => OutOfFuel
    | S f =>
        match queue with
        | [] => Ok (rev acc)
        | (id, m) :: q =>
            let* s := get_state A id in
            let v := view s m in
            if visited_mem id v vis then run_loop f A h q vis acc
            else
              let* ms := emissions h s m in
              let* nexts := next_legal_states h s m in
              run_loop f A h (q ++ nexts) ((id, v) :: vis) (rev ms ++ acc)
        end
    end.

  Definition run (fuel : nat) (A : automaton K P) (h : H) : res (list (N * M)) :=
    run_loop fuel A h [(au_root A, mempty D)] [] [].
End Traversal.
