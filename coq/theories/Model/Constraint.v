(** constraint.rs: Constraint::try_new, try_binary_from_triple, is_satisfied. *)
From PM Require Import Model.Prelude Model.Domain.

Section Constraint.
  Context {K V M H P : Type} (D : DomOps K V M H P).

  (** [try_new]: Ok exactly when [args.len() == predicate.arity()];
      the error carries (predicate_arity, arguments_arity). *)
  Definition try_new (p : P) (args : list K) : sum (nat * nat) (constraint K P) :=
    if Nat.eqb (length args) (arity D p)
    then inr {| cpred := p; cargs := args |}
    else inl (arity D p, length args).

  Definition try_binary_from_triple (lhs : K) (p : P) (rhs : K) :=
    try_new p [lhs; rhs].

  (** Resolve arguments left to right; stop at the first unbound key
      (the [collect::<Result<Vec<_>,_>>()?] of is_satisfied). *)
  Fixpoint resolve_args (m : M) (args : list K) : sum K (list V) :=
    match args with
    | [] => inr []
    | k :: ks =>
        match mget D m k with
        | None => inl k
        | Some v =>
            match resolve_args m ks with
            | inl k' => inl k'
            | inr vs => inr (v :: vs)
            end
        end
    end.

  Fixpoint first_unbound (m : M) (args : list K) : option K :=
    match args with
    | [] => None
    | k :: ks => match mget D m k with None => Some k | Some _ => first_unbound m ks end
    end.

  Inductive sat_result : Type :=
  | SatVerdict (b : bool)
  | SatUnbound (k : K).

  (** Returns the result and the number of predicate invocations. *)
  Definition is_satisfied_calls (h : H) (c : constraint K P) (m : M) : res (sat_result * nat) :=
    match resolve_args m (cargs c) with
    | inl k => Ok (SatUnbound k, 0)
    | inr vs => let* b := check D h (cpred c) vs in Ok (SatVerdict b, 1)
    end.

  Definition is_satisfied (h : H) (c : constraint K P) (m : M) : res sat_result :=
    rmap fst (is_satisfied_calls h c m).

  (** [is_satisfied(..).unwrap_or(false)] as used by the traversal and the
      single-pattern matcher. *)
  Definition sat_or_false (h : H) (c : constraint K P) (m : M) : res bool :=
    let* r := is_satisfied h c m in
    match r with SatVerdict b => Ok b | SatUnbound _ => Ok false end.
End Constraint.
Arguments SatVerdict {K} b.
Arguments SatUnbound {K} k.
