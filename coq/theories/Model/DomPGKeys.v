(** Port-graph index keys, predicates and their orders (portgraph/indexing.rs
    PGIndexKey, portgraph/predicate.rs PGPredicate, portgraph::PortOffset), the
    order on constraints, [conditioned] and the tree decomposition
    (portgraph/constraint.rs, portgraph/constraint/mutex.rs).  Node weights are
    the unit type, as in the ToConstraintsTree implementation. *)
From PM Require Import Model.Prelude Model.Domain Model.CTree.

Inductive pgport : Type := PIn (n : N) | POut (n : N).   (* Incoming(_) < Outgoing(_) *)

Inductive pgkey : Type :=
| PathRoot (index : N)
| AlongPath (root : N) (port : pgport) (len : N).

Inductive pgpred : Type :=
| HasNodeWeight
| IsConnected (left_port right_port : pgport)
| IsNotEqual (n_other : N).

Definition pgport_cmp (a b : pgport) : comparison :=
  match a, b with
  | PIn x, PIn y => N.compare x y
  | PIn _, POut _ => Lt
  | POut _, PIn _ => Gt
  | POut x, POut y => N.compare x y
  end.

Definition lex (a b : comparison) : comparison := match a with Eq => b | _ => a end.

(** cmp_key = (root, Option<port>, len), None < Some *)
Definition pgkey_cmp (a b : pgkey) : comparison :=
  match a, b with
  | PathRoot i, PathRoot j => N.compare i j
  | PathRoot i, AlongPath r _ _ => lex (N.compare i r) Lt
  | AlongPath r _ _, PathRoot j => lex (N.compare r j) Gt
  | AlongPath r p l, AlongPath r' p' l' => lex (N.compare r r') (lex (pgport_cmp p p') (N.compare l l'))
  end.

Definition pgpred_cmp (a b : pgpred) : comparison :=
  match a, b with
  | HasNodeWeight, HasNodeWeight => Eq
  | HasNodeWeight, _ => Lt
  | IsConnected _ _, HasNodeWeight => Gt
  | IsConnected l r, IsConnected l' r' => lex (pgport_cmp l l') (pgport_cmp r r')
  | IsConnected _ _, IsNotEqual _ => Lt
  | IsNotEqual n, IsNotEqual m => N.compare n m
  | IsNotEqual _, _ => Gt
  end.

Definition pgport_eqb (a b : pgport) : bool := match pgport_cmp a b with Eq => true | _ => false end.
Definition pgkey_eqb (a b : pgkey) : bool := match pgkey_cmp a b with Eq => true | _ => false end.
Definition pgpred_eqb (a b : pgpred) : bool := match pgpred_cmp a b with Eq => true | _ => false end.

Definition pgconstraint := constraint pgkey pgpred.

Definition pgc_eqb (a b : pgconstraint) : bool :=
  pgpred_eqb (cpred a) (cpred b) && list_eqb pgkey_eqb (cargs a) (cargs b).

Definition pg_arity (p : pgpred) : nat :=
  match p with HasNodeWeight => 1 | IsConnected _ _ => 2 | IsNotEqual n => S (N.to_nat n) end.

(** max_key(): the largest argument (Root(0) when there is none) and the predicate *)
Fixpoint max_key_of (l : list pgkey) (acc : pgkey) : pgkey :=
  match l with
  | [] => acc
  | k :: l' => max_key_of l' (match pgkey_cmp k acc with Lt => acc | _ => k end)
  end.
(* Iterator::max returns the last maximal element; only its cmp class matters here *)
Definition pg_max_key (c : pgconstraint) : pgkey :=
  match cargs c with [] => PathRoot 0 | k :: l => max_key_of l k end.

Definition pgc_cmp (a b : pgconstraint) : comparison :=
  lex (pgkey_cmp (pg_max_key a) (pg_max_key b)) (pgpred_cmp (cpred a) (cpred b)).

(** BTreeSet of keys: sorted, duplicate-free insertion *)
Fixpoint kset_insert (k : pgkey) (s : list pgkey) : list pgkey :=
  match s with
  | [] => [k]
  | x :: s' => match pgkey_cmp k x with
               | Lt => k :: x :: s'
               | Eq => x :: s'
               | Gt => x :: kset_insert k s'
               end
  end.
Definition kset_of (l : list pgkey) : list pgkey := fold_left (fun s k => kset_insert k s) l [].
Definition kset_remove (k : pgkey) (s : list pgkey) : list pgkey :=
  filter (fun x => negb (pgkey_eqb x k)) s.

Definition is_ne (c : pgconstraint) : bool := match cpred c with IsNotEqual _ => true | _ => false end.

(** ConditionedPredicate::conditioned; [required_bindings()[0]] panics on an
    IsNotEqual constraint without arguments *)
Definition pg_conditioned_res (c : pgconstraint) (sat : list pgconstraint) : res (option pgconstraint) :=
  if negb (is_ne c) then Ok (Some c)
  else
    match cargs c with
    | [] => Panic SiteConditionedArgs
    | first :: others =>
        (* every satisfied constraint's first key is read, whatever its predicate *)
        if existsb (fun s => match cargs s with [] => true | _ => false end) sat
        then Panic SiteConditionedArgs
        else
          let keys :=
            fold_left (fun ks s => match cargs s with
                                   | f :: os => if pgkey_eqb f first
                                                then fold_left (fun ks k => kset_remove k ks) os ks
                                                else ks
                                   | [] => ks
                                   end) sat (kset_of others) in
          match keys with
          | [] => Ok None
          | _ => Ok (Some {| cpred := IsNotEqual (N.of_nat (length keys)); cargs := first :: keys |})
          end
    end.

(** total version used by with_powerset in the model (panics are reported separately) *)
Definition pg_conditioned (c : pgconstraint) (sat : list pgconstraint) : option pgconstraint :=
  match pg_conditioned_res c sat with Ok r => r | _ => Some c end.

Definition fst_key_eq (a b : pgconstraint) : bool :=
  match cargs a, cargs b with
  | x :: _, y :: _ => pgkey_eqb x y
  | _, _ => false
  end.

Definition pg_is_mutex (a b : pgconstraint) : bool :=
  match cpred a, cpred b with
  | HasNodeWeight, HasNodeWeight => fst_key_eq a b
  | IsConnected la _, IsConnected lb _ => pgport_eqb la lb && fst_key_eq a b
  | _, _ => false
  end.

(** mutex_filter + to_constraints_tree for PGPredicate *)
Definition pg_tree (fuel : nat) (cs : list pgconstraint) : res (ctree pgconstraint) :=
  match cs with
  | [] => Ok ctree_new
  | _ =>
      let sorted := sort_with_indices pgc_cmp cs in
      match sorted with
      | [] => Ok ctree_new
      | (first, _) :: _ =>
          let* t :=
            if is_ne first then
              (* fst_required_binding_eq indexes required_bindings()[0] of both *)
              if existsb (fun ci => is_ne (fst ci) && match cargs (fst ci) with [] => true | _ => false end) sorted
              then Panic SiteConditionedArgs
              else with_powerset pgc_eqb pg_conditioned fuel
                     (filter (fun ci => is_ne (fst ci) && fst_key_eq (fst ci) first) sorted)
            else with_transitive_mutex pgc_eqb sorted pg_is_mutex in
          Ok (set_make_det t true)
      end
  end.
