(** The matrix domain: matrix.rs, matrix/pattern.rs. Ragged hosts; signed keys. *)
From PM Require Import Model.Prelude Model.Domain Model.BindMaps Model.DomString.

Definition mhost := list (list N).
Definition mkey := (Z * Z)%type.
Definition mval := (N * N)%type.

Definition mkey_eqb (a b : mkey) : bool := Z.eqb (fst a) (fst b) && Z.eqb (snd a) (snd b).
Definition mval_eqb (a b : mval) : bool := N.eqb (fst a) (fst b) && N.eqb (snd a) (snd b).

(** MatrixPositionMap *)
Inductive mpm : Type :=
| MUnbound
| MBound (start : mval) (minp maxp : mkey).

Definition in_box (k minp maxp : mkey) : bool :=
  (fst minp <=? fst k)%Z && (fst k <=? fst maxp)%Z && (snd minp <=? snd k)%Z && (snd k <=? snd maxp)%Z.

(** [checked_add_signed]: None when the result would be negative. *)
Definition add_signed (a : N) (d : Z) : option N :=
  let r := (Z.of_N a + d)%Z in
  if (r <? 0)%Z then None else Some (Z.to_N r).

(** get: total version (None where the Rust code would panic) ... *)
Definition mmget (m : mpm) (k : mkey) : option mval :=
  match m with
  | MUnbound => None
  | MBound s minp maxp =>
      if in_box k minp maxp then
        match add_signed (fst s) (fst k), add_signed (snd s) (snd k) with
        | Some r, Some c => Some (r, c)
        | _, _ => None
        end
      else None
  end.

(** ... and the condition under which [checked_add_signed(..).unwrap()] panics. *)
Definition mmget_panics (m : mpm) (k : mkey) : bool :=
  match m with
  | MUnbound => false
  | MBound s minp maxp =>
      in_box k minp maxp &&
      match add_signed (fst s) (fst k), add_signed (snd s) (snd k) with
      | Some _, Some _ => false
      | _, _ => true
      end
  end.

Definition mmbind (m : mpm) (k : mkey) (v : mval) : option mpm :=
  if mkey_eqb k (0, 0)%Z then
    match m with
    | MBound _ _ _ => None
    | MUnbound => Some (MBound v (0, 0)%Z (0, 0)%Z)
    end
  else
    match m with
    | MUnbound => None
    | MBound s minp maxp =>
        Some (MBound s (Z.min (fst minp) (fst k), Z.min (snd minp) (snd k))
                       (Z.max (fst maxp) (fst k), Z.max (snd maxp) (snd k)))
    end.

Definition m_req (k : mkey) : list mkey := if mkey_eqb k (0, 0)%Z then [] else [(0, 0)%Z].

Fixpoint all_cells_from (rows : mhost) (r : N) : list mval :=
  match rows with
  | [] => []
  | row :: rows' => map (fun c => (r, c)) (nseq (N.of_nat (length row))) ++ all_cells_from rows' (r + 1)
  end.

Definition cell_at (h : mhost) (p : mval) : option N :=
  match nth_error h (N.to_nat (fst p)) with
  | None => None
  | Some row => nth_error row (N.to_nat (snd p))
  end.

Definition m_opts (h : mhost) (k : mkey) (m : mpm) : res (list mval) :=
  if mkey_eqb k (0, 0)%Z then
    match m with
    | MUnbound => Ok (all_cells_from h 0)
    | MBound _ _ _ => Panic SiteMatrixStartAssert
    end
  else
    match m with
    | MUnbound => Ok []
    | MBound s _ _ =>
        match add_signed (fst s) (fst k), add_signed (snd s) (snd k) with
        | Some r, Some c =>
            match cell_at h (r, c) with
            | Some _ => Ok [(r, c)]
            | None => Ok []
            end
        | _, _ => Ok []
        end
    end.

Definition m_check (h : mhost) (p : cpredicate) (vs : list mval) : res bool :=
  match p, vs with
  | CBindingEq, [a; b] =>
      Ok (match cell_at h a, cell_at h b with
          | Some x, Some y => N.eqb x y
          | _, _ => false
          end)
  | CConst c, [a] =>
      Ok (match cell_at h a with Some x => N.eqb x c | None => false end)
  | _, _ => Panic SiteCheckArity
  end.

(** retain_keys calls [get] on every key of the set first; a panicking get
    (negative position) aborts the whole call. *)
Definition m_retain (order : list mkey) (m : mpm) : res mpm :=
  if existsb (mmget_panics m) order then Panic SiteMatrixGetNeg
  else retain_rounds_default MUnbound mmget mmbind order m.

Definition matrix_dom : DomOps mkey mval mpm mhost cpredicate := {|
  keqb := mkey_eqb;
  veqb := mval_eqb;
  peqb := cpredicate_eqb;
  req := m_req;
  mempty := MUnbound;
  mget := mmget;
  mbind := mmbind;
  mretain := m_retain;
  opts := m_opts;
  arity := c_arity;
  check := m_check;
|}.

(** Patterns: matrix/pattern.rs. A pattern is a list of rows of optional cells. *)
Definition mpattern := list (list (option charvar)).
Definition mconstraint := constraint mkey cpredicate.

Fixpoint m_enum_row (row : list (option charvar)) (i j : Z) : list (mkey * charvar) :=
  match row with
  | [] => []
  | None :: row' => m_enum_row row' i (j + 1)%Z
  | Some cv :: row' => ((i, j), cv) :: m_enum_row row' i (j + 1)%Z
  end.

Fixpoint m_enum (p : mpattern) (i : Z) : list (mkey * charvar) :=
  match p with
  | [] => []
  | row :: p' => m_enum_row row i 0%Z ++ m_enum p' (i + 1)%Z
  end.

Fixpoint mvar_lookup (env : list (N * mkey)) (x : N) : option mkey :=
  match env with
  | [] => None
  | (y, p) :: env' => if N.eqb x y then Some p else mvar_lookup env' x
  end.

(** The loop of try_to_constraint_vec; returns the constraints and the final
    var_to_pos map (most recent first). *)
Fixpoint m_cvec_loop (cells : list (mkey * charvar)) (env : list (N * mkey))
  : list mconstraint * list (N * mkey) :=
  match cells with
  | [] => ([], env)
  | (k, Lit c) :: cells' =>
      let '(cs, env') := m_cvec_loop cells' env in
      ({| cpred := CConst c; cargs := [k] |} :: cs, env')
  | (k, Var x) :: cells' =>
      match mvar_lookup env x with
      | Some first =>
          let '(cs, env') := m_cvec_loop cells' env in
          ({| cpred := CBindingEq; cargs := [k; first] |} :: cs, env')
      | None => m_cvec_loop cells' ((x, k) :: env)
      end
  end.

(** The algorithm of the pinned commit (D2): a variable that occurs once yields
    no constraint. *)
Definition m_cvec_pinned (p : mpattern) : list mconstraint :=
  match fst (m_cvec_loop (m_enum p 0%Z) []) with
  | [] => [{| cpred := CBindingEq; cargs := [(0, 0)%Z; (0, 0)%Z] |}]
  | cs => cs
  end.

(** Current algorithm: first positions of variables that no constraint
    references get BindingEq(pos, pos), in increasing position order (which is the
    order of first occurrence, the enumeration being row-major). *)
Definition m_cvec (p : mpattern) : list mconstraint :=
  let '(cs, env) := m_cvec_loop (m_enum p 0%Z) [] in
  let unref := filter (fun pos => negb (existsb (fun c => memb mkey_eqb pos (cargs c)) cs))
                      (map snd (rev env)) in
  match cs ++ map (fun pos => {| cpred := CBindingEq; cargs := [pos; pos] |}) unref with
  | [] => [{| cpred := CBindingEq; cargs := [(0, 0)%Z; (0, 0)%Z] |}]
  | cs' => cs'
  end.
