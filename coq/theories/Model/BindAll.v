(** indexing.rs: IndexedData::bind_all. *)
From PM Require Import Model.Prelude Model.Domain.

Section BindAll.
  Context {K V M H P : Type} (D : DomOps K V M H P).

  (** One key, one candidate map. *)
  Definition bind_key (h : H) (inc : bool) (k : K) (m : M) : res (list M) :=
    match mget D m k with
    | Some _ => Ok [m]
    | None =>
        let* vs := opts D h k m in
        match vs with
        | [] => if inc then Ok [m] else Ok []
        | _ => Ok (flat_map (fun v => match mbind D m k v with
                                      | Some m' => [m']
                                      | None => []
                                      end) vs)
        end
    end.

  (** The outer loop: one key at a time over all current candidates. *)
  Fixpoint bind_all_list (h : H) (inc : bool) (ks : list K) (ms : list M) : res (list M) :=
    match ks with
    | [] => Ok ms
    | k :: ks' => let* ms' := rflatM (bind_key h inc k) ms in bind_all_list h inc ks' ms'
    end.

  Definition bind_all (h : H) (m : M) (ks : list K) (inc : bool) : res (list M) :=
    bind_all_list h inc ks [m].
End BindAll.
