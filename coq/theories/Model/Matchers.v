(** matcher/single_pattern.rs (SinglePatternMatcher::get_all_bindings,
    match_exists) and matcher/many_patterns/naive.rs (NaiveManyMatcher). *)
From PM Require Import Model.Prelude Model.Domain Model.Constraint Model.BindAll Model.Scheme.

Section Matchers.
  Context {K V M H P : Type} (D : DomOps K V M H P).

  Definition amb (fuel : nat) (keys : list K) : res (list K) :=
    all_missing_bindings (keqb D) (req D) fuel keys [].

  (** requested_bindings of try_from_pattern_with_indexing: the keys that the
      pattern additionally requires ([Pattern::required_bindings], [extra]) and the
      keys of the constraints, prerequisites first *)
  Definition requested (fuel : nat) (extra : list K) (cs : list (constraint K P)) : res (list K) :=
    amb fuel (extra ++ flat_map cargs cs).

  Fixpoint filter_satb (h : H) (c : constraint K P) (ms : list M) : res (list M) :=
    match ms with
    | [] => Ok []
    | m :: ms' =>
        let* b := sat_or_false D h c m in
        let* r := filter_satb h c ms' in
        Ok (if b then m :: r else r)
    end.

  (** the FIFO loop of get_all_bindings *)
  Fixpoint single_loop (fuel : nat) (h : H) (reqk : list K)
           (queue : list (list (constraint K P) * M)) (acc : list M) : res (list M) :=
    match fuel with
    | O => OutOfFuel
    | S f =>
        match queue with
        | [] => Ok (rev acc)
        | ([], m) :: q =>
            (* bind the requested keys that no constraint has bound, then retain *)
            let missing := filter (fun k => match mget D m k with None => true | Some _ => false end) reqk in
            let* bs := bind_all D h m missing false in
            let* bs' := rmapM (mretain D reqk) bs in
            let complete := filter (fun m' => forallb (fun k => match mget D m' k with Some _ => true | None => false end) reqk) bs' in
            single_loop f h reqk q (rev complete ++ acc)
        | (c :: rest, m) :: q =>
            let* keys := amb fuel (cargs c) in
            let* cands := bind_all D h m keys false in
            let* ok := filter_satb h c cands in
            single_loop f h reqk (q ++ map (fun b => (rest, b)) ok) acc
        end
    end.

  Definition single_ext (fuel : nat) (extra : list K) (cs : list (constraint K P)) (h : H) : res (list M) :=
    let* reqk := requested fuel extra cs in
    single_loop fuel h reqk [(cs, mempty D)] [].

  (** patterns that request no additional bindings (all shipped pattern types) *)
  Definition single (fuel : nat) (cs : list (constraint K P)) (h : H) : res (list M) :=
    single_ext fuel [] cs h.

  Definition match_exists (fuel : nat) (cs : list (constraint K P)) (h : H) : res bool :=
    let* r := single fuel cs h in Ok (match r with [] => false | _ => true end).

  (** NaiveManyMatcher: pattern i is numbered i *)
  Fixpoint naive_from (fuel : nat) (i : N) (css : list (list (constraint K P))) (h : H)
    : res (list (N * M)) :=
    match css with
    | [] => Ok []
    | cs :: css' =>
        let* r := single fuel cs h in
        let* rs := naive_from fuel (i + 1)%N css' h in
        Ok (map (fun m => (i, m)) r ++ rs)
    end.

  Definition naive (fuel : nat) (css : list (list (constraint K P))) (h : H) : res (list (N * M)) :=
    naive_from fuel 0%N css h.
End Matchers.
