(** matcher/many_patterns/automaton.rs: ManyMatcher::try_from_patterns_with_det_heuristic
    up to the call of the builder, and the pattern table behind get_pattern /
    n_patterns.  [convert] is Pattern::try_to_constraint_vec. *)
From PM Require Import Model.Prelude.

Inductive fallback : Type := FSkip | FFail.

Section ManyGlue.
  Context {PT CS E : Type}.
  Variable convert : PT -> E + CS.

  (** the (id, constraints) pairs handed to AutomatonBuilder::add_pattern, in
      order; or the error of the first pattern that fails, under Fail *)
  Fixpoint compile_from (fb : fallback) (i : N) (pats : list PT) : E + list (N * CS) :=
    match pats with
    | [] => inr []
    | p :: ps =>
        match convert p with
        | inr cs =>
            match compile_from fb (i + 1) ps with
            | inr l => inr ((i, cs) :: l)
            | inl e => inl e
            end
        | inl e =>
            match fb with
            | FSkip => compile_from fb (i + 1) ps
            | FFail => inl e
            end
        end
    end.

  Definition compile (fb : fallback) (pats : list PT) : E + list (N * CS) := compile_from fb 0 pats.

  (** patterns.into_iter().enumerate().filter(|(i, _)| pattern_ids.contains(i)) *)
  Fixpoint table_from (i : N) (pats : list PT) (ids : list N) : list (N * PT) :=
    match pats with
    | [] => []
    | p :: ps => (if memb N.eqb i ids then [(i, p)] else []) ++ table_from (i + 1) ps ids
    end.

  Definition pattern_table (pats : list PT) (ids : list N) : list (N * PT) := table_from 0 pats ids.

  Fixpoint get_pattern (table : list (N * PT)) (id : N) : option PT :=
    match table with
    | [] => None
    | (i, p) :: t => if N.eqb id i then Some p else get_pattern t id
    end.

  Definition n_patterns (table : list (N * PT)) : nat := length table.
End ManyGlue.
