(** The four user traits of the generic engine as one record of operations.
    Rust anchors: indexing.rs (IndexingScheme, IndexedData, BindMap),
    predicate.rs (ArityPredicate, Predicate). *)
From PM Require Import Model.Prelude.

Record DomOps (K V M H P : Type) : Type := {
  keqb : K -> K -> bool;
  veqb : V -> V -> bool;
  peqb : P -> P -> bool;
  (* IndexingScheme::required_bindings *)
  req : K -> list K;
  (* BindMap::default / get / bind / retain_keys; [mretain order m] receives the
     iteration order of the HashSet handed to retain_keys. *)
  mempty : M;
  mget : M -> K -> option V;
  mbind : M -> K -> V -> option M;
  mretain : list K -> M -> res M;
  (* IndexedData::list_bind_options *)
  opts : H -> K -> M -> res (list V);
  (* ArityPredicate::arity, Predicate::check *)
  arity : P -> nat;
  check : H -> P -> list V -> res bool;
}.

Arguments keqb {K V M H P} _.
Arguments veqb {K V M H P} _.
Arguments peqb {K V M H P} _.
Arguments req {K V M H P} _.
Arguments mempty {K V M H P} _.
Arguments mget {K V M H P} _.
Arguments mbind {K V M H P} _.
Arguments mretain {K V M H P} _.
Arguments opts {K V M H P} _.
Arguments arity {K V M H P} _.
Arguments check {K V M H P} _.

(** Decidable equalities are real equalities. *)
Record DomEq {K V M H P} (D : DomOps K V M H P) : Prop := {
  keqb_spec : forall a b, keqb D a b = true <-> a = b;
  veqb_spec : forall a b, veqb D a b = true <-> a = b;
  peqb_spec : forall a b, peqb D a b = true <-> a = b;
}.

(** Constraint = predicate + argument keys (constraint.rs). *)
Record constraint (K P : Type) : Type := { cpred : P; cargs : list K }.
Arguments cpred {K P} _.
Arguments cargs {K P} _.

Definition ceqb {K V M H P} (D : DomOps K V M H P) (a b : constraint K P) : bool :=
  peqb D (cpred a) (cpred b) && list_eqb (keqb D) (cargs a) (cargs b).

Lemma ceqb_spec {K V M H P} (D : DomOps K V M H P) : DomEq D ->
  forall a b, ceqb D a b = true <-> a = b.
Proof.
  intros E [p1 a1] [p2 a2]. unfold ceqb; cbn. rewrite andb_true_iff.
  rewrite (peqb_spec D E), (list_eqb_spec (keqb D) (keqb_spec D E)). split.
  - intros [-> ->]. reflexivity.
  - intros Heq. inversion Heq. auto.
Qed.
