(** Prelude: result monad with named panic sites, list helpers.
    Model of lmondada/portmatching — see /verif/DESIGN.md §4. *)
From Coq Require Export List Arith NArith ZArith Bool Lia.
Export ListNotations.

(** Named panic sites: each stands for one [unwrap]/[expect]/[assert!]/[panic!]
    of the Rust source (file and function at pin time). *)
Inductive site : Type :=
| SiteRetainUnwrap        (* indexing.rs BindMap::retain_keys: new_self.bind(..).unwrap() *)
| SiteMatrixStartAssert   (* matrix.rs list_bind_options: assert!(Unbound) *)
| SiteMatrixGetNeg        (* matrix.rs MatrixPositionMap::get: checked_add_signed(..).unwrap() *)
| SiteCheckArity          (* predicates: collect_tuple/exactly_one unwrap, slice pattern panic! *)
| SiteFailNextState       (* view.rs fail_next_state: assert!(len <= 1) *)
| SiteBadTransition       (* view.rs next_state/constraint: expect("invalid transition") *)
| SiteBadState            (* view.rs node_weight: expect("unknown state") *)
| SiteTreeIndex           (* builder.rs add_constraint_tree: children[ind] out of bounds *)
| SiteTreeNode            (* constraint_tree.rs nodes[node] out of bounds / get_or_add_child panic *)
| SitePGFreePortsRoot     (* root_candidates.rs free_ports: expect(unbound root) *)
| SiteConditionedArgs     (* portgraph/constraint.rs conditioned: required_bindings()[0] *)
| SiteStringTreeArgs      (* string/constraint.rs to_constraints_tree: let &[x] = .. else panic!() *)
| SiteOther (n : nat).

Inductive res (A : Type) : Type :=
| Ok (a : A)
| Panic (s : site)
| OutOfFuel.
Arguments Ok {A} a.
Arguments Panic {A} s.
Arguments OutOfFuel {A}.

Definition rbind {A B} (r : res A) (f : A -> res B) : res B :=
  match r with
  | Ok a => f a
  | Panic s => Panic s
  | OutOfFuel => OutOfFuel
  end.

Notation "'let*' x ':=' r 'in' k" := (rbind r (fun x => k))
  (at level 200, x pattern, r at level 100, k at level 200, right associativity).

Definition rmap {A B} (f : A -> B) (r : res A) : res B :=
  let* a := r in Ok (f a).

Fixpoint rmapM {A B} (f : A -> res B) (l : list A) : res (list B) :=
  match l with
  | [] => Ok []
  | x :: xs => let* y := f x in let* ys := rmapM f xs in Ok (y :: ys)
  end.

Fixpoint rflatM {A B} (f : A -> res (list B)) (l : list A) : res (list B) :=
  match l with
  | [] => Ok []
  | x :: xs => let* y := f x in let* ys := rflatM f xs in Ok (y ++ ys)
  end.

Fixpoint rfoldM {A S} (f : S -> A -> res S) (l : list A) (s : S) : res S :=
  match l with
  | [] => Ok s
  | x :: xs => let* s' := f s x in rfoldM f xs s'
  end.

Definition is_ok {A} (r : res A) : bool :=
  match r with Ok _ => true | _ => false end.

Lemma rbind_ok {A B} (r : res A) (f : A -> res B) b :
  rbind r f = Ok b <-> exists a, r = Ok a /\ f a = Ok b.
Proof.
  destruct r as [a| |]; cbn; split.
  - intros H; exists a; auto.
  - intros [a' [Ha Hf]]; inversion Ha; subst; auto.
  - discriminate.
  - intros [a' [Ha _]]; discriminate.
  - discriminate.
  - intros [a' [Ha _]]; discriminate.
Qed.

Lemma rmapM_ok_total {A B} (f : A -> B) l : rmapM (fun x => Ok (f x)) l = Ok (map f l).
Proof. induction l as [|x xs IH]; cbn; [reflexivity|]. rewrite IH. reflexivity. Qed.

Lemma rflatM_ok_total {A B} (f : A -> list B) l :
  rflatM (fun x => Ok (f x)) l = Ok (flat_map f l).
Proof. induction l as [|x xs IH]; cbn; [reflexivity|]. rewrite IH. reflexivity. Qed.

Lemma rflatM_app {A B} (f : A -> res (list B)) l1 l2 :
  rflatM f (l1 ++ l2) = let* a := rflatM f l1 in let* b := rflatM f l2 in Ok (a ++ b).
Proof.
  induction l1 as [|x xs IH]; cbn.
  - destruct (rflatM f l2); reflexivity.
  - destruct (f x) as [y| |]; cbn; try reflexivity.
    rewrite IH. destruct (rflatM f xs) as [ys| |]; cbn; try reflexivity.
    destruct (rflatM f l2) as [zs| |]; cbn; try reflexivity.
    now rewrite app_assoc.
Qed.

(** Membership with an explicit boolean equality. *)
Section Mem.
  Context {A : Type} (eqb : A -> A -> bool).
  Definition memb (x : A) (l : list A) : bool := existsb (eqb x) l.

  Hypothesis eqb_spec : forall a b, eqb a b = true <-> a = b.

  Lemma memb_in x l : memb x l = true <-> In x l.
  Proof.
    unfold memb. rewrite existsb_exists. split.
    - intros [y [Hin He]]. apply eqb_spec in He. now subst.
    - intros Hin. exists x. split; auto. now apply eqb_spec.
  Qed.

  Lemma memb_not_in x l : memb x l = false <-> ~ In x l.
  Proof.
    rewrite <- memb_in. destruct (memb x l); split; intros; try congruence; tauto.
  Qed.

  Lemma eqb_refl' x : eqb x x = true.
  Proof. now apply eqb_spec. Qed.

  Lemma eqb_neq x y : eqb x y = false <-> x <> y.
  Proof.
    rewrite <- eqb_spec. destruct (eqb x y); split; intros; try congruence; tauto.
  Qed.

  Fixpoint dedup (l : list A) : list A :=
    match l with
    | [] => []
    | x :: xs => if memb x xs then dedup xs else x :: dedup xs
    end.

  (** keep first occurrences (itertools [unique]) *)
  Fixpoint uniq_acc (seen : list A) (l : list A) : list A :=
    match l with
    | [] => []
    | x :: xs => if memb x seen then uniq_acc seen xs else x :: uniq_acc (x :: seen) xs
    end.
  Definition uniq (l : list A) : list A := uniq_acc [] l.

  Definition inclb (l1 l2 : list A) : bool := forallb (fun x => memb x l2) l1.

  Lemma inclb_incl l1 l2 : inclb l1 l2 = true <-> incl l1 l2.
  Proof.
    unfold inclb, incl. rewrite forallb_forall. split; intros H x Hx.
    - apply memb_in. auto.
    - apply memb_in. auto.
  Qed.

  Fixpoint nodupb (l : list A) : bool :=
    match l with
    | [] => true
    | x :: xs => negb (memb x xs) && nodupb xs
    end.

  Lemma nodupb_NoDup l : nodupb l = true <-> NoDup l.
  Proof.
    induction l as [|x xs IH]; cbn.
    - split; auto. constructor.
    - rewrite andb_true_iff, negb_true_iff, memb_not_in, IH. split.
      + intros [H1 H2]. now constructor.
      + intros H. inversion H; auto.
  Qed.
End Mem.

Definition option_eqb {A} (eqb : A -> A -> bool) (a b : option A) : bool :=
  match a, b with
  | Some x, Some y => eqb x y
  | None, None => true
  | _, _ => false
  end.

Fixpoint list_eqb {A} (eqb : A -> A -> bool) (a b : list A) : bool :=
  match a, b with
  | [], [] => true
  | x :: xs, y :: ys => eqb x y && list_eqb eqb xs ys
  | _, _ => false
  end.

Lemma list_eqb_spec {A} (eqb : A -> A -> bool) :
  (forall a b, eqb a b = true <-> a = b) ->
  forall a b, list_eqb eqb a b = true <-> a = b.
Proof.
  intros H a. induction a as [|x xs IH]; intros [|y ys]; cbn; split; intros E;
    try discriminate; try reflexivity.
  - apply andb_true_iff in E as [E1 E2]. apply H in E1. apply IH in E2. now subst.
  - inversion E; subst. apply andb_true_iff. split; [now apply H|now apply IH].
Qed.

Lemma option_eqb_spec {A} (eqb : A -> A -> bool) :
  (forall a b, eqb a b = true <-> a = b) ->
  forall a b, option_eqb eqb a b = true <-> a = b.
Proof.
  intros H [x|] [y|]; cbn; split; intros E; try discriminate; try reflexivity.
  - apply H in E. now subst.
  - inversion E. now apply H.
Qed.
