(** string/constraint.rs: the order on character constraints and
    CharacterPredicate::to_constraints_tree (shared by strings and matrices). *)
From PM Require Import Model.Prelude Model.Domain Model.CTree Model.DomString Model.DomMatrix.

Section CharTree.
  Context {K : Type} (kcmp : K -> K -> comparison).
  Notation C := (constraint K cpredicate).

  Definition keqb_of (a b : K) : bool := match kcmp a b with Eq => true | _ => false end.

  (** sort_by(|a, b| a.cmp(b).reverse()): descending, stable *)
  Fixpoint insert_desc (x : K) (l : list K) : list K :=
    match l with
    | [] => [x]
    | y :: l' => match kcmp x y with
                 | Lt => y :: insert_desc x l'
                 | _ => x :: y :: l'
                 end
    end.
  Definition sort_desc (l : list K) : list K := fold_right insert_desc [] l.

  Fixpoint list_cmp (a b : list K) : comparison :=
    match a, b with
    | [], [] => Eq
    | [], _ => Lt
    | _, [] => Gt
    | x :: a', y :: b' => match kcmp x y with Eq => list_cmp a' b' | c => c end
    end.

  (** Ord for StringConstraint: only the (descending) argument lists are compared *)
  Definition cc_cmp (a b : C) : comparison := list_cmp (sort_desc (cargs a)) (sort_desc (cargs b)).

  Definition cc_eqb (a b : C) : bool :=
    cpredicate_eqb (cpred a) (cpred b) && list_eqb keqb_of (cargs a) (cargs b).

  Definition char_tree (cs : list C) : res (ctree C) :=
    match cs with
    | [] => Ok (set_make_det ctree_new true)
    | _ =>
        let sorted := sort_with_indices cc_cmp cs in
        match sorted with
        | [] => Ok (set_make_det ctree_new true)
        | (first, fi) :: rest =>
            match cpred first with
            | CBindingEq =>
                let* t := with_children cc_eqb [(first, [fi])] in Ok (set_make_det t false)
            | CConst _ =>
                match cargs first with
                | [x] =>
                    let kept := filter (fun ci => match cpred (fst ci), cargs (fst ci) with
                                                  | CConst _, [y] => keqb_of y x
                                                  | _, _ => false
                                                  end) sorted in
                    let* t := with_children cc_eqb (map (fun ci => (fst ci, [snd ci])) kept) in
                    Ok (set_make_det t true)
                | _ => Panic SiteStringTreeArgs
                end
            end
        end
    end.
End CharTree.

Definition mkey_cmp (a b : mkey) : comparison :=
  match Z.compare (fst a) (fst b) with Eq => Z.compare (snd a) (snd b) | c => c end.
