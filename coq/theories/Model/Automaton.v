(** The compiled constraint automaton as the `verif` hook dumps it
    (automaton.rs State/Transition, automaton/verif.rs StateDump): raw data,
    nothing is assumed about it.  Accessors mirror automaton/view.rs. *)
From PM Require Import Model.Prelude Model.Domain.

Section Automaton.
  Context {K P : Type}.

  Record edge : Type := {
    e_id : N;
    e_target : N;
    e_cons : option (constraint K P);
  }.

  Record astate : Type := {
    a_id : N;
    a_det : bool;
    a_matches : list (N * list K);     (* accepted pattern ids with their recorded keys, stored order *)
    a_scope : list K;                  (* required_bindings *)
    a_corder : list N;                 (* constraint_order: edge ids *)
    a_eorder : list N;                 (* epsilon_order: edge ids *)
    a_out : list edge;                 (* outgoing edges according to the graph adjacency *)
  }.

  Record automaton : Type := {
    au_root : N;
    au_states : list astate;
  }.

  Fixpoint find_state (l : list astate) (id : N) : option astate :=
    match l with
    | [] => None
    | s :: l' => if N.eqb (a_id s) id then Some s else find_state l' id
    end.

  (** node_weight(..).expect("unknown state") *)
  Definition get_state (A : automaton) (id : N) : res astate :=
    match find_state (au_states A) id with
    | Some s => Ok s
    | None => Panic SiteBadState
    end.

  Fixpoint find_edge (l : list edge) (id : N) : option edge :=
    match l with
    | [] => None
    | e :: l' => if N.eqb (e_id e) id then Some e else find_edge l' id
    end.

  (** all_constraint_transitions mapped to (next_state, constraint):
      [edge_endpoints(..).expect("invalid transition")] and [constraint(t).unwrap()] *)
  Definition cons_transitions (s : astate) : res (list (constraint K P * N)) :=
    rmapM (fun id =>
             match find_edge (a_out s) id with
             | Some {| e_target := t; e_cons := Some c |} => Ok (c, t)
             | _ => Panic SiteBadTransition
             end) (a_corder s).

  (** fail_next_state: assert!(epsilon transitions <= 1), then the first one *)
  Definition fail_next_state (s : astate) : res (option N) :=
    match a_eorder s with
    | [] => Ok None
    | [id] =>
        match find_edge (a_out s) id with
        | Some e => Ok (Some (e_target e))
        | None => Panic SiteBadTransition
        end
    | _ => Panic SiteFailNextState
    end.
End Automaton.
Arguments edge : clear implicits.
Arguments astate : clear implicits.
Arguments automaton : clear implicits.
