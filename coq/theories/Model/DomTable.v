(** The harness-defined table domain (DESIGN.md §4): keys and values are
    numbers, the prerequisite relation is data, the options offered for a key
    are looked up in a table row selected by the values of its prerequisites.
    The same definitions exist in Rust in /verif/harness/src/table.rs. *)
From PM Require Import Model.Prelude Model.Domain Model.BindMaps.

Definition tkey := N.
Definition tval := N.
Definition tmap := @amap N N.

Record thost : Type := {
  t_req : list (list N);              (* prerequisites of key i *)
  t_rows : list (list (list N));      (* rows of offered values of key i *)
}.

Inductive tpred : Type :=
| TAlways                (* arity 0, true *)
| TEqConst (c : N)       (* arity 1: value = c *)
| TEqKeys                (* arity 2: values equal *)
| TNeKeys                (* arity 2: values differ *)
| TRec (n : nat).        (* arity n: all values equal (the recording predicate) *)

Definition tpred_eqb (a b : tpred) : bool :=
  match a, b with
  | TAlways, TAlways => true
  | TEqConst c, TEqConst d => N.eqb c d
  | TEqKeys, TEqKeys => true
  | TNeKeys, TNeKeys => true
  | TRec n, TRec m => Nat.eqb n m
  | _, _ => false
  end.

Definition t_reqf (sch : list (list N)) (k : N) : list N := nth (N.to_nat k) sch [].

Definition tget (m : tmap) (k : N) : option N := aget N.eqb m k.
Definition tbind (m : tmap) (k v : N) : option tmap := abind N.eqb N.eqb m k v.

Fixpoint sum_vals (m : tmap) (ks : list N) : option N :=
  match ks with
  | [] => Some 0%N
  | k :: ks' =>
      match tget m k, sum_vals m ks' with
      | Some v, Some s => Some (v + s)%N
      | _, _ => None
      end
  end.

Definition t_opts (h : thost) (k : N) (m : tmap) : list N :=
  match sum_vals m (t_reqf (t_req h) k) with
  | None => []
  | Some s =>
      let rows := nth (N.to_nat k) (t_rows h) [] in
      match rows with
      | [] => []
      | _ => nth (N.to_nat (s mod N.of_nat (length rows))) rows []
      end
  end.

Fixpoint all_eq (vs : list N) : bool :=
  match vs with
  | a :: ((b :: _) as tl) => N.eqb a b && all_eq tl
  | _ => true
  end.

Definition t_arity (p : tpred) : nat :=
  match p with
  | TAlways => 0 | TEqConst _ => 1 | TEqKeys => 2 | TNeKeys => 2 | TRec n => n
  end.

Definition t_check (p : tpred) (vs : list N) : res bool :=
  match p, vs with
  | TAlways, [] => Ok true
  | TEqConst c, [v] => Ok (N.eqb v c)
  | TEqKeys, [a; b] => Ok (N.eqb a b)
  | TNeKeys, [a; b] => Ok (negb (N.eqb a b))
  | TRec n, _ => if Nat.eqb (length vs) n then Ok (all_eq vs) else Panic SiteCheckArity
  | _, _ => Panic SiteCheckArity
  end.

Definition table_dom (sch : list (list N)) : DomOps N N tmap thost tpred := {|
  keqb := N.eqb;
  veqb := N.eqb;
  peqb := tpred_eqb;
  req := t_reqf sch;
  mempty := [];
  mget := tget;
  mbind := tbind;
  mretain := fun keys m => Ok (aretain N.eqb keys m);
  opts := fun h k m => Ok (t_opts h k m);
  arity := t_arity;
  check := fun _ p vs => t_check p vs;
|}.
