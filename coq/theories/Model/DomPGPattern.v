(** The port-graph domain, pattern side: utils/portgraph.rs [line_partition] and
    portgraph/constraint.rs [constraint_vec] (PGPattern::try_to_constraint_vec).
    A pattern is a host graph (Model/DomPG.v) with a root node.

    The arguments of a not-equal constraint after the first are listed by the
    implementation in the iteration order of a hash map; the model lists them in
    the order the nodes got their keys, and the correspondence compares them as a
    set (every consumer — [conditioned], [check] — treats them as a set). *)
From PM Require Import Model.Prelude Model.Domain Model.DomString Model.DomPGKeys Model.DomPG.
Local Open Scope N_scope.

Definition pport := (N * pgport)%type.          (* a port: node and offset *)
Definition plink := (pport * pport)%type.

Definition pport_eqb (a b : pport) : bool := N.eqb (fst a) (fst b) && pgport_eqb (snd a) (snd b).
Definition plink_same (a b : plink) : bool :=
  (pport_eqb (fst a) (fst b) && pport_eqb (snd a) (snd b))
  || (pport_eqb (fst a) (snd b) && pport_eqb (snd a) (fst b)).

(** all_links(node): the links of the ports of a node, inputs first; a link whose
    other end is an output port of the same node is skipped, so that a self-loop
    is listed once, from its output port (portgraph's PortGraph::all_links) *)
Definition all_links (g : pghost) (n : N) : list plink :=
  flat_map (fun p => match port_link g n p with
                     | Some q => match snd q with
                                 | POut _ => if N.eqb (fst q) n then [] else [((n, p), q)]
                                 | PIn _ => [((n, p), q)]
                                 end
                     | None => []
                     end) (all_ports g n).

Definition link_visited (l : plink) (vis : list plink) : bool := existsb (plink_same l) vis.

(** one line: follow the opposite port as long as the next link is new *)
Fixpoint extend_line (fuel : nat) (g : pghost) (line : list plink) (last : pport)
         (queue : list plink) (vlinks : list plink) (vnodes : list N)
  : list plink * list plink * list plink * list N :=
  match fuel with
  | O => (line, queue, vlinks, vnodes)
  | S f =>
      let cur := fst last in
      let '(queue, vnodes) :=
        if nmem cur vnodes then (queue, vnodes)
        else (queue ++ filter (fun l => negb (link_visited l vlinks)) (all_links g cur), cur :: vnodes) in
      let opp := flip (snd last) in
      if has_port g cur opp then
        match port_link g cur opp with
        | Some rport =>
            let l := ((cur, opp), rport) in
            if link_visited l vlinks then (line, queue, vlinks, vnodes)
            else extend_line f g (line ++ [l]) rport queue (l :: vlinks) vnodes
        | None => (line, queue, vlinks, vnodes)
        end
      else (line, queue, vlinks, vnodes)
  end.

Fixpoint lines_loop (fuel : nat) (g : pghost) (queue : list plink) (vlinks : list plink) (vnodes : list N)
  : list (list plink) :=
  match fuel with
  | O => []
  | S f =>
      match queue with
      | [] => []
      | start :: q =>
          if link_visited start vlinks then lines_loop f g q vlinks vnodes
          else
            let '(line, q', vl', vn') :=
              extend_line (S (2 * length (pg_links g))) g [start] (snd start) q (start :: vlinks) vnodes in
            line :: lines_loop f g q' vl' vn'
      end
  end.

Definition line_partition (g : pghost) (root : N) : list (list plink) :=
  lines_loop (S (4 * length (pg_links g) * S (length (pg_nodes g)))) g (all_links g root) [] [root].

(** ** constraint_vec *)
Fixpoint nk_get (m : list (N * pgkey)) (n : N) : option pgkey :=
  match m with [] => None | (n', k) :: r => if N.eqb n n' then Some k else nk_get r n end.
Fixpoint ni_get (m : list (N * N)) (n : N) : option N :=
  match m with [] => None | (n', i) :: r => if N.eqb n n' then Some i else ni_get r n end.

Definition mk (p : pgpred) (args : list pgkey) : pgconstraint := {| cpred := p; cargs := args |}.

(** the constraints of one line; [node_to_key] in insertion order (oldest first) *)
Fixpoint line_constraints (line : list plink) (i : N) (root_index : N) (root_offset : pgport)
         (node_to_key : list (N * pgkey)) : res (list pgconstraint * list (N * pgkey)) :=
  match line with
  | [] => Ok ([], node_to_key)
  | (lport, rport) :: rest =>
      match nk_get node_to_key (fst lport) with
      | None => Panic (SiteOther 1)            (* expect("unknown edge LHS") *)
      | Some left_key =>
          let '(right_key, pre, node_to_key') :=
            match nk_get node_to_key (fst rport) with
            | Some k => (k, [], node_to_key)
            | None =>
                let key := AlongPath root_index root_offset (i + 1) in
                (key,
                 [mk (IsNotEqual (N.of_nat (length node_to_key))) (key :: map snd node_to_key)],
                 node_to_key ++ [(fst rport, key)])
            end in
          let* r := line_constraints rest (i + 1) root_index root_offset node_to_key' in
          Ok (pre ++ mk (IsConnected (snd lport) (snd rport)) [left_key; right_key] :: fst r, snd r)
      end
  end.

Fixpoint lines_constraints (lines : list (list plink)) (node_to_key : list (N * pgkey)) (node_to_root : list (N * N))
  : res (list pgconstraint * list (N * pgkey)) :=
  match lines with
  | [] => Ok ([], node_to_key)
  | [] :: rest => lines_constraints rest node_to_key node_to_root      (* lines are never empty *)
  | ((first :: _) as line) :: rest =>
      let root := fst (fst first) in
      let '(root_index, node_to_root') :=
        match ni_get node_to_root root with
        | Some i => (i, node_to_root)
        | None => (N.of_nat (length node_to_root), node_to_root ++ [(root, N.of_nat (length node_to_root))])
        end in
      let* r := line_constraints line 0 root_index (snd (fst first)) node_to_key in
      let* r2 := lines_constraints rest (snd r) node_to_root' in
      Ok (fst r ++ fst r2, snd r2)
  end.

(** the constraint vector together with the key given to each pattern node *)
Definition pg_cvec_full (g : pghost) (root : N) : res (list pgconstraint * list (N * pgkey)) :=
  match pg_links g with
  | [] => Ok ([mk HasNodeWeight [PathRoot 0]], [(root, PathRoot 0)])
  | _ =>
      let* r := lines_constraints (line_partition g root) [(root, PathRoot 0)] [(root, 0)] in
      match fst r with
      | [] => Ok ([mk (IsNotEqual 0) [PathRoot 0]], snd r)
      | _ => Ok r
      end
  end.

Definition pg_constraint_vec (g : pghost) (root : N) : res (list pgconstraint) :=
  let* r := pg_cvec_full g root in Ok (fst r).

(** ** validation of one pattern: every link is on some line (in either
    orientation), every live node got a key *)
Definition link_as_plink (l : N * N * N * N) : plink :=
  let '(a, oa, b, ib) := l in ((a, POut oa), (b, PIn ib)).

Definition lines_cover (g : pghost) (root : N) : bool :=
  let all := concat (line_partition g root) in
  forallb (fun l => existsb (plink_same (link_as_plink l)) all) (pg_links g).

Definition nodes_keyed (g : pghost) (nk : list (N * pgkey)) : bool :=
  forallb (fun n => existsb (fun e => N.eqb (fst e) n) nk) (live_nodes g).

(** ** well-formed hosts (what a PortGraph guarantees): links join existing ports,
    every port carries at most one link *)
Definition pg_host_wfb (h : pghost) : bool :=
  forallb (fun l => let '(a, oa, b, ib) := l in has_port h a (POut oa) && has_port h b (PIn ib)) (pg_links h)
  && nodupb (fun x y => N.eqb (fst x) (fst y) && N.eqb (snd x) (snd y)) (map (fun l => let '(a, oa, _, _) := l in (a, oa)) (pg_links h))
  && nodupb (fun x y => N.eqb (fst x) (fst y) && N.eqb (snd x) (snd y)) (map (fun l => let '(_, _, b, ib) := l in (b, ib)) (pg_links h)).

(** the keys given to the nodes are pairwise different, and so are the nodes *)
Definition keys_distinct (nk : list (N * pgkey)) : bool :=
  nodupb pgkey_eqb (map snd nk) && nodupb N.eqb (map fst nk).

(** every link on a line is a link of the graph (read from either end) *)
Definition is_link (g : pghost) (l : plink) : bool :=
  match snd (fst l), snd (snd l) with
  | POut o, PIn i => existsb (fun x => let '(a, oa, b, ib) := x in N.eqb a (fst (fst l)) && N.eqb oa o && N.eqb b (fst (snd l)) && N.eqb ib i) (pg_links g)
  | PIn i, POut o => existsb (fun x => let '(a, oa, b, ib) := x in N.eqb a (fst (snd l)) && N.eqb oa o && N.eqb b (fst (fst l)) && N.eqb ib i) (pg_links g)
  | _, _ => false
  end.
Definition lines_sound (g : pghost) (root : N) : bool := forallb (is_link g) (concat (line_partition g root)).
