(** The string domain: string.rs, string/predicate.rs, string/pattern.rs.
    Hosts are lists of code points; [String::len()] is the UTF-8 byte length
    while the predicates index characters ([chars().nth]). *)
From PM Require Import Model.Prelude Model.Domain Model.BindMaps.

Definition shost := list N.           (* code points *)

Definition utf8_len (c : N) : N :=
  if (c <? 128)%N then 1 else if (c <? 2048)%N then 2 else if (c <? 65536)%N then 3 else 4.

Definition blen (h : shost) : N := fold_right (fun c acc => (utf8_len c + acc)%N) 0%N h.

(** StringPositionMap *)
Inductive spm : Type :=
| SUnbound
| SBound (start len : N).

Definition spm_eqb (a b : spm) : bool :=
  match a, b with
  | SUnbound, SUnbound => true
  | SBound s l, SBound s' l' => N.eqb s s' && N.eqb l l'
  | _, _ => false
  end.

Definition sget (m : spm) (k : N) : option N :=
  match m with
  | SUnbound => None
  | SBound s l => if (k <? l)%N then Some (s + k)%N else None
  end.

Definition sbind (m : spm) (k v : N) : option spm :=
  if (k =? 0)%N then
    match m with
    | SBound _ _ => None                     (* VariableExists *)
    | SUnbound => Some (SBound v 1)
    end
  else
    match m with
    | SUnbound => None                       (* InvalidKey *)
    | SBound s l => Some (SBound s (N.max l (k + 1)))
    end.

Definition s_req (k : N) : list N := if (k =? 0)%N then [] else [0%N].

Definition nseq (n : N) : list N := map N.of_nat (seq 0 (N.to_nat n)).

Definition s_opts (h : shost) (k : N) (m : spm) : list N :=
  if (k =? 0)%N then nseq (blen h)
  else
    match m with
    | SUnbound => []
    | SBound s _ => if (s + k <? blen h)%N then [(s + k)%N] else []
    end.

(** CharacterPredicate *)
Inductive cpredicate : Type :=
| CBindingEq
| CConst (c : N).

Definition cpredicate_eqb (a b : cpredicate) : bool :=
  match a, b with
  | CBindingEq, CBindingEq => true
  | CConst c, CConst d => N.eqb c d
  | _, _ => false
  end.

Definition c_arity (p : cpredicate) : nat :=
  match p with CBindingEq => 2 | CConst _ => 1 end.

Definition char_at (h : shost) (pos : N) : option N := nth_error h (N.to_nat pos).

Definition s_check (h : shost) (p : cpredicate) (vs : list N) : res bool :=
  match p, vs with
  | CBindingEq, [a; b] =>
      Ok (match char_at h a, char_at h b with
          | Some x, Some y => N.eqb x y
          | _, _ => false
          end)
  | CConst c, [a] =>
      Ok (match char_at h a with Some x => N.eqb x c | None => false end)
  | _, _ => Panic SiteCheckArity
  end.

Definition string_dom : DomOps N N spm shost cpredicate := {|
  keqb := N.eqb;
  veqb := N.eqb;
  peqb := cpredicate_eqb;
  req := s_req;
  mempty := SUnbound;
  mget := sget;
  mbind := sbind;
  mretain := retain_rounds_default SUnbound sget sbind;
  opts := fun h k m => Ok (s_opts h k m);
  arity := c_arity;
  check := s_check;
|}.

(** Patterns: string/pattern.rs *)
Inductive charvar : Type :=
| Lit (c : N)
| Var (x : N).

Definition spattern := list charvar.

Definition sconstraint := constraint N cpredicate.

Fixpoint var_lookup (env : list (N * N)) (x : N) : option N :=
  match env with
  | [] => None
  | (y, p) :: env' => if N.eqb x y then Some p else var_lookup env' x
  end.

(** The loop of try_to_constraint_vec: [env] is var_to_pos. *)
Fixpoint s_cvec_loop (p : spattern) (i : N) (env : list (N * N)) : list sconstraint :=
  match p with
  | [] => []
  | Lit c :: p' => {| cpred := CConst c; cargs := [i] |} :: s_cvec_loop p' (i + 1) env
  | Var x :: p' =>
      match var_lookup env x with
      | Some first => {| cpred := CBindingEq; cargs := [i; first] |} :: s_cvec_loop p' (i + 1) env
      | None => s_cvec_loop p' (i + 1) ((x, i) :: env)
      end
  end.

Definition s_cvec (p : spattern) : list sconstraint :=
  let cs := s_cvec_loop p 0 [] in
  match p with
  | [] => cs
  | _ =>
      let maxk := (N.of_nat (length p) - 1)%N in
      if existsb (fun c => memb N.eqb maxk (cargs c)) cs then cs
      else cs ++ [{| cpred := CBindingEq; cargs := [maxk; maxk] |}]
  end.
