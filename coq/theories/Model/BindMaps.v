(** The generic BindMap implementations (indexing.rs: impl BindMap for HashMap
    and BTreeMap) as one association-list model: only get/bind/retain_keys are
    observable through the trait, and those do not depend on the container's
    internal order. Also the default [retain_keys] of the trait. *)
From PM Require Import Model.Prelude.

Section AMap.
  Context {K V : Type} (keqb : K -> K -> bool) (veqb : V -> V -> bool).

  Definition amap := list (K * V).

  Fixpoint aget (m : amap) (k : K) : option V :=
    match m with
    | [] => None
    | (k', v) :: m' => if keqb k k' then Some v else aget m' k
    end.

  (** insert, replacing an existing entry in place *)
  Fixpoint ainsert (m : amap) (k : K) (v : V) : amap :=
    match m with
    | [] => [(k, v)]
    | (k', v') :: m' => if keqb k k' then (k', v) :: m' else (k', v') :: ainsert m' k v
    end.

  (** bind: reject a second, different value; same value is accepted. *)
  Definition abind (m : amap) (k : K) (v : V) : option amap :=
    match aget m k with
    | Some v' => if veqb v' v then Some (ainsert m k v) else None
    | None => Some (ainsert m k v)
    end.

  (** retain_keys override: [self.retain(|key,_| keys.contains(key))] *)
  Definition aretain (keys : list K) (m : amap) : amap :=
    filter (fun kv => memb keqb (fst kv) keys) m.
End AMap.

(** Default BindMap::retain_keys: rebuild by re-binding, in the iteration order
    of the key set, unwrapping each bind. *)
Section DefaultRetain.
  Context {K V M : Type}.
  Variable mempty : M.
  Variable mget : M -> K -> option V.
  Variable mbind : M -> K -> V -> option M.

  Fixpoint retain_default_loop (order : list K) (old new : M) : res M :=
    match order with
    | [] => Ok new
    | k :: ks =>
        match mget old k with
        | None => retain_default_loop ks old new
        | Some v =>
            match mbind new k v with
            | Some new' => retain_default_loop ks old new'
            | None => Panic SiteRetainUnwrap
            end
        end
    end.

  Definition retain_default (order : list K) (m : M) : res M :=
    retain_default_loop order m mempty.

  (** The repaired default (fix for D3): bind in rounds; a key whose bind is
      rejected (its prerequisites are not bound yet) is retried after the others;
      panic only when a whole round makes no progress. *)
  Fixpoint retain_pass (pending : list (K * V)) (new : M) : list (K * V) * M :=
    match pending with
    | [] => ([], new)
    | (k, v) :: ps =>
        match mbind new k v with
        | Some new' => retain_pass ps new'
        | None => let '(rest, n') := retain_pass ps new in ((k, v) :: rest, n')
        end
    end.

  Fixpoint retain_rounds (fuel : nat) (pending : list (K * V)) (new : M) : res M :=
    match pending with
    | [] => Ok new
    | _ =>
        match fuel with
        | O => OutOfFuel
        | S f =>
            let '(rest, new') := retain_pass pending new in
            if Nat.eqb (length rest) (length pending) then Panic SiteRetainUnwrap
            else retain_rounds f rest new'
        end
    end.

  Definition retain_pending (order : list K) (m : M) : list (K * V) :=
    flat_map (fun k => match mget m k with Some v => [(k, v)] | None => [] end) order.

  Definition retain_rounds_default (order : list K) (m : M) : res M :=
    retain_rounds (S (length order)) (retain_pending order m) mempty.
End DefaultRetain.

(** Operation histories on a bind map (C14). *)
Section MapOps.
  Context {K V M : Type}.
  Variable mget : M -> K -> option V.
  Variable mbind : M -> K -> V -> option M.
  Variable mretain : list K -> M -> res M.

  Inductive mop : Type :=
  | OBind (k : K) (v : V)
  | OGet (k : K)
  | ORetain (order : list K).   (* the key set, in its iteration order *)

  Inductive mout : Type :=
  | RBind (ok : bool)
  | RGet (v : option V)
  | RRetain (ok : bool).        (* false = the call panicked; the map is left as it was *)

  Definition mstep (m : M) (op : mop) : M * mout :=
    match op with
    | OBind k v =>
        match mbind m k v with
        | Some m' => (m', RBind true)
        | None => (m, RBind false)
        end
    | OGet k => (m, RGet (mget m k))
    | ORetain order =>
        match mretain order m with
        | Ok m' => (m', RRetain true)
        | _ => (m, RRetain false)
        end
    end.

  Fixpoint mrun (m : M) (ops : list mop) : list (M * mout) :=
    match ops with
    | [] => []
    | op :: ops' => let '(m', o) := mstep m op in (m', o) :: mrun m' ops'
    end.

  Definition mfinal (m : M) (ops : list mop) : M :=
    fold_left (fun m op => fst (mstep m op)) ops m.
End MapOps.
Arguments OBind {K V} k v.
Arguments OGet {K V} k.
Arguments ORetain {K V} order.
Arguments RBind {V} ok.
Arguments RGet {V} v.
Arguments RRetain {V} ok.
