(** The generic BindMap implementations (indexing.rs: impl BindMap for HashMap
    and BTreeMap) as one association-list model: only get/bind/retain_keys are
    observable through the trait, and those do not depend on the container's
    internal order. Also the default [retain_keys] of the trait. *)
From PM Require Import Model.Prelude.

Section AMap.
  Context {K V : Type} (keqb : K -> K -> bool) (veqb : V -> V -> bool).

  Definition amap := list (K * V).

  Fixpoint aget (m : amap) (k : K) : option V :=
    match m with
    | [] => None
    | (k', v) :: m' => if keqb k k' then Some v else aget m' k
    end.

  (** insert, replacing an existing entry in place *)
  Fixpoint ainsert (m : amap) (k : K) (v : V) : amap :=
    match m with
    | [] => [(k, v)]
    | (k', v') :: m' => if keqb k k' then (k', v) :: m' else (k', v') :: ainsert m' k v
    end.

  (** bind: reject a second, different value; same value is accepted. *)
  Definition abind (m : amap) (k : K) (v : V) : option amap :=
    match aget m k with
    | Some v' => if veqb v' v then Some (ainsert m k v) else None
    | None => Some (ainsert m k v)
    end.

  (** retain_keys override: [self.retain(|key,_| keys.contains(key))] *)
  Definition aretain (keys : list K) (m : amap) : amap :=
    filter (fun kv => memb keqb (fst kv) keys) m.
End AMap.

(** Default BindMap::retain_keys: rebuild by re-binding, in the iteration order
    of the key set, unwrapping each bind. *)
Section DefaultRetain.
  Context {K V M : Type}.
  Variable mempty : M.
  Variable mget : M -> K -> option V.
  Variable mbind : M -> K -> V -> option M.

  Fixpoint retain_default_loop (order : list K) (old new : M) : res M :=
    match order with
    | [] => Ok new
    | k :: ks =>
        match mget old k with
        | None => retain_default_loop ks old new
        | Some v =>
            match mbind new k v with
            | Some new' => retain_default_loop ks old new'
            | None => Panic SiteRetainUnwrap
            end
        end
    end.

  Definition retain_default (order : list K) (m : M) : res M :=
    retain_default_loop order m mempty.
End DefaultRetain.
