(** string/pattern.rs StringPattern::parse_str and matrix/pattern.rs
    MatrixPattern::parse_str / parse_row, over Unicode code points ([N]).

    - a '$' takes the next character as a variable name; a '$' at the very end is
      [char_iter.next().unwrap()] on [None]: a panic;
    - matrices: [str::lines] (split at '\n'; a final empty piece is not a line; the
      '\r' of a "\r\n" ending is white space and removed by the filter below), then
      per row all [char::is_whitespace] characters are dropped, '-' is a hole. *)
From PM Require Import Model.Prelude Model.DomString Model.DomMatrix.
Local Open Scope N_scope.

Definition c_dollar : N := 36.
Definition c_dash : N := 45.
Definition c_nl : N := 10.

Fixpoint s_parse (l : list N) : res spattern :=
  match l with
  | [] => Ok []
  | c :: l' =>
      if N.eqb c c_dollar then
        match l' with
        | [] => Panic (SiteOther 50)
        | v :: l'' => let* r := s_parse l'' in Ok (Var v :: r)
        end
      else let* r := s_parse l' in Ok (Lit c :: r)
  end.

Definition s_print_cv (cv : charvar) : list N :=
  match cv with Var v => [c_dollar; v] | Lit c => [c] end.
Definition s_print (p : spattern) : list N := flat_map s_print_cv p.

(** char::is_whitespace: the Unicode White_Space property *)
Definition is_whitespace (c : N) : bool :=
  ((9 <=? c) && (c <=? 13)) || N.eqb c 32 || N.eqb c 133 || N.eqb c 160 || N.eqb c 5760
  || ((8192 <=? c) && (c <=? 8202)) || N.eqb c 8232 || N.eqb c 8233 || N.eqb c 8239
  || N.eqb c 8287 || N.eqb c 12288.

(** str::lines; [cur] is the current line, reversed *)
Fixpoint lines_from (l : list N) (cur : list N) : list (list N) :=
  match l with
  | [] => match cur with [] => [] | _ => [rev cur] end
  | c :: l' => if N.eqb c c_nl then rev cur :: lines_from l' [] else lines_from l' (c :: cur)
  end.
Definition lines (l : list N) : list (list N) := lines_from l [].

Fixpoint m_parse_cells (l : list N) : res (list (option charvar)) :=
  match l with
  | [] => Ok []
  | c :: l' =>
      if N.eqb c c_dollar then
        match l' with
        | [] => Panic (SiteOther 51)
        | v :: l'' => let* r := m_parse_cells l'' in Ok (Some (Var v) :: r)
        end
      else if N.eqb c c_dash then let* r := m_parse_cells l' in Ok (None :: r)
      else let* r := m_parse_cells l' in Ok (Some (Lit c) :: r)
  end.

Definition m_parse_row (row : list N) : res (list (option charvar)) :=
  m_parse_cells (filter (fun c => negb (is_whitespace c)) row).

Definition m_parse (l : list N) : res mpattern := rmapM m_parse_row (lines l).

(** printing a matrix pattern: one line per row, closed by '\n' *)
Definition m_print_cell (c : option charvar) : list N :=
  match c with None => [c_dash] | Some cv => s_print_cv cv end.
Definition m_print_row (row : list (option charvar)) : list N := flat_map m_print_cell row ++ [c_nl].
Definition m_print (p : mpattern) : list N := flat_map m_print_row p.
