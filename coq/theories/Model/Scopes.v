(** automaton/builder.rs: the last stage of AutomatonBuilder::finish —
    [populate_scopes] with its helper [compute_scopes] — as a function of the
    finished transition graph.  It fills [State::required_bindings] (here
    [a_scope]), the keys the traversal keeps at a state.

      forward  n = intersection over the incoming edges (p -c-> n) of
                   forward p ++ all_missing_bindings (args c) (forward p)      (a Vec)
      backward n = union over the outgoing edges (n -> c) of
                   backward c ∪ keys recorded for the patterns accepted at c   (a HashSet)
      scope    n = let s = retain (∈ backward n) (forward n)
                   in s ++ all_missing_bindings (args of the constraints at n) s

    The states are processed in an order handed in by the caller ([order];
    petgraph::algo::toposort in the code): a state whose parent (child, for the
    backward pass) has not been processed is the index panic of [ret[&e.source()]].
    As sets the three maps do not depend on the order among the topological ones
    nor on the order of the incoming edges; the position of a key inside a scope
    does, so scopes are compared with the implementation as sets. *)
From PM Require Import Model.Prelude Model.Domain Model.Scheme Model.Automaton Cert.WfCheck.

Section Scopes.
  Context {K V M H P : Type} (D : DomOps K V M H P).
  Notation C := (constraint K P).

  Definition amb_known (fuel : nat) (keys known : list K) : res (list K) :=
    all_missing_bindings (keqb D) (req D) fuel keys known.

  Fixpoint lookup_scope (m : list (N * list K)) (id : N) : res (list K) :=
    match m with
    | [] => Panic (SiteOther 40)
    | (i, l) :: m' => if N.eqb i id then Ok l else lookup_scope m' id
    end.

  (** intersect_vec: a.retain(|x| b.contains(x)) *)
  Definition intersect_vec (a b : list K) : list K := filter (fun x => memb (keqb D) x b) a.

  (** Iterator::reduce(..).unwrap_or_default() *)
  Definition reduce_scopes (l : list (list K)) : list K :=
    match l with
    | [] => []
    | a :: l' => fold_left intersect_vec l' a
    end.

  Definition edge_args (e : edge K P) : list K :=
    match e_cons e with Some c => cargs c | None => [] end.

  Definition incoming (A : automaton K P) (id : N) : list (N * edge K P) :=
    filter (fun se => N.eqb (e_target (snd se)) id) (all_edges A).

  (** the forward pass *)
  Fixpoint forward_scopes (fuel : nat) (A : automaton K P) (order : list N) (acc : list (N * list K))
    : res (list (N * list K)) :=
    match order with
    | [] => Ok acc
    | id :: rest =>
        let* ps := rmapM (fun se : N * edge K P =>
                            let* parent := lookup_scope acc (fst se) in
                            let* ext := amb_known fuel (edge_args (snd se)) parent in
                            Ok (parent ++ ext)) (incoming A id) in
        forward_scopes fuel A rest ((id, reduce_scopes ps) :: acc)
    end.

  Definition match_keys (s : astate K P) : list K := flat_map snd (a_matches s).

  (** the backward pass (over the reversed graph; a hash set, here a list without repetition) *)
  Fixpoint backward_scopes (A : automaton K P) (order : list N) (acc : list (N * list K))
    : res (list (N * list K)) :=
    match order with
    | [] => Ok acc
    | id :: rest =>
        let* s := get_state A id in
        let* cs := rmapM (fun e : edge K P =>
                            let* child := lookup_scope acc (e_target e) in
                            let* cst := get_state A (e_target e) in
                            Ok (child ++ match_keys cst)) (a_out s) in
        backward_scopes A rest ((id, uniq (keqb D) (concat cs)) :: acc)
    end.

  (** constraints(state): the constraints of the transitions listed in constraint_order *)
  Definition state_constraint_args (s : astate K P) : res (list K) :=
    let* cts := cons_transitions s in Ok (flat_map (fun ct : C * N => cargs (fst ct)) cts).

  (** populate_scopes; [order] lists the states parents first *)
  Definition populate_scopes (fuel : nat) (A : automaton K P) (order : list N) : res (list (N * list K)) :=
    let* fw := forward_scopes fuel A order [] in
    let* bw := backward_scopes A (rev order) [] in
    rmapM (fun s : astate K P =>
             let* f := lookup_scope fw (a_id s) in
             let* b := lookup_scope bw (a_id s) in
             let scope := intersect_vec f b in
             let* args := state_constraint_args s in
             let* ext := amb_known fuel args scope in
             Ok (a_id s, scope ++ ext)) (au_states A).

  (** comparison with a dump: the ids of the states whose recorded scope is not, as a
      set, the computed one *)
  Definition same_keys (a b : list K) : bool := inclb (keqb D) a b && inclb (keqb D) b a.

  Definition scope_mismatches (A : automaton K P) (sc : list (N * list K)) : list N :=
    flat_map (fun s : astate K P =>
                match lookup_scope sc (a_id s) with
                | Ok l => if same_keys l (a_scope s) then [] else [a_id s]
                | _ => [a_id s]
                end) (au_states A).
  (** ** the keys recorded with an accepted pattern (automaton/builder/modify.rs add_pattern):
      all_missing_bindings of the pattern's own required bindings, then, constraint by
      constraint, the missing bindings of its arguments.  add_match never overwrites and the
      later stages copy the list, so every accepting state of the finished automaton carries
      this list for the pattern — compared with the dump as a set (missing_bindings may list
      the prerequisites of a key in any prerequisite-first order; that the recorded list is
      prerequisite-first is checked on the dump by wf_check). *)
  Fixpoint pattern_keys_loop (fuel : nat) (cs : list C) (rb : list K) : res (list K) :=
    match cs with
    | [] => Ok rb
    | c :: cs' => let* ext := amb_known fuel (cargs c) rb in pattern_keys_loop fuel cs' (rb ++ ext)
    end.

  Definition pattern_keys (fuel : nat) (extra : list K) (cs : list C) : res (list K) :=
    let* rb0 := amb_known fuel extra [] in pattern_keys_loop fuel cs rb0.

  (** [pats]: per input position, the pattern's own required bindings and its constraints,
      [None] for a pattern that was not compiled *)
  Definition match_key_mismatches (fuel : nat) (A : automaton K P) (pats : list (option (list K * list C)))
    : list (N * N) :=
    flat_map (fun s : astate K P =>
      flat_map (fun pk : N * list K =>
        match nth_error pats (N.to_nat (fst pk)) with
        | Some (Some (extra, cs)) =>
            match pattern_keys fuel extra cs with
            | Ok l => if same_keys l (snd pk) then [] else [(a_id s, fst pk)]
            | _ => [(a_id s, fst pk)]
            end
        | _ => [(a_id s, fst pk)]
        end) (a_matches s)) (au_states A).
End Scopes.
