(** Extraction of the executable model to OCaml.  ExtrOcamlBasic only; no
    Extract Constant; N, Z, positive and nat stay the extracted datatypes. *)
From Coq Require Import Extraction ExtrOcamlBasic.
From PM Require Import Model.Prelude Model.Domain Model.Constraint Model.BindAll Model.Scheme
  Model.BindMaps Model.DomTable Model.DomString Model.DomMatrix Model.Toposort Model.Automaton Model.Traversal Model.Matchers
  Cert.LabCheck Cert.WfCheck Cert.WinCheck Cert.CharCert Cert.PGCert Cert.UnambCheck Spec.Occ
  Model.CTree Model.DomPGKeys Model.DomPG Model.DomPGPattern Model.CTreeChar Proofs.PGLawful Proofs.PGSingleGood Proofs.PGAgree Proofs.TableLawful Cert.SchemeCheck Cert.TopoCheck Model.ManyGlue Model.Scopes Model.Parse.

Extraction Language OCaml.
Set Extraction KeepSingleton.

Extraction "model.ml"
  (* prelude *) rbind
  (* C12 *) valid_answerb missing_bindings all_missing_bindings missing_bindings_pinned all_missing_bindings_pinned
  (* C13 *) bind_all
  (* C16 *) try_new is_satisfied_calls
  (* maps *) aget abind aretain retain_default
  (* maps *) mrun retain_rounds_default mmget_panics
  (* C15 *) hist_okb ts_init ts_next ts_run
  (* parse *) s_parse m_parse
  (* scopes *) populate_scopes scope_mismatches pattern_keys match_key_mismatches
  (* engine *) compile pattern_table get_pattern n_patterns run single match_exists naive
  (* certificates *) wf_check arity_ok compute_rank lab_ok compute_lab cert_complete char_entails char_refutes
     atoms_self s_goodb m_goodb s_keys_tight m_keys_tight m_keys_nn slab_ok cert_unamb compute_slab compute_slab_cap accept_vdet empty_keys_at_root empty_scope_closed empty_pattern_keys char_ceqb
  (* trees *) with_children with_pairwise_mutex with_transitive_mutex with_powerset char_tree pg_tree
     pg_conditioned_res pgc_eqb mkey_cmp
  (* specification *) occ_stringb occ_matrixb all_cells_from
  (* port graphs *) pg_dom pg_opts walk_nodes pgkey_cmp pg_atoms pg_entails pg_refutes pg_constraint_vec pg_cvec_full pg_good_pattern aut_keys_in aut_single_root match_keys_in lines_cover nodes_keyed lines_sound keys_distinct pg_host_wfb root_linked
  (* domains *) table_dom t_atoms t_reqf string_dom matrix_dom s_cvec m_cvec.
