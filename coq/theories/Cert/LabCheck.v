(** Soundness certificate for a compiled automaton: a labelling of the states
    by facts (constraints) that hold of every binding arriving there, checked
    for inductiveness edge by edge; accepting states must carry the facts of the
    patterns they accept.  The labelling itself may come from anywhere
    ([compute_lab] below is not verified); only [lab_ok] is trusted, and it is
    proved sound in Proofs/RunSound.v.  See DESIGN.md §4.7 (cert_sound). *)
From PM Require Import Model.Prelude Model.Domain Model.Constraint Model.Automaton.

Section LabCheck.
  Context {K V M H P : Type} (D : DomOps K V M H P).
  (** which key lists may be handed to retain_keys (per domain) *)
  Variable goodb : list K -> bool.
  (** a constraint split into the atomic facts it is equivalent to *)
  Variable atoms : constraint K P -> list (constraint K P).

  Notation C := (constraint K P).
  Definition cmem (c : C) (l : list C) : bool := memb (ceqb D) c l.
  Definition kincl (a b : list K) : bool := inclb (keqb D) a b.

  Definition labelling := list (N * list C).

  Fixpoint lab_get (L : labelling) (id : N) : list C :=
    match L with
    | [] => []
    | (i, fs) :: L' => if N.eqb i id then fs else lab_get L' id
    end.

  (** facts that survive a step out of state [s]: known before or just checked,
      and all their keys stay in scope *)
  Definition edge_ok (L : labelling) (s : astate K P) (newf : list C) (t : N) : bool :=
    forallb (fun f => (cmem f (lab_get L (a_id s)) || cmem f newf) && kincl (cargs f) (a_scope s))
            (lab_get L t).

  Definition eps_targets (s : astate K P) : option (list N) :=
    let r := map (fun id => match find_edge (a_out s) id with
                            | Some e => Some (e_target e) | None => None end) (a_eorder s) in
    if forallb (fun o => match o with Some _ => true | None => false end) r
    then Some (flat_map (fun o => match o with Some t => [t] | None => [] end) r)
    else None.

  Definition accept_ok (L : labelling) (cs : list (list C)) (s : astate K P) (pk : N * list K) : bool :=
    goodb (snd pk) &&
    match nth_error cs (N.to_nat (fst pk)) with
    | None => false
    | Some cp =>
        forallb (fun c => kincl (cargs c) (snd pk)
                          && forallb (fun a => cmem a (lab_get L (a_id s))) (atoms c)) cp
    end.

  Definition state_ok (L : labelling) (cs : list (list C)) (s : astate K P) : bool :=
    goodb (a_scope s) &&
    match cons_transitions s, eps_targets s with
    | Ok cts, Some ets =>
        forallb (fun ct => edge_ok L s (atoms (fst ct)) (snd ct)) cts
        && forallb (fun t => edge_ok L s [] t) ets
        && forallb (accept_ok L cs s) (a_matches s)
    | _, _ => false
    end.

  Definition lab_ok (A : automaton K P) (L : labelling) (cs : list (list C)) : bool :=
    match lab_get L (au_root A) with [] => true | _ => false end
    && forallb (state_ok L cs) (au_states A).

  (** ** an (unverified) way to compute a labelling: forward data flow,
      intersection over incoming edges, iterated [rounds] times *)
  Definition inter (a b : list C) : list C := filter (fun f => cmem f b) a.

  (* None = no information yet (top) *)
  Definition olab := list (N * option (list C)).
  Fixpoint olab_get (L : olab) (id : N) : option (list C) :=
    match L with
    | [] => None
    | (i, fs) :: L' => if N.eqb i id then fs else olab_get L' id
    end.

  Definition out_facts (L : olab) (s : astate K P) (newf : list C) : option (list C) :=
    match olab_get L (a_id s) with
    | None => None
    | Some fs => Some (filter (fun f => kincl (cargs f) (a_scope s)) (dedup (ceqb D) (fs ++ newf)))
    end.

  Definition meet (a : option (list C)) (b : option (list C)) : option (list C) :=
    match a, b with
    | None, x => x
    | x, None => x
    | Some x, Some y => Some (inter x y)
    end.

  (* all (target, facts) contributions of one state *)
  Definition contributions (L : olab) (s : astate K P) : list (N * option (list C)) :=
    match cons_transitions s with
    | Ok cts => map (fun ct => (snd ct, out_facts L s (atoms (fst ct)))) cts
    | _ => []
    end
    ++ match eps_targets s with
       | Some ets => map (fun t => (t, out_facts L s [])) ets
       | None => []
       end.

  Definition lab_round (A : automaton K P) (L : olab) : olab :=
    let contribs := flat_map (contributions L) (au_states A) in
    map (fun s =>
           let id := a_id s in
           if N.eqb id (au_root A) then (id, Some [])
           else (id, fold_left (fun acc c => if N.eqb (fst c) id then meet acc (snd c) else acc)
                               contribs None))
        (au_states A).

  Fixpoint lab_iter (n : nat) (A : automaton K P) (L : olab) : olab :=
    match n with O => L | S n' => lab_iter n' A (lab_round A L) end.

  Definition compute_lab (A : automaton K P) : labelling :=
    let L := lab_iter (S (length (au_states A))) A
                      (map (fun s => (a_id s, if N.eqb (a_id s) (au_root A) then Some [] else None))
                           (au_states A)) in
    map (fun e => (fst e, match snd e with Some fs => fs | None => [] end)) L.
End LabCheck.
