(** A verified validator for one history of the online topological traversal
    (C15): the property constrains what is emitted, not which of several ready
    nodes is emitted first, so an implementation may legitimately emit in another
    order than the model.  [hist_okb calls outs []] decides the three clauses of the
    property on the history itself (graph snapshot per call, what each call
    returned); soundness: Proofs/TopoCheckSound.v.  The exhaustion clause is
    demanded unconditionally, so the validator is only applied to admissible
    histories (acyclic, the root the only source, no edge added into an emitted
    node from an unemitted one). *)
From PM Require Import Model.Prelude Model.Toposort.

Fixpoint hist_okb (calls : list ts_call) (outs : list (option N)) (emitted : list N) : bool :=
  match calls, outs with
  | [], [] => true
  | (g, _) :: cs, Some n :: os =>
      memb N.eqb n (t_nodes g) && negb (memb N.eqb n emitted)
      && forallb (fun p => memb N.eqb p emitted) (t_preds g n)
      && hist_okb cs os (n :: emitted)
  | (g, _) :: cs, None :: os =>
      forallb (fun n => memb N.eqb n emitted) (t_nodes g) && hist_okb cs os emitted
  | _, _ => false
  end.
