(** Known finding D10 (pg_foreign_bindings_change_root_candidates), pinned on the
    model: two automata compiled by the implementation from the same two
    patterns — one under DetHeuristic::Default, one under DetHeuristic::Never —
    both pass every certificate (well-formed, sound labelling, complete), yet
    on one host the modelled traversal (which agrees with the implementation on
    both, sub-check pgm) reports pattern 1 under Never and nothing under
    Default.  The definitions below are the hook dumps, converted by
    tools/sexp2coq.py from the case
    (pgcase c04 (((((3 1) (1 2)) ((1 1 0 0) (0 0 0 1))) 1) ((((1 2) (2 2) (1 2)) ((1 1 0 0) (1 0 2 0))) 0))
                (((1 1) (2 2) (1 2) (1 2)) ((1 0 0 0) (1 1 2 0) (0 0 3 0) (2 1 1 0) (3 1 1 1))) default). *)
From PM Require Import Model.Prelude Model.Domain Model.Automaton Model.DomPGKeys Model.DomPG.
Local Open Scope N_scope.

Definition d10_default : automaton pgkey pgpred :=
  {| au_root := 0;
   au_states := [
     {| a_id := 0; a_det := true; a_matches := []; a_scope := [PathRoot 0; AlongPath 0 (PIn 0) 1];
       a_corder := [3]; a_eorder := [0];
       a_out := [{| e_id := 0; e_target := 8; e_cons := None |}; {| e_id := 3; e_target := 4; e_cons := Some {| cpred := IsNotEqual 1; cargs := [AlongPath 0 (PIn 0) 1; PathRoot 0] |} |}] |};
     {| a_id := 1; a_det := true; a_matches := []; a_scope := [PathRoot 0; AlongPath 0 (POut 1) 1];
       a_corder := [1]; a_eorder := [];
       a_out := [{| e_id := 1; e_target := 2; e_cons := Some {| cpred := IsConnected (POut 1) (PIn 0); cargs := [PathRoot 0; AlongPath 0 (POut 1) 1] |} |}] |};
     {| a_id := 2; a_det := true; a_matches := []; a_scope := [PathRoot 0; AlongPath 0 (POut 1) 1];
       a_corder := [2]; a_eorder := [];
       a_out := [{| e_id := 2; e_target := 3; e_cons := Some {| cpred := IsConnected (POut 0) (PIn 1); cargs := [AlongPath 0 (POut 1) 1; AlongPath 0 (POut 1) 1] |} |}] |};
     {| a_id := 3; a_det := false; a_matches := [(0, [PathRoot 0; AlongPath 0 (POut 1) 1])]; a_scope := [];
       a_corder := []; a_eorder := [];
       a_out := [] |};
     {| a_id := 4; a_det := true; a_matches := []; a_scope := [PathRoot 0; AlongPath 0 (PIn 0) 1];
       a_corder := [8]; a_eorder := [4];
       a_out := [{| e_id := 4; e_target := 8; e_cons := None |}; {| e_id := 8; e_target := 5; e_cons := Some {| cpred := IsConnected (PIn 0) (POut 1); cargs := [PathRoot 0; AlongPath 0 (PIn 0) 1] |} |}] |};
     {| a_id := 5; a_det := true; a_matches := []; a_scope := [PathRoot 0; AlongPath 0 (PIn 0) 1; AlongPath 0 (POut 1) 1];
       a_corder := [10]; a_eorder := [5];
       a_out := [{| e_id := 10; e_target := 10; e_cons := Some {| cpred := IsNotEqual 1; cargs := [AlongPath 0 (POut 1) 1; PathRoot 0] |} |}; {| e_id := 5; e_target := 9; e_cons := None |}] |};
     {| a_id := 6; a_det := true; a_matches := []; a_scope := [PathRoot 0; AlongPath 0 (PIn 0) 1; PathRoot 1; AlongPath 1 (POut 0) 1];
       a_corder := [6]; a_eorder := [];
       a_out := [{| e_id := 6; e_target := 7; e_cons := Some {| cpred := IsConnected (POut 0) (PIn 0); cargs := [AlongPath 0 (PIn 0) 1; AlongPath 1 (POut 0) 1] |} |}] |};
     {| a_id := 7; a_det := false; a_matches := [(1, [PathRoot 0; AlongPath 0 (PIn 0) 1; PathRoot 1; AlongPath 1 (POut 0) 1])]; a_scope := [];
       a_corder := []; a_eorder := [];
       a_out := [] |};
     {| a_id := 8; a_det := true; a_matches := []; a_scope := [PathRoot 0; AlongPath 0 (POut 1) 1];
       a_corder := [7]; a_eorder := [];
       a_out := [{| e_id := 7; e_target := 1; e_cons := Some {| cpred := IsNotEqual 1; cargs := [AlongPath 0 (POut 1) 1; PathRoot 0] |} |}] |};
     {| a_id := 9; a_det := true; a_matches := []; a_scope := [PathRoot 0; AlongPath 0 (PIn 0) 1; PathRoot 1; AlongPath 1 (POut 0) 1];
       a_corder := [9]; a_eorder := [];
       a_out := [{| e_id := 9; e_target := 6; e_cons := Some {| cpred := IsNotEqual 2; cargs := [AlongPath 1 (POut 0) 1; PathRoot 0; AlongPath 0 (PIn 0) 1] |} |}] |};
     {| a_id := 10; a_det := true; a_matches := []; a_scope := [PathRoot 0; AlongPath 0 (PIn 0) 1; AlongPath 0 (POut 1) 1];
       a_corder := [12]; a_eorder := [11];
       a_out := [{| e_id := 11; e_target := 9; e_cons := None |}; {| e_id := 12; e_target := 12; e_cons := Some {| cpred := IsConnected (POut 1) (PIn 0); cargs := [PathRoot 0; AlongPath 0 (POut 1) 1] |} |}] |};
     {| a_id := 11; a_det := false; a_matches := []; a_scope := [PathRoot 0; AlongPath 0 (PIn 0) 1; PathRoot 1; AlongPath 1 (POut 0) 1];
       a_corder := [13]; a_eorder := [];
       a_out := [{| e_id := 13; e_target := 6; e_cons := Some {| cpred := IsNotEqual 2; cargs := [AlongPath 1 (POut 0) 1; PathRoot 0; AlongPath 0 (PIn 0) 1] |} |}] |};
     {| a_id := 12; a_det := true; a_matches := []; a_scope := [PathRoot 0; AlongPath 0 (PIn 0) 1; AlongPath 0 (POut 1) 1];
       a_corder := [15]; a_eorder := [14];
       a_out := [{| e_id := 15; e_target := 13; e_cons := Some {| cpred := IsConnected (POut 0) (PIn 1); cargs := [AlongPath 0 (POut 1) 1; AlongPath 0 (POut 1) 1] |} |}; {| e_id := 14; e_target := 11; e_cons := None |}] |};
     {| a_id := 13; a_det := true; a_matches := [(0, [PathRoot 0; AlongPath 0 (POut 1) 1])]; a_scope := [PathRoot 0; AlongPath 0 (PIn 0) 1; PathRoot 1; AlongPath 1 (POut 0) 1];
       a_corder := [16]; a_eorder := [];
       a_out := [{| e_id := 16; e_target := 6; e_cons := Some {| cpred := IsNotEqual 2; cargs := [AlongPath 1 (POut 0) 1; PathRoot 0; AlongPath 0 (PIn 0) 1] |} |}] |} ] |}.

Definition d10_never : automaton pgkey pgpred :=
  {| au_root := 0;
   au_states := [
     {| a_id := 0; a_det := false; a_matches := []; a_scope := [PathRoot 0; AlongPath 0 (PIn 0) 1];
       a_corder := [3]; a_eorder := [0];
       a_out := [{| e_id := 0; e_target := 8; e_cons := None |}; {| e_id := 3; e_target := 4; e_cons := Some {| cpred := IsNotEqual 1; cargs := [AlongPath 0 (PIn 0) 1; PathRoot 0] |} |}] |};
     {| a_id := 1; a_det := false; a_matches := []; a_scope := [PathRoot 0; AlongPath 0 (POut 1) 1];
       a_corder := [1]; a_eorder := [];
       a_out := [{| e_id := 1; e_target := 2; e_cons := Some {| cpred := IsConnected (POut 1) (PIn 0); cargs := [PathRoot 0; AlongPath 0 (POut 1) 1] |} |}] |};
     {| a_id := 2; a_det := false; a_matches := []; a_scope := [PathRoot 0; AlongPath 0 (POut 1) 1];
       a_corder := [2]; a_eorder := [];
       a_out := [{| e_id := 2; e_target := 3; e_cons := Some {| cpred := IsConnected (POut 0) (PIn 1); cargs := [AlongPath 0 (POut 1) 1; AlongPath 0 (POut 1) 1] |} |}] |};
     {| a_id := 3; a_det := false; a_matches := [(0, [PathRoot 0; AlongPath 0 (POut 1) 1])]; a_scope := [];
       a_corder := []; a_eorder := [];
       a_out := [] |};
     {| a_id := 4; a_det := false; a_matches := []; a_scope := [PathRoot 0; AlongPath 0 (PIn 0) 1];
       a_corder := [4]; a_eorder := [];
       a_out := [{| e_id := 4; e_target := 5; e_cons := Some {| cpred := IsConnected (PIn 0) (POut 1); cargs := [PathRoot 0; AlongPath 0 (PIn 0) 1] |} |}] |};
     {| a_id := 5; a_det := false; a_matches := []; a_scope := [PathRoot 0; AlongPath 0 (PIn 0) 1; PathRoot 1; AlongPath 1 (POut 0) 1];
       a_corder := [5]; a_eorder := [];
       a_out := [{| e_id := 5; e_target := 6; e_cons := Some {| cpred := IsNotEqual 2; cargs := [AlongPath 1 (POut 0) 1; PathRoot 0; AlongPath 0 (PIn 0) 1] |} |}] |};
     {| a_id := 6; a_det := false; a_matches := []; a_scope := [PathRoot 0; AlongPath 0 (PIn 0) 1; PathRoot 1; AlongPath 1 (POut 0) 1];
       a_corder := [6]; a_eorder := [];
       a_out := [{| e_id := 6; e_target := 7; e_cons := Some {| cpred := IsConnected (POut 0) (PIn 0); cargs := [AlongPath 0 (PIn 0) 1; AlongPath 1 (POut 0) 1] |} |}] |};
     {| a_id := 7; a_det := false; a_matches := [(1, [PathRoot 0; AlongPath 0 (PIn 0) 1; PathRoot 1; AlongPath 1 (POut 0) 1])]; a_scope := [];
       a_corder := []; a_eorder := [];
       a_out := [] |};
     {| a_id := 8; a_det := false; a_matches := []; a_scope := [PathRoot 0; AlongPath 0 (POut 1) 1];
       a_corder := [7]; a_eorder := [];
       a_out := [{| e_id := 7; e_target := 1; e_cons := Some {| cpred := IsNotEqual 1; cargs := [AlongPath 0 (POut 1) 1; PathRoot 0] |} |}] |} ] |}.

Definition d10_host : pghost := {| pg_nodes := [Some (1, 1); Some (2, 2); Some (1, 2); Some (1, 2)]; pg_links := [(1, 0, 0, 0); (1, 1, 2, 0); (0, 0, 3, 0); (2, 1, 1, 0); (3, 1, 1, 1)] |}.

Definition d10_css : list (list pgconstraint) :=
  [[{| cpred := IsNotEqual 1; cargs := [AlongPath 0 (POut 1) 1; PathRoot 0] |}; {| cpred := IsConnected (POut 1) (PIn 0); cargs := [PathRoot 0; AlongPath 0 (POut 1) 1] |}; {| cpred := IsConnected (POut 0) (PIn 1); cargs := [AlongPath 0 (POut 1) 1; AlongPath 0 (POut 1) 1] |}]; [{| cpred := IsNotEqual 1; cargs := [AlongPath 0 (PIn 0) 1; PathRoot 0] |}; {| cpred := IsConnected (PIn 0) (POut 1); cargs := [PathRoot 0; AlongPath 0 (PIn 0) 1] |}; {| cpred := IsNotEqual 2; cargs := [AlongPath 1 (POut 0) 1; PathRoot 0; AlongPath 0 (PIn 0) 1] |}; {| cpred := IsConnected (POut 0) (PIn 0); cargs := [AlongPath 0 (PIn 0) 1; AlongPath 1 (POut 0) 1] |}]].

Definition d10_present : list bool := [true; true].

