(** A real automaton, dumped from StringManyMatcher for the patterns ["$y"; "aa"; "aa"]
    under the default heuristic (used for non-vacuity examples). *)
From PM Require Import Model.Prelude Model.Domain Model.Automaton Model.DomString.

Definition ex_aut : automaton N cpredicate :=
  {| au_root := 0%N;
     au_states := [
       {| a_id := 0%N; a_det := false; a_matches := []; a_scope := [0%N];
          a_corder := [3%N]; a_eorder := [0%N];
          a_out := [{| e_id := 0%N; e_target := 4%N; e_cons := None |}; {| e_id := 3%N; e_target := 6%N; e_cons := Some {| cpred := CConst 97%N; cargs := [0%N] |} |}] |};
       {| a_id := 1%N; a_det := false; a_matches := [(0%N, [0%N])]; a_scope := [];
          a_corder := []; a_eorder := [];
          a_out := [] |};
       {| a_id := 2%N; a_det := false; a_matches := [(1%N, [0%N; 1%N]); (2%N, [0%N; 1%N])]; a_scope := [];
          a_corder := []; a_eorder := [];
          a_out := [] |};
       {| a_id := 4%N; a_det := false; a_matches := []; a_scope := [0%N];
          a_corder := [4%N]; a_eorder := [];
          a_out := [{| e_id := 4%N; e_target := 1%N; e_cons := Some {| cpred := CBindingEq; cargs := [0%N; 0%N] |} |}] |};
       {| a_id := 6%N; a_det := true; a_matches := []; a_scope := [0%N; 1%N];
          a_corder := [2%N]; a_eorder := [];
          a_out := [{| e_id := 2%N; e_target := 2%N; e_cons := Some {| cpred := CConst 97%N; cargs := [1%N] |} |}] |} ] |}.
Definition ex_pats : list spattern := [[Var 121%N]; [Lit 97%N; Lit 97%N]; [Lit 97%N; Lit 97%N]].
