(** Entailment / refutation rules for the port-graph predicates (used by the
    completeness certificate on port-graph automata). *)
From PM Require Import Model.Prelude Model.Domain Model.DomPGKeys.
Local Open Scope N_scope.

(** a not-equal constraint with at least one other node is the conjunction of the
    pairwise not-equal constraints *)
Definition pg_atoms (c : pgconstraint) : list pgconstraint :=
  match cpred c, cargs c with
  | IsNotEqual _, k :: ((_ :: _) as others) =>
      map (fun o => {| cpred := IsNotEqual 1; cargs := [k; o] |}) others
  | _, _ => [c]
  end.

(** equal atoms, up to the symmetry of a pairwise not-equal atom *)
Definition atom_eqb (a d : pgconstraint) : bool :=
  pgc_eqb a d
  || match cpred a, cargs a, cpred d, cargs d with
     | IsNotEqual _, [k; o], IsNotEqual _, [k'; o'] => pgkey_eqb k o' && pgkey_eqb o k'
     | _, _, _, _ => false
     end.

Definition keys_of (cp : list pgconstraint) : list pgkey := flat_map cargs cp.

Definition pg_entails (cp : list pgconstraint) (c : pgconstraint) : bool :=
  let facts := flat_map pg_atoms cp in
  forallb (fun a =>
    existsb (atom_eqb a) facts
    || match cpred a, cargs a with
       | IsNotEqual _, [k] => memb pgkey_eqb k (keys_of cp)
       | HasNodeWeight, [k] => memb pgkey_eqb k (keys_of cp)
       | _, _ => false
       end) (pg_atoms c).

(** the facts say the two keys are bound to different nodes *)
Definition known_ne (facts : list pgconstraint) (k o : pgkey) : bool :=
  existsb (atom_eqb {| cpred := IsNotEqual 1; cargs := [k; o] |}) facts.

(** a port carries one link: a link from the same port (of the same key) to a
    different port, or to a node known to differ, contradicts the constraint *)
Definition pg_refutes (cp : list pgconstraint) (c : pgconstraint) : bool :=
  let facts := flat_map pg_atoms cp in
  match cpred c, cargs c with
  | IsConnected l r, [a; b] =>
      existsb (fun d =>
        match cpred d, cargs d with
        | IsConnected l' r', [a'; b'] =>
            pgkey_eqb a a' && pgport_eqb l l' && (negb (pgport_eqb r r') || known_ne facts b b')
        | _, _ => false
        end) cp
  | _, _ => false
  end.
