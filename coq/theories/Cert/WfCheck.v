(** Structural well-formedness of a compiled automaton (C09) as an executable
    check over the dump, and the propositions it establishes. *)
From PM Require Import Model.Prelude Model.Domain Model.Automaton.

Section Wf.
  Context {K V M H P : Type} (D : DomOps K V M H P).
  Notation C := (constraint K P).

  Definition state_ids (A : automaton K P) : list N := map a_id (au_states A).

  (** all edges of the automaton as (source, edge) *)
  Definition all_edges (A : automaton K P) : list (N * edge K P) :=
    flat_map (fun s => map (fun e => (a_id s, e)) (a_out s)) (au_states A).

  (** every key's prerequisites occur before it; no key twice *)
  Fixpoint prereq_orderedb (seen : list K) (l : list K) : bool :=
    match l with
    | [] => true
    | k :: l' => negb (memb (keqb D) k seen)
                 && forallb (fun r => memb (keqb D) r seen) (req D k)
                 && prereq_orderedb (k :: seen) l'
    end.

  (** ** reachability, by saturation *)
  Definition step_reach (A : automaton K P) (R : list N) : list N :=
    R ++ flat_map (fun s => if memb N.eqb (a_id s) R then map (@e_target K P) (a_out s) else [])
                  (au_states A).

  Fixpoint reach_iter (n : nat) (A : automaton K P) (R : list N) : list N :=
    match n with O => R | S n' => reach_iter n' A (dedup N.eqb (step_reach A R)) end.

  (** ** per-state checks *)
  Definition order_ok (s : astate K P) : bool :=
    let ids := map (@e_id K P) (a_out s) in
    nodupb N.eqb ids && nodupb N.eqb (a_corder s) && nodupb N.eqb (a_eorder s)
    && forallb (fun id => match find_edge (a_out s) id with
                          | Some {| e_cons := Some _ |} => true | _ => false end) (a_corder s)
    && forallb (fun id => match find_edge (a_out s) id with
                          | Some {| e_cons := None |} => true | _ => false end) (a_eorder s)
    && forallb (fun e => match e_cons e with
                         | Some _ => memb N.eqb (e_id e) (a_corder s)
                         | None => memb N.eqb (e_id e) (a_eorder s) end) (a_out s).

  Definition state_wf (A : automaton K P) (rk : N -> nat) (s : astate K P) : bool :=
    order_ok s
    && (Nat.leb (length (a_eorder s)) 1)
    && forallb (fun e => negb (N.eqb (e_target e) (a_id s))
                         && memb N.eqb (e_target e) (state_ids A)
                         && Nat.ltb (rk (a_id s)) (rk (e_target e))) (a_out s)
    && prereq_orderedb [] (a_scope s)
    && forallb (fun pk => prereq_orderedb [] (snd pk)) (a_matches s)
    && forallb (fun e => match e_cons e with
                         | Some c => inclb (keqb D) (cargs c) (a_scope s)
                         | None => true end) (a_out s).

  Definition rank_of (rk : list (N * nat)) (id : N) : nat :=
    match find (fun e => N.eqb (fst e) id) rk with Some e => snd e | None => 0 end.

  Definition wf_check (A : automaton K P) (rk : list (N * nat)) (ids : list N) : bool :=
    nodupb N.eqb (state_ids A)
    && memb N.eqb (au_root A) (state_ids A)
    && forallb (state_wf A (rank_of rk)) (au_states A)
    && inclb N.eqb (state_ids A) (reach_iter (length (au_states A)) A [au_root A])
    && forallb (fun p => existsb (fun s => memb N.eqb p (map fst (a_matches s))) (au_states A)) ids.

  (** every constraint on a transition has as many arguments as its predicate's
      arity (what Constraint::try_new enforces; a dump carries no such invariant) *)
  Definition arity_ok (A : automaton K P) : bool :=
    forallb (fun st => forallb (fun e => match e_cons e with
                                         | Some c => Nat.eqb (length (cargs c)) (arity D (cpred c))
                                         | None => true
                                         end) (a_out st)) (au_states A).

  (** an (unverified) rank: longest distance from the root, by relaxation *)
  Definition relax (A : automaton K P) (rk : list (N * nat)) : list (N * nat) :=
    map (fun s =>
           let id := a_id s in
           let incoming := flat_map (fun se => if N.eqb (e_target (snd se)) id
                                               then [S (rank_of rk (fst se))] else [])
                                    (all_edges A) in
           (id, fold_left Nat.max incoming (rank_of rk id))) (au_states A).

  Fixpoint relax_iter (n : nat) (A : automaton K P) (rk : list (N * nat)) : list (N * nat) :=
    match n with O => rk | S n' => relax_iter n' A (relax A rk) end.

  Definition compute_rank (A : automaton K P) : list (N * nat) :=
    relax_iter (length (au_states A)) A (map (fun s => (a_id s, 0)) (au_states A)).

  (** ** the propositions *)
  Inductive reachable (A : automaton K P) : N -> Prop :=
  | reach_root : reachable A (au_root A)
  | reach_step s e : reachable A (a_id s) -> In s (au_states A) -> In e (a_out s) ->
                     reachable A (e_target e).

  Definition prereq_ordered (l : list K) : Prop :=
    NoDup l /\ forall l1 k l2, l = l1 ++ k :: l2 -> forall r, In r (req D k) -> In r l1.

  Record WF (A : automaton K P) (ids : list N) : Prop := {
    wf_ids_nodup : NoDup (state_ids A);
    wf_rooted : In (au_root A) (state_ids A);
    wf_acyclic : exists rank : N -> nat,
        forall s e, In s (au_states A) -> In e (a_out s) -> rank (a_id s) < rank (e_target e);
    wf_reachable : forall s, In s (au_states A) -> reachable A (a_id s);
    wf_targets : forall s e, In s (au_states A) -> In e (a_out s) -> In (e_target e) (state_ids A);
    wf_one_eps : forall s, In s (au_states A) -> length (a_eorder s) <= 1;
    wf_no_self_loop : forall s e, In s (au_states A) -> In e (a_out s) -> e_target e <> a_id s;
    (* the order vectors enumerate exactly the outgoing transitions of each kind, once *)
    wf_corder : forall s, In s (au_states A) ->
        NoDup (a_corder s) /\ forall id, In id (a_corder s) <->
          exists e, In e (a_out s) /\ e_id e = id /\ e_cons e <> None;
    wf_eorder : forall s, In s (au_states A) ->
        NoDup (a_eorder s) /\ forall id, In id (a_eorder s) <->
          exists e, In e (a_out s) /\ e_id e = id /\ e_cons e = None;
    wf_edge_ids : forall s, In s (au_states A) -> NoDup (map (@e_id K P) (a_out s));
    wf_accepted : forall p, In p ids -> exists s, In s (au_states A) /\ In p (map fst (a_matches s));
    wf_scope_ordered : forall s, In s (au_states A) -> prereq_ordered (a_scope s);
    wf_match_ordered : forall s pk, In s (au_states A) -> In pk (a_matches s) -> prereq_ordered (snd pk);
    wf_scope_covers : forall s e c, In s (au_states A) -> In e (a_out s) -> e_cons e = Some c ->
        incl (cargs c) (a_scope s);
  }.
End Wf.
