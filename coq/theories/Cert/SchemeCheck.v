(** A verified checker for answers of missing_bindings / all_missing_bindings
    (C12): the property fixes the set of listed keys but not their order beyond
    "prerequisites first", so an implementation may legitimately list them in
    another order than the model does.  [valid_answerb] decides, given the
    model's answer as the reference set, whether another list is an equally valid
    answer; soundness: Proofs/SchemeCheckSound.v. *)
From PM Require Import Model.Prelude.

Section SchemeCheck.
  Context {K : Type} (keqb : K -> K -> bool) (req : K -> list K).
  Notation mem := (memb keqb).

  Fixpoint prereq_firstb (known seen out : list K) : bool :=
    match out with
    | [] => true
    | k :: rest => forallb (fun r => mem r known || mem r seen) (req k) && prereq_firstb known (k :: seen) rest
    end.

  Definition same_setb (a b : list K) : bool :=
    forallb (fun x => mem x b) a && forallb (fun x => mem x a) b.

  Definition valid_answerb (known ref out : list K) : bool :=
    nodupb keqb out && same_setb out ref && prereq_firstb known [] out.
End SchemeCheck.
