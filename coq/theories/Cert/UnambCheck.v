(** Unambiguity certificates (C07).

    [slab_ok]: a signed abstract labelling — for each state a list of alternative
    labels (constraints known true / known false of the fixed valuation), one of
    which holds whenever the state is reached — checked for inductiveness edge
    by edge (no scope conditions: a valuation does not change along a path).
    [cert_unamb]: any two distinct accepting entries of one pattern sit in
    states whose labels contradict each other, so no valuation reaches both.
    [accept_vdet] (strings): all transitions into an accepting state deliver
    bindings with the same view of that state's keys, so that for one anchor
    at most one (state, view) item is expanded there.
    The labelling is computed by unverified code ([compute_slab]) and only checked. *)
From PM Require Import Model.Prelude Model.Domain Model.Automaton Model.Traversal Model.DomString Model.DomMatrix Cert.CharCert.
Local Open Scope N_scope.

Section Unamb.
  Context {K P : Type}.
  Notation C := (constraint K P).
  Variable ceqb : C -> C -> bool.
  Variable refutes : list C -> C -> bool.

  Definition cmemb (c : C) (l : list C) : bool := memb ceqb c l.

  (** a label: constraints known true, constraints known false; a state carries a
      list of alternative labels, one of which holds whenever the state is reached *)
  Definition slabel := (list C * list C)%type.
  Definition slabelling := list (N * list slabel).
  Fixpoint slab_get (L : slabelling) (id : N) : list slabel :=
    match L with
    | [] => []
    | (i, fs) :: L' => if N.eqb i id then fs else slab_get L' id
    end.

  (** [tgt] follows from [src] and the step: each of its facts is a fact of the
      source, a fact established by the step, or (negative facts) refuted by the
      positive ones *)
  Definition label_follows (src : slabel) (newp newn : list C) (tgt : slabel) : bool :=
    forallb (fun f => cmemb f (fst src) || cmemb f newp) (fst tgt)
    && forallb (fun f => cmemb f (snd src) || cmemb f newn || refutes (fst src ++ newp) f) (snd tgt).

  Definition sedge_ok (L : slabelling) (s : astate K P) (newp newn : list C) (t : N) : bool :=
    forallb (fun src => existsb (label_follows src newp newn) (slab_get L t)) (slab_get L (a_id s)).

  Definition sstate_ok (L : slabelling) (s : astate K P) : bool :=
    match cons_transitions s, fail_next_state s with
    | Ok cts, Ok fo =>
        forallb (fun ct => sedge_ok L s [fst ct] [] (snd ct)) cts
        && match fo with
           | Some t => sedge_ok L s [] (if a_det s then map fst cts else []) t
           | None => true
           end
    | _, _ => false
    end.

  Definition slab_ok (A : automaton K P) (L : slabelling) : bool :=
    existsb (fun l => match l with ([], []) => true | _ => false end) (slab_get L (au_root A))
    && forallb (sstate_ok L) (au_states A).

  (** two labels cannot hold of one valuation *)
  Definition contradict (l1 l2 : slabel) : bool :=
    existsb (fun c => cmemb c (snd l2) || refutes (fst l2) c) (fst l1)
    || existsb (fun c => cmemb c (snd l1) || refutes (fst l1) c) (fst l2).

  Definition excl (L : slabelling) (s1 s2 : N) : bool :=
    forallb (fun l1 => forallb (contradict l1) (slab_get L s2)) (slab_get L s1).

  (** all (state, pattern) accepting entries *)
  Definition accept_entries (A : automaton K P) : list (N * N) :=
    flat_map (fun s => map (fun pk => (a_id s, fst pk)) (a_matches s)) (au_states A).

  Definition cert_unamb (A : automaton K P) (L : slabelling) : bool :=
    forallb (fun s => nodupb N.eqb (map fst (a_matches s))) (au_states A)
    && forallb (fun e1 =>
         forallb (fun e2 =>
           negb (N.eqb (snd e1) (snd e2)) || N.eqb (fst e1) (fst e2) || excl L (fst e1) (fst e2))
           (accept_entries A)) (accept_entries A).

  (** ** unverified computation of a signed labelling: forward data flow, the
      alternatives of a state are the distinct labels delivered by its incoming
      transitions (merged by intersection beyond [cap] alternatives) *)
  Definition sinter (a b : list C) : list C := filter (fun f => cmemb f b) a.
  Definition subl (a b : list C) : bool := forallb (fun f => cmemb f b) a.
  Definition label_eqb (a b : slabel) : bool :=
    subl (fst a) (fst b) && subl (fst b) (fst a) && subl (snd a) (snd b) && subl (snd b) (snd a).

  Definition scontrib (univ : list C) (L : slabelling) (s : astate K P) : list (N * slabel) :=
    match cons_transitions s, fail_next_state s with
    | Ok cts, Ok fo =>
        flat_map (fun src =>
          let '(ps, ns) := src in
          map (fun ct => let ps' := dedup ceqb (ps ++ [fst ct]) in
                         (snd ct, (ps', dedup ceqb (ns ++ filter (refutes ps') univ)))) cts
          ++ match fo with
             | Some t => [(t, (ps, dedup ceqb (ns ++ (if a_det s then map fst cts else []) ++ filter (refutes ps) univ)))]
             | None => []
             end) (slab_get L (a_id s))
    | _, _ => []
    end.

  Definition merge_all (ls : list slabel) : list slabel :=
    match ls with
    | [] => []
    | l :: r => [fold_left (fun acc x => (sinter (fst acc) (fst x), sinter (snd acc) (snd x))) r l]
    end.

  Definition slab_round (cap : nat) (univ : list C) (A : automaton K P) (L : slabelling) : slabelling :=
    let contribs := flat_map (scontrib univ L) (au_states A) in
    map (fun s =>
           let id := a_id s in
           if N.eqb id (au_root A) then (id, [([], [])])
           else
             let ls := dedup label_eqb (flat_map (fun c => if N.eqb (fst c) id then [snd c] else []) contribs) in
             (id, if Nat.leb (length ls) cap then ls else merge_all ls))
        (au_states A).
  Fixpoint slab_iter (cap : nat) (univ : list C) (n : nat) (A : automaton K P) (L : slabelling) : slabelling :=
    match n with O => L | S n' => slab_iter cap univ n' A (slab_round cap univ A L) end.
  Definition all_constraints (A : automaton K P) : list C :=
    dedup ceqb (flat_map (fun s => flat_map (fun e => match e_cons e with Some c => [c] | None => [] end) (a_out s)) (au_states A)).
  (** [cap]: the number of alternatives kept per state before they are merged; the
      driver retries with a larger cap when a certificate fails with a smaller one
      (the labelling is only a candidate, [slab_ok] / [cert_unamb] decide) *)
  Definition compute_slab_cap (cap : nat) (A : automaton K P) : slabelling :=
    slab_iter cap (all_constraints A) (S (length (au_states A))) A
              (map (fun s => (a_id s, if N.eqb (a_id s) (au_root A) then [([], [])] else [])) (au_states A)).
  Definition compute_slab (A : automaton K P) : slabelling := compute_slab_cap 12 A.
End Unamb.

(** ** strings: the view of an accepting state's keys does not depend on the transition taken *)
Definition min_above (scope : list N) (k : N) : option N :=
  fold_left (fun acc k' => if k <=? k' then match acc with Some m => Some (N.min m k') | None => Some k' end else acc)
            scope None.

(** incoming transitions of state [t] *)
Definition incoming (A : automaton N cpredicate) (t : N) : list (astate N cpredicate * edge N cpredicate) :=
  flat_map (fun s => flat_map (fun e => if N.eqb (e_target e) t then [(s, e)] else []) (a_out s))
           (au_states A).

(** number of keys the transition's constraint shows to be offered: 1 + its
    largest argument, 0 for a fail transition *)
Definition offered_by (e : edge N cpredicate) : N :=
  match e_cons e with
  | Some c => fold_left (fun acc k => N.max acc (k + 1)) (cargs c) 0
  | None => 0
  end.

(** the labels that hold after taking transition [e] out of [s] *)
Definition edge_labels (L : slabelling (K:=N) (P:=cpredicate)) (se : astate N cpredicate * edge N cpredicate)
  : list (slabel (K:=N) (P:=cpredicate)) :=
  let s := fst se in
  map (fun l => match e_cons (snd se) with
                | Some c => (fst l ++ [c], snd l)
                | None => (fst l, snd l ++ (if a_det s
                                            then match cons_transitions s with Ok cts => map fst cts | _ => [] end
                                            else []))
                end) (slab_get L (a_id s)).

(** the smallest scope key of the source at or above [k]: key [k] is bound in a
    binding delivered from that source exactly when this key is offered *)
Definition key_sig_eqb (off : N) (u1 u2 : option N) : bool :=
  option_eqb N.eqb u1 u2
  || match u1, u2 with Some x, Some y => (x <? off) && (y <? off) | _, _ => false end.

Definition edges_agree (t : astate N cpredicate) (e1 e2 : astate N cpredicate * edge N cpredicate) : bool :=
  let off := N.max (offered_by (snd e1)) (offered_by (snd e2)) in
  Bool.eqb (match a_scope (fst e1) with [] => true | _ => false end)
           (match a_scope (fst e2) with [] => true | _ => false end)
  && forallb (fun k => key_sig_eqb off (min_above (a_scope (fst e1)) k) (min_above (a_scope (fst e2)) k))
             (useful_keys string_dom t).

Definition accept_vdet (A : automaton N cpredicate) (L : slabelling) : bool :=
  forallb (fun t =>
    match a_matches t with
    | [] => true
    | _ => let inc := incoming A (a_id t) in
           forallb (fun e1 => forallb (fun e2 =>
             edges_agree t e1 e2
             || forallb (fun l1 => forallb (contradict (char_ceqb N.eqb) (char_refutes N.eqb) l1) (edge_labels L e2))
                        (edge_labels L e1)) inc) inc
    end) (au_states A).

(** entries with an empty key list (the empty pattern) only at the root *)
Definition empty_keys_at_root (A : automaton N cpredicate) : bool :=
  forallb (fun s => N.eqb (a_id s) (au_root A)
                    || forallb (fun pk => match snd pk with [] => false | _ => true end) (a_matches s))
          (au_states A).

(** a state with an empty scope (it delivers unbound maps) is only entered from
    states with an empty scope: bound items never lose their anchor *)
Definition empty_scope_closed (A : automaton N cpredicate) : bool :=
  forallb (fun s =>
    forallb (fun e =>
      match get_state A (e_target e) with
      | Ok t => match a_scope t with [] => (match a_scope s with [] => true | _ => false end) || (match a_out t with [] => true | _ => false end) | _ => true end
      | _ => false
      end) (a_out s)) (au_states A).

(** a pattern without constraints (the empty string pattern) is recorded with an empty key list *)
Definition empty_pattern_keys {K P} (A : automaton K P) (cs : list (list (constraint K P))) : bool :=
  forallb (fun s =>
    forallb (fun pk => match nth_error cs (N.to_nat (fst pk)) with
                       | Some [] => match snd pk with [] => true | _ => false end
                       | _ => true
                       end) (a_matches s)) (au_states A).
