(** Entailment / refutation rules for the character predicates (strings and
    matrices), the valuations induced by a host and an anchor, and their
    soundness. *)
From PM Require Import Model.Prelude Model.Domain Model.Automaton Model.DomString Model.DomMatrix.

Section CharRules.
  Context {K : Type} (keqb : K -> K -> bool).
  Notation C := (constraint K cpredicate).

  Definition char_ceqb (a b : C) : bool :=
    cpredicate_eqb (cpred a) (cpred b) && list_eqb keqb (cargs a) (cargs b).

  Definition char_entails (cp : list C) (c : C) : bool := memb char_ceqb c cp.

  (** two different constants demanded of the same cell *)
  Definition char_refutes (cp : list C) (c : C) : bool :=
    match cpred c, cargs c with
    | CConst x, [k] =>
        existsb (fun d => match cpred d, cargs d with
                          | CConst y, [k'] => keqb k k' && negb (N.eqb x y)
                          | _, _ => false
                          end) cp
    | _, _ => false
    end.
End CharRules.

(** key lists on which retain_keys of the position maps is lawful: duplicate-free
    and, unless empty, containing the start key *)
Definition s_goodb (ks : list N) : bool :=
  nodupb N.eqb ks && (match ks with [] => true | _ => memb N.eqb 0%N ks end).
Definition m_goodb (ks : list mkey) : bool :=
  nodupb mkey_eqb ks && (match ks with [] => true | _ => memb mkey_eqb (0, 0)%Z ks end).
(** strings and matrices: every constraint is its own single atom *)
Definition atoms_self {K P} (c : constraint K P) : list (constraint K P) := [c].

(** the keys recorded with an accepted pattern are the base key or keys mentioned
    by the pattern's constraints, and there is at least one unless the pattern
    has no constraints: an occurrence then offers a value for each of them *)
Definition keys_tight {K P} (keqb : K -> K -> bool) (base : K -> bool)
    (A : automaton K P) (cs : list (list (constraint K P))) : bool :=
  forallb (fun st =>
    forallb (fun pk =>
      match nth_error cs (N.to_nat (fst pk)) with
      | Some cp =>
          (match snd pk with [] => match cp with [] => true | _ => false end | _ => true end)
          && forallb (fun k => base k || existsb (fun c => memb keqb k (cargs c)) cp) (snd pk)
      | None => false
      end) (a_matches st)) (au_states A).
Definition s_keys_tight := @keys_tight N cpredicate N.eqb (fun k => N.eqb k 0).
Definition m_keys_tight := @keys_tight mkey cpredicate mkey_eqb (fun k => mkey_eqb k (0, 0)%Z).

(** every key of a matrix automaton is non-negative (as produced by every MatrixPattern) *)
Definition m_nnb (k : mkey) : bool := (0 <=? fst k)%Z && (0 <=? snd k)%Z.
Definition m_keys_nn (A : automaton mkey cpredicate) : bool :=
  forallb (fun st =>
    forallb m_nnb (a_scope st)
    && forallb (fun pk => forallb m_nnb (snd pk)) (a_matches st)
    && forallb (fun e => match e_cons e with Some c => forallb m_nnb (cargs c) | None => true end) (a_out st))
    (au_states A).

(** ** valuations induced by a host and an anchor *)
Definition sval (h : shost) (a : N) (c : sconstraint) : bool :=
  match s_check h (cpred c) (map (fun k => (a + k)%N) (cargs c)) with
  | Ok true => true
  | _ => false
  end.

Definition mpos (a : mval) (k : mkey) : option mval :=
  match add_signed (fst a) (fst k), add_signed (snd a) (snd k) with
  | Some r, Some c => Some (r, c)
  | _, _ => None
  end.

Fixpoint all_some {X} (l : list (option X)) : option (list X) :=
  match l with
  | [] => Some []
  | Some x :: l' => match all_some l' with Some xs => Some (x :: xs) | None => None end
  | None :: _ => None
  end.

Definition mval_of (h : mhost) (a : mval) (c : mconstraint) : bool :=
  match all_some (map (mpos a) (cargs c)) with
  | Some ps => match m_check h (cpred c) ps with Ok true => true | _ => false end
  | None => false
  end.

Lemma cpredicate_eqb_spec a b : cpredicate_eqb a b = true <-> a = b.
Proof.
  destruct a as [|c], b as [|d]; cbn; split; intros X; try discriminate; try reflexivity.
  - apply N.eqb_eq in X. now subst.
  - inversion X. apply N.eqb_refl.
Qed.

Lemma char_ceqb_spec {K} (keqb : K -> K -> bool) :
  (forall a b, keqb a b = true <-> a = b) ->
  forall a b : constraint K cpredicate, char_ceqb keqb a b = true <-> a = b.
Proof.
  intros Hk [p1 a1] [p2 a2]. unfold char_ceqb; cbn. rewrite andb_true_iff.
  rewrite cpredicate_eqb_spec, (list_eqb_spec keqb Hk). split.
  - intros [-> ->]. reflexivity.
  - intros X. inversion X. auto.
Qed.

Lemma s_entails_sound h a cp c :
  char_entails N.eqb cp c = true -> (forall d, In d cp -> sval h a d = true) -> sval h a c = true.
Proof.
  intros He Hcp. apply Hcp. apply (memb_in _ (char_ceqb_spec N.eqb N.eqb_eq)). exact He.
Qed.

Lemma s_refutes_sound h a cp c :
  char_refutes N.eqb cp c = true -> (forall d, In d cp -> sval h a d = true) -> sval h a c = false.
Proof.
  unfold char_refutes. destruct c as [[|x] [|k [|k2 ks]]]; cbn; try discriminate.
  intros He Hcp. apply existsb_exists in He as [d [Hd He]].
  specialize (Hcp d Hd). destruct d as [[|y] [|k' [|k3 ks']]]; cbn in He; try discriminate.
  apply andb_true_iff in He as [Hk Hne]. apply N.eqb_eq in Hk. subst k'.
  apply negb_true_iff in Hne.
  unfold sval in *. cbn in *.
  destruct (char_at h (a + k)) as [ch|]; cbn in *; auto.
  destruct (N.eqb_spec ch y); [|discriminate]. subst ch.
  destruct (N.eqb_spec y x); auto. subst. rewrite N.eqb_refl in Hne. discriminate.
Qed.

Lemma m_entails_sound h a cp c :
  char_entails mkey_eqb cp c = true -> (forall d, In d cp -> mval_of h a d = true) -> mval_of h a c = true.
Proof.
  intros He Hcp. apply Hcp.
  assert (Hk : forall x y, mkey_eqb x y = true <-> x = y).
  { intros [x1 x2] [y1 y2]. unfold mkey_eqb; cbn. rewrite andb_true_iff, !Z.eqb_eq.
    split; [intros [-> ->]; reflexivity|intros X; inversion X; auto]. }
  apply (memb_in _ (char_ceqb_spec mkey_eqb Hk)). exact He.
Qed.

Lemma m_refutes_sound h a cp c :
  char_refutes mkey_eqb cp c = true -> (forall d, In d cp -> mval_of h a d = true) -> mval_of h a c = false.
Proof.
  unfold char_refutes. destruct c as [[|x] [|k [|k2 ks]]]; cbn; try discriminate.
  intros He Hcp. apply existsb_exists in He as [d [Hd He]].
  specialize (Hcp d Hd). destruct d as [[|y] [|k' [|k3 ks']]]; cbn in He; try discriminate.
  apply andb_true_iff in He as [Hk Hne].
  assert (k' = k).
  { destruct k as [k1 k2], k' as [k1' k2']. unfold mkey_eqb in Hk; cbn in Hk.
    apply andb_true_iff in Hk as [H1 H2]. apply Z.eqb_eq in H1, H2. now subst. }
  subst k'. apply negb_true_iff in Hne.
  unfold mval_of in *. cbn in *.
  destruct (mpos a k) as [pos|]; cbn in *; auto.
  destruct (cell_at h pos) as [ch|]; cbn in *; auto.
  destruct (N.eqb_spec ch y); [|discriminate]. subst ch.
  destruct (N.eqb_spec y x); auto. subst. rewrite N.eqb_refl in Hne. discriminate.
Qed.
