(** Completeness certificate (DESIGN.md §4.7 cert_complete): an AND-OR search
    showing that every valuation satisfying all constraints of pattern [p] drives
    the automaton, in its abstract semantics, into a state accepting [p]. *)
From PM Require Import Model.Prelude Model.Domain Model.Automaton.

Section Win.
  Context {K V M H P : Type} (D : DomOps K V M H P).
  Notation C := (constraint K P).
  (** [entails cp c]: c is implied by the pattern's constraints;
      [refutes cp c]: c is contradicted by them (both per domain, proved sound) *)
  Variable entails : list C -> C -> bool.
  Variable refutes : list C -> C -> bool.

  (** ** abstract semantics of the automaton under a valuation of constraints *)
  Section Sem.
    Variable v : C -> bool.
    Variable A : automaton K P.

    Inductive areach : N -> Prop :=
    | ar_root : areach (au_root A)
    | ar_cons s st cts c t :
        areach s -> get_state A s = Ok st -> cons_transitions st = Ok cts ->
        In (c, t) cts -> v c = true -> areach t
    | ar_eps s st cts t :
        areach s -> get_state A s = Ok st -> cons_transitions st = Ok cts ->
        fail_next_state st = Ok (Some t) ->
        (a_det st = false \/ forallb (fun ct => negb (v (fst ct))) cts = true) ->
        areach t.

    Definition aaccepts (p : N) : Prop :=
      exists s st, areach s /\ get_state A s = Ok st /\ In p (map fst (a_matches st)).
  End Sem.

  Fixpoint win (fuel : nat) (A : automaton K P) (cp : list C) (p : N) (s : N) : bool :=
    match fuel with
    | O => false
    | S f =>
        match get_state A s with
        | Ok st =>
            memb N.eqb p (map fst (a_matches st))
            || match cons_transitions st with
               | Ok cts =>
                   existsb (fun ct => entails cp (fst ct) && win f A cp p (snd ct)) cts
                   || match fail_next_state st with
                      | Ok (Some t) =>
                          win f A cp p t
                          && (negb (a_det st)
                              || forallb (fun ct => refutes cp (fst ct) || win f A cp p (snd ct)) cts)
                      | _ => false
                      end
               | _ => false
               end
        | _ => false
        end
    end.

  (** every listed pattern wins from the root *)
  Definition cert_complete (A : automaton K P) (cs : list (list C)) (present : list bool) : bool :=
    let fuel := S (length (au_states A)) in
    forallb (fun ip : nat * (list C * bool) =>
               let '(i, (cp, pr)) := ip in
               negb pr || win fuel A cp (N.of_nat i) (au_root A))
            (combine (seq 0 (length cs)) (combine cs present)).
End Win.
