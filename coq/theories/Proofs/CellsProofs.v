(** The constraint vector generated from a list of pattern cells is equivalent
    to the occurrence scan (generic in the key type; instantiated for strings
    and matrices in OccString.v / OccMatrix.v). *)
From PM Require Import Model.Prelude Model.Domain Model.DomString Model.DomMatrix Spec.Occ.

Section Cells.
  Context {K : Type} (char_of : K -> option N).
  Notation C := (constraint K cpredicate).

  Fixpoint glookup (env : list (N * K)) (x : N) : option K :=
    match env with
    | [] => None
    | (y, p) :: env' => if N.eqb x y then Some p else glookup env' x
    end.

  (** the common loop of try_to_constraint_vec *)
  Fixpoint gloop (cells : list (K * charvar)) (env : list (N * K)) : list C * list (N * K) :=
    match cells with
    | [] => ([], env)
    | (k, Lit c) :: cells' =>
        let '(cs, env') := gloop cells' env in
        ({| cpred := CConst c; cargs := [k] |} :: cs, env')
    | (k, Var x) :: cells' =>
        match glookup env x with
        | Some first =>
            let '(cs, env') := gloop cells' env in
            ({| cpred := CBindingEq; cargs := [k; first] |} :: cs, env')
        | None => gloop cells' ((x, k) :: env)
        end
    end.

  (** truth of a character constraint when key k denotes the character char_of k *)
  Definition cvalb (c : C) : bool :=
    match cpred c, cargs c with
    | CConst l, [k] => match char_of k with Some ch => N.eqb ch l | None => false end
    | CBindingEq, [k1; k2] =>
        match char_of k1, char_of k2 with Some x, Some y => N.eqb x y | _, _ => false end
    | _, _ => false
    end.

  Definition R (env : list (N * K)) (cenv : list (N * N)) : Prop :=
    forall x, match glookup env x, var_lookup cenv x with
              | Some k0, Some c0 => char_of k0 = Some c0
              | None, None => True
              | _, _ => False
              end.

  Lemma gloop_mono cells : forall env cs env' x k0,
    gloop cells env = (cs, env') -> glookup env x = Some k0 -> glookup env' x = Some k0.
  Proof.
    induction cells as [|[k [l|y]] r IH]; intros env cs env' x k0 G Lk; cbn in G.
    - inversion G; subst. exact Lk.
    - destruct (gloop r env) as [cs0 e0] eqn:G0. inversion G; subst. eapply IH; eauto.
    - destruct (glookup env y) as [f|] eqn:Ly.
      + destruct (gloop r env) as [cs0 e0] eqn:G0. inversion G; subst. eapply IH; eauto.
      + eapply IH; eauto. cbn. destruct (N.eqb_spec x y); [subst; congruence|exact Lk].
  Qed.

  Definition news_exist (env env' : list (N * K)) : Prop :=
    forall x k0, glookup env' x = Some k0 -> glookup env x = None -> char_of k0 <> None.

  Theorem gloop_equiv cells : forall env cenv cs env',
    R env cenv -> gloop cells env = (cs, env') ->
    ((exists cenv', occ_env char_of cells cenv = Some cenv')
     <-> (forallb cvalb cs = true /\ news_exist env env')).
  Proof.
    induction cells as [|[k [l|x]] r IH]; intros env cenv cs env' HR G; cbn in G.
    - inversion G; subst. cbn. split.
      + intros _. split; auto. intros x k0 H1 H2. congruence.
      + eauto.
    - destruct (gloop r env) as [cs0 e0] eqn:G0. inversion G; subst. cbn [occ_env forallb].
      specialize (IH env cenv cs0 env' HR G0).
      unfold cvalb at 1. cbn [cpred cargs].
      destruct (char_of k) as [ch|].
      + destruct (N.eqb ch l); cbn [andb].
        * exact IH.
        * split; [intros [c X]; discriminate|intros [X _]; discriminate].
      + split; [intros [c X]; discriminate|intros [X _]; discriminate].
    - pose proof (HR x) as HRx.
      destruct (glookup env x) as [k0|] eqn:Lx.
      + destruct (gloop r env) as [cs0 e0] eqn:G0. inversion G; subst. cbn [occ_env forallb].
        specialize (IH env cenv cs0 env' HR G0).
        destruct (var_lookup cenv x) as [c0|] eqn:Lc; [|contradiction].
        unfold cvalb at 1. cbn [cpred cargs]. rewrite HRx.
        destruct (char_of k) as [ch|].
        * rewrite (N.eqb_sym ch c0). destruct (N.eqb c0 ch); cbn [andb].
          -- exact IH.
          -- split; [intros [c X]; discriminate|intros [X _]; discriminate].
        * split; [intros [c X]; discriminate|intros [X _]; discriminate].
      + destruct (var_lookup cenv x) as [c0|] eqn:Lc; [contradiction|].
        cbn [occ_env]. rewrite Lc.
        assert (Lk' : glookup env' x = Some k).
        { eapply gloop_mono; eauto. cbn. now rewrite N.eqb_refl. }
        destruct (char_of k) as [ch|] eqn:Ck.
        * assert (HR' : R ((x, k) :: env) ((x, ch) :: cenv)).
          { intros y. cbn. destruct (N.eqb_spec y x); [exact Ck|apply HR]. }
          rewrite (IH _ _ _ _ HR' G). split.
          -- intros [Hc Hn]. split; auto. intros y k0 H1 H2.
             destruct (N.eq_dec y x) as [->|Hne].
             ++ rewrite Lk' in H1. inversion H1; subst. congruence.
             ++ apply (Hn y k0 H1). cbn. destruct (N.eqb_spec y x); [contradiction|exact H2].
          -- intros [Hc Hn]. split; auto. intros y k0 H1 H2. cbn in H2.
             destruct (N.eqb_spec y x); [discriminate|]. apply (Hn y k0 H1 H2).
        * split; [intros [c X]; discriminate|].
          intros [_ Hn]. exfalso. apply (Hn x k Lk' Lx). exact Ck.
  Qed.

  (** every true constraint has all its argument cells on existing characters *)
  Lemma cvalb_args_exist c k : cvalb c = true -> In k (cargs c) -> char_of k <> None.
  Proof.
    unfold cvalb. destruct c as [[|l] args]; cbn.
    - destruct args as [|k1 [|k2 [|k3 r]]]; try discriminate.
      destruct (char_of k1) eqn:C1; [|discriminate]. destruct (char_of k2) eqn:C2; [|discriminate].
      intros _ [<-|[<-|[]]]; congruence.
    - destruct args as [|k1 [|k2 r]]; try discriminate.
      destruct (char_of k1) eqn:C1; [|discriminate]. intros _ [<-|[]]. congruence.
  Qed.

  Lemma glookup_none_notin (env : list (N * K)) x : glookup env x = None -> ~ In x (map fst env).
  Proof.
    induction env as [|[y p] env IH]; cbn; [tauto|].
    destruct (N.eqb_spec x y); [discriminate|]. intros L [E|Hin]; [congruence|]. now apply IH.
  Qed.

  Lemma glookup_of_in (env : list (N * K)) x k :
    NoDup (map fst env) -> In (x, k) env -> glookup env x = Some k.
  Proof.
    induction env as [|[y p] env IH]; cbn; [tauto|].
    intros Hnd [E|Hin].
    - inversion E; subst. now rewrite N.eqb_refl.
    - inversion Hnd; subst. destruct (N.eqb_spec x y).
      + subst. exfalso. apply H1. apply in_map_iff. exists (y, k). auto.
      + auto.
  Qed.

  Lemma gloop_nodup cells : forall env cs env',
    NoDup (map fst env) -> gloop cells env = (cs, env') -> NoDup (map fst env').
  Proof.
    induction cells as [|[k [l|y]] r IH]; intros env cs env' Hnd G; cbn in G.
    - inversion G; subst. exact Hnd.
    - destruct (gloop r env) as [cs0 e0] eqn:G0. inversion G; subst. eapply IH; eauto.
    - destruct (glookup env y) as [f|] eqn:Ly.
      + destruct (gloop r env) as [cs0 e0] eqn:G0. inversion G; subst. eapply IH; eauto.
      + eapply IH; [|exact G]. cbn. constructor; auto. now apply glookup_none_notin.
  Qed.

  (** keys of the first cells of the variables recorded by the loop *)
  Lemma gloop_env_keys cells : forall env cs env' x k0,
    gloop cells env = (cs, env') -> glookup env' x = Some k0 -> glookup env x = None ->
    In (k0, Var x) cells.
  Proof.
    induction cells as [|[k [l|y]] r IH]; intros env cs env' x k0 G L1 L0; cbn in G.
    - inversion G; subst. congruence.
    - destruct (gloop r env) as [cs0 e0] eqn:G0. inversion G; subst. right. eapply IH; eauto.
    - destruct (glookup env y) as [f|] eqn:Ly.
      + destruct (gloop r env) as [cs0 e0] eqn:G0. inversion G; subst. right. eapply IH; eauto.
      + destruct (N.eq_dec x y) as [->|Hne].
        * assert (glookup env' y = Some k).
          { eapply gloop_mono; eauto. cbn. now rewrite N.eqb_refl. }
          rewrite H in L1. inversion L1; subst. now left.
        * right. eapply IH; eauto. cbn. destruct (N.eqb_spec x y); [contradiction|exact L0].
  Qed.
End Cells.
