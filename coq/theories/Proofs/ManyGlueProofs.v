(** C06, second half: numbering by input position, Skip leaves a pattern out
    without renumbering the others, Fail returns the first conversion error;
    get_pattern / n_patterns reflect exactly the compiled patterns. *)
From PM Require Import Model.Prelude Model.ManyGlue.
Local Open Scope N_scope.
Arguments N.add : simpl never.

Section ManyGlueProofs.
  Context {PT CS E : Type}.
  Variable convert : PT -> E + CS.

  Definition convertible (p : PT) : Prop := exists cs, convert p = inr cs.

  (** Skip never fails; what is handed to the builder is exactly the convertible
      patterns, each under its input position, in input order *)
  Lemma compile_skip_from : forall pats i,
    exists l, compile_from convert FSkip i pats = inr l
      /\ (forall id cs, In (id, cs) l <->
            exists k p, nth_error pats k = Some p /\ convert p = inr cs /\ id = i + N.of_nat k)
      /\ (forall id cs, In (id, cs) l -> i <= id)
      /\ NoDup (map fst l).
  Proof.
    induction pats as [|p ps IH]; intros i; cbn [compile_from].
    - exists []. split; [reflexivity|]. split; [|split; [intros id cs []|constructor]].
      intros id cs. split; [intros []|]. intros [k [p [Hk _]]]. destruct k; discriminate.
    - destruct (IH (i + 1)) as [l [El [Hl [Hge Hnd]]]]. destruct (convert p) as [e|cs0] eqn:Ec.
      + exists l. split; [exact El|]. split; [|split; [|exact Hnd]].
        * intros id cs. rewrite Hl. split.
          -- intros [k [q [Hk [Hc Eid]]]]. exists (S k), q. cbn [nth_error]. split; [exact Hk|]. split; [exact Hc|lia].
          -- intros [k [q [Hk [Hc Eid]]]]. destruct k as [|k]; cbn [nth_error] in Hk.
             ++ inversion Hk; subst q. congruence.
             ++ exists k, q. split; [exact Hk|]. split; [exact Hc|lia].
        * intros id cs Hin. specialize (Hge id cs Hin). lia.
      + rewrite El. exists ((i, cs0) :: l). split; [reflexivity|]. split; [|split].
        * intros id cs. cbn [In]. rewrite Hl. split.
          -- intros [Eq|[k [q [Hk [Hc Eid]]]]].
             ++ inversion Eq; subst id cs. exists 0%nat, p. cbn. split; [reflexivity|]. split; [exact Ec|lia].
             ++ exists (S k), q. cbn [nth_error]. split; [exact Hk|]. split; [exact Hc|lia].
          -- intros [k [q [Hk [Hc Eid]]]]. destruct k as [|k]; cbn [nth_error] in Hk.
             ++ inversion Hk; subst q. rewrite Ec in Hc. inversion Hc; subst cs0. left. f_equal. lia.
             ++ right. exists k, q. split; [exact Hk|]. split; [exact Hc|lia].
        * intros id cs [Eq|Hin]; [inversion Eq; lia|]. specialize (Hge id cs Hin). lia.
        * cbn [map fst]. constructor; [|exact Hnd]. intros Hin. apply in_map_iff in Hin as [[id cs] [Eid Hin]].
          cbn [fst] in Eid. subst id. specialize (Hge i cs Hin). lia.
  Qed.

  Theorem compile_skip pats :
    exists l, compile convert FSkip pats = inr l
      /\ (forall id cs, In (id, cs) l <->
            exists p, nth_error pats (N.to_nat id) = Some p /\ convert p = inr cs)
      /\ NoDup (map fst l).
  Proof.
    destruct (compile_skip_from pats 0) as [l [El [Hl [_ Hnd]]]]. exists l. split; [exact El|]. split; [|exact Hnd].
    intros id cs. rewrite Hl. split.
    - intros [k [p [Hk [Hc Eid]]]]. exists p. split; [|exact Hc]. replace (N.to_nat id) with k by lia. exact Hk.
    - intros [p [Hk Hc]]. exists (N.to_nat id), p. split; [exact Hk|]. split; [exact Hc|lia].
  Qed.

  (** Fail: the error of the first pattern that does not convert, else the same list as Skip *)
  Lemma compile_fail_from : forall pats i,
    match compile_from convert FFail i pats with
    | inr l => (forall p, In p pats -> convertible p) /\ compile_from convert FSkip i pats = inr l
    | inl e => exists l1 p l2, pats = l1 ++ p :: l2 /\ convert p = inl e /\ forall q, In q l1 -> convertible q
    end.
  Proof.
    induction pats as [|p ps IH]; intros i; cbn [compile_from].
    - split; [intros p []|reflexivity].
    - destruct (convert p) as [e|cs0] eqn:Ec.
      + exists [], p, ps. split; [reflexivity|]. split; [exact Ec|intros q []].
      + specialize (IH (i + 1)). destruct (compile_from convert FFail (i + 1) ps) as [e|l].
        * destruct IH as [l1 [q [l2 [Eps [Eq Hall]]]]]. exists (p :: l1), q, l2. split; [now rewrite Eps|]. split; [exact Eq|].
          intros r [<-|Hr]; [exists cs0; exact Ec|auto].
        * destruct IH as [Hall Es]. split.
          -- intros q [<-|Hq]; [exists cs0; exact Ec|auto].
          -- now rewrite Es.
  Qed.

  Theorem compile_fail pats :
    match compile convert FFail pats with
    | inr l => (forall p, In p pats -> convertible p) /\ compile convert FSkip pats = inr l
    | inl e => exists l1 p l2, pats = l1 ++ p :: l2 /\ convert p = inl e /\ forall q, In q l1 -> convertible q
    end.
  Proof. apply compile_fail_from. Qed.

  (** the pattern table *)
  Lemma get_table_from : forall (pats : list PT) i ids id,
    get_pattern (table_from i pats ids) id =
    if (i <=? id) && memb N.eqb id ids then nth_error pats (N.to_nat (id - i)) else None.
  Proof.
    induction pats as [|p ps IH]; intros i ids id; cbn [table_from get_pattern].
    - destruct ((i <=? id) && memb N.eqb id ids); [|reflexivity]. now destruct (N.to_nat (id - i)).
    - destruct (memb N.eqb i ids) eqn:Em; cbn [app get_pattern].
      + destruct (N.eqb_spec id i) as [->|Hne].
        * rewrite N.leb_refl, Em. cbn. rewrite N.sub_diag. reflexivity.
        * rewrite IH. destruct (N.leb_spec (i + 1) id); destruct (N.leb_spec i id); try lia; cbn [andb]; [|reflexivity].
          destruct (memb N.eqb id ids); [|reflexivity].
          replace (N.to_nat (id - i)) with (S (N.to_nat (id - (i + 1)))) by lia. reflexivity.
      + rewrite IH. destruct (N.eqb_spec id i) as [->|Hne].
        * rewrite N.leb_refl, Em. destruct (N.leb_spec (i + 1) i); [lia|reflexivity].
        * destruct (N.leb_spec (i + 1) id); destruct (N.leb_spec i id); try lia; cbn [andb]; [|reflexivity].
          destruct (memb N.eqb id ids); [|reflexivity].
          replace (N.to_nat (id - i)) with (S (N.to_nat (id - (i + 1)))) by lia. reflexivity.
  Qed.

  Theorem get_pattern_spec (pats : list PT) ids id :
    get_pattern (pattern_table pats ids) id = if memb N.eqb id ids then nth_error pats (N.to_nat id) else None.
  Proof.
    unfold pattern_table. rewrite get_table_from. rewrite N.sub_0_r.
    assert (0 <=? id = true) as -> by (apply N.leb_le; lia). reflexivity.
  Qed.

  Lemma table_length_from : forall (pats : list PT) i ids,
    length (table_from i pats ids) = length (filter (fun k => memb N.eqb (i + N.of_nat k) ids) (seq 0 (length pats))).
  Proof.
    induction pats as [|p ps IH]; intros i ids; cbn [table_from length seq filter]; [reflexivity|].
    rewrite app_length, IH. replace (i + N.of_nat 0) with i by lia.
    assert (Efs : filter (fun k => memb N.eqb (i + N.of_nat k) ids) (seq 1 (length ps))
                = map S (filter (fun k => memb N.eqb (i + 1 + N.of_nat k) ids) (seq 0 (length ps)))).
    { rewrite <- seq_shift. generalize (seq 0 (length ps)) as l. induction l as [|x xs IHx]; cbn [map filter]; [reflexivity|].
      replace (i + N.of_nat (S x)) with (i + 1 + N.of_nat x) by lia.
      destruct (memb N.eqb (i + 1 + N.of_nat x) ids); cbn [map]; now rewrite IHx. }
    destruct (memb N.eqb i ids); cbn [length app]; rewrite Efs, map_length; lia.
  Qed.

  (** with the ids the builder returns (those handed to it), get_pattern answers
      exactly for the convertible patterns, with the pattern at that position *)
  Theorem skip_table pats l :
    compile convert FSkip pats = inr l ->
    forall id, get_pattern (pattern_table pats (map fst l)) id =
               match nth_error pats (N.to_nat id) with
               | Some p => match convert p with inr _ => Some p | inl _ => None end
               | None => None
               end.
  Proof.
    intros El id. destruct (compile_skip pats) as [l' [El' [Hl _]]]. rewrite El in El'. inversion El'; subst l'.
    rewrite get_pattern_spec.
    destruct (memb N.eqb id (map fst l)) eqn:Em.
    - apply (memb_in N.eqb N.eqb_eq) in Em. apply in_map_iff in Em as [[id' cs] [Eid Hin]]. cbn [fst] in Eid. subst id'.
      apply Hl in Hin as [p [Hp Hc]]. rewrite Hp, Hc. reflexivity.
    - destruct (nth_error pats (N.to_nat id)) as [p|] eqn:Hp; [|reflexivity].
      destruct (convert p) as [e|cs] eqn:Hc; [reflexivity|]. exfalso.
      assert (In (id, cs) l) by (apply Hl; eauto).
      assert (In id (map fst l)) by (apply in_map_iff; exists (id, cs); auto).
      apply (memb_in N.eqb N.eqb_eq) in H0. congruence.
  Qed.
  Lemma table_compile_length : forall pats i l ids0,
    compile_from convert FSkip i pats = inr l -> (forall x, In x ids0 -> x < i) ->
    length (table_from i pats (ids0 ++ map fst l)) = length l.
  Proof.
    induction pats as [|p ps IH]; intros i l ids0 El Hlt; cbn [compile_from] in El; cbn [table_from].
    - inversion El; subst. reflexivity.
    - destruct (compile_skip_from ps (i + 1)) as [l' [El' [_ [Hge _]]]].
      destruct (convert p) as [e|cs0] eqn:Ec.
      + rewrite El' in El. inversion El; subst l'.
        assert (memb N.eqb i (ids0 ++ map fst l) = false) as ->.
        { apply (memb_not_in N.eqb N.eqb_eq). intros Hin. apply in_app_or in Hin as [Hin|Hin].
          - specialize (Hlt i Hin). lia.
          - apply in_map_iff in Hin as [[id cs] [Eid Hin]]. cbn [fst] in Eid. subst id. specialize (Hge i cs Hin). lia. }
        cbn [app]. apply IH; [exact El'|]. intros x Hx. specialize (Hlt x Hx). lia.
      + rewrite El' in El. inversion El; subst l. cbn [map fst].
        assert (memb N.eqb i (ids0 ++ i :: map fst l') = true) as ->.
        { apply (memb_in N.eqb N.eqb_eq). apply in_or_app. right. now left. }
        cbn [app length]. f_equal.
        replace (ids0 ++ i :: map fst l') with ((ids0 ++ [i]) ++ map fst l') by (rewrite <- app_assoc; reflexivity).
        apply IH; [exact El'|]. intros x Hx. apply in_app_or in Hx as [Hx|[<-|[]]]; [specialize (Hlt x Hx)|]; lia.
  Qed.

  (** n_patterns counts exactly the patterns handed to the builder *)
  Theorem skip_n_patterns pats l :
    compile convert FSkip pats = inr l -> n_patterns (pattern_table pats (map fst l)) = length l.
  Proof. intros El. apply (table_compile_length pats 0 l [] El). intros x []. Qed.
End ManyGlueProofs.
