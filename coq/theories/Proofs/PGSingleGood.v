(** C05 / C02 / C11, port graphs, the positive half: for a pattern that passes the
    per-pattern validation [pg_good_pattern] (every key hangs off the single index
    root Root(0) and the walk of the pattern itself from the root reaches every
    keyed node at the recorded distance — what fails exactly for the known classes
    D5 / D6), every embedding into a well-formed host is reported by the
    single-pattern matcher, with every pattern node bound to its image. *)
From PM Require Import Model.Prelude Model.Domain Model.Constraint Model.BindAll Model.Scheme Model.Matchers Model.BindMaps
  Model.DomString Model.DomPGKeys Model.DomPG Model.DomPGPattern Spec.TopoSpec
  Proofs.SchemeProofs Proofs.PGTreeProofs Proofs.PGLawful Proofs.PGEmbed Proofs.PGComplete Proofs.PGEmbedComplete
  Proofs.SingleComplete Proofs.PGSingleComplete Proofs.PGWalkEmbed
  Model.Automaton Model.Traversal Cert.WfCheck Cert.WinCheck Cert.PGCert Proofs.WfSound Proofs.MatrixRun Proofs.PGRunComplete Proofs.PGRunSingleRoot.
Local Open Scope N_scope.

Definition pg_good_pattern (P : pghost) (root : N) (cs : list pgconstraint) (nk : list (N * pgkey)) : bool :=
  forallb (fun e : N * pgkey =>
             match snd e with
             | PathRoot i => N.eqb i 0 && N.eqb (fst e) root
             | AlongPath r p len =>
                 N.eqb r 0 && match nth_error (walk_nodes P root p) (N.to_nat len) with
                              | Some n => N.eqb n (fst e)
                              | None => false
                              end
             end) nk
  && forallb (fun c : pgconstraint => forallb (fun k => memb pgkey_eqb k (map snd nk)) (cargs c)) cs
  && forallb (fun e : N * pgkey => existsb (fun c : pgconstraint => memb pgkey_eqb (snd e) (cargs c)) cs) nk
  && existsb (fun e : N * pgkey => N.eqb (fst e) root && pgkey_eqb (snd e) (PathRoot 0)) nk.

Definition pg_embedding (P H : pghost) (root : N) (nk : list (N * pgkey)) (f : N -> N) : Prop :=
  (forall a oa b ib, In (a, oa, b, ib) (pg_links P) -> In (f a, oa, f b, ib) (pg_links H))
  /\ (forall u v, (pnode P u \/ In u (map fst nk)) -> (pnode P v \/ In v (map fst nk)) -> f u = f v -> u = v)
  /\ In (f root) (live_nodes H).

Lemma nodup_map_inj_in {X Y} (g : X -> Y) (l : list X) :
  (forall x y, In x l -> In y l -> g x = g y -> x = y) -> NoDup l -> NoDup (map g l).
Proof.
  induction l as [|x xs IH]; intros Hi Hn; cbn [map]; [constructor|]. inversion Hn as [|? ? Hx Hxs]; subst.
  constructor.
  - intros Hin. apply in_map_iff in Hin as [y [Ey Hy]]. assert (y = x) by (apply Hi; [now right|now left|exact Ey]). subst. contradiction.
  - apply IH; [|exact Hxs]. intros a b Ha Hb. apply Hi; now right.
Qed.

Lemma links_le P H root nk f : pg_host_wfb P = true -> pg_embedding P H root nk f ->
  (length (pg_links P) <= length (pg_links H))%nat.
Proof.
  intros Hw [Hl [Hi _]].
  assert (Hnd : NoDup (pg_links P)).
  { unfold pg_host_wfb in Hw. apply andb_true_iff in Hw as [Hw _]. apply andb_true_iff in Hw as [_ H2].
    apply (nodupb_NoDup _ pair_eqb_spec) in H2. now apply NoDup_map_inv in H2. }
  set (g := fun l : N * N * N * N => let '(a, oa, b, ib) := l in (f a, oa, f b, ib)).
  rewrite <- (map_length g). apply NoDup_incl_length.
  - apply nodup_map_inj_in; [|exact Hnd]. intros [[[a oa] b] ib] [[[a' oa'] b'] ib'] H1 H2 E. unfold g in E.
    inversion E as [[Ea Eo Eb Ei]]. subst oa' ib'.
    assert (Pa : pnode P a) by (exists (a, oa, b, ib); split; [exact H1|cbn; auto]).
    assert (Pb : pnode P b) by (exists (a, oa, b, ib); split; [exact H1|cbn; auto]).
    assert (Pa' : pnode P a') by (exists (a', oa, b', ib); split; [exact H2|cbn; auto]).
    assert (Pb' : pnode P b') by (exists (a', oa, b', ib); split; [exact H2|cbn; auto]).
    assert (a = a') by (apply Hi; [now left|now left|exact Ea]).
    assert (b = b') by (apply Hi; [now left|now left|exact Eb]).
    now subst.
  - intros x Hx. apply in_map_iff in Hx as [[[[a oa] b] ib] [<- Hin]]. unfold g. now apply Hl.
Qed.

Theorem pg_single_reports_embedding (P : pghost) (root : N) cs nk (H : pghost) (f : N -> N) fuel r :
  pg_cvec_full P root = Ok (cs, nk) -> lines_sound P root = true -> keys_distinct nk = true ->
  pg_good_pattern P root cs nk = true -> pg_host_wfb P = true -> pg_host_wfb H = true ->
  pg_embedding P H root nk f ->
  single pg_dom fuel cs H = Ok r ->
  exists m, In m r /\ forall u k, In (u, k) nk -> pgget m k = Some (f u).
Proof.
  intros CV Hls Hkd Hg HwP HwH He S.
  pose proof (links_le P H root nk f HwP He) as Hlen.
  destruct He as [Hl [Hi Hlive]].
  unfold pg_good_pattern in Hg. apply andb_true_iff in Hg as [Hg G4]. apply andb_true_iff in Hg as [Hg G3]. apply andb_true_iff in Hg as [G1 G2].
  rewrite forallb_forall in G1, G2, G3.
  assert (Hkd' : NoDup (map snd nk)).
  { unfold keys_distinct in Hkd. apply andb_true_iff in Hkd as [Hk1 _]. now apply (nodupb_NoDup pgkey_eqb pgkey_eqb_eq). }
  assert (Hroot : In (root, PathRoot 0) nk).
  { apply existsb_exists in G4 as [[u k] [Hin E]]. cbn [fst snd] in E. apply andb_true_iff in E as [E1 E2].
    apply N.eqb_eq in E1. apply pgkey_eqb_eq in E2. now subst. }
  assert (Hsat : forall c, In c cs -> pgval H (bind_of f nk) c = true).
  { apply (pg_embedding_satisfies P root H f cs nk CV Hls Hkd HwH Hl).
    intros u k u' k' H1 H2 Hne E. apply Hne. apply Hi; [right|right|exact E].
    - apply in_map_iff. exists (u, k). auto.
    - apply in_map_iff. exists (u', k'). auto. }
  unfold single, single_ext in S.
  destruct (requested pg_dom fuel [] cs) as [reqk| |] eqn:Rq; cbn [rbind] in S; try discriminate.
  unfold requested, amb in Rq. change (keqb pg_dom) with pgkey_eqb in Rq. change (req pg_dom) with pg_req in Rq.
  destruct (all_missing_ok pgkey_eqb pg_req pgkey_eqb_eq fuel _ [] reqk pg_req_acyclic Rq) as [_ [Hreqk _]]. cbn [app] in Hreqk.
  destruct (pg_single_loop_reports H f nk root cs Hkd' Hroot) with (reqk := reqk) (fuel := fuel) (r := r) as [m [Hm HQ]]; auto.
  - (* single root *)
    intros u k Hin. specialize (G1 (u, k) Hin). cbn [fst snd] in G1. destruct k as [i|r0 p len].
    + apply andb_true_iff in G1 as [E _]. now apply N.eqb_eq in E.
    + apply andb_true_iff in G1 as [E _]. now apply N.eqb_eq in E.
  - (* walks commute with the embedding *)
    intros u p len Hin. specialize (G1 (u, AlongPath 0 p len) Hin). cbn [fst snd] in G1. apply andb_true_iff in G1 as [_ G1].
    destruct (nth_error (walk_nodes P root p) (N.to_nat len)) as [n|] eqn:En; [|discriminate]. apply N.eqb_eq in G1. subst n.
    apply (walk_nodes_embed P H f (pg_host_wfb_sound H HwH) Hl); [|exact Hlen|exact En].
    intros a b Ha Hb. apply Hi; now left.
  - intros c k Hc Hk. specialize (G2 c Hc). rewrite forallb_forall in G2. apply (memb_in pgkey_eqb pgkey_eqb_eq). now apply G2.
  - exists m. split; [exact Hm|]. intros u k Hin. apply HQ; [exact Hin|].
    apply Hreqk. specialize (G3 (u, k) Hin). apply existsb_exists in G3 as [c [Hc Hk]]. cbn [snd] in Hk.
    apply (memb_in pgkey_eqb pgkey_eqb_eq) in Hk. exists k. split; [apply in_flat_map; exists c; auto|]. constructor. tauto.
Qed.

(** ** the same for the automaton (C02, run level): on a well-formed automaton that
    passes the completeness certificate for the constraint list of a good pattern,
    and all of whose keys are keys of that pattern, the breadth-first run reports
    every embedding, with every recorded key bound to the image of its node *)
Definition aut_keys_in (nk : list (N * pgkey)) (A : automaton pgkey pgpred) : bool :=
  forallb (fun st => forallb (fun k => memb pgkey_eqb k (map snd nk)) (useful_keys pg_dom st)) (au_states A).

Theorem pg_run_reports_embedding (P : pghost) (root : N) cs nk (H : pghost) (f : N -> N)
        (A : automaton pgkey pgpred) rk ids css pres i fuel ms :
  pg_cvec_full P root = Ok (cs, nk) -> lines_sound P root = true -> keys_distinct nk = true ->
  pg_good_pattern P root cs nk = true -> pg_host_wfb P = true -> pg_host_wfb H = true ->
  pg_embedding P H root nk f ->
  wf_check pg_dom A rk ids = true -> cert_complete pg_entails pg_refutes A css pres = true ->
  nth_error css i = Some cs -> nth_error pres i = Some true -> aut_keys_in nk A = true ->
  run pg_dom fuel A H = Ok ms ->
  exists st keys b, In st (au_states A) /\ In (N.of_nat i, keys) (a_matches st) /\ In (N.of_nat i, b) ms
    /\ forall k, In k keys -> exists u, In (u, k) nk /\ pgget b k = Some (f u).
Proof.
  intros CV Hls Hkd Hg HwP HwH He W CC Hcs Hpr Hak R.
  pose proof (links_le P H root nk f HwP He) as Hlen.
  destruct He as [Hl [Hi Hlive]].
  unfold pg_good_pattern in Hg. apply andb_true_iff in Hg as [Hg G4]. apply andb_true_iff in Hg as [Hg G3]. apply andb_true_iff in Hg as [G1 G2].
  rewrite forallb_forall in G1, G2, G3.
  assert (Hkd' : NoDup (map snd nk)).
  { unfold keys_distinct in Hkd. apply andb_true_iff in Hkd as [Hk1 _]. now apply (nodupb_NoDup pgkey_eqb pgkey_eqb_eq). }
  assert (Hroot : In (root, PathRoot 0) nk).
  { apply existsb_exists in G4 as [[u k] [Hin E]]. cbn [fst snd] in E. apply andb_true_iff in E as [E1 E2].
    apply N.eqb_eq in E1. apply pgkey_eqb_eq in E2. now subst. }
  assert (Hsat : forall c, In c cs -> pgval H (bind_of f nk) c = true).
  { apply (pg_embedding_satisfies P root H f cs nk CV Hls Hkd HwH Hl).
    intros u k u' k' H1 H2 Hne E. apply Hne. apply Hi; [right|right|exact E].
    - apply in_map_iff. exists (u, k). auto.
    - apply in_map_iff. exists (u', k'). auto. }
  pose proof (wf_check_sound pg_dom pg_dom_eq A rk ids W) as HWF.
  pose proof (pg_cert_complete_sound A css pres i cs H (bind_of f nk) CC Hcs Hpr Hsat) as Hacc.
  destruct (pg_run_reports H f nk root Hkd' Hroot) with (A := A) (ids := ids) (fuel := fuel) (ms := ms) (p := N.of_nat i)
    as [st [keys [b [Hst [Hpk [Hb Hk]]]]]]; auto.
  - intros u k Hin. specialize (G1 (u, k) Hin). cbn [fst snd] in G1. destruct k as [j|r0 p len].
    + apply andb_true_iff in G1 as [E _]. now apply N.eqb_eq in E.
    + apply andb_true_iff in G1 as [E _]. now apply N.eqb_eq in E.
  - intros u p len Hin. specialize (G1 (u, AlongPath 0 p len) Hin). cbn [fst snd] in G1. apply andb_true_iff in G1 as [_ G1].
    destruct (nth_error (walk_nodes P root p) (N.to_nat len)) as [n|] eqn:En; [|discriminate]. apply N.eqb_eq in G1. subst n.
    apply (walk_nodes_embed P H f (pg_host_wfb_sound H HwH) Hl); [|exact Hlen|exact En].
    intros a b0 Ha Hb0. apply Hi; now left.
  - intros st k Hst Hk. unfold aut_keys_in in Hak. rewrite forallb_forall in Hak. specialize (Hak st Hst).
    rewrite forallb_forall in Hak. apply (memb_in pgkey_eqb pgkey_eqb_eq). now apply Hak.
  - exists st, keys, b. split; [exact Hst|]. split; [exact Hpk|]. split; [exact Hb|].
    intros k Hk'. destruct (Hk k Hk') as [Hne Eq].
    assert (Hik : In k (map snd nk)).
    { unfold aut_keys_in in Hak. rewrite forallb_forall in Hak. specialize (Hak st Hst). rewrite forallb_forall in Hak.
      apply (memb_in pgkey_eqb pgkey_eqb_eq). apply Hak. unfold useful_keys. apply in_or_app. right. unfold unique_keys.
      apply (MatrixRun.uniq_in_gen pgkey_eqb pgkey_eqb_eq). apply in_flat_map. exists (N.of_nat i, keys). auto. }
    apply in_map_iff in Hik as [[u k'] [Ek Hin]]. cbn [snd] in Ek. subst k'.
    exists u. split; [exact Hin|]. rewrite Eq. now apply pgget_bind_of.
Qed.

(** ** sets of single-root patterns (C02, run level, the general positive statement):
    every key of the automaton hangs off Root(0) — any number of patterns, as long
    as none needs a second index root — and the keys recorded for pattern i are keys
    of the good pattern P.  Then every embedding of P is reported. *)
Definition aut_single_root (A : automaton pgkey pgpred) : bool :=
  forallb (fun st => forallb srk (useful_keys pg_dom st)) (au_states A).

Definition match_keys_in (nk : list (N * pgkey)) (A : automaton pgkey pgpred) (i : N) : bool :=
  forallb (fun st => forallb (fun pk : N * list pgkey =>
                                negb (N.eqb (fst pk) i) || forallb (fun k => memb pgkey_eqb k (map snd nk)) (snd pk))
                             (a_matches st)) (au_states A).

Lemma resolve_args_ext (m1 m2 : pgmap) args : (forall k, In k args -> pgget m1 k = pgget m2 k) ->
  resolve_args pg_dom m1 args = resolve_args pg_dom m2 args.
Proof.
  induction args as [|k ks IH]; intros He; [reflexivity|]. cbn [resolve_args].
  change (mget pg_dom m1 k) with (pgget m1 k). change (mget pg_dom m2 k) with (pgget m2 k).
  rewrite (He k (or_introl eq_refl)). destruct (pgget m2 k); [|reflexivity].
  rewrite IH; [reflexivity|]. intros x Hx. apply He. now right.
Qed.

Theorem pg_run_reports_embedding_single_root_sets (P : pghost) (root : N) cs nk (H : pghost) (f : N -> N)
        (A : automaton pgkey pgpred) rk ids css pres i fuel ms :
  pg_cvec_full P root = Ok (cs, nk) -> lines_sound P root = true -> keys_distinct nk = true ->
  pg_good_pattern P root cs nk = true -> pg_host_wfb P = true -> pg_host_wfb H = true ->
  pg_embedding P H root nk f ->
  wf_check pg_dom A rk ids = true -> cert_complete pg_entails pg_refutes A css pres = true ->
  nth_error css i = Some cs -> nth_error pres i = Some true ->
  aut_single_root A = true -> match_keys_in nk A (N.of_nat i) = true ->
  run pg_dom fuel A H = Ok ms ->
  exists st keys b, In st (au_states A) /\ In (N.of_nat i, keys) (a_matches st) /\ In (N.of_nat i, b) ms
    /\ forall k, In k keys -> exists u, In (u, k) nk /\ pgget b k = Some (f u).
Proof.
  intros CV Hls Hkd Hg HwP HwH He W CC Hcs Hpr Hsr Hmk R.
  pose proof (links_le P H root nk f HwP He) as Hlen.
  destruct He as [Hl [Hi Hlive]].
  unfold pg_good_pattern in Hg. apply andb_true_iff in Hg as [Hg G4]. apply andb_true_iff in Hg as [Hg G3]. apply andb_true_iff in Hg as [G1 G2].
  rewrite forallb_forall in G1, G2, G3.
  assert (Hkd' : NoDup (map snd nk)).
  { unfold keys_distinct in Hkd. apply andb_true_iff in Hkd as [Hk1 _]. now apply (nodupb_NoDup pgkey_eqb pgkey_eqb_eq). }
  assert (Hsat : forall c, In c cs -> pgval H (bind_of f nk) c = true).
  { apply (pg_embedding_satisfies P root H f cs nk CV Hls Hkd HwH Hl).
    intros u k u' k' H1 H2 Hne E. apply Hne. apply Hi; [right|right|exact E].
    - apply in_map_iff. exists (u, k). auto.
    - apply in_map_iff. exists (u', k'). auto. }
  set (KL := flat_map (useful_keys pg_dom) (au_states A) ++ map snd nk).
  (* what the host offers for the keys of the pattern: the images of their nodes *)
  assert (Hmv : forall u k, In (u, k) nk -> mv H (f root) k = Some (f u)).
  { intros u k Hin. specialize (G1 (u, k) Hin). cbn [fst snd] in G1. destruct k as [j|r0 p len]; cbn [mv].
    - apply andb_true_iff in G1 as [E1 E2]. apply N.eqb_eq in E1, E2. subst. reflexivity.
    - apply andb_true_iff in G1 as [E1 G1]. apply N.eqb_eq in E1. subst r0. rewrite N.eqb_refl.
      destruct (nth_error (walk_nodes P root p) (N.to_nat len)) as [n|] eqn:En; [|discriminate]. apply N.eqb_eq in G1. subst n.
      apply (walk_nodes_embed P H f (pg_host_wfb_sound H HwH) Hl); [|exact Hlen|exact En].
      intros a b0 Ha Hb0. apply Hi; now left. }
  assert (Hsat' : forall c, In c cs -> pgval H (mst H (f root) KL) c = true).
  { intros c Hc. rewrite <- (Hsat c Hc). unfold pgval. f_equal.
    rewrite (resolve_args_ext (mst H (f root) KL) (bind_of f nk) (cargs c)); [reflexivity|].
    intros k Hk. specialize (G2 c Hc). rewrite forallb_forall in G2. specialize (G2 k Hk).
    apply (memb_in pgkey_eqb pgkey_eqb_eq) in G2. pose proof G2 as G2'.
    apply in_map_iff in G2 as [[u k'] [Ek Hin]]. cbn [snd] in Ek. subst k'.
    rewrite (mst_get H (f root) KL k); [|unfold KL; apply in_or_app; now right].
    rewrite (Hmv u k Hin). symmetry. now apply pgget_bind_of. }
  pose proof (wf_check_sound pg_dom pg_dom_eq A rk ids W) as HWF.
  pose proof (pg_cert_complete_sound A css pres i cs H (mst H (f root) KL) CC Hcs Hpr Hsat') as Hacc.
  destruct (run_reports2 H (f root) Hlive KL A ids fuel ms (N.of_nat i) HWF) as [st [keys [b [Hst [Hpk [Hb Hk]]]]]]; auto.
  - intros st k Hst Hk. split.
    + unfold aut_single_root in Hsr. rewrite forallb_forall in Hsr. specialize (Hsr st Hst). rewrite forallb_forall in Hsr. now apply Hsr.
    + unfold KL. apply in_or_app. left. apply in_flat_map. exists st. auto.
  - intros st keys Hst Hpk k Hk. unfold match_keys_in in Hmk. rewrite forallb_forall in Hmk. specialize (Hmk st Hst).
    rewrite forallb_forall in Hmk. specialize (Hmk _ Hpk). cbn [fst snd] in Hmk. rewrite N.eqb_refl in Hmk. cbn [negb orb] in Hmk.
    rewrite forallb_forall in Hmk. specialize (Hmk k Hk). apply (memb_in pgkey_eqb pgkey_eqb_eq) in Hmk.
    apply in_map_iff in Hmk as [[u k'] [Ek Hin]]. cbn [snd] in Ek. subst k'. rewrite (Hmv u k Hin). discriminate.
  - exists st, keys, b. split; [exact Hst|]. split; [exact Hpk|]. split; [exact Hb|].
    intros k Hk'. unfold match_keys_in in Hmk. rewrite forallb_forall in Hmk. specialize (Hmk st Hst).
    rewrite forallb_forall in Hmk. specialize (Hmk _ Hpk). cbn [fst snd] in Hmk. rewrite N.eqb_refl in Hmk. cbn [negb orb] in Hmk.
    rewrite forallb_forall in Hmk. specialize (Hmk k Hk'). apply (memb_in pgkey_eqb pgkey_eqb_eq) in Hmk.
    apply in_map_iff in Hmk as [[u k'] [Ek Hin]]. cbn [snd] in Ek. subst k'.
    exists u. split; [exact Hin|]. rewrite (Hk k Hk'). now apply Hmv.
Qed.
