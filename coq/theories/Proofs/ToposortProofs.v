(** C15: the online topological traversal under graph edits. *)
From PM Require Import Model.Prelude Model.Toposort.

Lemma Neqb_spec a b : N.eqb a b = true <-> a = b.
Proof. apply N.eqb_eq. Qed.

Notation memN := (memb N.eqb).
Definition memN_in := memb_in N.eqb Neqb_spec.
Definition memN_not_in := memb_not_in N.eqb Neqb_spec.

(** ** [uniq] keeps exactly the elements, once each *)
Lemma uniq_acc_in seen l x :
  In x (uniq_acc N.eqb seen l) <-> In x l /\ ~ In x seen.
Proof.
  revert seen. induction l as [|y l IH]; intros seen; cbn; [tauto|].
  destruct (memN y seen) eqn:M.
  - apply memN_in in M. rewrite IH. split; [intros [H1 H2]; auto|].
    intros [[<-|H1] H2]; [contradiction|auto].
  - apply memN_not_in in M. cbn. rewrite IH. cbn. split.
    + intros [<-|[H1 H2]]; [auto|]. split; [auto|]. intros C. apply H2. now right.
    + intros [[<-|H1] H2]; [auto|]. destruct (N.eq_dec y x) as [->|Hne]; [auto|].
      right. split; [auto|]. intros [C|C]; auto.
Qed.

Lemma uniq_acc_nodup seen l : NoDup (uniq_acc N.eqb seen l).
Proof.
  revert seen. induction l as [|y l IH]; intros seen; cbn; [constructor|].
  destruct (memN y seen) eqn:M; auto. constructor; auto.
  rewrite uniq_acc_in. cbn. tauto.
Qed.

Lemma uniq_in l x : In x (uniq N.eqb l) <-> In x l.
Proof. unfold uniq. rewrite uniq_acc_in. cbn. tauto. Qed.

Lemma uniq_nodup l : NoDup (uniq N.eqb l).
Proof. apply uniq_acc_nodup. Qed.

(** ** graph vocabulary *)
Lemma t_preds_in g n p : In p (t_preds g n) <-> In p (t_nodes g) /\ In n (t_outs g p).
Proof.
  unfold t_preds. rewrite filter_In, memN_in. tauto.
Qed.

Lemma t_ready_true g vis n :
  t_ready g vis n = true <-> forall p, In p (t_preds g n) -> In p vis.
Proof.
  unfold t_ready. rewrite forallb_forall. split; intros H p Hp.
  - apply memN_in. auto.
  - apply memN_in. auto.
Qed.

Lemma ready_succs_in g vis v n :
  In n (ready_succs g vis v) <-> In n (t_outs g v) /\ t_ready g vis n = true /\ ~ In n vis.
Proof.
  unfold ready_succs. rewrite uniq_in, filter_In, andb_true_iff, negb_true_iff, memN_not_in. tauto.
Qed.

Lemma ready_succs_nodup g vis v : NoDup (ready_succs g vis v).
Proof. apply uniq_nodup. Qed.

Lemma refill_some g vis order rs :
  refill g vis order = Some rs ->
  rs <> [] /\ NoDup rs /\
  exists v, In v order /\ forall n, In n rs -> In n (t_outs g v) /\ t_ready g vis n = true /\ ~ In n vis.
Proof.
  induction order as [|v vs IH]; cbn; [discriminate|].
  destruct (ready_succs g vis v) as [|r rs'] eqn:E.
  - intros H. destruct (IH H) as [H1 [H2 [v' [Hv H3]]]]. repeat split; auto. exists v'. auto.
  - intros H. inversion H; subst. split; [discriminate|]. split.
    + rewrite <- E. apply ready_succs_nodup.
    + exists v. split; auto. intros n Hn. apply ready_succs_in. now rewrite E.
Qed.

Lemma refill_none g vis order :
  refill g vis order = None -> forall v, In v order -> ready_succs g vis v = [].
Proof.
  induction order as [|v vs IH]; cbn; [intros _ v []|].
  destruct (ready_succs g vis v) as [|r rs'] eqn:E; [|discriminate].
  intros H v' [<-|Hv]; auto.
Qed.

(** ** the invariant of the traversal state *)
Definition ts_inv (st : ts_state) : Prop :=
  NoDup (ts_stack st) /\ NoDup (ts_visited st)
  /\ forall n, In n (ts_stack st) -> ~ In n (ts_visited st).

Lemma ts_inv_init root : ts_inv (ts_init root).
Proof. unfold ts_inv, ts_init; cbn. repeat split; try constructor; auto. constructor. Qed.

(** One call of [next]. *)
Definition next_post (g : tgraph) (order : list N) (st : ts_state) (r : option N) (st' : ts_state) : Prop :=
  match r with
  | Some n =>
      ts_visited st' = n :: ts_visited st
      /\ ~ In n (ts_visited st) /\ In n (t_nodes g)
      /\ (forall p, In p (t_preds g n) -> In p (ts_visited st))
  | None =>
      ts_visited st' = ts_visited st /\ ts_stack st' = []
      /\ refill g (ts_visited st) order = None
  end.

Lemma ts_next_spec fuel g order : forall st r st',
  ts_inv st -> ts_next fuel g order st = Ok (r, st') ->
  ts_inv st' /\ next_post g order st r st'.
Proof.
  induction fuel as [|f IH]; intros st r st' I E; cbn in E; [discriminate|].
  destruct I as [I1 [I2 I3]].
  (* the stack after an optional refill, with its invariant *)
  assert (Hstack : forall n rest,
    NoDup (n :: rest) -> (forall x, In x (n :: rest) -> ~ In x (ts_visited st)) ->
    (if memN n (t_nodes g) && t_ready g (ts_visited st) n
     then Ok (Some n, {| ts_visited := n :: ts_visited st; ts_stack := rest |})
     else ts_next f g order {| ts_visited := ts_visited st; ts_stack := rest |}) = Ok (r, st') ->
    ts_inv st' /\ next_post g order st r st').
  { intros n rest Hnd Hdis E'.
    destruct (memN n (t_nodes g) && t_ready g (ts_visited st) n) eqn:C.
    - inversion E'; subst. apply andb_true_iff in C as [C1 C2].
      apply memN_in in C1. rewrite t_ready_true in C2.
      split.
      + unfold ts_inv; cbn. inversion Hnd; subst. repeat split; auto.
        * constructor; auto. apply Hdis. now left.
        * intros x Hx [<-|Hv]; [contradiction|]. apply (Hdis x); [now right|auto].
      + cbn. repeat split; auto. apply Hdis. now left.
    - assert (I' : ts_inv {| ts_visited := ts_visited st; ts_stack := rest |}).
      { unfold ts_inv; cbn. inversion Hnd; subst. repeat split; auto.
        intros x Hx. apply Hdis. now right. }
      destruct (IH _ _ _ I' E') as [J P]. split; [exact J|exact P]. }
  destruct (ts_stack st) as [|n rest] eqn:S.
  - destruct (refill g (ts_visited st) order) as [rs|] eqn:R.
    + destruct (refill_some _ _ _ _ R) as [Hne [Hnd [v [Hv Hall]]]].
      destruct (rev rs) as [|n rest] eqn:Rv.
      { exfalso. apply Hne. apply (f_equal (@rev N)) in Rv. rewrite rev_involutive in Rv. exact Rv. }
      apply (Hstack n rest); auto.
      * rewrite <- Rv. apply NoDup_rev. exact Hnd.
      * intros x Hx. rewrite <- Rv in Hx. apply in_rev in Hx. apply Hall. exact Hx.
    + inversion E; subst. split; [unfold ts_inv; rewrite S; auto|].
      cbn. auto.
  - apply (Hstack n rest); auto.
Qed.

(** termination and absence of panics: on a graph whose edges end on existing
    nodes, [length stack + 2] iterations suffice *)
Definition t_closed (g : tgraph) : Prop :=
  forall v n, In n (t_outs g v) -> In n (t_nodes g).

Lemma ts_next_total g order : t_closed g ->
  forall fuel st, length (ts_stack st) + 2 <= fuel -> exists r, ts_next fuel g order st = Ok r.
Proof.
  intros Hc. induction fuel as [|f IH]; intros st Hf; [lia|]. cbn.
  destruct (ts_stack st) as [|n rest] eqn:S.
  - destruct (refill g (ts_visited st) order) as [rs|] eqn:R; [|eauto].
    destruct (refill_some _ _ _ _ R) as [Hne [Hnd [v [Hv Hall]]]].
    destruct (rev rs) as [|n rest] eqn:Rv; [eauto|].
    assert (Hn : In n rs). { apply in_rev. rewrite Rv. now left. }
    destruct (Hall n Hn) as [H1 [H2 H3]].
    assert (memN n (t_nodes g) = true) as -> by (apply memN_in; eapply Hc; eauto).
    rewrite H2. cbn. eauto.
  - destruct (memN n (t_nodes g) && t_ready g (ts_visited st) n); [eauto|].
    apply IH. cbn in *. lia.
Qed.

(** exhaustion: nothing unvisited is left in an acyclic graph all of whose
    sources have been emitted *)
Theorem refill_none_exhaustive g vis order (rank : N -> nat) :
  refill g vis order = None ->
  (forall v, In v vis -> In v order) ->
  (forall p n, In p (t_nodes g) -> In n (t_outs g p) -> rank p < rank n) ->
  (forall n, In n (t_nodes g) -> t_preds g n = [] -> In n vis) ->
  forall n, In n (t_nodes g) -> In n vis.
Proof.
  intros R Hcov Hrank Hsrc.
  assert (H : forall k n, rank n < k -> In n (t_nodes g) -> In n vis).
  { induction k as [|k IH]; intros n Hk Hn; [lia|].
    destruct (memN n vis) eqn:M; [now apply memN_in|]. apply memN_not_in in M.
    destruct (t_preds g n) as [|p ps] eqn:P; [auto|].
    assert (Hready : t_ready g vis n = true).
    { apply t_ready_true. intros q Hq. apply t_preds_in in Hq as [Hq1 Hq2].
      apply IH; auto. specialize (Hrank q n Hq1 Hq2). lia. }
    assert (Hp : In p (t_preds g n)) by (rewrite P; now left).
    apply t_preds_in in Hp as [Hp1 Hp2].
    assert (Hpv : In p vis). { apply IH; auto. specialize (Hrank p n Hp1 Hp2). lia. }
    pose proof (refill_none _ _ _ R p (Hcov _ Hpv)) as E.
    assert (In n (ready_succs g vis p)) as C by (apply ready_succs_in; auto).
    rewrite E in C. destruct C. }
  intros n Hn. apply (H (S (rank n))); auto.
Qed.

(** ** histories *)
Fixpoint somes (l : list (option N)) : list N :=
  match l with
  | [] => []
  | Some n :: l' => n :: somes l'
  | None :: l' => somes l'
  end.

Lemma somes_app a b : somes (a ++ b) = somes a ++ somes b.
Proof. induction a as [|[n|] a IH]; cbn; auto. now rewrite IH. Qed.

Lemma in_somes n l : In n (somes l) <-> In (Some n) l.
Proof.
  induction l as [|[m|] l IH]; cbn; [tauto| |].
  - rewrite IH. split; intros [H|H]; auto; [subst; auto|inversion H; auto].
  - rewrite IH. split; [auto|intros [H|H]; [discriminate|auto]].
Qed.

Lemma ts_run_app fuel c1 c2 : forall st outs st',
  ts_run fuel (c1 ++ c2) st = Ok (outs, st') <->
  exists o1 st1 o2, ts_run fuel c1 st = Ok (o1, st1) /\ ts_run fuel c2 st1 = Ok (o2, st') /\ outs = o1 ++ o2.
Proof.
  induction c1 as [|[g ord] c1 IH]; intros st outs st'; cbn.
  - split.
    + intros H. exists [], st, outs. auto.
    + intros [o1 [st1 [o2 [H1 [H2 ->]]]]]. inversion H1; subst. exact H2.
  - destruct (ts_next fuel g ord st) as [[r s1]| |] eqn:E; cbn.
    + destruct (ts_run fuel (c1 ++ c2) s1) as [[o s2]| |] eqn:E2; cbn.
      * apply IH in E2 as [o1 [st1 [o2 [H1 [H2 ->]]]]]. rewrite H1. cbn. split.
        -- intros H. inversion H; subst. exists (r :: o1), st1, o2. auto.
        -- intros [o1' [st1' [o2' [H1' [H2' ->]]]]]. inversion H1'; subst.
           rewrite H2 in H2'. inversion H2'; subst. reflexivity.
      * split; [discriminate|]. intros [o1 [st1 [o2 [H1 [H2 ->]]]]].
        destruct (ts_run fuel c1 s1) as [[o1' s1']| |] eqn:E1; cbn in H1; try discriminate.
        inversion H1; subst.
        assert (ts_run fuel (c1 ++ c2) s1 = Ok (o1' ++ o2, st')) by (apply IH; eexists _, _, _; repeat split; eauto).
        congruence.
      * split; [discriminate|]. intros [o1 [st1 [o2 [H1 [H2 ->]]]]].
        destruct (ts_run fuel c1 s1) as [[o1' s1']| |] eqn:E1; cbn in H1; try discriminate.
        inversion H1; subst.
        assert (ts_run fuel (c1 ++ c2) s1 = Ok (o1' ++ o2, st')) by (apply IH; eexists _, _, _; repeat split; eauto).
        congruence.
    + split; [discriminate|]. intros [o1 [st1 [o2 [H1 _]]]]. discriminate.
    + split; [discriminate|]. intros [o1 [st1 [o2 [H1 _]]]]. discriminate.
Qed.

(** the visited set is exactly what has been emitted, and the invariant holds *)
Lemma ts_run_visited fuel calls : forall st outs st',
  ts_inv st -> ts_run fuel calls st = Ok (outs, st') ->
  ts_inv st' /\ ts_visited st' = rev (somes outs) ++ ts_visited st.
Proof.
  induction calls as [|[g ord] cs IH]; intros st outs st' I E; cbn in E.
  - inversion E; subst. auto.
  - destruct (ts_next fuel g ord st) as [[r s1]| |] eqn:E1; cbn in E; try discriminate.
    destruct (ts_run fuel cs s1) as [[o s2]| |] eqn:E2; cbn in E; try discriminate.
    inversion E; subst.
    destruct (ts_next_spec _ _ _ _ _ _ I E1) as [I1 P].
    destruct (IH _ _ _ I1 E2) as [I2 V]. split; auto.
    rewrite V. destruct r as [n|]; cbn in *.
    + destruct P as [-> _]. now rewrite <- app_assoc.
    + destruct P as [-> _]. reflexivity.
Qed.

(** C15 (1): every node is emitted at most once. *)
Theorem ts_at_most_once fuel root calls outs st' :
  ts_run fuel calls (ts_init root) = Ok (outs, st') -> NoDup (somes outs).
Proof.
  intros E. destruct (ts_run_visited _ _ _ _ _ (ts_inv_init root) E) as [[_ [Hnd _]] V].
  rewrite V in Hnd. cbn in Hnd. rewrite app_nil_r in Hnd.
  apply NoDup_rev in Hnd. now rewrite rev_involutive in Hnd.
Qed.

(** C15 (2): a node is emitted only when all its current predecessors have been. *)
Theorem ts_after_preds fuel root c1 g ord c2 outs st' :
  ts_run fuel (c1 ++ (g, ord) :: c2) (ts_init root) = Ok (outs, st') ->
  exists o1 r o2, outs = o1 ++ r :: o2 /\ length o1 = length c1 /\
    forall n, r = Some n ->
      In n (t_nodes g) /\ ~ In n (somes o1) /\ forall p, In p (t_preds g n) -> In p (somes o1).
Proof.
  intros E. apply ts_run_app in E as [o1 [st1 [o2 [E1 [E2 ->]]]]].
  destruct (ts_run_visited _ _ _ _ _ (ts_inv_init root) E1) as [I1 V1].
  cbn in E2. destruct (ts_next fuel g ord st1) as [[r s1]| |] eqn:En; cbn in E2; try discriminate.
  destruct (ts_run fuel c2 s1) as [[o s2]| |] eqn:E3; cbn in E2; try discriminate.
  inversion E2; subst. exists o1, r, o. split; auto. split.
  - clear - E1. revert o1 st1 E1. generalize (ts_init root).
    induction c1 as [|[g' ord'] c1 IH]; intros st o1 st1 E; cbn in E.
    + inversion E. reflexivity.
    + destruct (ts_next fuel g' ord' st) as [[r s]| |]; cbn in E; try discriminate.
      destruct (ts_run fuel c1 s) as [[o' s']| |] eqn:E'; cbn in E; try discriminate.
      inversion E; subst. cbn. f_equal. eapply IH; eauto.
  - intros n ->. destruct (ts_next_spec _ _ _ _ _ _ I1 En) as [_ P]. cbn in P.
    destruct P as [_ [Hnv [Hn Hp]]]. rewrite V1 in Hnv, Hp. cbn in Hnv, Hp. rewrite app_nil_r in Hnv, Hp.
    split; auto. split.
    + intros C. apply Hnv. now apply -> in_rev.
    + intros p Hpp. apply in_rev. auto.
Qed.

(** C15 (3): when exhaustion is reported on an acyclic graph whose sources have
    all been emitted, every node of the graph has been emitted. *)
Theorem ts_exhaustive fuel root c1 g ord c2 outs st' (rank : N -> nat) :
  ts_run fuel (c1 ++ (g, ord) :: c2) (ts_init root) = Ok (outs, st') ->
  exists o1 r o2, outs = o1 ++ r :: o2 /\ length o1 = length c1 /\
    (r = None ->
     (forall v, In v (somes o1) -> In v ord) ->
     (forall p n, In p (t_nodes g) -> In n (t_outs g p) -> rank p < rank n) ->
     (forall n, In n (t_nodes g) -> t_preds g n = [] -> In n (somes o1)) ->
     forall n, In n (t_nodes g) -> In n (somes o1)).
Proof.
  intros E. pose proof E as E0.
  apply ts_after_preds in E0 as [o1 [r [o2 [-> [Hlen _]]]]].
  exists o1, r, o2. split; auto. split; auto.
  intros -> Hcov Hrank Hsrc.
  apply ts_run_app in E as [o1' [st1 [o2' [E1 [E2 Eo]]]]].
  assert (o1' = o1).
  { assert (length o1' = length c1).
    { clear - E1. revert o1' st1 E1. generalize (ts_init root).
      induction c1 as [|[g' ord'] c1 IH]; intros st o1 st1 E; cbn in E.
      - inversion E. reflexivity.
      - destruct (ts_next fuel g' ord' st) as [[r s]| |]; cbn in E; try discriminate.
        destruct (ts_run fuel c1 s) as [[o' s']| |] eqn:E'; cbn in E; try discriminate.
        inversion E; subst. cbn. f_equal. eapply IH; eauto. }
    assert (Hl : length o1' = length o1) by lia.
    clear - Eo Hl. revert o1' Eo Hl. induction o1 as [|x o1 IH]; intros [|y o1'] Eo Hl; cbn in *; try lia; auto.
    inversion Eo; subst. f_equal. apply IH; auto. }
  subst o1'. apply app_inv_head in Eo.
  destruct (ts_run_visited _ _ _ _ _ (ts_inv_init root) E1) as [I1 V1].
  cbn in E2. destruct (ts_next fuel g ord st1) as [[r s1]| |] eqn:En; cbn in E2; try discriminate.
  destruct (ts_run fuel c2 s1) as [[o s2]| |] eqn:E3; cbn in E2; try discriminate.
  subst o2'. inversion E2; subst.
  destruct (ts_next_spec _ _ _ _ _ _ I1 En) as [_ P]. cbn in P. destruct P as [_ [_ R]].
  rewrite V1 in R. cbn in R. rewrite app_nil_r in R.
  intros n Hn. apply in_rev.
  apply (refill_none_exhaustive g (rev (somes o1)) ord rank R); auto.
  - intros v Hv. apply Hcov. now apply in_rev.
  - intros m Hm Hp. apply -> in_rev. auto.
Qed.

(** totality of a whole history on closed graphs *)
Theorem ts_run_total fuel calls : forall st,
  (forall g ord, In (g, ord) calls -> t_closed g) ->
  ts_inv st ->
  (forall st1, length (ts_stack st1) + 2 <= fuel) ->
  exists r, ts_run fuel calls st = Ok r.
Proof.
  induction calls as [|[g ord] cs IH]; intros st Hc I Hf; cbn; [eauto|].
  destruct (ts_next_total g ord (Hc g ord (or_introl eq_refl)) fuel st (Hf st)) as [[r s1] E].
  rewrite E. cbn.
  destruct (ts_next_spec _ _ _ _ _ _ I E) as [I1 _].
  destruct (IH s1) as [[o s2] E2]; auto.
  - intros g' ord' Hin. apply (Hc g' ord'). now right.
  - rewrite E2. cbn. eauto.
Qed.
