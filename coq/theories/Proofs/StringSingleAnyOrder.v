(** Strings: the exactness of the one-pattern matcher does not depend on the order in which
    try_to_constraint_vec lists the constraints — it holds for every constraint list with the
    same elements as [s_cvec p] (what the comparison of constraint vectors as multisets
    establishes of the implementation's list). *)
From PM Require Import Model.Prelude Model.Domain Model.Constraint Model.BindAll Model.Scheme Model.Matchers
  Model.BindMaps Model.DomString Spec.Extends Spec.TopoSpec Spec.Occ Cert.CharCert
  Proofs.SchemeProofs Proofs.BindAllProofs Proofs.BindMapProofs Proofs.RunSound Proofs.LawfulDomains
  Proofs.OccString Proofs.OccProofs Proofs.SingleSound Proofs.SingleComplete Proofs.SingleDomains Proofs.NaiveProofs
  Proofs.StringRun Proofs.StringSingle.
Local Open Scope N_scope.

Section AnyOrder.
  Variable p : spattern.
  Variable cs : list sconstraint.
  Hypothesis Hsame : forall c, In c cs <-> In c (s_cvec p).
  Hypothesis Hne : p <> [].

  Theorem s_single_sound_any h fuel r :
    single string_dom fuel cs h = Ok r ->
    forall m, In m r -> exists a len, m = SBound a len /\ occ_string p h a.
  Proof.
    intros S m Hin. unfold single, single_ext in S.
    destruct (requested string_dom fuel [] cs) as [reqk| |] eqn:Rq; cbn in S; try discriminate.
    destruct (s_requested_good _ _ _ Rq) as [Hg Hc].
    assert (Hcov : forall c, In c cs -> incl (cargs c) reqk).
    { intros c Hc' k Hk. apply Hc. apply in_flat_map. eauto. }
    destruct (single_loop_from_empty_sound string_dom (fun _ _ => True) s_goodb string_lawful
                cs reqk Hg Hcov h fuel r S m Hin) as [_ [Hall _]].
    assert (Hall' : forall c, In c (s_cvec p) -> holds string_dom h c m).
    { intros c Hc'. apply Hall. now apply Hsame. }
    destruct (s_constraints_sound p h m Hne Hall') as [a [len [-> Ho]]].
    exists a, len. auto.
  Qed.

  Theorem s_single_complete_any h fuel r a :
    single string_dom fuel cs h = Ok r -> occ_string p h a -> exists L, In (SBound a L) r.
  Proof.
    intros S Hocc. unfold single, single_ext in S.
    destruct (requested string_dom fuel [] cs) as [reqk| |] eqn:Rq; cbn [rbind] in S; try discriminate.
    destruct (s_requested_good _ _ _ Rq) as [Hg Hc]. cbn [app] in Hc.
    assert (Hv : forall d, In d cs -> sval h a d = true).
    { apply OccProofs.occ_string_iff in Hocc. apply (s_cvec_occ p h a Hne) in Hocc.
      rewrite forallb_forall in Hocc. intros d Hd. rewrite sval_cvalb. apply Hocc. now apply Hsame. }
    pose proof (s_cvec_nonempty p Hne) as Hn.
    assert (Hex : exists c k, In c cs /\ In k (cargs c)).
    { destruct (s_cvec p) as [|c cl] eqn:Ec; [contradiction|]. exists c.
      assert (Hc0 : In c (s_cvec p)) by (rewrite Ec; now left).
      pose proof (s_cvec_nonempty_args p c Hc0) as Hargs. destruct (cargs c) as [|k ks] eqn:Ea; [contradiction|].
      exists k. split; [apply Hsame; now left|]. now left. }
    destruct Hex as [c0 [k0 [Hc0 Hk0]]].
    assert (Ha : a < blen h).
    { pose proof (sval_args_exist h a c0 k0 (Hv c0 Hc0) Hk0). pose proof (blen_ge_length h). lia. }
    assert (Hrne : reqk <> []).
    { intros ->. apply (Hc k0). apply in_flat_map. exists c0. auto. }
    assert (Hoff : forall k, In k reqk -> a + k < blen h).
    { intros k Hk. unfold requested in Rq. cbn [app] in Rq.
      destruct (s_amb_spec _ _ _ Rq) as [Hk1 _]. destruct (Hk1 k Hk) as [Hin| ->]; [|lia].
      apply in_flat_map in Hin as [c [Hc1 Hc2]].
      pose proof (sval_args_exist h a c k (Hv c Hc1) Hc2). pose proof (blen_ge_length h). lia. }
    destruct (single_loop_complete string_dom h reqk (Qa a) _ _ _ _ S) as [_ Hq].
    destruct (Hq cs SUnbound (or_introl eq_refl)) as [m' [Hm' [L ->]]].
    - apply (s_derivable_all h a Ha reqk Hg Hrne Hoff).
      + intros c Hc1. split; [now apply Hv|]. apply (s_cvec_nonempty_args p). now apply Hsame.
      + now left.
      + intros E. exfalso. subst cs. destruct (s_cvec p) as [|c cl] eqn:Ec; [contradiction|].
        assert (Hin : In c []) by (apply Hsame; now left). destruct Hin.
    - exists L. exact Hm'.
  Qed.

  Theorem s_single_exact_any h fuel r :
    single string_dom fuel cs h = Ok r ->
    (forall m, In m r -> exists a len, m = SBound a len /\ occ_string p h a)
    /\ (forall a, occ_string p h a <-> exists len, In (SBound a len) r).
  Proof.
    intros S. split; [exact (s_single_sound_any h fuel r S)|].
    intros a. split.
    - intros O. eapply s_single_complete_any; eauto.
    - intros [len Hin]. destruct (s_single_sound_any h fuel r S _ Hin) as [a' [len' [E O]]].
      inversion E; subst. exact O.
  Qed.
End AnyOrder.
