(** The traversal as a trace of expanded (state, bindings) items (generic):
    the set of expanded items is closed under successors up to the pruning key
    (state, view of the bindings), contains an item with the key of the initial
    item, and every match emitted at an expanded item is in the result. *)
From PM Require Import Model.Prelude Model.Domain Model.Constraint Model.BindAll Model.Automaton Model.Traversal.

Section RunTrace.
  Context {K V M H P : Type} (D : DomOps K V M H P) (E : DomEq D).
  Variable A : automaton K P.
  Variable h : H.

  Definition item := (N * M)%type.

  (** the pruning key of an item whose state exists *)
  Definition same_key (x y : item) : Prop :=
    fst x = fst y /\ forall s, get_state A (fst x) = Ok s -> view D s (snd x) = view D s (snd y).

  Lemma same_key_refl x : same_key x x.
  Proof. split; auto. Qed.

  Lemma same_key_trans x y z : same_key x y -> same_key y z -> same_key x z.
  Proof.
    intros [E1 V1] [E2 V2]. split; [congruence|]. intros s G. rewrite (V1 s G). apply V2. now rewrite <- E1.
  Qed.

  Lemma same_key_sym x y : same_key x y -> same_key y x.
  Proof. intros [E1 V1]. split; [auto|]. intros s G. symmetry. apply V1. now rewrite E1. Qed.

  (** same loop, also collecting the expanded items *)
  Fixpoint trace_loop (fuel : nat) (queue : list item) (vis : list (N * list (option V)))
           (tr : list item) (acc : list (N * M)) : res (list item * list (N * M)) :=
    match fuel with
    | O => OutOfFuel
    | S f =>
        match queue with
        | [] => Ok (rev tr, rev acc)
        | (id, m) :: q =>
            let* s := get_state A id in
            let v := view D s m in
            if visited_mem D id v vis then trace_loop f q vis tr acc
            else
              let* ms := emissions D h s m in
              let* nexts := next_legal_states D h s m in
              trace_loop f (q ++ nexts) ((id, v) :: vis) ((id, m) :: tr) (rev ms ++ acc)
        end
    end.

  Lemma trace_loop_run fuel : forall queue vis tr acc,
    run_loop D fuel A h queue vis acc = rmap snd (trace_loop fuel queue vis tr acc).
  Proof.
    induction fuel as [|f IH]; intros queue vis tr acc; cbn; [reflexivity|].
    destruct queue as [|[id m] q]; [reflexivity|].
    destruct (get_state A id) as [s| |]; cbn; try reflexivity.
    destruct (visited_mem D id (view D s m) vis); [apply IH|].
    destruct (emissions D h s m) as [ms| |]; cbn; try reflexivity.
    destruct (next_legal_states D h s m) as [nexts| |]; cbn; try reflexivity.
    apply IH.
  Qed.

  (** successors and emissions of an item (when its state exists and they do not fail) *)
  Definition succ_of (x : item) (ys : list item) : Prop :=
    exists s, get_state A (fst x) = Ok s /\ next_legal_states D h s (snd x) = Ok ys.
  Definition emit_of (x : item) (ms : list (N * M)) : Prop :=
    exists s, get_state A (fst x) = Ok s /\ emissions D h s (snd x) = Ok ms.

  Definition in_keys (x : item) (tr : list item) : Prop := exists y, In y tr /\ same_key y x.

  Lemma view_eqb_true a b : view_eqb D a b = true <-> a = b.
  Proof.
    unfold view_eqb. apply list_eqb_spec. apply option_eqb_spec. apply (veqb_spec D E).
  Qed.

  (** [vis] holds exactly the keys of the expanded items *)
  Definition vis_ok (vis : list (N * list (option V))) (tr : list item) : Prop :=
    forall id v, In (id, v) vis <-> exists m s, In (id, m) tr /\ get_state A id = Ok s /\ view D s m = v.

  Lemma visited_mem_spec id v vis :
    visited_mem D id v vis = true <-> In (id, v) vis.
  Proof.
    unfold visited_mem. rewrite existsb_exists. split.
    - intros [[i w] [Hin Hb]]. cbn in Hb. apply andb_true_iff in Hb as [H1 H2].
      apply N.eqb_eq in H1. apply view_eqb_true in H2. now subst.
    - intros Hin. exists (id, v). split; auto. cbn. rewrite N.eqb_refl. cbn. now apply view_eqb_true.
  Qed.

  Theorem trace_loop_closed fuel : forall queue vis tr acc T ms,
    trace_loop fuel queue vis tr acc = Ok (T, ms) ->
    vis_ok vis tr ->
    (* every successor of an expanded item is queued or has an expanded item with its key *)
    (forall x ys y, In x tr -> succ_of x ys -> In y ys -> In y queue \/ in_keys y tr) ->
    (forall x e pm, In x tr -> emit_of x e -> In pm e -> In pm acc) ->
    (forall x, In x tr -> exists ys e, succ_of x ys /\ emit_of x e) ->
    (forall x, In x tr -> In x T)
    /\ (forall x, In x queue -> in_keys x T)
    /\ (forall x ys y, In x T -> succ_of x ys -> In y ys -> in_keys y T)
    /\ (forall x e pm, In x T -> emit_of x e -> In pm e -> In pm ms)
    /\ (forall x, In x T -> exists ys e, succ_of x ys /\ emit_of x e).
  Proof.
    induction fuel as [|f IH]; intros queue vis tr acc T ms R Hv Hs He Hok; cbn in R; [discriminate|].
    destruct queue as [|[id m] q].
    - inversion R; subst. split; [intros x Hx; now apply -> in_rev|]. split; [intros x []|]. split.
      + intros x ys y Hx Hsx Hy. apply in_rev in Hx. destruct (Hs _ _ _ Hx Hsx Hy) as [[]|[y0 [Hy0 Hk]]].
        exists y0. split; auto. now apply -> in_rev.
      + split.
        * intros x e pm Hx Hex Hpm. apply in_rev in Hx. apply -> in_rev. eapply He; eauto.
        * intros x Hx. apply in_rev in Hx. auto.
    - destruct (get_state A id) as [s| |] eqn:G; cbn in R; try discriminate.
      destruct (visited_mem D id (view D s m) vis) eqn:Vm.
      + (* pruned: an expanded item has the same key *)
        apply visited_mem_spec in Vm. apply Hv in Vm as [m0 [s0 [Hin0 [G0 Hv0]]]].
        rewrite G in G0. inversion G0; subst s0.
        assert (Hk : same_key (id, m0) (id, m)).
        { split; auto. cbn. intros s' G'. rewrite G in G'. inversion G'; subst. exact Hv0. }
        destruct (IH _ _ _ _ _ _ R Hv) as [H1 [H2 [H3 [H4 H5]]]]; auto.
        * intros x ys y Hx Hsx Hy. destruct (Hs _ _ _ Hx Hsx Hy) as [[Eq|Hq]|Hk']; auto.
          right. subst y. exists (id, m0). auto.
        * split; auto. split; auto.
          intros x [Eq|Hx]; auto. subst x. exists (id, m0). split; auto.
      + (* expanded *)
        destruct (emissions D h s m) as [em| |] eqn:Em; cbn in R; try discriminate.
        destruct (next_legal_states D h s m) as [nexts| |] eqn:Nx; cbn in R; try discriminate.
        destruct (IH _ _ _ _ _ _ R) as [H1 [H2 [H3 [H4 H5]]]].
        * (* vis_ok *)
          intros id' v'. cbn. split.
          -- intros [Eq|Hin].
             ++ inversion Eq; subst. exists m, s. auto.
             ++ apply Hv in Hin as [m0 [s0 [Hin0 Hr]]]. exists m0, s0. auto.
          -- intros [m0 [s0 [[Eq|Hin0] [G0 Hv0]]]].
             ++ inversion Eq; subst. rewrite G in G0. inversion G0; subst. now left.
             ++ right. apply Hv. eauto.
        * (* successors *)
          intros x ys y [Eq|Hx] Hsx Hy.
          -- subst x. destruct Hsx as [s' [G' N']]. cbn in G', N'. rewrite G in G'. inversion G'; subst s'.
             rewrite Nx in N'. inversion N'; subst ys. left. apply in_or_app. now right.
          -- destruct (Hs _ _ _ Hx Hsx Hy) as [[Eq|Hq]|[y0 [Hy0 Hk]]].
             ++ subst y. right. exists (id, m). split; [now left|apply same_key_refl].
             ++ left. apply in_or_app. now left.
             ++ right. exists y0. split; [now right|auto].
        * (* emissions *)
          intros x e pm [Eq|Hx] Hex Hpm.
          -- subst x. destruct Hex as [s' [G' E']]. cbn in G', E'. rewrite G in G'. inversion G'; subst s'.
             rewrite Em in E'. inversion E'; subst e. apply in_or_app. left. now apply -> in_rev.
          -- apply in_or_app. right. eapply He; eauto.
        * intros x [Eq|Hx]; auto. subst x. exists nexts, em. split; exists s; auto.
        * split; [intros x Hx; apply H1; now right|]. split; auto.
          intros x [Eq|Hx].
          -- subst x. exists (id, m). split; [apply H1; now left|apply same_key_refl].
          -- apply H2. apply in_or_app. now left.
  Qed.

  (** an invariant of items that successors preserve holds of every expanded item *)
  Theorem trace_loop_inv (Pq : item -> Prop) fuel :
    (forall x ys y, Pq x -> succ_of x ys -> In y ys -> Pq y) ->
    forall queue vis tr acc T ms,
    trace_loop fuel queue vis tr acc = Ok (T, ms) ->
    (forall x, In x queue -> Pq x) -> (forall x, In x tr -> Pq x) ->
    forall x, In x T -> Pq x.
  Proof.
    intros Hstep. induction fuel as [|f IH]; intros queue vis tr acc T ms R Hq Ht; cbn in R; [discriminate|].
    destruct queue as [|[id m] q].
    - inversion R; subst. intros x Hx. apply Ht. now apply in_rev.
    - destruct (get_state A id) as [s| |] eqn:G; cbn in R; try discriminate.
      destruct (visited_mem D id (view D s m) vis).
      + eapply IH; eauto. intros x Hx. apply Hq. now right.
      + destruct (emissions D h s m) as [em| |] eqn:Em; cbn in R; try discriminate.
        destruct (next_legal_states D h s m) as [nexts| |] eqn:Nx; cbn in R; try discriminate.
        eapply IH; [exact R| |].
        * intros x Hx. apply in_app_or in Hx as [Hx|Hx]; [apply Hq; now right|].
          apply (Hstep (id, m) nexts x); [apply Hq; now left|exists s; auto|exact Hx].
        * intros x [<-|Hx]; [apply Hq; now left|auto].
  Qed.

  (** ** the exact emission sequence, and distinctness of the expanded keys *)
  Definition kview (x : item) : option (N * list (option V)) :=
    match get_state A (fst x) with Ok s => Some (fst x, view D s (snd x)) | _ => None end.

  Inductive emits_all : list item -> list (N * M) -> Prop :=
  | ea_nil : emits_all [] []
  | ea_cons x e T ms : emit_of x e -> emits_all T ms -> emits_all (x :: T) (e ++ ms).

  Lemma emits_all_snoc T ms x e : emits_all T ms -> emit_of x e -> emits_all (T ++ [x]) (ms ++ e).
  Proof.
    induction 1 as [|x0 e0 T ms H0 HT IH]; intros He; cbn.
    - rewrite <- (app_nil_r e). constructor; [exact He|constructor].
    - rewrite <- app_assoc. constructor; auto.
  Qed.

  Lemma NoDup_map_Some {X} (l : list X) : NoDup l -> NoDup (map Some l).
  Proof.
    induction 1 as [|x l Hn Hd IH]; cbn; constructor; auto.
    intros Hin. apply in_map_iff in Hin as [y [Ey Hy]]. inversion Ey; subst. contradiction.
  Qed.

  Theorem trace_loop_exact fuel : forall queue vis tr acc T ms,
    trace_loop fuel queue vis tr acc = Ok (T, ms) ->
    map Some vis = map kview tr -> NoDup vis -> emits_all (rev tr) (rev acc) ->
    NoDup (map kview T) /\ emits_all T ms.
  Proof.
    induction fuel as [|f IH]; intros queue vis tr acc T ms R Hv Hn He; cbn in R; [discriminate|].
    destruct queue as [|[id m] q].
    - inversion R; subst. split; [|exact He].
      rewrite map_rev, <- Hv. apply NoDup_rev. now apply NoDup_map_Some.
    - destruct (get_state A id) as [s| |] eqn:G; cbn in R; try discriminate.
      destruct (visited_mem D id (view D s m) vis) eqn:Vm; [eapply IH; eauto|].
      destruct (emissions D h s m) as [em| |] eqn:Em; cbn in R; try discriminate.
      destruct (next_legal_states D h s m) as [nexts| |] eqn:Nx; cbn in R; try discriminate.
      eapply IH; [exact R| | |].
      + cbn. unfold kview at 1. cbn. rewrite G. now rewrite Hv.
      + constructor; auto. intros Hin. apply visited_mem_spec in Hin. congruence.
      + cbn. rewrite rev_app_distr, rev_involutive. apply emits_all_snoc; auto. exists s. auto.
  Qed.

  (** items the traversal can produce at all *)
  Inductive creach : item -> Prop :=
  | cr_root : creach (au_root A, mempty D)
  | cr_step x ys y : creach x -> succ_of x ys -> In y ys -> creach y.

  (** the run as a whole *)
  Theorem run_trace fuel ms :
    run D fuel A h = Ok ms ->
    exists T,
      in_keys (au_root A, mempty D) T
      /\ (forall x ys y, In x T -> succ_of x ys -> In y ys -> in_keys y T)
      /\ (forall x e pm, In x T -> emit_of x e -> In pm e -> In pm ms)
      /\ (forall x, In x T -> exists ys e, succ_of x ys /\ emit_of x e)
      /\ (forall Pq : item -> Prop,
            (forall x ys y, Pq x -> succ_of x ys -> In y ys -> Pq y) -> Pq (au_root A, mempty D) ->
            forall x, In x T -> Pq x)
      /\ NoDup (map kview T) /\ emits_all T ms.
  Proof.
    unfold run. rewrite (trace_loop_run fuel _ _ [] []).
    destruct (trace_loop fuel [(au_root A, mempty D)] [] [] []) as [[T ms']| |] eqn:R; cbn; try discriminate.
    intros X. inversion X; subst ms'.
    destruct (trace_loop_exact _ _ _ _ _ _ _ R eq_refl (NoDup_nil _) ea_nil) as [HX1 HX2].
    destruct (trace_loop_closed _ _ _ _ _ _ _ R) as [_ [H2 [H3 [H4 H5]]]].
    - intros id v. cbn. split; [tauto|]. intros [m [s [[] _]]].
    - intros x ys y [].
    - intros x e pm [].
    - intros x [].
    - exists T. split; [apply H2; now left|]. split; auto. split; auto. split; auto. split; [|split; auto].
      intros Pq Hstep H0 x Hx. eapply (trace_loop_inv Pq fuel Hstep); [exact R| | |exact Hx].
      + intros y [<-|[]]. exact H0.
      + intros y [].
  Qed.

  Lemma trace_creach (T : list item) :
    (forall Pq : item -> Prop,
        (forall x ys y, Pq x -> succ_of x ys -> In y ys -> Pq y) -> Pq (au_root A, mempty D) ->
        forall x, In x T -> Pq x) ->
    forall x, In x T -> creach x.
  Proof. intros HP. apply HP; [intros x ys y Hx Hs Hy; eapply cr_step; eauto|constructor]. Qed.
End RunTrace.
