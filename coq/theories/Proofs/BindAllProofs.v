(** C13: bind_all equals the specification [extend], as lists. *)
From PM Require Import Model.Prelude Model.Domain Model.BindAll Spec.Extends.

Section BindAllProofs.
  Context {K V M H P : Type} (D : DomOps K V M H P).

  Lemma bind_key_eq_step h inc k m : bind_key D h inc k m = ext_step D h inc k m.
  Proof.
    unfold bind_key, ext_step. destruct (mget D m k); [reflexivity|].
    destruct (opts D h k m) as [vs| |]; cbn; try reflexivity.
    destruct vs; [destruct inc|]; reflexivity.
  Qed.

  Lemma rflatM_ext {A B} (f g : A -> res (list B)) l :
    (forall x, f x = g x) -> rflatM f l = rflatM g l.
  Proof.
    intros E. induction l as [|x xs IH]; cbn; [reflexivity|]. now rewrite E, IH.
  Qed.

  (** Monadic flat-map composition, in the form needed below. When an inner
      computation panics the two sides may report the panic of a *different*
      element first, so the statement is about [Ok] results in both directions. *)
  Lemma rflatM_bind_ok {A B C} (f : A -> res (list B)) (g : B -> res (list C)) l r :
    (let* ys := rflatM f l in rflatM g ys) = Ok r <->
    rflatM (fun x => let* ys := f x in rflatM g ys) l = Ok r.
  Proof.
    revert r. induction l as [|x xs IH]; intros r; cbn.
    - reflexivity.
    - destruct (f x) as [y| |]; cbn; try (split; discriminate).
      destruct (rflatM f xs) as [ys| |] eqn:Hxs; cbn.
      + rewrite rflatM_app.
        destruct (rflatM g y) as [zy| |]; cbn; try (split; discriminate).
        specialize (IH) . cbn in IH.
        destruct (rflatM g ys) as [zs| |] eqn:Hg; cbn.
        * destruct (rflatM (fun x0 => let* ys0 := f x0 in rflatM g ys0) xs) as [w| |] eqn:Hw.
          -- pose proof (proj1 (IH zs) eq_refl) as E. inversion E; subst. reflexivity.
          -- pose proof (proj1 (IH zs) eq_refl) as E. discriminate.
          -- pose proof (proj1 (IH zs) eq_refl) as E. discriminate.
        * destruct (rflatM (fun x0 => let* ys0 := f x0 in rflatM g ys0) xs) as [w| |] eqn:Hw;
            cbn; try (split; discriminate).
          pose proof (proj2 (IH w) eq_refl) as E. discriminate.
        * destruct (rflatM (fun x0 => let* ys0 := f x0 in rflatM g ys0) xs) as [w| |] eqn:Hw;
            cbn; try (split; discriminate).
          pose proof (proj2 (IH w) eq_refl) as E. discriminate.
      + destruct (rflatM g y) as [zy| |]; cbn; try (split; discriminate).
        destruct (rflatM (fun x0 => let* ys0 := f x0 in rflatM g ys0) xs) as [w| |] eqn:Hw;
          cbn; try (split; discriminate).
        pose proof (proj2 (IH w) eq_refl) as E. discriminate.
      + destruct (rflatM g y) as [zy| |]; cbn; try (split; discriminate).
        destruct (rflatM (fun x0 => let* ys0 := f x0 in rflatM g ys0) xs) as [w| |] eqn:Hw;
          cbn; try (split; discriminate).
        pose proof (proj2 (IH w) eq_refl) as E. discriminate.
  Qed.

  Lemma bind_all_list_spec h inc ks : forall ms r,
    bind_all_list D h inc ks ms = Ok r <-> rflatM (extend D h inc ks) ms = Ok r.
  Proof.
    induction ks as [|k ks IH]; intros ms r; cbn [bind_all_list extend].
    - rewrite rflatM_ok_total. rewrite flat_map_concat_map.
      replace (concat (map (fun m => [m]) ms)) with ms; [reflexivity|].
      induction ms as [|m ms IHm]; cbn; [reflexivity|]. now rewrite <- IHm.
    - rewrite <- rflatM_bind_ok.
      rewrite (rflatM_ext _ _ ms (bind_key_eq_step h inc k)).
      destruct (rflatM (ext_step D h inc k) ms) as [ms'| |]; cbn; try (split; discriminate).
      apply IH.
  Qed.

  (** Main statement: equality of result lists, order included. *)
  Theorem bind_all_eq_spec h m ks inc r :
    bind_all D h m ks inc = Ok r <-> extend D h inc ks m = Ok r.
  Proof.
    unfold bind_all. rewrite bind_all_list_spec. cbn.
    destruct (extend D h inc ks m) as [l| |]; cbn; try (split; discriminate).
    now rewrite app_nil_r.
  Qed.

  (** Panic-freedom transfers as well: when [opts] never panics both are Ok. *)
  Lemma ext_step_total h inc k m :
    (forall k m, exists vs, opts D h k m = Ok vs) -> exists r, ext_step D h inc k m = Ok r.
  Proof.
    intros T. unfold ext_step. destruct (mget D m k); [eauto|].
    destruct (T k m) as [vs ->]. cbn. destruct vs; eauto.
  Qed.

  Lemma extend_total h inc ks :
    (forall k m, exists vs, opts D h k m = Ok vs) -> forall m, exists r, extend D h inc ks m = Ok r.
  Proof.
    intros T. induction ks as [|k ks IH]; intros m; cbn; [eauto|].
    destruct (ext_step_total h inc k m T) as [ms ->]. cbn.
    induction ms as [|x xs IHx]; cbn; [eauto|].
    destruct (IH x) as [r1 ->]. cbn. destruct IHx as [r2 ->]. cbn. eauto.
  Qed.

  Lemma rflatM_in {A B} (f : A -> res (list B)) l r y :
    rflatM f l = Ok r -> (In y r <-> exists x ys, In x l /\ f x = Ok ys /\ In y ys).
  Proof.
    revert r. induction l as [|x xs IH]; cbn; intros r E.
    - inversion E; subst. split; [intros []|intros [x [ys [[] _]]]].
    - destruct (f x) as [ys| |] eqn:Hf; cbn in E; try discriminate.
      destruct (rflatM f xs) as [zs| |] eqn:Hxs; cbn in E; try discriminate.
      inversion E; subst. rewrite in_app_iff, (IH zs eq_refl). split.
      + intros [Hy|[x' [ys' [Hin [Hf' Hy]]]]].
        * exists x, ys. auto.
        * exists x', ys'. auto.
      + intros [x' [ys' [[->|Hin] [Hf' Hy]]]].
        * left. congruence.
        * right. eauto.
  Qed.

  Lemma ext_step_in h inc k m ms x :
    ext_step D h inc k m = Ok ms ->
    (In x ms <->
       (exists v, mget D m k = Some v /\ x = m)
       \/ (mget D m k = None /\ opts D h k m = Ok [] /\ inc = true /\ x = m)
       \/ (exists vs v, mget D m k = None /\ opts D h k m = Ok vs /\ In v vs
                        /\ mbind D m k v = Some x)).
  Proof.
    unfold ext_step. intros Hs.
    destruct (mget D m k) as [v|] eqn:Hg.
    - inversion Hs; subst. cbn. split.
      + intros [<-|[]]. left. eauto.
      + intros [[v' [_ ->]]|[[C _]|[vs [v' [C _]]]]]; try discriminate. now left.
    - destruct (opts D h k m) as [vs| |] eqn:Ho; cbn in Hs; try discriminate.
      assert (Hfm : forall l, In x (flat_map (fun v => match mbind D m k v with
                                  | Some m' => [m'] | None => [] end) l)
                     <-> exists v, In v l /\ mbind D m k v = Some x).
      { intros l. rewrite in_flat_map. split.
        - intros [v [Hv Hin]]. exists v. split; auto.
          destruct (mbind D m k v); [destruct Hin as [->|[]]; auto|destruct Hin].
        - intros [v [Hv Hb]]. exists v. split; auto. rewrite Hb. now left. }
      destruct vs as [|v0 vs'].
      + split.
        * intros Hin. destruct inc; inversion Hs; subst; [|destruct Hin].
          destruct Hin as [<-|[]]. right. left. auto.
        * intros [[v' [C _]]|[[_ [_ [-> ->]]]|[vs [v' [_ [C [Hin _]]]]]]]; try discriminate.
          -- inversion Hs. now left.
          -- inversion C; subst. destruct Hin.
      + inversion Hs as [Hms]. clear Hs. rewrite (Hfm (v0 :: vs')). split.
        * intros [v [Hv Hb]]. right. right. exists (v0 :: vs'), v. auto.
        * intros [[v' [C _]]|[[_ [C _]]|[vs [v' [_ [C [Hin Hb]]]]]]]; try discriminate.
          inversion C; subst. eauto.
  Qed.

  Lemma rflatM_ok_elem {A B} (f : A -> res (list B)) l r x :
    rflatM f l = Ok r -> In x l -> exists ys, f x = Ok ys.
  Proof.
    revert r. induction l as [|y ys IH]; intros r E Hin; [destruct Hin|].
    cbn in E. destruct (f y) as [zy| |] eqn:Hy; cbn in E; try discriminate.
    destruct (rflatM f ys) as [zs| |] eqn:Hz; cbn in E; try discriminate.
    destruct Hin as [->|Hin]; eauto.
  Qed.

  (** The result list contains exactly the maps related by [ext_rel]. *)
  Theorem extend_rel h inc ks : forall m r m',
    extend D h inc ks m = Ok r -> (In m' r <-> ext_rel D h inc ks m m').
  Proof.
    induction ks as [|k ks IH]; intros m r m' E; cbn in E.
    - inversion E; subst. cbn. split.
      + intros [<-|[]]. constructor.
      + intros Hr. inversion Hr; subst. now left.
    - destruct (ext_step D h inc k m) as [ms| |] eqn:Hs; cbn in E; try discriminate.
      rewrite (rflatM_in _ _ _ _ E). split.
      + intros [x [ys [Hin [Hx Hy]]]]. apply (IH x ys m' Hx) in Hy.
        apply (ext_step_in _ _ _ _ _ x Hs) in Hin.
        destruct Hin as [[v [Hg ->]]|[[Hg [Ho [-> ->]]]|[vs [v [Hg [Ho [Hv Hb]]]]]]].
        * eapply ext_bound; eauto.
        * eapply ext_skip; eauto.
        * eapply ext_bind; eauto.
      + intros Hr.
        assert (Hex : exists x, In x ms /\ ext_rel D h inc ks x m').
        { inversion Hr; subst.
          - exists m. split; auto. apply (ext_step_in _ _ _ _ _ m Hs). left. eauto.
          - exists m. split; auto. apply (ext_step_in _ _ _ _ _ m Hs). right. left. auto.
          - exists m1. split; auto. apply (ext_step_in _ _ _ _ _ m1 Hs). right. right.
            exists vs, v. auto. }
        destruct Hex as [x [Hin Hx]].
        destruct (rflatM_ok_elem _ _ _ _ E Hin) as [ys Hys].
        exists x, ys. split; auto. split; auto. now apply (IH x ys m' Hys).
  Qed.

  (** Consequences for maps whose [bind] never disturbs existing bindings. *)
  Definition bind_monotone : Prop :=
    forall m k v m', mbind D m k v = Some m' ->
      forall k' v', mget D m k' = Some v' -> mget D m' k' = Some v'.

  Lemma ext_rel_preserves h inc ks m m' :
    bind_monotone -> ext_rel D h inc ks m m' ->
    forall k v, mget D m k = Some v -> mget D m' k = Some v.
  Proof.
    intros Mono Hr. induction Hr; intros k0 v0 Hg; auto.
    apply IHHr. eapply Mono; eauto.
  Qed.

  (** With [inc = false] every listed key is bound in every result, provided a
      successful bind makes the key readable (true of all four maps for offered values). *)
  Definition bind_binds : Prop :=
    forall m k v m', mbind D m k v = Some m' -> exists v', mget D m' k = Some v'.

  Lemma ext_rel_all_bound h ks m m' :
    bind_monotone -> bind_binds -> ext_rel D h false ks m m' ->
    forall k, In k ks -> exists v, mget D m' k = Some v.
  Proof.
    intros Mono BB Hr. induction Hr; intros k0 Hin.
    - destruct Hin.
    - destruct Hin as [<-|Hin]; auto.
      exists v. eapply ext_rel_preserves; eauto.
    - discriminate.
    - destruct Hin as [<-|Hin]; auto.
      destruct (BB _ _ _ _ H3) as [v' Hv']. exists v'. eapply ext_rel_preserves; eauto.
  Qed.
End BindAllProofs.
