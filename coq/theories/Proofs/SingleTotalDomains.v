(** C08, baseline matchers on strings and matrices: SinglePatternMatcher (the
    model of get_all_bindings), match_exists and NaiveManyMatcher terminate
    without reaching a panic site on the constraints of every pattern. *)
From PM Require Import Model.Prelude Model.Domain Model.Constraint Model.BindAll Model.Scheme Model.Matchers
  Model.BindMaps Model.DomString Model.DomMatrix Spec.TopoSpec Spec.Occ Cert.CharCert
  Proofs.SchemeProofs Proofs.SchemeTotal Proofs.BindAllProofs Proofs.BindMapProofs Proofs.BindMapMatrixProofs
  Proofs.BindMapHistories Proofs.LawfulDomains Proofs.CellsProofs Proofs.OccString Proofs.OccMatrix
  Proofs.SingleDomains Proofs.MatrixRun Proofs.MatrixSingle Proofs.RunTotal Proofs.SingleTotal Proofs.StringTotal Proofs.MatrixTotal.
Local Open Scope nat_scope.

(** ** generated constraints have the arity of their predicate *)
Lemma gloop_arity {K} cells : forall env cs env',
  @gloop K cells env = (cs, env') -> forall c, In c cs -> length (cargs c) = c_arity (cpred c).
Proof.
  induction cells as [|[k [l|y]] r IH]; intros env cs env' G c Hc; cbn in G.
  - inversion G; subst. destruct Hc.
  - destruct (gloop r env) as [cs0 e0] eqn:G0. inversion G; subst.
    destruct Hc as [<-|Hc]; [reflexivity|eauto].
  - destruct (glookup env y) as [f|].
    + destruct (gloop r env) as [cs0 e0] eqn:G0. inversion G; subst.
      destruct Hc as [<-|Hc]; [reflexivity|eauto].
    + eauto.
Qed.

Lemma s_cvec_arity p c : In c (s_cvec p) -> length (cargs c) = c_arity (cpred c).
Proof.
  unfold s_cvec. rewrite s_cvec_loop_gloop.
  destruct (gloop (s_cells p 0%N) []) as [cs env] eqn:G. cbn [fst].
  pose proof (gloop_arity _ _ _ _ G) as Ha.
  destruct p as [|x p']; [auto|].
  destruct (existsb _ cs); [auto|]. intros Hc. apply in_app_or in Hc as [Hc|[<-|[]]]; [auto|reflexivity].
Qed.

Lemma m_cvec_arity p c : In c (m_cvec p) -> length (cargs c) = c_arity (cpred c).
Proof.
  rewrite m_cvec_unfold. destruct (gloop (m_enum p 0%Z) []) as [cs env] eqn:G. cbn zeta.
  pose proof (gloop_arity _ _ _ _ G) as Ha.
  assert (Hall : forall c0, In c0 (cs ++ m_extras cs env) -> length (cargs c0) = c_arity (cpred c0)).
  { intros c0 Hc0. apply in_app_or in Hc0 as [Hc0|Hc0]; [auto|].
    unfold m_extras in Hc0. apply in_map_iff in Hc0 as [pos [<- _]]. reflexivity. }
  destruct (cs ++ m_extras cs env) as [|c1 l] eqn:E.
  - intros [<-|[]]. reflexivity.
  - intros Hc. apply Hall. exact Hc.
Qed.

(** ** strings *)
Theorem s_single_total_cs cs h : (forall c, In c cs -> length (cargs c) = c_arity (cpred c)) ->
  exists fuel0, forall fuel, fuel0 <= fuel -> exists r, single string_dom fuel cs h = Ok r.
Proof.
  intros Har. destruct s_req_acyclic as [rank Hr]. unfold single.
  apply (single_total_gen string_dom h rank Hr cs [] (fun _ => True) I (Nat.max 1 (N.to_nat (blen h))) (fun _ => True)); auto.
  - intros m ks inc _ _. destruct (s_bind_all_total h m ks inc) as [l B]. exists l. split; [exact B|].
    split; [eapply s_bind_all_length; eauto|apply Forall_forall; auto].
  - intros c m Hc _. apply s_sat_total. now apply Har.
  - intros fuel reqk m Rq _. unfold requested, amb in Rq.
    destruct (s_requested_good _ _ _ Rq) as [Hg _]. unfold s_goodb in Hg. apply andb_true_iff in Hg as [Hnd H0].
    destruct reqk as [|k ks] eqn:E; [exists SUnbound; reflexivity|]. rewrite <- E in *.
    apply s_retain_total. split; [now apply (nodupb_NoDup N.eqb N.eqb_eq)|].
    rewrite E in H0. rewrite E. now apply (memb_in N.eqb N.eqb_eq).
Qed.

Theorem s_single_total p h :
  exists fuel0, forall fuel, fuel0 <= fuel -> exists r, single string_dom fuel (s_cvec p) h = Ok r.
Proof. apply s_single_total_cs. intros c Hc. now apply (s_cvec_arity p). Qed.

(** ** matrices *)
Lemma m_closure_nn keys x : (forall k, In k keys -> nn k) ->
  closure_list m_req (fun x => In x []) keys x -> nn x.
Proof.
  intros Hn [key [Hk Hc]]. destruct (m_closure _ _ Hc) as [-> | ->]; [auto|]. unfold nn. cbn. lia.
Qed.

Theorem m_single_total_cs cs h :
  (forall c, In c cs -> length (cargs c) = c_arity (cpred c)) ->
  (forall c k, In c cs -> In k (cargs c) -> nn k) ->
  exists fuel0, forall fuel, fuel0 <= fuel -> exists r, single matrix_dom fuel cs h = Ok r.
Proof.
  intros Har Hnn. destruct m_req_acyclic as [rank Hr]. unfold single.
  apply (single_total_gen matrix_dom h rank Hr cs [] mm_wf I (Nat.max 1 (ncells h)) (fun _ => True)); auto.
  - intros m ks inc Hm _. now apply m_bind_all_total.
  - intros c m Hc _. apply m_sat_total. now apply Har.
  - intros fuel reqk m Rq Hm. unfold requested, amb in Rq.
    change (keqb matrix_dom) with mkey_eqb in Rq. change (req matrix_dom) with m_req in Rq.
    destruct (m_requested_good _ _ _ Rq) as [Hg _]. unfold m_goodb in Hg. apply andb_true_iff in Hg as [Hnd H0].
    destruct (all_missing_ok mkey_eqb m_req mkey_eqb_spec fuel _ [] reqk m_req_acyclic Rq) as [_ [Hin _]].
    assert (Hkn : forall k, In k reqk -> nn k).
    { intros k Hk. apply Hin in Hk. eapply m_closure_nn; [|exact Hk].
      intros k0 Hk0. cbn [app] in Hk0. apply in_flat_map in Hk0 as [c [Hc Hk0]]. eauto. }
    destruct reqk as [|k ks] eqn:E; [exists MUnbound; reflexivity|]. rewrite <- E in *.
    apply m_retain_total; [exact Hm|]. split; [now apply (nodupb_NoDup mkey_eqb mkey_eqb_spec)|]. split.
    + rewrite E in H0. rewrite E. now apply (memb_in mkey_eqb mkey_eqb_spec).
    + now apply m_no_panic_nn.
Qed.

Theorem m_single_total p h :
  exists fuel0, forall fuel, fuel0 <= fuel -> exists r, single matrix_dom fuel (m_cvec p) h = Ok r.
Proof.
  apply m_single_total_cs; [intros c Hc; now apply (m_cvec_arity p)|intros c k Hc Hk; eapply m_cvec_keys_nn; eauto].
Qed.

(** ** match_exists and the naive many-matcher *)
Section Naive.
  Context {K V M H P : Type} (D : DomOps K V M H P).

  Lemma match_exists_total cs h :
    (exists fuel0, forall fuel, fuel0 <= fuel -> exists r, single D fuel cs h = Ok r) ->
    exists fuel0, forall fuel, fuel0 <= fuel -> exists b, match_exists D fuel cs h = Ok b.
  Proof.
    intros [f0 Hs]. exists f0. intros fuel Hf. unfold match_exists. destruct (Hs fuel Hf) as [r ->]. cbn [rbind]. eauto.
  Qed.

  Lemma naive_total css h :
    (forall cs, In cs css -> exists fuel0, forall fuel, fuel0 <= fuel -> exists r, single D fuel cs h = Ok r) ->
    exists fuel0, forall fuel, fuel0 <= fuel -> exists ms, naive D fuel css h = Ok ms.
  Proof.
    unfold naive. generalize 0%N as i. induction css as [|cs css IH]; intros i Hs.
    - exists 0. intros fuel _. cbn [naive_from]. eauto.
    - destruct (Hs cs (or_introl eq_refl)) as [f1 H1].
      destruct (IH (i + 1)%N (fun cs' Hc => Hs cs' (or_intror Hc))) as [f2 H2].
      exists (Nat.max f1 f2). intros fuel Hf. cbn [naive_from].
      destruct (H1 fuel ltac:(lia)) as [r ->]. cbn [rbind].
      destruct (H2 fuel ltac:(lia)) as [rs ->]. cbn [rbind]. eauto.
  Qed.
End Naive.

Theorem s_naive_total pats h :
  exists fuel0, forall fuel, fuel0 <= fuel -> exists ms, naive string_dom fuel (map s_cvec pats) h = Ok ms.
Proof.
  apply naive_total. intros cs Hc. apply in_map_iff in Hc as [p [<- _]]. apply s_single_total.
Qed.

Theorem m_naive_total pats h :
  exists fuel0, forall fuel, fuel0 <= fuel -> exists ms, naive matrix_dom fuel (map m_cvec pats) h = Ok ms.
Proof.
  apply naive_total. intros cs Hc. apply in_map_iff in Hc as [p [<- _]]. apply m_single_total.
Qed.
