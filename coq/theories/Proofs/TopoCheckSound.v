(** Soundness of the history validator of Cert/TopoCheck.v. *)
From PM Require Import Model.Prelude Model.Toposort Cert.TopoCheck Proofs.ToposortProofs.

Local Notation mem_in := (memb_in N.eqb N.eqb_eq).

Lemma hist_okb_gen : forall calls outs em, hist_okb calls outs em = true ->
  length outs = length calls /\ NoDup (somes outs) /\ (forall n, In n (somes outs) -> ~ In n em) /\
  forall c1 g ord c2, calls = c1 ++ (g, ord) :: c2 ->
    exists o1 r o2, outs = o1 ++ r :: o2 /\ length o1 = length c1 /\
      (forall n, r = Some n -> In n (t_nodes g) /\ ~ In n em /\ ~ In n (somes o1)
                              /\ forall p, In p (t_preds g n) -> In p em \/ In p (somes o1)) /\
      (r = None -> forall n, In n (t_nodes g) -> In n em \/ In n (somes o1)).
Proof.
  induction calls as [|[g ord] cs IH]; intros outs em Hb.
  - destruct outs; [|discriminate]. cbn. repeat split; auto; try constructor. intros c1 g ord c2 E. destruct c1; discriminate.
  - destruct outs as [|[n|] os]; cbn [hist_okb] in Hb; try discriminate.
    + apply andb_true_iff in Hb as [Hb Hrest]. apply andb_true_iff in Hb as [Hb Hpreds]. apply andb_true_iff in Hb as [Hn Hne].
      apply mem_in in Hn. apply negb_true_iff in Hne.
      assert (Hnem : ~ In n em) by (intros Hin; apply mem_in in Hin; congruence).
      destruct (IH os (n :: em) Hrest) as [Hl [Hnd [Hdis Hsp]]].
      split; [cbn [length]; now rewrite Hl|]. split; [|split].
      * cbn [somes]. constructor; [|exact Hnd]. intros Hin. apply (Hdis n Hin). now left.
      * cbn [somes]. intros x [<-|Hx]; [exact Hnem|]. intros Hin. apply (Hdis x Hx). now right.
      * intros c1 g0 ord0 c2 E. destruct c1 as [|c c1'].
        -- cbn [app] in E. inversion E; subst g0 ord0 c2. exists [], (Some n), os. split; [reflexivity|]. split; [reflexivity|]. split.
           ++ intros n0 E0. inversion E0; subst n0. split; [exact Hn|]. split; [exact Hnem|]. split; [intros []|].
              intros p Hp. left. rewrite forallb_forall in Hpreds. apply mem_in. now apply Hpreds.
           ++ discriminate.
        -- cbn [app] in E. inversion E; subst c cs.
           destruct (Hsp c1' g0 ord0 c2 eq_refl) as [o1 [r [o2 [Eo [Hlo [Hs Hn0]]]]]].
           exists (Some n :: o1), r, o2. split; [cbn [app]; now rewrite Eo|]. split; [cbn [length]; now rewrite Hlo|]. split.
           ++ intros n0 E0. destruct (Hs n0 E0) as [H1 [H2 [H3 H4]]]. split; [exact H1|]. split; [intros Hin; apply H2; now right|].
              split; [cbn [somes]; intros [<-|Hin]; [apply H2; now left|contradiction]|].
              intros p Hp. destruct (H4 p Hp) as [[<-|Hpe]|Hpo]; [right; cbn [somes]; now left|now left|right; cbn [somes]; now right].
           ++ intros E0 n0 Hn0'. destruct (Hn0 E0 n0 Hn0') as [[<-|He]|Ho]; [right; cbn [somes]; now left|now left|right; cbn [somes]; now right].
    + apply andb_true_iff in Hb as [Hall Hrest].
      destruct (IH os em Hrest) as [Hl [Hnd [Hdis Hsp]]].
      split; [cbn [length]; now rewrite Hl|]. split; [exact Hnd|]. split; [exact Hdis|].
      intros c1 g0 ord0 c2 E. destruct c1 as [|c c1'].
      * cbn [app] in E. inversion E; subst g0 ord0 c2. exists [], None, os. split; [reflexivity|]. split; [reflexivity|]. split; [discriminate|].
        intros _ n0 Hn0. left. rewrite forallb_forall in Hall. apply mem_in. now apply Hall.
      * cbn [app] in E. inversion E; subst c cs.
        destruct (Hsp c1' g0 ord0 c2 eq_refl) as [o1 [r [o2 [Eo [Hlo [Hs Hn0]]]]]].
        exists (None :: o1), r, o2. split; [cbn [app]; now rewrite Eo|]. split; [cbn [length]; now rewrite Hlo|]. split; [exact Hs|exact Hn0].
Qed.

(** the three clauses of C15, for the history itself *)
Theorem hist_okb_sound calls outs : hist_okb calls outs [] = true ->
  NoDup (somes outs) /\
  forall c1 g ord c2, calls = c1 ++ (g, ord) :: c2 ->
    exists o1 r o2, outs = o1 ++ r :: o2 /\ length o1 = length c1 /\
      (forall n, r = Some n -> In n (t_nodes g) /\ ~ In n (somes o1) /\ forall p, In p (t_preds g n) -> In p (somes o1)) /\
      (r = None -> forall n, In n (t_nodes g) -> In n (somes o1)).
Proof.
  intros Hb. destruct (hist_okb_gen calls outs [] Hb) as [_ [Hnd [_ Hsp]]]. split; [exact Hnd|].
  intros c1 g ord c2 E. destruct (Hsp c1 g ord c2 E) as [o1 [r [o2 [Eo [Hl [Hs Hn]]]]]].
  exists o1, r, o2. split; [exact Eo|]. split; [exact Hl|]. split.
  - intros n E0. destruct (Hs n E0) as [H1 [_ [H3 H4]]]. split; [exact H1|]. split; [exact H3|].
    intros p Hp. destruct (H4 p Hp) as [[]|H]; exact H.
  - intros E0 n Hn0. destruct (Hn E0 n Hn0) as [[]|H]; exact H.
Qed.
