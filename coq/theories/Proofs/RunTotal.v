(** Totality of the traversal (C08, matching half), generic part: on a
    well-formed automaton, for a domain whose component operations are total on
    the bindings that can arise ([Pm]) and whose bind_all yields at most [Bc]
    candidates, [run] never reaches a panic site and returns [Ok] for every fuel
    above an explicit bound (items weigh (B+1)^(rmax - rank), so the queue gets
    lighter at every step of the acyclic automaton). *)
From PM Require Import Model.Prelude Model.Domain Model.Constraint Model.BindAll Model.Automaton Model.Traversal
  Cert.WfCheck Proofs.BindAllProofs Proofs.WfSound Proofs.StringRun Proofs.StringUnique.

Lemma rmapM_total {X Y} (f : X -> res Y) l :
  (forall x, In x l -> exists y, f x = Ok y) -> exists r, rmapM f l = Ok r /\ length r = length l.
Proof.
  induction l as [|x l IH]; intros H; [exists []; auto|].
  destruct (H x (or_introl eq_refl)) as [y Ey]. destruct IH as [r [Er Hl]]; [intros z Hz; apply H; now right|].
  exists (y :: r). cbn. rewrite Ey. cbn. rewrite Er. cbn. split; auto.
Qed.

Lemma rflatM_total {X Y} (f : X -> res (list Y)) l n :
  (forall x, In x l -> exists ys, f x = Ok ys /\ (length ys <= n)%nat) ->
  exists r, rflatM f l = Ok r /\ (length r <= length l * n)%nat.
Proof.
  induction l as [|x l IH]; intros H; [exists []; cbn; auto|].
  destruct (H x (or_introl eq_refl)) as [ys [Ey Hy]]. destruct IH as [r [Er Hl]]; [intros z Hz; apply H; now right|].
  exists (ys ++ r). cbn [rflatM]. rewrite Ey. cbn [rbind]. rewrite Er. cbn [rbind]. split; auto.
  rewrite app_length. cbn [length]. lia.
Qed.

Lemma rflatM_total' {X Y} (f : X -> res (list Y)) l :
  (forall x, In x l -> exists ys, f x = Ok ys) -> exists r, rflatM f l = Ok r.
Proof.
  induction l as [|x l IH]; intros H; [exists []; reflexivity|].
  destruct (H x (or_introl eq_refl)) as [ys Ey]. destruct IH as [r Er]; [intros z Hz; apply H; now right|].
  exists (ys ++ r). cbn [rflatM]. rewrite Ey. cbn [rbind]. rewrite Er. reflexivity.
Qed.

Lemma resolve_length {K V M H P} (D : DomOps K V M H P) (m : M) args vs :
  resolve_args D m args = inr vs -> length vs = length args.
Proof.
  revert vs. induction args as [|k ks IH]; intros vs R; cbn in R; [inversion R; reflexivity|].
  destruct (mget D m k); [|discriminate]. destruct (resolve_args D m ks) as [e|vs'] eqn:R'; inversion R; subst.
  cbn. now rewrite (IH vs' eq_refl).
Qed.


Lemma list_max_ge {X} (f : X -> nat) l x : In x l -> (f x <= fold_right Nat.max 0%nat (map f l))%nat.
Proof.
  induction l as [|y l IH]; intros Hin; [destruct Hin|]. cbn [map fold_right].
  destruct Hin as [->|Hin]; [lia|]. specialize (IH Hin). lia.
Qed.

Section RunTotal.
  Context {K V M H P : Type} (D : DomOps K V M H P).
  Variable A : automaton K P.
  Variable ids : list N.
  Hypothesis HWF : WF D A ids.
  Hypothesis HAR : arity_ok D A = true.
  Variable h : H.
  (** the bindings that can arise, the key lists handed to retain_keys, a bound
      on the number of candidates of one bind_all *)
  Variable Pm : M -> Prop.
  (** ... and the candidates bind_all produces from them *)
  Variable Pc : M -> Prop.
  Hypothesis Pm_Pc : forall m, Pm m -> Pc m.
  Variable Bc : nat.
  Hypothesis Pm_empty : Pm (mempty D).
  (** the key lists handed to bind_all: scopes, and sub-lists of the keys recorded for a pattern *)
  Variable okks : list K -> Prop.
  Hypothesis okks_scope : forall st, In st (au_states A) -> okks (a_scope st).
  Hypothesis okks_match : forall st pk f, In st (au_states A) -> In pk (a_matches st) -> okks (filter f (snd pk)).
  Hypothesis H_bind : forall m ks inc, Pm m -> okks ks -> exists l, bind_all D h m ks inc = Ok l /\ (length l <= Bc)%nat /\ Forall Pc l.
  Hypothesis H_retain_scope : forall st m, In st (au_states A) -> Pc m -> exists m', mretain D (a_scope st) m = Ok m' /\ Pm m'.
  Hypothesis H_retain_match : forall st pk m, In st (au_states A) -> In pk (a_matches st) -> Pc m ->
    exists m', mretain D (snd pk) m = Ok m'.
  Hypothesis H_sat : forall (c : constraint K P) m, length (cargs c) = arity D (cpred c) -> Pm m ->
    exists b, sat_or_false D h c m = Ok b.

  Lemma find_edge_unique (st : astate K P) e :
    In st (au_states A) -> In e (a_out st) -> find_edge (a_out st) (e_id e) = Some e.
  Proof.
    intros Hst He. pose proof (wf_edge_ids _ _ _ HWF st Hst) as Hnd. revert He Hnd.
    induction (a_out st) as [|x l IH]; intros He Hnd; [destruct He|]. cbn [find_edge map] in *.
    inversion Hnd as [|? ? Hn Hd]; subst. destruct He as [->|He].
    - now rewrite N.eqb_refl.
    - destruct (N.eqb_spec (e_id x) (e_id e)) as [Eq|]; [|auto].
      exfalso. apply Hn. rewrite Eq. now apply in_map.
  Qed.

  Lemma get_state_total t : In t (state_ids A) -> exists st, get_state A t = Ok st /\ In st (au_states A) /\ a_id st = t.
  Proof.
    unfold state_ids, get_state. intros Hin. apply in_map_iff in Hin as [st [E Hst]].
    assert (G : exists st', find_state (au_states A) t = Some st').
    { clear - E Hst. induction (au_states A) as [|x l IH]; [destruct Hst|]. cbn.
      destruct (N.eqb_spec (a_id x) t); [eauto|]. destruct Hst as [->|Hst]; [contradiction|auto]. }
    destruct G as [st' G]. rewrite G. exists st'. split; auto.
    clear - G. induction (au_states A) as [|x l IH]; cbn in G; [discriminate|].
    destruct (N.eqb_spec (a_id x) t).
    - inversion G; subst. split; [now left|reflexivity].
    - destruct (IH G). split; [now right|assumption].
  Qed.

  Lemma cons_transitions_total st : In st (au_states A) ->
    exists cts, cons_transitions st = Ok cts /\ length cts = length (a_corder st).
  Proof.
    intros Hst. unfold cons_transitions. apply rmapM_total. intros id Hid.
    destruct (wf_corder _ _ _ HWF st Hst) as [_ Hiff]. apply Hiff in Hid as [e [He [Eid Hc]]].
    subst id. rewrite (find_edge_unique st e Hst He). destruct e as [eid tgt [c|]]; [eauto|]. cbn in Hc. contradiction.
  Qed.

  Lemma fail_next_total st : In st (au_states A) ->
    exists fo, fail_next_state st = Ok fo /\ forall t, fo = Some t -> exists e, In e (a_out st) /\ e_target e = t.
  Proof.
    intros Hst. unfold fail_next_state. pose proof (wf_one_eps _ _ _ HWF st Hst) as Hle.
    destruct (a_eorder st) as [|id [|id2 r]] eqn:Eo; [exists None; split; [auto|discriminate]| |cbn in Hle; lia].
    destruct (wf_eorder _ _ _ HWF st Hst) as [_ Hiff].
    assert (Hid : In id (a_eorder st)) by (rewrite Eo; now left).
    apply Hiff in Hid as [e [He [Eid _]]]. subst id. rewrite (find_edge_unique st e Hst He).
    exists (Some (e_target e)). split; auto. intros t X. inversion X; subst. eauto.
  Qed.

  Lemma edge_arity st c t cts : In st (au_states A) -> cons_transitions st = Ok cts -> In (c, t) cts ->
    length (cargs c) = arity D (cpred c).
  Proof.
    intros Hst CT Hin. destruct (cons_transitions_edge st cts c t CT Hin) as [e [He [Ec _]]].
    unfold arity_ok in HAR. rewrite forallb_forall in HAR. specialize (HAR st Hst).
    rewrite forallb_forall in HAR. specialize (HAR e He). rewrite Ec in HAR. now apply Nat.eqb_eq in HAR.
  Qed.

  Lemma filter_sat_total m (cts : list (constraint K P * N)) :
    Pm m -> (forall c t, In (c, t) cts -> length (cargs c) = arity D (cpred c)) ->
    exists r, filter_sat D h m cts = Ok r /\ (length r <= length cts)%nat.
  Proof.
    intros Hm. induction cts as [|[c t] cts IH]; intros Ha; [exists []; auto|].
    destruct (H_sat c m (Ha c t (or_introl eq_refl)) Hm) as [b Eb].
    destruct IH as [r [Er Hl]]; [intros c' t' Hin; apply (Ha c' t'); now right|].
    exists (if b then t :: r else r). cbn [filter_sat]. rewrite Eb. cbn [rbind]. rewrite Er. cbn [rbind]. split; auto.
    destruct b; cbn [length]; lia.
  Qed.

  Definition cmax : nat := fold_right Nat.max 0%nat (map (fun st => length (a_corder st)) (au_states A)).

  Lemma cmax_ge st : In st (au_states A) -> (length (a_corder st) <= cmax)%nat.
  Proof. intros Hin. unfold cmax. now apply (list_max_ge (fun st => length (a_corder st))). Qed.

  Definition Bh : nat := (Bc * S cmax)%nat.

  Lemma emissions_total st m : In st (au_states A) -> Pm m -> exists e, emissions D h st m = Ok e.
  Proof.
    intros Hst Hm. unfold emissions. apply rflatM_total'. intros [pid keys] Hpk. cbn zeta.
    set (new_keys := filter (fun k => match mget D m k with None => true | Some _ => false end) keys).
    assert (Hbs : exists bs, match new_keys with [] => Ok [m] | _ => bind_all D h m new_keys false end = Ok bs /\ Forall Pc bs).
    { destruct new_keys as [|k0 nk] eqn:En; [exists [m]; split; auto|].
      destruct (H_bind m new_keys false Hm) as [l0 [E [_ F]]]; [apply (okks_match st (pid, keys) _ Hst Hpk)|].
      rewrite En in E. eauto. }
    destruct Hbs as [bs [-> HF]]. cbn [rbind].
    destruct (rmapM_total (mretain D keys) bs) as [bs' [-> _]].
    { intros b Hb. rewrite Forall_forall in HF. apply (H_retain_match st (pid, keys) b Hst Hpk (HF b Hb)). }
    cbn [rbind]. eauto.
  Qed.

  Lemma next_legal_total st m : In st (au_states A) -> Pm m ->
    exists ys, next_legal_states D h st m = Ok ys /\ (length ys <= Bh)%nat
               /\ forall y, In y ys -> Pm (snd y) /\ exists e, In e (a_out st) /\ e_target e = fst y.
  Proof.
    intros Hst Hm. unfold next_legal_states.
    destruct (H_bind m (a_scope st) true Hm (okks_scope st Hst)) as [cands [B [Hlc HFc]]]. rewrite B. cbn [rbind].
    assert (HR : exists cands', rmapM (mretain D (a_scope st)) cands = Ok cands' /\ length cands' = length cands /\ Forall Pm cands').
    { clear B Hlc. induction cands as [|c cs IH]; [exists []; auto|]. inversion HFc as [|? ? Hc Hcs]; subst.
      destruct (H_retain_scope st c Hst Hc) as [c' [Ec Pc']]. destruct (IH Hcs) as [cs' [Ecs [Hl Fc]]].
      exists (c' :: cs'). cbn [rmapM]. rewrite Ec. cbn [rbind]. rewrite Ecs. cbn [rbind length]. auto. }
    destruct HR as [cands' [R [Hl' HF']]]. rewrite R. cbn [rbind].
    destruct (cons_transitions_total st Hst) as [cts [CT Hlen]]. rewrite CT. cbn [rbind].
    destruct (fail_next_total st Hst) as [fo [FN Hfo]].
    pose proof (cmax_ge st Hst) as Hcm.
    destruct (rflatM_total (fun b =>
                let* fired := filter_sat D h b cts in
                let needs_fail := negb (a_det st) || match fired with [] => true | _ => false end in
                let* fail := if needs_fail then fail_next_state st else Ok None in
                Ok (map (fun t => (t, b)) fired ++ match fail with Some t => [(t, b)] | None => [] end)) cands' (S cmax))
      as [ys [E Hly]].
    { intros b Hb. rewrite Forall_forall in HF'. destruct (filter_sat_total b cts (HF' b Hb)) as [fired [FS Hlf]].
      { intros c t Hin. eapply edge_arity; eauto. }
      rewrite FS. cbn [rbind]. cbn zeta.
      destruct (negb (a_det st) || match fired with [] => true | _ => false end).
      - rewrite FN. cbn [rbind]. eexists. split; [reflexivity|]. rewrite app_length, map_length.
        destruct fo; cbn [length]; lia.
      - cbn [rbind]. eexists. split; [reflexivity|]. rewrite app_length, map_length. cbn [length]. lia. }
    exists ys. split; [exact E|]. split.
    - unfold Bh. rewrite Hl' in Hly. nia.
    - intros [t b] Hy. cbn [fst snd].
      destruct (proj1 (rflatM_in _ _ _ _ E) Hy) as [b0 [zs [Hb [Hf Hz]]]].
      destruct (filter_sat D h b0 cts) as [fired| |] eqn:FS; cbn [rbind] in Hf; try discriminate.
      cbn zeta in Hf.
      destruct (if negb (a_det st) || match fired with [] => true | _ => false end then fail_next_state st else Ok None)
        as [fail| |] eqn:FN'; cbn [rbind] in Hf; try discriminate.
      inversion Hf; subst zs. rewrite Forall_forall in HF'. apply in_app_or in Hz as [Hz|Hz].
      + apply in_map_iff in Hz as [t0 [Et Ht]]. inversion Et; subst. split; [auto|].
        destruct (StringUnique.filter_sat_bwd D h b cts fired t FS Ht) as [c [Hct _]].
        destruct (cons_transitions_edge st cts c t CT Hct) as [e [He [_ Het]]]. eauto.
      + destruct fail as [t0|]; [|destruct Hz]. destruct Hz as [Et|[]]. inversion Et; subst. split; [auto|].
        apply Hfo. destruct (negb (a_det st) || match fired with [] => true | _ => false end); [congruence|discriminate].
  Qed.

  (** ** the measure: items weigh more the closer their state is to the root *)
  Variable rank : N -> nat.
  Hypothesis Hrank : forall s e, In s (au_states A) -> In e (a_out s) -> (rank (a_id s) < rank (e_target e))%nat.

  Definition rmax : nat := fold_right Nat.max 0%nat (map rank (state_ids A)).
  Lemma rmax_ge t : In t (state_ids A) -> (rank t <= rmax)%nat.
  Proof. intros Hin. unfold rmax. now apply (list_max_ge rank). Qed.

  Definition weight (t : N) : nat := Nat.pow (S Bh) (rmax - rank t).
  Definition measure (q : list (N * M)) : nat := fold_right (fun x acc => (weight (fst x) + acc)%nat) 0%nat q.

  Lemma weight_pos t : (1 <= weight t)%nat.
  Proof. unfold weight. pose proof (Nat.pow_nonzero (S Bh) (rmax - rank t)). lia. Qed.

  Lemma measure_app q1 q2 : measure (q1 ++ q2) = (measure q1 + measure q2)%nat.
  Proof. unfold measure. induction q1 as [|x q IH]; cbn [app fold_right]; [reflexivity|]. rewrite IH. lia. Qed.

  Lemma measure_bound ys w : (forall y, In y ys -> (weight (fst y) <= w)%nat) -> (measure ys <= length ys * w)%nat.
  Proof.
    induction ys as [|y ys IH]; intros Hw; [cbn; lia|]. cbn [measure fold_right length].
    specialize (Hw y (or_introl eq_refl)) as Hy. fold (measure ys).
    assert (measure ys <= length ys * w)%nat by (apply IH; intros z Hz; apply Hw; now right). lia.
  Qed.

  (** successors weigh less than their source, all together *)
  Lemma successors_lighter st ys :
    In st (au_states A) -> (length ys <= Bh)%nat ->
    (forall y, In y ys -> exists e, In e (a_out st) /\ e_target e = fst y) ->
    (measure ys + 1 <= weight (a_id st))%nat.
  Proof.
    intros Hst Hlen Hsucc.
    assert (Hid : In (a_id st) (state_ids A)) by (unfold state_ids; now apply in_map).
    pose proof (rmax_ge _ Hid) as Hr.
    destruct ys as [|y0 ys'] eqn:Ey; [cbn; apply weight_pos|]. rewrite <- Ey in *.
    (* some successor exists: the rank of st is below rmax *)
    assert (Hlt : (rank (a_id st) < rmax)%nat).
    { destruct (Hsucc y0) as [e [He Het]]; [rewrite Ey; now left|].
      pose proof (Hrank st e Hst He). pose proof (rmax_ge _ (wf_targets _ _ _ HWF st e Hst He)). lia. }
    unfold weight at 1. destruct (rmax - rank (a_id st))%nat as [|d] eqn:Ed; [lia|]. rewrite Nat.pow_succ_r'.
    set (Pw := Nat.pow (S Bh) d).
    assert (HP : (1 <= Pw)%nat) by (unfold Pw; pose proof (Nat.pow_nonzero (S Bh) d); lia).
    assert (Hys : (measure ys <= length ys * Pw)%nat).
    { apply measure_bound. intros y Hy. destruct (Hsucc y Hy) as [e [He Het]].
      pose proof (Hrank st e Hst He) as Hre. rewrite Het in Hre. unfold weight, Pw.
      apply Nat.pow_le_mono_r; lia. }
    nia.
  Qed.

  Lemma run_loop_total : forall fuel queue vis acc,
    (forall x, In x queue -> In (fst x) (state_ids A) /\ Pm (snd x)) -> (measure queue < fuel)%nat ->
    exists ms, run_loop D fuel A h queue vis acc = Ok ms.
  Proof.
    induction fuel as [|f IH]; intros queue vis acc Hq Hm; [lia|]. cbn [run_loop].
    destruct queue as [|[t m] q]; [eauto|].
    destruct (Hq (t, m) (or_introl eq_refl)) as [Ht Hpm]. cbn [fst snd] in Ht, Hpm.
    destruct (get_state_total t Ht) as [st [G [Hst Hid]]]. rewrite G. cbn [rbind].
    cbn [measure fold_right fst] in Hm. fold (measure q) in Hm. pose proof (weight_pos t).
    destruct (visited_mem D t (view D st m) vis).
    - apply IH; [intros x Hx; apply Hq; now right|lia].
    - destruct (emissions_total st m Hst Hpm) as [e ->]. cbn [rbind].
      destruct (next_legal_total st m Hst Hpm) as [ys [-> [Hlen Hsucc]]]. cbn [rbind].
      apply IH.
      + intros x Hx. apply in_app_or in Hx as [Hx|Hx]; [apply Hq; now right|].
        destruct (Hsucc x Hx) as [Hpx [e' [He' <-]]]. split; [apply (wf_targets _ _ _ HWF st e' Hst He')|exact Hpx].
      + rewrite measure_app.
        pose proof (successors_lighter st ys Hst Hlen (fun y Hy => proj2 (Hsucc y Hy))) as Hl. rewrite Hid in Hl. lia.
  Qed.

  Theorem run_total_gen :
    exists fuel0, forall fuel, (fuel0 <= fuel)%nat -> exists ms, run D fuel A h = Ok ms.
  Proof.
    exists (S (weight (au_root A))). intros fuel Hf. unfold run. apply run_loop_total.
    - intros x [<-|[]]. cbn. split; [apply (wf_rooted _ _ _ HWF)|exact Pm_empty].
    - cbn. lia.
  Qed.
End RunTotal.

(** ** no panic site is reachable (without a bound on the candidates: the result
    is [Ok] or [OutOfFuel], whatever the fuel) *)
Section RunNoPanic.
  Context {K V M H P : Type} (D : DomOps K V M H P).
  Variable A : automaton K P.
  Variable ids : list N.
  Hypothesis HWF : WF D A ids.
  Hypothesis HAR : arity_ok D A = true.
  Variable h : H.
  Variable Pm : M -> Prop.
  Variable Pc : M -> Prop.
  Hypothesis Pm_Pc : forall m, Pm m -> Pc m.
  Hypothesis Pm_empty : Pm (mempty D).
  Variable okks : list K -> Prop.
  Hypothesis okks_scope : forall st, In st (au_states A) -> okks (a_scope st).
  Hypothesis okks_match : forall st pk f, In st (au_states A) -> In pk (a_matches st) -> okks (filter f (snd pk)).
  Hypothesis H_bind : forall m ks inc, Pm m -> okks ks -> exists l, bind_all D h m ks inc = Ok l /\ Forall Pc l.
  Hypothesis H_retain_scope : forall st m, In st (au_states A) -> Pc m -> exists m', mretain D (a_scope st) m = Ok m' /\ Pm m'.
  Hypothesis H_retain_match : forall st pk m, In st (au_states A) -> In pk (a_matches st) -> Pc m ->
    exists m', mretain D (snd pk) m = Ok m'.
  Hypothesis H_sat : forall (c : constraint K P) m, length (cargs c) = arity D (cpred c) -> Pm m ->
    exists b, sat_or_false D h c m = Ok b.

  Definition not_panic {X} (r : res X) : Prop := match r with Panic _ => False | _ => True end.

  Lemma emissions_ok' st m : In st (au_states A) -> Pm m -> exists e, emissions D h st m = Ok e.
  Proof.
    intros Hst Hm. unfold emissions. apply rflatM_total'. intros [pid keys] Hpk. cbn zeta.
    set (new_keys := filter (fun k => match mget D m k with None => true | Some _ => false end) keys).
    assert (Hbs : exists bs, match new_keys with [] => Ok [m] | _ => bind_all D h m new_keys false end = Ok bs /\ Forall Pc bs).
    { destruct new_keys as [|k0 nk] eqn:En; [exists [m]; split; auto|].
      destruct (H_bind m new_keys false Hm) as [l0 [E F]]; [apply (okks_match st (pid, keys) _ Hst Hpk)|].
      rewrite En in E. eauto. }
    destruct Hbs as [bs [-> HF]]. cbn [rbind].
    destruct (rmapM_total (mretain D keys) bs) as [bs' [-> _]].
    { intros b Hb. rewrite Forall_forall in HF. apply (H_retain_match st (pid, keys) b Hst Hpk (HF b Hb)). }
    cbn [rbind]. eauto.
  Qed.

  Lemma filter_sat_ok' b (cts : list (constraint K P * N)) :
    Pm b -> (forall c t, In (c, t) cts -> length (cargs c) = arity D (cpred c)) ->
    exists fired, filter_sat D h b cts = Ok fired.
  Proof.
    intros Hb. induction cts as [|[c t] cts IH]; intros Ha; [exists []; reflexivity|].
    destruct (H_sat c b (Ha c t (or_introl eq_refl)) Hb) as [bb Eb].
    destruct IH as [r Er]; [intros c' t' Hin; apply (Ha c' t'); now right|].
    exists (if bb then t :: r else r). cbn [filter_sat]. rewrite Eb. cbn [rbind]. rewrite Er. reflexivity.
  Qed.

  Lemma next_legal_ok' st m : In st (au_states A) -> Pm m ->
    exists ys, next_legal_states D h st m = Ok ys
               /\ forall y, In y ys -> Pm (snd y) /\ In (fst y) (state_ids A).
  Proof.
    intros Hst Hm. unfold next_legal_states.
    destruct (H_bind m (a_scope st) true Hm (okks_scope st Hst)) as [cands [B HFc]]. rewrite B. cbn [rbind].
    assert (HR : exists cands', rmapM (mretain D (a_scope st)) cands = Ok cands' /\ Forall Pm cands').
    { clear B. induction cands as [|c cs IH]; [exists []; auto|]. inversion HFc as [|? ? Hc Hcs]; subst.
      destruct (H_retain_scope st c Hst Hc) as [c' [Ec Pc']]. destruct (IH Hcs) as [cs' [Ecs Fc]].
      exists (c' :: cs'). cbn [rmapM]. rewrite Ec. cbn [rbind]. rewrite Ecs. cbn [rbind]. auto. }
    destruct HR as [cands' [R HF']]. rewrite R. cbn [rbind].
    destruct (cons_transitions_total D A ids HWF st Hst) as [cts [CT Hlen]]. rewrite CT. cbn [rbind].
    destruct (fail_next_total D A ids HWF st Hst) as [fo [FN Hfo]].
    destruct (rflatM_total' (fun b =>
                let* fired := filter_sat D h b cts in
                let needs_fail := negb (a_det st) || match fired with [] => true | _ => false end in
                let* fail := if needs_fail then fail_next_state st else Ok None in
                Ok (map (fun t => (t, b)) fired ++ match fail with Some t => [(t, b)] | None => [] end)) cands')
      as [ys E].
    { intros b Hb. rewrite Forall_forall in HF'.
      assert (Hfs : exists fired, filter_sat D h b cts = Ok fired).
      { apply filter_sat_ok'; [apply HF'; exact Hb|].
        intros c t Hin. destruct (cons_transitions_edge st cts c t CT Hin) as [e [He [Ec _]]].
        unfold arity_ok in HAR. rewrite forallb_forall in HAR. specialize (HAR st Hst).
        rewrite forallb_forall in HAR. specialize (HAR e He). rewrite Ec in HAR. now apply Nat.eqb_eq in HAR. }
      destruct Hfs as [fired FS]. rewrite FS. cbn [rbind]. cbn zeta.
      destruct (negb (a_det st) || match fired with [] => true | _ => false end); [rewrite FN|]; cbn [rbind]; eauto. }
    exists ys. split; [exact E|].
    intros [t b] Hy. cbn [fst snd].
    destruct (proj1 (rflatM_in _ _ _ _ E) Hy) as [b0 [zs [Hb [Hf Hz]]]].
    destruct (filter_sat D h b0 cts) as [fired| |] eqn:FS; cbn [rbind] in Hf; try discriminate.
    cbn zeta in Hf.
    destruct (if negb (a_det st) || match fired with [] => true | _ => false end then fail_next_state st else Ok None)
      as [fail| |] eqn:FN'; cbn [rbind] in Hf; try discriminate.
    inversion Hf; subst zs. rewrite Forall_forall in HF'. apply in_app_or in Hz as [Hz|Hz].
    - apply in_map_iff in Hz as [t0 [Et Ht]]. inversion Et; subst. split; [auto|].
      destruct (StringUnique.filter_sat_bwd D h b cts fired t FS Ht) as [c [Hct _]].
      destruct (cons_transitions_edge st cts c t CT Hct) as [e [He [_ Het]]]. rewrite <- Het.
      apply (wf_targets _ _ _ HWF st e Hst He).
    - destruct fail as [t0|]; [|destruct Hz]. destruct Hz as [Et|[]]. inversion Et; subst. split; [auto|].
      destruct (Hfo t) as [e [He Het]].
      { destruct (negb (a_det st) || match fired with [] => true | _ => false end); [congruence|discriminate]. }
      rewrite <- Het. apply (wf_targets _ _ _ HWF st e Hst He).
  Qed.

  Lemma run_loop_no_panic : forall fuel queue vis acc,
    (forall x, In x queue -> In (fst x) (state_ids A) /\ Pm (snd x)) ->
    not_panic (run_loop D fuel A h queue vis acc).
  Proof.
    induction fuel as [|f IH]; intros queue vis acc Hq; cbn [run_loop]; [exact I|].
    destruct queue as [|[t m] q]; [exact I|].
    destruct (Hq (t, m) (or_introl eq_refl)) as [Ht Hpm]. cbn [fst snd] in Ht, Hpm.
    destruct (get_state_total A t Ht) as [st [G [Hst Hid]]]. rewrite G. cbn [rbind].
    destruct (visited_mem D t (view D st m) vis).
    - apply IH. intros x Hx. apply Hq. now right.
    - destruct (emissions_ok' st m Hst Hpm) as [e ->]. cbn [rbind].
      destruct (next_legal_ok' st m Hst Hpm) as [ys [-> Hsucc]]. cbn [rbind].
      apply IH. intros x Hx. apply in_app_or in Hx as [Hx|Hx]; [apply Hq; now right|].
      destruct (Hsucc x Hx). auto.
  Qed.

  Theorem run_no_panic_gen fuel : not_panic (run D fuel A h).
  Proof.
    unfold run. apply run_loop_no_panic. intros x [<-|[]]. cbn. split; [apply (wf_rooted _ _ _ HWF)|exact Pm_empty].
  Qed.
End RunNoPanic.
