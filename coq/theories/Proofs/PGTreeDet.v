(** C10: the port-graph decomposition whose smallest constraint is a not-equal
    constraint (a powerset tree) is faithful under the deterministic reading of
    its root, for every node assignment and every truth of the opaque predicates. *)
From PM Require Import Model.Prelude Model.Domain Model.CTree Model.DomPGKeys Spec.TreeSem Spec.TreeDet
  Proofs.TreeProofs Proofs.TreeDomains Proofs.PowersetProofs Proofs.PowersetDet Proofs.PGTreeProofs.

Lemma det_faithful_set_make_det {C} (v : C -> bool) (T : ctree C) b cs :
  det_faithful v T cs -> det_faithful v (set_make_det T b) cs.
Proof.
  assert (R : forall n, dreach v (set_make_det T b) n <-> dreach v T n).
  { intros n. split; induction 1; try constructor.
    - eapply dr_first; eauto.
    - eapply dr_child; eauto.
    - eapply (dr_first v (set_make_det T b)); eauto.
    - eapply (dr_child v (set_make_det T b)); eauto. }
  intros F i Hin. specialize (F i Hin). unfold labelled in *. cbn in *.
  split.
  - intros [n [Hr Hl]]. apply F. exists n. split; auto. now apply R.
  - intros Hc. destruct (proj2 F Hc) as [n [Hr Hl]]. exists n. split; auto. now apply R.
Qed.

Theorem pg_ne_tree_det_faithful (beta : pgkey -> N) (atomv : pgconstraint -> bool) cs fuel T first fi rest :
  sort_with_indices pgc_cmp cs = (first, fi) :: rest -> is_ne first = true ->
  pg_tree fuel cs = Ok T ->
  det_faithful (pgv beta atomv) T cs.
Proof.
  intros Es Nf Pt. unfold pg_tree in Pt. destruct cs as [|c1 cs']; [cbn in Es; discriminate|].
  set (cs := c1 :: cs') in *. rewrite Es, Nf in Pt.
  assert (Hidx : forall c i, In (c, i) ((first, fi) :: rest) -> nth_error cs i = Some c).
  { intros c i Hin. apply (sort_with_indices_in pgc_cmp). rewrite Es. exact Hin. }
  destruct (existsb (fun ci : pgconstraint * nat => is_ne (fst ci) && match cargs (fst ci) with [] => true | _ => false end)
                    ((first, fi) :: rest)) eqn:Ex; [discriminate|].
  set (fam := filter (fun ci : pgconstraint * nat => is_ne (fst ci) && fst_key_eq (fst ci) first) ((first, fi) :: rest)) in Pt.
  destruct (with_powerset pgc_eqb pg_conditioned fuel fam) as [t| |] eqn:Wp; cbn in Pt; try discriminate.
  inversion Pt; subst. clear Pt.
  destruct (cargs first) as [|k0 others0] eqn:Af.
  { exfalso. cbn in Ex. rewrite Nf, Af in Ex. discriminate. }
  assert (Hfam : ne_family k0 fam).
  { intros c i Hin. unfold fam in Hin. apply filter_In in Hin as [_ Hb]. cbn in Hb.
    apply andb_true_iff in Hb as [H1 H2]. split; auto.
    unfold fst_key_eq in H2. rewrite Af in H2. destruct (cargs c) as [|x o]; [discriminate|].
    apply pgkey_eqb_eq in H2. subst. eauto. }
  assert (Hfi : forall c i, In (c, i) fam -> nth_error cs i = Some c).
  { intros c i Hin. apply Hidx. unfold fam in Hin. apply filter_In in Hin. tauto. }
  apply det_faithful_set_make_det.
  exact (with_powerset_det_faithful pgc_eqb pg_conditioned (pgv beta atomv) fam cs Hfi (pgv_eqb beta atomv)
           (fun c sat => pg_conditioned_equiv beta atomv k0 fam c sat Hfam) fuel t Wp).
Qed.
