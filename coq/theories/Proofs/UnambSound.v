(** Soundness of the signed labelling and of the exclusivity check (C07,
    generic over the constraint type): in the abstract semantics under a fixed
    valuation, every reached state has an alternative label that holds, and two
    accepting entries of one pattern in distinct states are never reached under
    the same valuation. *)
From PM Require Import Model.Prelude Model.Domain Model.Automaton Cert.WinCheck Cert.UnambCheck.

Section UnambSound.
  Context {K P : Type}.
  Notation C := (constraint K P).
  Variable ceqb : C -> C -> bool.
  Hypothesis ceqb_spec : forall a b, ceqb a b = true <-> a = b.
  Variable refutes : list C -> C -> bool.
  Variable v : C -> bool.
  Hypothesis refutes_sound : forall cp c, refutes cp c = true -> (forall d, In d cp -> v d = true) -> v c = false.

  Definition label_holds (l : slabel) : Prop :=
    (forall c, In c (fst l) -> v c = true) /\ (forall c, In c (snd l) -> v c = false).

  Lemma cmemb_in c l : cmemb ceqb c l = true <-> In c l.
  Proof. apply memb_in. exact ceqb_spec. Qed.

  Lemma label_follows_holds src newp newn tgt :
    label_follows ceqb refutes src newp newn tgt = true ->
    label_holds src -> (forall c, In c newp -> v c = true) -> (forall c, In c newn -> v c = false) ->
    label_holds tgt.
  Proof.
    unfold label_follows. intros Hf [Hp Hn] Hnp Hnn. apply andb_true_iff in Hf as [F1 F2].
    rewrite forallb_forall in F1, F2. split.
    - intros c Hc. specialize (F1 c Hc). apply orb_true_iff in F1 as [F|F]; apply cmemb_in in F; auto.
    - intros c Hc. specialize (F2 c Hc). apply orb_true_iff in F2 as [F|F].
      + apply orb_true_iff in F as [F|F]; apply cmemb_in in F; auto.
      + apply (refutes_sound _ _ F). intros d Hd. apply in_app_or in Hd as [Hd|Hd]; auto.
  Qed.

  Lemma contradict_sound l1 l2 :
    contradict ceqb refutes l1 l2 = true -> label_holds l1 -> label_holds l2 -> False.
  Proof.
    unfold contradict. intros Hc [P1 N1] [P2 N2]. apply orb_true_iff in Hc as [Hc|Hc];
      apply existsb_exists in Hc as [c [Hin Hc]]; apply orb_true_iff in Hc as [Hc|Hc].
    - apply cmemb_in in Hc. pose proof (P1 c Hin). pose proof (N2 c Hc). congruence.
    - pose proof (refutes_sound _ _ Hc P2). pose proof (P1 c Hin). congruence.
    - apply cmemb_in in Hc. pose proof (N1 c Hc). pose proof (P2 c Hin). congruence.
    - pose proof (refutes_sound _ _ Hc P1). pose proof (P2 c Hin). congruence.
  Qed.

  Variable A : automaton K P.
  Variable L : slabelling (K:=K) (P:=P).
  Hypothesis HL : slab_ok ceqb refutes A L = true.

  Lemma find_state_in' (l : list (astate K P)) id s : find_state l id = Some s -> In s l /\ a_id s = id.
  Proof.
    induction l as [|s0 l IH]; cbn; [discriminate|].
    destruct (N.eqb_spec (a_id s0) id).
    - intros X. inversion X; subst. split; [now left|reflexivity].
    - intros F. destruct (IH F). split; [now right|assumption].
  Qed.

  Lemma get_state_in' id s : get_state A id = Ok s -> In s (au_states A) /\ a_id s = id.
  Proof.
    unfold get_state. destruct (find_state (au_states A) id) as [s'|] eqn:F; [|discriminate].
    intros X. inversion X; subst. now apply find_state_in'.
  Qed.

  Theorem slab_sound s : areach v A s -> exists l, In l (slab_get L s) /\ label_holds l.
  Proof.
    unfold slab_ok in HL. apply andb_true_iff in HL as [H0 HS]. rewrite forallb_forall in HS.
    induction 1 as [|s st cts c t Hr IH G CT Hin Hv|s st cts t Hr IH G CT FN Hd].
    - apply existsb_exists in H0 as [l [Hl El]]. exists l. split; auto.
      destruct l as [[|? ?] [|? ?]]; try discriminate. split; intros c [].
    - destruct IH as [l [Hl Hh]]. destruct (get_state_in' _ _ G) as [Hst Hid].
      specialize (HS st Hst). unfold sstate_ok in HS. rewrite CT in HS.
      destruct (fail_next_state st) as [fo| |]; try discriminate.
      apply andb_true_iff in HS as [HC _]. rewrite forallb_forall in HC. specialize (HC _ Hin). cbn in HC.
      unfold sedge_ok in HC. rewrite forallb_forall in HC. rewrite Hid in HC. specialize (HC l Hl).
      apply existsb_exists in HC as [l' [Hl' Hf]]. exists l'. split; auto.
      apply (label_follows_holds l [c] [] l' Hf Hh).
      + intros c' [<-|[]]. exact Hv.
      + intros c' [].
    - destruct IH as [l [Hl Hh]]. destruct (get_state_in' _ _ G) as [Hst Hid].
      specialize (HS st Hst). unfold sstate_ok in HS. rewrite CT, FN in HS.
      apply andb_true_iff in HS as [_ HE].
      unfold sedge_ok in HE. rewrite forallb_forall in HE. rewrite Hid in HE. specialize (HE l Hl).
      apply existsb_exists in HE as [l' [Hl' Hf]]. exists l'. split; auto.
      apply (label_follows_holds l [] _ l' Hf Hh).
      + intros c' [].
      + intros c' Hc'. destruct (a_det st) eqn:Ed; [|destruct Hc'].
        destruct Hd as [Hd|Hd]; [discriminate|].
        rewrite forallb_forall in Hd. apply in_map_iff in Hc' as [[c0 t0] [<- Hct]].
        specialize (Hd _ Hct). cbn in Hd. now apply negb_true_iff in Hd.
  Qed.

  (** two distinct states accepting the same pattern are not both reached *)
  Theorem cert_unamb_sound s1 s2 st1 st2 p :
    cert_unamb ceqb refutes A L = true ->
    areach v A s1 -> areach v A s2 ->
    get_state A s1 = Ok st1 -> get_state A s2 = Ok st2 ->
    In p (map fst (a_matches st1)) -> In p (map fst (a_matches st2)) -> s1 = s2.
  Proof.
    intros Hc R1 R2 G1 G2 P1 P2. destruct (N.eq_dec s1 s2) as [|Hne]; auto. exfalso.
    unfold cert_unamb in Hc. apply andb_true_iff in Hc as [_ Hc]. rewrite forallb_forall in Hc.
    destruct (get_state_in' _ _ G1) as [I1 E1]. destruct (get_state_in' _ _ G2) as [I2 E2].
    assert (A1 : In (s1, p) (accept_entries A)).
    { unfold accept_entries. apply in_flat_map. exists st1. split; auto.
      apply in_map_iff in P1 as [pk [<- Hpk]]. apply in_map_iff. exists pk. now rewrite E1. }
    assert (A2 : In (s2, p) (accept_entries A)).
    { unfold accept_entries. apply in_flat_map. exists st2. split; auto.
      apply in_map_iff in P2 as [pk [<- Hpk]]. apply in_map_iff. exists pk. now rewrite E2. }
    specialize (Hc _ A1). rewrite forallb_forall in Hc. specialize (Hc _ A2). cbn in Hc.
    rewrite N.eqb_refl in Hc. cbn in Hc. destruct (N.eqb_spec s1 s2); [contradiction|]. cbn in Hc.
    destruct (slab_sound _ R1) as [l1 [Hl1 Hh1]]. destruct (slab_sound _ R2) as [l2 [Hl2 Hh2]].
    unfold excl in Hc. rewrite forallb_forall in Hc. specialize (Hc _ Hl1).
    rewrite forallb_forall in Hc. specialize (Hc _ Hl2).
    eapply contradict_sound; eauto.
  Qed.

  (** within one state a pattern is listed once *)
  Lemma cert_unamb_nodup st :
    cert_unamb ceqb refutes A L = true -> In st (au_states A) -> NoDup (map fst (a_matches st)).
  Proof.
    intros Hc Hst. unfold cert_unamb in Hc. apply andb_true_iff in Hc as [Hc _].
    rewrite forallb_forall in Hc. apply (nodupb_NoDup N.eqb N.eqb_eq). auto.
  Qed.
End UnambSound.
