(** C02, port graphs, run level, the general positive statement: on a well-formed
    automaton all of whose keys hang off the single index root Root(0) (any set of
    single-root patterns), list_bind_options is a function of the image of the
    root: Root(0) is offered every node, Along(0,p)@l exactly the l-th node of the
    walk from the root image through p.  So every binding map of the run that
    binds Root(0) to [rimg] is a restriction of one canonical map [mst], the
    constraints have the same truth value concretely and under [mst], and the
    trace-closure argument goes through for every pattern whose abstract
    acceptance under [mst] the completeness certificate provides.  (With a second
    index root the candidates for Root(1) depend on everything bound so far: the
    known class D10.) *)
From PM Require Import Model.Prelude Model.Domain Model.Constraint Model.BindAll Model.BindMaps Model.Automaton Model.Traversal
  Model.DomString Model.DomPGKeys Model.DomPG Spec.Extends Cert.WfCheck Cert.WinCheck
  Proofs.BindAllProofs Proofs.BindMapProofs Proofs.RunSound Proofs.RunTrace Proofs.WfSound
  Proofs.PGTreeProofs Proofs.PGLawful Proofs.PGComplete Proofs.StringRun Proofs.MatrixRun Proofs.PGRunComplete.
Local Open Scope N_scope.

(** a key that hangs off Root(0) *)
Definition srk (k : pgkey) : bool :=
  match k with PathRoot i => N.eqb i 0 | AlongPath r _ _ => N.eqb r 0 end.

Section PGRunSingleRoot.
  Variable H : pghost.
  Variable rimg : N.
  Hypothesis Hlive : In rimg (live_nodes H).

  (** what the host offers for a key once Root(0) is bound to [rimg] *)
  Definition mv (k : pgkey) : option N :=
    match k with
    | PathRoot i => if N.eqb i 0 then Some rimg else None
    | AlongPath r p l => if N.eqb r 0 then nth_error (walk_nodes H rimg p) (N.to_nat l) else None
    end.

  Variable KL : list pgkey.
  Definition mst : pgmap := flat_map (fun k => match mv k with Some val => [(k, val)] | None => [] end) KL.

  Lemma mst_some k val : pgget mst k = Some val -> mv k = Some val.
  Proof.
    unfold mst, pgget. induction KL as [|k0 ks IH]; cbn [flat_map aget]; [discriminate|].
    destruct (mv k0) as [v0|] eqn:E0; cbn [app aget]; [|exact IH].
    destruct (pgkey_eqb k k0) eqn:Ek; [|exact IH]. apply pgkey_eqb_eq in Ek. subst k0. intros E. inversion E. now subst.
  Qed.

  Lemma mst_get k : In k KL -> pgget mst k = mv k.
  Proof.
    unfold mst, pgget. induction KL as [|k0 ks IH]; intros Hin; [destruct Hin|]. cbn [flat_map].
    destruct (mv k0) as [v0|] eqn:E0; cbn [app aget].
    - destruct (pgkey_eqb k k0) eqn:Ek; [apply pgkey_eqb_eq in Ek; subst k0; now rewrite E0|].
      destruct Hin as [->|Hin]; [rewrite (proj2 (pgkey_eqb_eq k k) eq_refl) in Ek; discriminate|now apply IH].
    - destruct Hin as [->|Hin]; [|now apply IH].
      rewrite E0. destruct (aget pgkey_eqb (flat_map (fun k1 => match mv k1 with Some val => [(k1, val)] | None => [] end) ks) k) as [val|] eqn:Eg; [|reflexivity].
      exfalso. assert (mv k = Some val); [|congruence].
      clear - Eg. induction ks as [|k1 ks IH]; cbn [flat_map aget] in Eg; [discriminate|].
      destruct (mv k1) as [v1|] eqn:E1; cbn [app aget] in Eg; [|auto].
      destruct (pgkey_eqb k k1) eqn:Ek; [|auto]. apply pgkey_eqb_eq in Ek. subst k1. inversion Eg. now subst.
  Qed.

  Let v := pgval H mst.

  Definition goodon2 (KS : list pgkey) (m : pgmap) : Prop :=
    forall k val, In k KS -> pgget m k = Some val -> mv k = Some val.

  (** list_bind_options as a function of the root image *)
  Lemma opts_exact m k : srk k = true -> pgget m k = None ->
    (forall r, In r (pg_req k) -> pgget m r = Some rimg) ->
    exists vs, pg_opts H k m = Ok vs /\ (forall val, mv k = Some val -> In val vs)
               /\ (mv k = None -> vs = []).
  Proof.
    intros Hs Hgk Hreq. unfold pg_opts. rewrite Hgk. destruct k as [i|r0 p l]; cbn [srk] in Hs; apply N.eqb_eq in Hs; subst.
    - cbn. exists (live_nodes H). split; [reflexivity|]. split; [intros val E; inversion E; subst; exact Hlive|discriminate].
    - rewrite (Hreq (PathRoot 0)) by (cbn; now left). cbn [mv]. rewrite N.eqb_refl.
      destruct (nth_error (walk_nodes H rimg p) (N.to_nat l)) as [n|].
      + exists [n]. split; [reflexivity|]. split; [intros val E; inversion E; now left|discriminate].
      + exists []. split; [reflexivity|]. split; [discriminate|reflexivity].
  Qed.

  Lemma goodon2_insert KS m k val : goodon2 KS m -> mv k = Some val -> goodon2 KS (ainsert pgkey_eqb m k val).
  Proof.
    intros Hg Ev k' v' Hk' Hgk. unfold pgget in Hgk. destruct (pgkey_eqb k' k) eqn:Ek.
    - apply pgkey_eqb_eq in Ek. subst k'. rewrite (aget_ainsert_same pgkey_eqb pgkey_eqb_eq) in Hgk. inversion Hgk; subst. exact Ev.
    - rewrite (aget_ainsert_other pgkey_eqb pgkey_eqb_eq) in Hgk; [now apply (Hg k')|]. intros ->.
      rewrite (proj2 (pgkey_eqb_eq k k) eq_refl) in Ek. discriminate.
  Qed.

  (** binding a prerequisites-first list of single-root keys: one candidate binds each
      key to what the host offers for it and leaves the unoffered ones unbound *)
  Lemma ext_keys2 KS inc : (forall k r, In k KS -> In r (pg_req k) -> In r KS) ->
    forall keys m, goodon2 KS m -> incl keys KS -> NoDup keys -> (forall k, In k keys -> srk k = true) ->
    (inc = false -> forall k, In k keys -> mv k <> None) ->
    (forall l1 k l2, keys = l1 ++ k :: l2 -> forall r, In r (pg_req k) -> In r l1 \/ pgget m r <> None) ->
    exists m', ext_rel pg_dom H inc keys m m' /\ goodon2 KS m'
               /\ (forall k, In k keys -> pgget m' k = mv k)
               /\ (forall k val, pgget m k = Some val -> pgget m' k = Some val)
               /\ (forall k, pgget m' k <> None -> pgget m k <> None \/ In k keys).
  Proof.
    intros Hcl. induction keys as [|k ks IH]; intros m Hg Hinc Hnd Hsr Hoff Hpre.
    - exists m. split; [constructor|]. split; [exact Hg|]. split; [intros k []|]. split; auto.
    - inversion Hnd as [|? ? Hnk Hnd']; subst.
      assert (HkK : In k KS) by (apply Hinc; now left).
      assert (Hks : srk k = true) by (apply Hsr; now left).
      assert (Htail : forall m1, (forall k' v', pgget m k' = Some v' -> pgget m1 k' = Some v') -> pgget m1 k <> None ->
                forall l1 x l2, ks = l1 ++ x :: l2 -> forall r, In r (pg_req x) -> In r l1 \/ pgget m1 r <> None).
      { intros m1 Hmono Hk1 l1 x l2 E r Hr. destruct (Hpre (k :: l1) x l2 ltac:(now rewrite E) r Hr) as [[<-|Hl]|Hbd]; [now right|now left|].
        right. destruct (pgget m r) as [vr|] eqn:Er; [|contradiction]. rewrite (Hmono _ _ Er). discriminate. }
      destruct (pgget m k) as [v0|] eqn:Hgk.
      + destruct (IH m Hg (fun x Hx => Hinc x (or_intror Hx)) Hnd' (fun x Hx => Hsr x (or_intror Hx))
                    (fun E x Hx => Hoff E x (or_intror Hx))) as [m' [He [Hg' [Hb [Hm Hdom]]]]].
        { apply (Htail m); [auto|congruence]. }
        exists m'. split; [eapply ext_bound; eauto|]. split; [exact Hg'|]. split; [|split; [exact Hm|]].
        * intros x [<-|Hx]; [rewrite (Hm _ _ Hgk); symmetry; now apply (Hg k v0 HkK)|now apply Hb].
        * intros x Hx. destruct (Hdom x Hx) as [Hd|Hd]; [now left|right; now right].
      + (* the prerequisites (Root(0)) are bound to the root image *)
        assert (Hreq : forall r, In r (pg_req k) -> pgget m r = Some rimg).
        { intros r Hr. destruct (Hpre [] k ks eq_refl r Hr) as [[]|Hbd].
          destruct (pgget m r) as [vr|] eqn:Er; [|contradiction].
          pose proof (Hg r vr (Hcl k r HkK Hr) Er) as Emv.
          destruct k as [i|r0 p l]; cbn [pg_req srk] in Hr, Hks.
          - apply N.eqb_eq in Hks. subst i. cbn in Hr. destruct Hr.
          - destruct Hr as [<-|[]]. apply N.eqb_eq in Hks. subst r0. cbn in Emv. now inversion Emv. }
        destruct (opts_exact m k Hks Hgk Hreq) as [vs [Ho [Hsome Hnone]]].
        destruct (mv k) as [val|] eqn:Emv.
        * set (m1 := ainsert pgkey_eqb m k val).
          assert (Hb1 : mbind pg_dom m k val = Some m1).
          { cbn [mbind pg_dom]. unfold abind. change (aget pgkey_eqb m k) with (pgget m k). now rewrite Hgk. }
          assert (Hg1 : pgget m1 k = Some val) by (unfold pgget, m1; apply (aget_ainsert_same pgkey_eqb pgkey_eqb_eq)).
          assert (Hoth : forall k', k' <> k -> pgget m1 k' = pgget m k').
          { intros k' Hne. unfold pgget, m1. now apply (aget_ainsert_other pgkey_eqb pgkey_eqb_eq). }
          assert (Hmono : forall k' v', pgget m k' = Some v' -> pgget m1 k' = Some v').
          { intros k' v' Hg'. rewrite Hoth; [exact Hg'|]. intros ->. congruence. }
          destruct (IH m1 (goodon2_insert KS m k val Hg Emv) (fun x Hx => Hinc x (or_intror Hx)) Hnd' (fun x Hx => Hsr x (or_intror Hx))
                      (fun E x Hx => Hoff E x (or_intror Hx))) as [m' [He [Hg' [Hb [Hm Hdom]]]]].
          { apply (Htail m1 Hmono). rewrite Hg1. discriminate. }
          exists m'. split; [eapply ext_bind; eauto|]. split; [exact Hg'|]. split; [|split].
          -- intros x [<-|Hx]; [rewrite (Hm _ _ Hg1); now rewrite Emv|now apply Hb].
          -- intros k' v' Hg0. apply Hm. now apply Hmono.
          -- intros x Hx. destruct (Hdom x Hx) as [Hd|Hd]; [|right; now right].
             destruct (pgkey_eqb x k) eqn:Exk; [apply pgkey_eqb_eq in Exk; subst x; right; now left|].
             left. rewrite <- Hoth; [exact Hd|]. intros ->. rewrite (proj2 (pgkey_eqb_eq k k) eq_refl) in Exk. discriminate.
        * (* nothing is offered: the key is skipped (only when incomplete bindings are allowed) *)
          destruct inc eqn:Einc; [|exfalso; apply (Hoff eq_refl k (or_introl eq_refl)); exact Emv].
          rewrite (Hnone eq_refl) in Ho.
          destruct (IH m Hg (fun x Hx => Hinc x (or_intror Hx)) Hnd' (fun x Hx => Hsr x (or_intror Hx))
                      (fun E x Hx => Hoff E x (or_intror Hx))) as [m' [He [Hg' [Hb [Hm Hdom]]]]].
          { intros l1 x l2 E r Hr. destruct (Hpre (k :: l1) x l2 ltac:(now rewrite E) r Hr) as [[<-|Hl]|Hbd]; [|now left|now right].
            (* a key whose prerequisite is the unoffered key k: impossible, prerequisites are Root(0), always offered *)
            exfalso. assert (Hx : srk x = true) by (apply Hsr; right; rewrite E; apply in_or_app; right; now left).
            destruct x as [i|r0 p l]; cbn [pg_req srk] in Hr, Hx.
            - apply N.eqb_eq in Hx. subst i. cbn in Hr. destruct Hr.
            - destruct Hr as [<-|[]]. apply N.eqb_eq in Hx. subst r0. cbn in Emv. discriminate. }
          exists m'. split; [eapply ext_skip; eauto|]. split; [exact Hg'|]. split; [|split; [exact Hm|]].
          -- intros x [<-|Hx]; [|now apply Hb]. rewrite Emv.
             destruct (pgget m' k) as [vk|] eqn:Ek'; [|reflexivity]. exfalso.
             destruct (Hdom k) as [Hd|Hd]; [rewrite Ek'; discriminate|congruence|contradiction].
          -- intros x Hx. destruct (Hdom x Hx) as [Hd|Hd]; [now left|right; now right].
  Qed.

  (** a constraint whose arguments are bound exactly as the host offers them has its
      abstract truth value *)
  Lemma resolve_exact m args : (forall k, In k args -> In k KL) -> (forall k, In k args -> pgget m k = mv k) ->
    resolve_args pg_dom m args = resolve_args pg_dom mst args.
  Proof.
    induction args as [|k ks IH]; intros Hkl He; [reflexivity|]. cbn [resolve_args].
    change (mget pg_dom m k) with (pgget m k). change (mget pg_dom mst k) with (pgget mst k).
    rewrite (mst_get k (Hkl k (or_introl eq_refl))), (He k (or_introl eq_refl)).
    destruct (mv k); [|reflexivity]. rewrite IH; [reflexivity| |]; intros x Hx; [apply Hkl|apply He]; now right.
  Qed.

  Lemma sat_exact m c b : (forall k, In k (cargs c) -> In k KL) -> (forall k, In k (cargs c) -> pgget m k = mv k) ->
    sat_or_false pg_dom H c m = Ok b -> b = v c.
  Proof.
    intros Hkl He. unfold sat_or_false, is_satisfied, is_satisfied_calls, rmap, v, pgval.
    rewrite (resolve_exact m (cargs c) Hkl He).
    destruct (resolve_args pg_dom mst (cargs c)) as [k|vs] eqn:R.
    - cbn [rbind fst]. intros E. inversion E. reflexivity.
    - cbn [check pg_dom]. destruct (pg_check H (cpred c) vs) as [b0| |]; cbn [rbind fst]; try discriminate.
      intros E. inversion E. destruct b; reflexivity.
  Qed.

  Definition subm2 (m : pgmap) : Prop := forall k val, pgget m k = Some val -> mv k = Some val.

  (** ** one step of the traversal *)
  Section Step.
    Variable st : astate pgkey pgpred.
    Variable cts : list (pgconstraint * N).
    Hypothesis Hscope : prereq_ordered pg_dom (a_scope st).
    Hypothesis Hsk : forall k, In k (a_scope st) -> srk k = true /\ In k KL.
    Hypothesis Hcts : cons_transitions st = Ok cts.
    Hypothesis Hcov : forall c t, In (c, t) cts -> incl (cargs c) (a_scope st).

    Lemma step_candidate m ys :
      goodon2 (a_scope st) m -> next_legal_states pg_dom H st m = Ok ys ->
      exists b, subm2 b /\ (forall k, In k (a_scope st) -> pgget b k = mv k)
        /\ exists fired fail,
             filter_sat pg_dom H b cts = Ok fired
             /\ (if negb (a_det st) || match fired with [] => true | _ => false end
                 then fail_next_state st else Ok None) = Ok fail
             /\ (forall t, In t fired -> In (t, b) ys)
             /\ (forall t, fail = Some t -> In (t, b) ys).
    Proof.
      intros Hg N. unfold next_legal_states in N.
      destruct (bind_all pg_dom H m (a_scope st) true) as [cands| |] eqn:B; cbn [rbind] in N; try discriminate.
      destruct (rmapM (mretain pg_dom (a_scope st)) cands) as [cands'| |] eqn:R; cbn [rbind] in N; try discriminate.
      rewrite Hcts in N. cbn [rbind] in N.
      destruct (ext_keys2 (a_scope st) true (prereq_closed _ Hscope) (a_scope st) m Hg (fun x Hx => Hx) (proj1 Hscope)
                  (fun k Hk => proj1 (Hsk k Hk)) ltac:(discriminate))
        as [m' [He [Hg' [Hb [Hmono Hdom]]]]].
      { intros l1 k l2 E r Hr. left. destruct Hscope as [_ Ho]. exact (Ho l1 k l2 E r Hr). }
      assert (Hcin : In m' cands).
      { apply bind_all_eq_spec in B. apply (extend_rel pg_dom H true (a_scope st) m cands m' B). exact He. }
      destruct (rmapM_fwd _ _ _ _ R Hcin) as [b [Rb Hbin]]. cbn [mretain pg_dom] in Rb. inversion Rb as [Eb]. clear Rb.
      assert (Hsub : subm2 b).
      { intros k val Hgk. rewrite <- Eb, (aretain_pgget) in Hgk. destruct (memb pgkey_eqb k (a_scope st)) eqn:Em; [|discriminate].
        apply (memb_in pgkey_eqb pgkey_eqb_eq) in Em. now apply (Hg' k val Em). }
      assert (Hexact : forall k, In k (a_scope st) -> pgget b k = mv k).
      { intros k Hk. rewrite <- Eb, aretain_pgget. rewrite (proj2 (memb_in pgkey_eqb pgkey_eqb_eq k (a_scope st)) Hk). now apply Hb. }
      exists b. split; [exact Hsub|]. split; [exact Hexact|].
      assert (Hfb : exists zs, (let* fired := filter_sat pg_dom H b cts in
                                let needs_fail := negb (a_det st) || match fired with [] => true | _ => false end in
                                let* fail := if needs_fail then fail_next_state st else Ok None in
                                Ok (map (fun t => (t, b)) fired ++ match fail with Some t => [(t, b)] | None => [] end)) = Ok zs
                               /\ forall y, In y zs -> In y ys).
      { clear - N Hbin. revert ys N. induction cands' as [|c0 l IHl]; intros ys N; [destruct Hbin|].
        cbn [rflatM] in N.
        match type of N with rbind ?e _ = _ => destruct e as [z0| |] eqn:E0 end; cbn [rbind] in N; try discriminate.
        destruct (rflatM _ l) as [zs'| |] eqn:E1; cbn [rbind] in N; try discriminate.
        inversion N; subst. destruct Hbin as [->|Hbin].
        - exists z0. split; [exact E0|]. intros y Hy. apply in_or_app. now left.
        - destruct (IHl Hbin zs' eq_refl) as [zs [Hz1 Hz2]]. exists zs. split; auto.
          intros y Hy. apply in_or_app. right. auto. }
      destruct Hfb as [zs [Hz Hsubl]].
      destruct (filter_sat pg_dom H b cts) as [fired| |] eqn:FS; cbn [rbind] in Hz; try discriminate.
      destruct (if negb (a_det st) || match fired with [] => true | _ => false end then fail_next_state st else Ok None)
        as [fail| |] eqn:FN; cbn [rbind] in Hz; try discriminate.
      inversion Hz; subst zs. exists fired, fail. split; auto. split; auto. split.
      + intros t Ht. apply Hsubl. apply in_or_app. left. apply in_map_iff. exists t. auto.
      + intros t ->. apply Hsubl. apply in_or_app. right. now left.
    Qed.

    Lemma sat_is_v2 b c t b0 : (forall k, In k (a_scope st) -> pgget b k = mv k) ->
      In (c, t) cts -> sat_or_false pg_dom H c b = Ok b0 -> b0 = v c.
    Proof.
      intros Hb Hin S. apply (sat_exact b c b0); [| |exact S].
      - intros k Hk. apply (Hsk k). eapply Hcov; eauto.
      - intros k Hk. apply Hb. eapply Hcov; eauto.
    Qed.

    Lemma step_cons m ys c t :
      goodon2 (a_scope st) m -> next_legal_states pg_dom H st m = Ok ys ->
      In (c, t) cts -> v c = true -> exists b, In (t, b) ys /\ subm2 b.
    Proof.
      intros Hg N Hin Hv. destruct (step_candidate m ys Hg N) as [b [Hs [Hb [fired [fail [FS [FN [Hf Hfail]]]]]]]].
      exists b. split; [|exact Hs]. apply Hf.
      destruct (filter_sat_elem H b cts fired c t FS Hin) as [b0 [S0 Hin0]]. apply Hin0.
      rewrite (sat_is_v2 b c t b0 Hb Hin S0). exact Hv.
    Qed.

    Lemma step_eps m ys t :
      goodon2 (a_scope st) m -> next_legal_states pg_dom H st m = Ok ys ->
      fail_next_state st = Ok (Some t) ->
      (a_det st = false \/ forallb (fun ct => negb (v (fst ct))) cts = true) ->
      exists b, In (t, b) ys /\ subm2 b.
    Proof.
      intros Hg N Hfn Hd. destruct (step_candidate m ys Hg N) as [b [Hs [Hb [fired [fail [FS [FN [Hf Hfail]]]]]]]].
      exists b. split; [|exact Hs]. apply Hfail.
      assert (Hneeds : negb (a_det st) || match fired with [] => true | _ => false end = true).
      { destruct Hd as [->|Hall]; [reflexivity|]. apply orb_true_iff. right.
        destruct fired as [|t0 fr]; auto. exfalso.
        destruct (filter_sat_in pg_dom _ _ _ _ t0 FS (or_introl eq_refl)) as [c0 [Hc0 Hs0]].
        rewrite forallb_forall in Hall. specialize (Hall _ Hc0). cbn in Hall. apply negb_true_iff in Hall.
        pose proof (sat_is_v2 b c0 t0 true Hb Hc0 Hs0) as E. congruence. }
      rewrite Hneeds in FN. rewrite Hfn in FN. now inversion FN.
    Qed.
  End Step.

  (** ** emission at an accepting state whose recorded keys are all offered *)
  Lemma emission2 (st : astate pgkey pgpred) m e pid keys :
    In (pid, keys) (a_matches st) -> prereq_ordered pg_dom keys ->
    (forall k, In k keys -> srk k = true /\ mv k <> None) ->
    goodon2 keys m -> emissions pg_dom H st m = Ok e ->
    exists b, In (pid, b) e /\ forall k, In k keys -> pgget b k = mv k.
  Proof.
    intros Hin Hord Hks Hg Em. unfold emissions in Em.
    assert (Hsub : exists e1,
       (let new_keys := filter (fun k => match mget pg_dom m k with None => true | Some _ => false end) keys in
        let* bs := match new_keys with [] => Ok [m] | _ => bind_all pg_dom H m new_keys false end in
        let* bs' := rmapM (mretain pg_dom keys) bs in
        Ok (map (fun b => (pid, b)) bs')) = Ok e1 /\ forall y, In y e1 -> In y e).
    { clear - Em Hin. revert e Em. induction (a_matches st) as [|pk l IHl]; intros e Em; [destruct Hin|].
      cbn [rflatM] in Em.
      match type of Em with rbind ?x _ = _ => destruct x as [z0| |] eqn:E0 end; cbn [rbind] in Em; try discriminate.
      destruct (rflatM _ l) as [zs'| |] eqn:E1; cbn [rbind] in Em; try discriminate.
      inversion Em; subst. destruct Hin as [->|Hin].
      - exists z0. split; [exact E0|]. intros y Hy. apply in_or_app. now left.
      - destruct (IHl Hin zs' eq_refl) as [e1 [H1 H2]]. exists e1. split; auto.
        intros y Hy. apply in_or_app. right. auto. }
    destruct Hsub as [e1 [He1 Hsub]]. cbn zeta in He1.
    set (unb := fun k : pgkey => match mget pg_dom m k with None => true | Some _ => false end) in He1.
    set (new_keys := filter unb keys) in He1.
    destruct (ext_keys2 keys false (prereq_closed _ Hord) new_keys m Hg) as [m' [He [Hg' [Hb [Hmono _]]]]].
    { intros x Hx. unfold new_keys in Hx. apply filter_In in Hx. tauto. }
    { unfold new_keys. apply NoDup_filter. exact (proj1 Hord). }
    { intros x Hx. apply Hks. unfold new_keys in Hx. apply filter_In in Hx. tauto. }
    { intros _ x Hx. apply Hks. unfold new_keys in Hx. apply filter_In in Hx. tauto. }
    { intros l1 k l2 E r Hr. unfold new_keys in E. destruct (filter_split unb keys l1 k l2 E) as [k1 [k2 [Ek [E1 _]]]].
      destruct Hord as [_ Ho]. pose proof (Ho k1 k k2 Ek r Hr) as Hr1.
      destruct (unb r) eqn:Ur.
      - left. rewrite E1. apply filter_In. auto.
      - right. unfold unb in Ur. change (mget pg_dom m r) with (pgget m r) in Ur. destruct (pgget m r); [discriminate|discriminate]. }
    destruct (match new_keys with [] => Ok [m] | _ => bind_all pg_dom H m new_keys false end) as [bs| |] eqn:B;
      cbn [rbind] in He1; try discriminate.
    destruct (rmapM (mretain pg_dom keys) bs) as [bs'| |] eqn:R; cbn [rbind] in He1; try discriminate.
    inversion He1; subst e1.
    assert (Hin' : In m' bs).
    { destruct new_keys as [|k1 nk1] eqn:Enk.
      - inversion B; subst bs. inversion He; subst. now left.
      - apply bind_all_eq_spec in B. apply (extend_rel pg_dom H false (k1 :: nk1) m bs m' B). exact He. }
    destruct (rmapM_fwd _ _ _ _ R Hin') as [b [Rb Hbin]]. cbn [mretain pg_dom] in Rb. inversion Rb as [Eb]. clear Rb.
    exists b. split; [apply Hsub; apply in_map_iff; exists b; auto|].
    intros k Hk. rewrite <- Eb, aretain_pgget. rewrite (proj2 (memb_in pgkey_eqb pgkey_eqb_eq k keys) Hk).
    destruct (unb k) eqn:Uk.
    - apply Hb. unfold new_keys. apply filter_In. auto.
    - unfold unb in Uk. change (mget pg_dom m k) with (pgget m k) in Uk. destruct (pgget m k) as [val|] eqn:Eg; [|discriminate].
      rewrite (Hmono _ _ Eg). symmetry. now apply (Hg k val Hk).
  Qed.

  (** ** from abstract reachability to the expanded items of the run *)
  Section Closure.
    Variable A : automaton pgkey pgpred.
    Variable ids : list N.
    Hypothesis HWF : WF pg_dom A ids.
    (** every key of the automaton hangs off Root(0) (and is listed in KL) *)
    Hypothesis Hkeys : forall st k, In st (au_states A) -> In k (useful_keys pg_dom st) -> srk k = true /\ In k KL.
    Variable T : list (N * pgmap).
    Hypothesis Troot : in_keys pg_dom A (au_root A, []) T.
    Hypothesis Tclosed : forall x ys y, In x T -> succ_of pg_dom A H x ys -> In y ys -> in_keys pg_dom A y T.
    Hypothesis Tsucc : forall x, In x T -> exists ys e, succ_of pg_dom A H x ys /\ emit_of pg_dom A H x e.

    Definition good_item2 (x : N * pgmap) : Prop :=
      forall st, get_state A (fst x) = Ok st -> goodon2 (useful_keys pg_dom st) (snd x).

    Lemma transfer2 y0 t b : In y0 T -> same_key pg_dom A y0 (t, b) -> subm2 b -> fst y0 = t /\ good_item2 y0.
    Proof.
      intros Hy [Ef V] Hb. split; [exact Ef|]. intros st G k val Hk Hgk.
      specialize (V st G). unfold view in V. cbn [snd] in V.
      pose proof (ext_in_map V k Hk) as E0. change (pgget (snd y0) k = pgget b k) in E0.
      apply Hb. now rewrite <- E0.
    Qed.

    Lemma reach_item2 s : areach v A s -> exists x, In x T /\ fst x = s /\ good_item2 x.
    Proof.
      induction 1 as [|s st cts c t Hr IH G CT Hin Hv|s st cts t Hr IH G CT FN Hd].
      - destruct Troot as [y0 [Hy Hk]]. destruct (transfer2 y0 _ _ Hy Hk) as [E1 E2]; [intros k val Hg; discriminate|].
        exists y0. auto.
      - destruct IH as [x [Hx [Ex Hg]]]. destruct (Tsucc x Hx) as [ys [e [[st0 [G0 NL]] _]]].
        pose proof G0 as G0'. rewrite Ex in G0'. rewrite G in G0'. inversion G0'; subst st0.
        destruct (get_state_in _ _ _ G) as [Hst _].
        assert (Hcov : forall c t, In (c, t) cts -> incl (cargs c) (a_scope st)).
        { intros c' t' Hin'. destruct (cons_transitions_edge st cts c' t' CT Hin') as [e' [He1 [He2 _]]].
          eapply (wf_scope_covers _ _ _ HWF); eauto. }
        destruct (step_cons st cts (wf_scope_ordered _ _ _ HWF st Hst) (fun k Hk => Hkeys st k Hst (scope_useful st k Hk)) CT Hcov (snd x) ys c t)
          as [b [Hb Hsb]]; auto.
        { intros k val Hk. apply (Hg st G0). now apply scope_useful. }
        destruct (Tclosed x ys (t, b) Hx) as [y0 [Hy Hk]]; auto.
        { exists st. auto. }
        destruct (transfer2 y0 _ _ Hy Hk Hsb). exists y0. auto.
      - destruct IH as [x [Hx [Ex Hg]]]. destruct (Tsucc x Hx) as [ys [e [[st0 [G0 NL]] _]]].
        pose proof G0 as G0'. rewrite Ex in G0'. rewrite G in G0'. inversion G0'; subst st0.
        destruct (get_state_in _ _ _ G) as [Hst _].
        assert (Hcov : forall c t, In (c, t) cts -> incl (cargs c) (a_scope st)).
        { intros c' t' Hin'. destruct (cons_transitions_edge st cts c' t' CT Hin') as [e' [He1 [He2 _]]].
          eapply (wf_scope_covers _ _ _ HWF); eauto. }
        destruct (step_eps st cts (wf_scope_ordered _ _ _ HWF st Hst) (fun k Hk => Hkeys st k Hst (scope_useful st k Hk)) CT Hcov (snd x) ys t)
          as [b [Hb Hsb]]; auto.
        { intros k val Hk. apply (Hg st G0). now apply scope_useful. }
        destruct (Tclosed x ys (t, b) Hx) as [y0 [Hy Hk]]; auto.
        { exists st. auto. }
        destruct (transfer2 y0 _ _ Hy Hk Hsb). exists y0. auto.
    Qed.

    Lemma accept_emits2 p : aaccepts v A p ->
      (forall st keys, In st (au_states A) -> In (p, keys) (a_matches st) -> forall k, In k keys -> mv k <> None) ->
      exists x e st keys b, In x T /\ emit_of pg_dom A H x e /\ In st (au_states A) /\ In (p, keys) (a_matches st)
        /\ In (p, b) e /\ forall k, In k keys -> pgget b k = mv k.
    Proof.
      intros [s [st [Hr [G Hp]]]] Hoff.
      apply in_map_iff in Hp as [[p' keys] [Ep Hpk]]. cbn in Ep. subst p'.
      destruct (get_state_in _ _ _ G) as [Hst _].
      pose proof (wf_match_ordered _ _ _ HWF st (p, keys) Hst Hpk) as Ho. cbn in Ho.
      destruct (reach_item2 s Hr) as [x [Hx [Ex Hg]]].
      destruct (Tsucc x Hx) as [ys [e [_ [st0 [G0 EM]]]]].
      pose proof G0 as G0'. rewrite Ex in G0'. rewrite G in G0'. inversion G0'; subst st0.
      assert (Hku : forall k, In k keys -> In k (useful_keys pg_dom st)).
      { intros k Hk. unfold useful_keys. apply in_or_app. right. unfold unique_keys.
        apply (MatrixRun.uniq_in_gen pgkey_eqb pgkey_eqb_eq). apply in_flat_map. exists (p, keys). auto. }
      destruct (emission2 st (snd x) e p keys Hpk Ho) as [b [Hb Hbk]]; auto.
      - intros k Hk. split; [apply (Hkeys st k Hst); now apply Hku|eapply Hoff; eauto].
      - intros k val Hk. apply (Hg st G0). now apply Hku.
      - exists x, e, st, keys, b. split; [exact Hx|]. split; [exists st; auto|]. auto.
    Qed.
  End Closure.

  Theorem run_reports2 (A : automaton pgkey pgpred) ids fuel ms p :
    WF pg_dom A ids ->
    (forall st k, In st (au_states A) -> In k (useful_keys pg_dom st) -> srk k = true /\ In k KL) ->
    (forall st keys, In st (au_states A) -> In (p, keys) (a_matches st) -> forall k, In k keys -> mv k <> None) ->
    run pg_dom fuel A H = Ok ms -> aaccepts v A p ->
    exists st keys b, In st (au_states A) /\ In (p, keys) (a_matches st) /\ In (p, b) ms
      /\ forall k, In k keys -> pgget b k = mv k.
  Proof.
    intros HWF Hkeys Hoff R Hacc.
    destruct (run_trace pg_dom pg_dom_eq A H fuel ms R) as [T [T1 [T2 [T3 [T4 _]]]]].
    destruct (accept_emits2 A ids HWF Hkeys T T1 T2 T4 p Hacc Hoff) as [x [e [st [keys [b [Hx [He [Hst [Hpk [Hb Hk]]]]]]]]]].
    exists st, keys, b. split; [exact Hst|]. split; [exact Hpk|]. split; [eapply T3; eauto|exact Hk].
  Qed.
End PGRunSingleRoot.
