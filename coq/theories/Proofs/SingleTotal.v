(** C08, the baseline matchers: SinglePatternMatcher::get_all_bindings (and with
    it match_exists and NaiveManyMatcher) terminates without reaching a panic
    site — generic measure argument: a queue item with n constraints left weighs
    W n, W 0 = 1, W (S n) = 1 + B * W n, with B a bound on the candidates one
    bind_all produces. *)
From PM Require Import Model.Prelude Model.Domain Model.Constraint Model.BindAll Model.Scheme Model.Matchers
  Spec.TopoSpec Proofs.SchemeProofs Proofs.SchemeTotal Proofs.RunTotal.
Local Open Scope nat_scope.

Section SingleTotal.
  Context {K V M H P : Type} (D : DomOps K V M H P).
  Variable h : H.
  Variable rank : K -> nat.
  Hypothesis rank_ok : forall k r, In r (req D k) -> rank r < rank k.

  Variable cs : list (constraint K P).
  Variable extra : list K.

  Variable Pm : M -> Prop.
  Hypothesis Pm_empty : Pm (mempty D).
  Variable Bc : nat.
  (** the key lists handed to bind_all: the missing bindings of one constraint's
      arguments, and sub-lists of the requested keys *)
  Variable okks : list K -> Prop.
  Hypothesis okks_amb : forall c fuel keys, In c cs -> amb D fuel (cargs c) = Ok keys -> okks keys.
  Hypothesis okks_req : forall fuel reqk f, requested D fuel extra cs = Ok reqk -> okks (filter f reqk).
  Hypothesis H_bind : forall m ks inc, Pm m -> okks ks -> exists l, bind_all D h m ks inc = Ok l /\ length l <= Bc /\ Forall Pm l.
  Hypothesis H_sat : forall c m, In c cs -> Pm m -> exists b, sat_or_false D h c m = Ok b.
  Hypothesis H_retain : forall fuel reqk m, requested D fuel extra cs = Ok reqk -> Pm m -> exists m', mretain D reqk m = Ok m'.

  Fixpoint W (n : nat) : nat := match n with O => 1 | S n' => 1 + Bc * W n' end.

  Definition qmeasure (q : list (list (constraint K P) * M)) : nat :=
    fold_right (fun x acc => W (length (fst x)) + acc) 0 q.

  Lemma qmeasure_app q1 q2 : qmeasure (q1 ++ q2) = qmeasure q1 + qmeasure q2.
  Proof. induction q1 as [|x xs IH]; cbn [app qmeasure fold_right]; [reflexivity|]. fold (qmeasure (xs ++ q2)). fold (qmeasure xs). lia. Qed.

  Lemma qmeasure_map rest (ok : list M) : qmeasure (map (fun b => (rest, b)) ok) = length ok * W (length rest).
  Proof. induction ok as [|b bs IH]; cbn [map qmeasure fold_right length fst]; [reflexivity|]. fold (qmeasure (map (fun b => (rest, b)) bs)). rewrite IH. lia. Qed.

  Lemma filter_satb_total c : In c cs -> forall ms, Forall Pm ms ->
    exists r, filter_satb D h c ms = Ok r /\ length r <= length ms /\ Forall Pm r.
  Proof.
    intros Hc. induction ms as [|m ms IH]; intros HF; cbn [filter_satb]; [exists []; auto|].
    inversion HF as [|? ? Hm Hms]; subst. destruct (H_sat c m Hc Hm) as [b ->]. cbn [rbind].
    destruct (IH Hms) as [r [-> [Hl Hr]]]. cbn [rbind].
    destruct b; eexists; (split; [reflexivity|]); (split; [cbn [length]; lia|auto]).
  Qed.

  (** the fuel the calls of all_missing_bindings inside the loop need *)
  Definition ambfuel : nat :=
    S (S (fold_right Nat.max 0 (map (fun c : constraint K P => kws (req D) rank (cargs c)) cs))).

  Lemma amb_total c fuel : In c cs -> ambfuel <= fuel -> exists keys, amb D fuel (cargs c) = Ok keys.
  Proof.
    intros Hc Hf. unfold amb. apply (all_missing_total (keqb D) (req D) rank rank_ok).
    pose proof (list_max_ge (fun c : constraint K P => kws (req D) rank (cargs c)) cs c Hc) as Hm. cbn beta in Hm.
    unfold ambfuel in Hf. lia.
  Qed.

  Lemma single_loop_total reqk fuel0 : requested D fuel0 extra cs = Ok reqk ->
    forall fuel queue acc,
      (forall x, In x queue -> Pm (snd x) /\ incl (fst x) cs) ->
      qmeasure queue + ambfuel < fuel ->
      exists r, single_loop D fuel h reqk queue acc = Ok r.
  Proof.
    intros Hreq. induction fuel as [|f IH]; intros queue acc Hq Hf; [lia|].
    cbn [single_loop]. destruct queue as [|[[|c rest] m] q]; [eauto| |].
    - (* an item without constraints left *)
      destruct (Hq ([], m) (or_introl eq_refl)) as [Hm _]. cbn [snd] in Hm.
      destruct (H_bind m (filter (fun k => match mget D m k with None => true | Some _ => false end) reqk) false Hm
                  (okks_req fuel0 reqk _ Hreq)) as [bs [-> [_ HF]]].
      cbn [rbind].
      assert (Hr : exists bs', rmapM (mretain D reqk) bs = Ok bs').
      { destruct (rmapM_total (mretain D reqk) bs) as [r [Er _]]; [|eauto].
        intros m' Hm'. rewrite Forall_forall in HF. apply (H_retain fuel0 reqk m' Hreq (HF m' Hm')). }
      destruct Hr as [bs' ->]. cbn [rbind]. apply IH.
      + intros x Hx. apply Hq. now right.
      + cbn [qmeasure fold_right fst length W] in Hf. fold (qmeasure q) in Hf. lia.
    - destruct (Hq (c :: rest, m) (or_introl eq_refl)) as [Hm Hi]. cbn [snd fst] in Hm, Hi.
      assert (Hc : In c cs) by (apply Hi; now left).
      destruct (amb_total c (S f) Hc ltac:(lia)) as [keys Ek]. rewrite Ek. cbn [rbind].
      destruct (H_bind m keys false Hm (okks_amb c (S f) keys Hc Ek)) as [cands [-> [Hl HF]]]. cbn [rbind].
      destruct (filter_satb_total c Hc cands HF) as [ok [-> [Hlo HFo]]]. cbn [rbind].
      apply IH.
      + intros x Hx. apply in_app_or in Hx as [Hx|Hx]; [apply Hq; now right|].
        apply in_map_iff in Hx as [b [<- Hb]]. cbn [snd fst]. rewrite Forall_forall in HFo. split; [auto|].
        intros y Hy. apply Hi. now right.
      + rewrite qmeasure_app, qmeasure_map. cbn [qmeasure fold_right fst length W] in Hf. fold (qmeasure q) in Hf.
        assert (length ok * W (length rest) <= Bc * W (length rest)) by (apply Nat.mul_le_mono_r; lia). lia.
  Qed.

  Definition reqfuel : nat := S (S (kws (req D) rank (extra ++ flat_map cargs cs))).

  Theorem single_total_gen :
    exists fuel0, forall fuel, fuel0 <= fuel -> exists r, single_ext D fuel extra cs h = Ok r.
  Proof.
    exists (reqfuel + S (W (length cs) + ambfuel)). intros fuel Hf. unfold single_ext.
    destruct (all_missing_total (keqb D) (req D) rank rank_ok (extra ++ flat_map cargs cs) [] fuel) as [reqk Er]; [unfold reqfuel in Hf; lia|].
    unfold requested, amb at 1. rewrite Er. cbn [rbind].
    apply (single_loop_total reqk fuel); [unfold requested, amb; exact Er| |].
    - intros x [<-|[]]. cbn [snd fst]. split; [exact Pm_empty|apply incl_refl].
    - cbn [qmeasure fold_right fst]. lia.
  Qed.
End SingleTotal.
