(** C14: histories of bind / get / retain_keys for the three map models, with an
    invariant and a side condition on the key sets handed to retain_keys
    (duplicate-free, containing the start key = prerequisite-closed). *)
From PM Require Import Model.Prelude Model.Domain Model.BindMaps Model.DomString Model.DomMatrix
  Proofs.BindMapProofs Proofs.BindMapMatrixProofs.

Section HistoriesInv.
  Context {K V M : Type}.
  Variable mget : M -> K -> option V.
  Variable mbind : M -> K -> V -> option M.
  Variable mretain : list K -> M -> res M.
  Variable Inv : M -> Prop.
  Variable good : M -> list K -> Prop.

  Hypothesis Inv_bind : forall m k v m', Inv m -> mbind m k v = Some m' -> Inv m'.
  Hypothesis Inv_retain : forall order m m', Inv m -> good m order -> mretain order m = Ok m' -> Inv m'.
  Hypothesis L1 : forall m k v m', mbind m k v = Some m' ->
    forall k' v', mget m k' = Some v' -> mget m' k' = Some v'.
  Hypothesis L2 : forall order m m', Inv m -> good m order -> mretain order m = Ok m' ->
    forall k, In k order -> mget m' k = mget m k.

  (** every retain_keys call of the history is made on a good key set that lists [k] *)
  Fixpoint hist_ok (k : K) (m : M) (ops : list (@mop K V)) : Prop :=
    match ops with
    | [] => True
    | op :: ops' =>
        match op with
        | ORetain order => good m order /\ In k order
        | _ => True
        end /\ hist_ok k (fst (mstep mget mbind mretain m op)) ops'
    end.

  Theorem get_stable_inv ops : forall m k v,
    Inv m -> mget m k = Some v -> hist_ok k m ops ->
    mget (mfinal mget mbind mretain m ops) k = Some v /\ Inv (mfinal mget mbind mretain m ops).
  Proof.
    induction ops as [|op ops IH]; intros m k v I G H; cbn; auto.
    destruct H as [Hop H]. apply IH; auto.
    - destruct op as [k0 v0|k0|order]; cbn.
      + destruct (mbind m k0 v0) as [m'|] eqn:B; cbn; eauto.
      + exact I.
      + destruct Hop as [Hg _]. destruct (mretain order m) as [m'| |] eqn:R; cbn; eauto.
    - destruct op as [k0 v0|k0|order]; cbn.
      + destruct (mbind m k0 v0) as [m'|] eqn:B; cbn; eauto.
      + exact G.
      + destruct Hop as [Hg Hin]. destruct (mretain order m) as [m'| |] eqn:R; cbn; auto.
        rewrite (L2 _ _ _ I Hg R); auto.
  Qed.

  (** the invariant holds in every reachable state (retains on good sets) *)
  Fixpoint hist_good (m : M) (ops : list (@mop K V)) : Prop :=
    match ops with
    | [] => True
    | op :: ops' =>
        match op with ORetain order => good m order | _ => True end
        /\ hist_good (fst (mstep mget mbind mretain m op)) ops'
    end.

  Theorem inv_reachable ops : forall m, Inv m -> hist_good m ops ->
    Inv (mfinal mget mbind mretain m ops).
  Proof.
    induction ops as [|op ops IH]; intros m I H; cbn; auto.
    destruct H as [Hop H]. apply IH; auto.
    destruct op as [k0 v0|k0|order]; cbn.
    - destruct (mbind m k0 v0) as [m'|] eqn:B; cbn; eauto.
    - exact I.
    - destruct (mretain order m) as [m'| |] eqn:R; cbn; eauto.
  Qed.
End HistoriesInv.

(** * Instances *)
Local Open Scope N_scope.

Definition s_good (_ : spm) (order : list N) : Prop := NoDup order /\ In 0 order.

Theorem s_history_get_stable ops m k v :
  sget m k = Some v ->
  hist_ok sget sbind (mretain string_dom) s_good k m ops ->
  sget (mfinal sget sbind (mretain string_dom) m ops) k = Some v.
Proof.
  intros G H.
  refine (proj1 (get_stable_inv sget sbind (mretain string_dom) (fun _ => True) s_good
                   _ _ sbind_monotone _ ops m k v I G H)); auto.
  intros order m0 m' _ [Hnd H0] R k0 Hin.
  change (mretain string_dom order m0) with (retain_rounds_default SUnbound sget sbind order m0) in R.
  destruct (s_retain_ok order m0 Hnd H0) as [m'' [E [Hk _]]].
  rewrite E in R. inversion R; subst. auto.
Qed.

(** retain_keys on a prerequisite-closed set never panics on the string map *)
Theorem s_retain_total order m :
  s_good m order -> exists m', mretain string_dom order m = Ok m'.
Proof.
  intros [Hnd H0]. destruct (s_retain_ok order m Hnd H0) as [m' [E _]]. exists m'. exact E.
Qed.

Definition m_good (m : mpm) (order : list mkey) : Prop :=
  NoDup order /\ In (0, 0)%Z order /\ existsb (mmget_panics m) order = false.

Theorem m_history_get_stable ops m k v :
  mm_wf m -> mmget m k = Some v ->
  hist_ok mmget mmbind m_retain m_good k m ops ->
  mmget (mfinal mmget mmbind m_retain m ops) k = Some v
  /\ mm_wf (mfinal mmget mmbind m_retain m ops).
Proof.
  intros W G H.
  refine (get_stable_inv mmget mmbind m_retain mm_wf m_good _ _ mmbind_monotone _ ops m k v W G H).
  - intros m0 k0 v0 m' W0 B. eapply mm_wf_bind; eauto.
  - intros order m0 m' W0 [Hnd [H0 Hp]] R.
    destruct (m_retain_ok order m0 Hnd H0 W0 Hp) as [m'' [E [W' _]]].
    rewrite E in R. inversion R; subst. exact W'.
  - intros order m0 m' W0 [Hnd [H0 Hp]] R k0 Hin.
    destruct (m_retain_ok order m0 Hnd H0 W0 Hp) as [m'' [E [_ [Hk _]]]].
    rewrite E in R. inversion R; subst. auto.
Qed.

Theorem m_retain_total order m :
  mm_wf m -> m_good m order -> exists m', m_retain order m = Ok m'.
Proof.
  intros W [Hnd [H0 Hp]]. destruct (m_retain_ok order m Hnd H0 W Hp) as [m' [E _]]. eauto.
Qed.

(** generic maps: any key sets *)
Section GenericHistory.
  Context {K V : Type} (keqb : K -> K -> bool) (veqb : V -> V -> bool).
  Hypothesis keqb_spec : forall a b, keqb a b = true <-> a = b.
  Hypothesis veqb_spec : forall a b, veqb a b = true <-> a = b.

  Let gretain := fun (keys : list K) (m : @amap K V) => Ok (aretain keqb keys m).

  Theorem a_history_get_stable ops (m : @amap K V) k v :
    aget keqb m k = Some v ->
    retains_keep k ops ->
    aget keqb (mfinal (aget keqb) (abind keqb veqb) gretain m ops) k = Some v.
  Proof.
    intros G R. apply get_stable; auto.
    - intros m0 k0 v0 m' B k' v' G'.
      destruct (abind_get keqb veqb keqb_spec m0 k0 v0 m' B) as [Hs Ho].
      destruct (keqb k' k0) eqn:E.
      + apply keqb_spec in E. subst k'. rewrite Hs.
        unfold abind in B. rewrite G' in B. destruct (veqb v' v0) eqn:Ev; [|discriminate].
        apply veqb_spec in Ev. now subst.
      + rewrite Ho; auto. intros ->. rewrite (proj2 (keqb_spec k0 k0) eq_refl) in E. discriminate.
    - intros order m0 m' E k0 Hin. unfold gretain in E. inversion E; subst.
      rewrite (aretain_get keqb keqb_spec).
      assert (memb keqb k0 order = true) as -> by (apply (memb_in keqb keqb_spec); auto).
      reflexivity.
  Qed.
End GenericHistory.
