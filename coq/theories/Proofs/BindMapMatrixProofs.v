(** C14: laws of the matrix position map (matrix.rs MatrixPositionMap) and of the
    repaired default retain_keys on it. *)
From PM Require Import Model.Prelude Model.Domain Model.BindMaps Model.DomString Model.DomMatrix.
Local Open Scope Z_scope.

Definition inbox (k a b : mkey) : Prop :=
  fst a <= fst k <= fst b /\ snd a <= snd k <= snd b.

Lemma in_box_iff k a b : in_box k a b = true <-> inbox k a b.
Proof.
  unfold in_box, inbox. rewrite !andb_true_iff, !Z.leb_le. tauto.
Qed.

Lemma in_box_false k a b : in_box k a b = false <-> ~ inbox k a b.
Proof. rewrite <- in_box_iff. destruct (in_box k a b); split; intros; try congruence; tauto. Qed.

Lemma mkey_eqb_spec a b : mkey_eqb a b = true <-> a = b.
Proof.
  destruct a as [a1 a2], b as [b1 b2]. unfold mkey_eqb; cbn.
  rewrite andb_true_iff, !Z.eqb_eq. split; [intros [-> ->]; reflexivity|intros E; inversion E; auto].
Qed.

Lemma mkey_eqb_false a b : mkey_eqb a b = false <-> a <> b.
Proof. rewrite <- mkey_eqb_spec. destruct (mkey_eqb a b); split; intros; try congruence; tauto. Qed.

Lemma mval_eqb_spec a b : mval_eqb a b = true <-> a = b.
Proof.
  destruct a as [a1 a2], b as [b1 b2]. unfold mval_eqb; cbn.
  rewrite andb_true_iff, !N.eqb_eq. split; [intros [-> ->]; reflexivity|intros E; inversion E; auto].
Qed.

(** A well-formed map: the box contains the start key. Every map reachable from
    the empty map by bind/retain is well-formed ([mm_wf_bind], [m_retain_ok]). *)
Definition mm_wf (m : mpm) : Prop :=
  match m with MUnbound => True | MBound _ a b => inbox (0, 0) a b end.

(** get answers only inside the bounding box of what has been bound, with the
    position the start value dictates; the empty map answers nothing. *)
Lemma mmget_extent m k v :
  mmget m k = Some v ->
  exists s a b, m = MBound s a b /\ inbox k a b
    /\ add_signed (fst s) (fst k) = Some (fst v) /\ add_signed (snd s) (snd k) = Some (snd v).
Proof.
  destruct m as [|s a b]; cbn; [discriminate|].
  destruct (in_box k a b) eqn:B; [|discriminate]. apply in_box_iff in B.
  destruct (add_signed (fst s) (fst k)) as [r|] eqn:E1; [|discriminate].
  destruct (add_signed (snd s) (snd k)) as [c|] eqn:E2; [|discriminate].
  intros E. inversion E; subst. exists s, a, b. auto.
Qed.

Lemma mmget_unbound k : mmget MUnbound k = None.
Proof. reflexivity. Qed.

Lemma mmbind_ok_iff m k v :
  (exists m', mmbind m k v = Some m')
  <-> ((k = (0, 0) /\ m = MUnbound) \/ (k <> (0, 0) /\ m <> MUnbound)).
Proof.
  unfold mmbind. destruct (mkey_eqb k (0, 0)) eqn:E.
  - apply mkey_eqb_spec in E. subst k. destruct m; split; eauto.
    + intros [m' C]. discriminate.
    + intros [[_ C]|[C _]]; [discriminate|contradiction].
  - apply mkey_eqb_false in E. destruct m; split; eauto.
    + intros [m' C]. discriminate.
    + intros [[C _]|[_ C]]; contradiction.
    + intros _. right. split; auto. discriminate.
Qed.

Lemma mmbind_start_rebind_rejected s a b v : mmbind (MBound s a b) (0, 0) v = None.
Proof. reflexivity. Qed.

Lemma mmbind_before_start_rejected k v : k <> (0, 0) -> mmbind MUnbound k v = None.
Proof. intros H. unfold mmbind. apply mkey_eqb_false in H. now rewrite H. Qed.

Lemma mm_wf_bind m k v m' : mm_wf m -> mmbind m k v = Some m' -> mm_wf m'.
Proof.
  unfold mmbind. destruct (mkey_eqb k (0, 0)); destruct m as [|s a b]; try discriminate;
    intros W E; inversion E; subst; cbn in *; unfold inbox in *; cbn in *; lia.
Qed.

(** A successful bind never disturbs a readable key. *)
Lemma mmbind_monotone m k v m' :
  mmbind m k v = Some m' -> forall k' v', mmget m k' = Some v' -> mmget m' k' = Some v'.
Proof.
  unfold mmbind. destruct (mkey_eqb k (0, 0)).
  - destruct m; [|discriminate]. intros _ k' v' C. discriminate.
  - destruct m as [|s a b]; [discriminate|]. intros E k' v' G. inversion E; subst. cbn in *.
    destruct (in_box k' a b) eqn:B; [|discriminate].
    apply in_box_iff in B.
    match goal with |- context [in_box k' ?x ?y] => assert (Hb : in_box k' x y = true) end.
    { apply in_box_iff. unfold inbox in *; cbn. lia. }
    now rewrite Hb.
Qed.

(** A key bound to a value the host offers reads back that value. *)
Lemma mmbind_offered h m k v m' vs :
  mm_wf m -> mmbind m k v = Some m' -> m_opts h k m = Ok vs -> In v vs -> mmget m' k = Some v.
Proof.
  unfold mmbind, m_opts. destruct (mkey_eqb k (0, 0)) eqn:E.
  - apply mkey_eqb_spec in E. subst k. destruct m; [|discriminate].
    intros _ Eb _ _. inversion Eb; subst. cbn.
    unfold add_signed. rewrite !Z.add_0_r.
    destruct v as [r c]; cbn.
    destruct (Z.ltb_spec (Z.of_N r) 0); [lia|]. destruct (Z.ltb_spec (Z.of_N c) 0); [lia|].
    now rewrite !N2Z.id.
  - destruct m as [|s a b]; [discriminate|]. intros W Eb Eo Hin. inversion Eb; subst. cbn.
    destruct (add_signed (fst s) (fst k)) as [r|] eqn:E1;
      [destruct (add_signed (snd s) (snd k)) as [c|] eqn:E2|].
    + destruct (cell_at h (r, c)); inversion Eo; subst; [|destruct Hin].
      destruct Hin as [<-|[]].
      match goal with |- context [in_box k ?x ?y] => assert (Hb : in_box k x y = true) end.
      { apply in_box_iff. unfold inbox; cbn. lia. }
      now rewrite Hb.
    + inversion Eo; subst. destruct Hin.
    + inversion Eo; subst. destruct Hin.
Qed.

(** ** retain_keys *)
Lemma mmbind_bound_nz s a b k v :
  mkey_eqb k (0, 0) = false ->
  mmbind (MBound s a b) k v
  = Some (MBound s (Z.min (fst a) (fst k), Z.min (snd a) (snd k))
                   (Z.max (fst b) (fst k), Z.max (snd b) (snd k))).
Proof. intros H. unfold mmbind. now rewrite H. Qed.

Lemma mmbind_unbound_nz k v : mkey_eqb k (0, 0) = false -> mmbind MUnbound k v = None.
Proof. intros H. unfold mmbind. now rewrite H. Qed.

Fixpoint mfold (ps : list (mkey * mval)) (m : mpm) : mpm :=
  match ps with
  | [] => m
  | kv :: ps' => mfold ps' (match mmbind m (fst kv) (snd kv) with Some m' => m' | None => m end)
  end.

Lemma mpass_bound ps s a b :
  (forall kv, In kv ps -> fst kv <> (0, 0)) ->
  retain_pass mmbind ps (MBound s a b) = ([], mfold ps (MBound s a b)).
Proof.
  revert a b. induction ps as [|[k v] ps IH]; intros a b Hnz; cbn; auto.
  assert (Hk : mkey_eqb k (0, 0) = false).
  { apply mkey_eqb_false. apply (Hnz (k, v)). now left. }
  rewrite !mmbind_bound_nz by exact Hk. apply IH. intros kv Hin. apply Hnz. now right.
Qed.

Lemma mpass_unbound ps :
  (forall kv, In kv ps -> fst kv <> (0, 0)) ->
  retain_pass mmbind ps MUnbound = (ps, MUnbound).
Proof.
  induction ps as [|[k v] ps IH]; intros Hnz; cbn; auto.
  assert (Hk : mkey_eqb k (0, 0) = false).
  { apply mkey_eqb_false. apply (Hnz (k, v)). now left. }
  rewrite mmbind_unbound_nz by exact Hk. rewrite IH; auto. intros kv Hin. apply Hnz. now right.
Qed.

Lemma mpass_unbound_split before v after :
  (forall kv, In kv before -> fst kv <> (0, 0)) ->
  (forall kv, In kv after -> fst kv <> (0, 0)) ->
  retain_pass mmbind (before ++ ((0, 0), v) :: after) MUnbound
  = (before, mfold after (MBound v (0, 0) (0, 0))).
Proof.
  intros Hb Ha. induction before as [|[k v'] ps IH]; cbn.
  - rewrite mpass_bound; auto.
  - assert (Hk : mkey_eqb k (0, 0) = false).
    { apply mkey_eqb_false. apply (Hb (k, v')). now left. }
    rewrite mmbind_unbound_nz by exact Hk. rewrite IH; auto. intros kv Hin. apply Hb. now right.
Qed.

(** The box after folding binds over a bound map: it contains the old box and
    every key of the list, and stays inside any box that contains those. *)
Lemma mfold_box ps s a b :
  (forall kv, In kv ps -> fst kv <> (0, 0)) ->
  exists a' b', mfold ps (MBound s a b) = MBound s a' b'
    /\ (forall k, inbox k a b -> inbox k a' b')
    /\ (forall kv, In kv ps -> inbox (fst kv) a b \/ inbox (fst kv) a' b')
    /\ (forall A B, inbox a A B -> inbox b A B ->
         (forall kv, In kv ps -> inbox (fst kv) A B) -> inbox a' A B /\ inbox b' A B).
Proof.
  revert a b. induction ps as [|[k v] ps IH]; intros a b Hnz; cbn.
  - exists a, b. split; [reflexivity|]. split; [auto|]. split; [intros kv []|].
    intros A B HA HB _. auto.
  - assert (Hk : mkey_eqb k (0, 0) = false).
    { apply mkey_eqb_false. apply (Hnz (k, v)). now left. }
    rewrite mmbind_bound_nz by exact Hk.
    set (a1 := (Z.min (fst a) (fst k), Z.min (snd a) (snd k))).
    set (b1 := (Z.max (fst b) (fst k), Z.max (snd b) (snd k))).
    destruct (IH a1 b1) as [a' [b' [E [H1 [H2 H3]]]]]; [intros kv Hin; apply Hnz; now right|].
    exists a', b'. split; [exact E|]. split; [|split].
    + intros k0 Hk0. apply H1. unfold inbox, a1, b1 in *; cbn. lia.
    + intros kv [<-|Hin].
      * right. apply H1. unfold inbox, a1, b1; cbn. lia.
      * destruct (H2 kv Hin) as [H|H]; [|now right]. right. apply H1. exact H.
    + intros A B HA HB Hall. apply H3.
      * specialize (Hall (k, v) (or_introl eq_refl)). unfold inbox, a1 in *; cbn in *. lia.
      * specialize (Hall (k, v) (or_introl eq_refl)). unfold inbox, b1 in *; cbn in *. lia.
      * intros kv Hin. apply Hall. now right.
Qed.

Lemma mpending_in order m k v :
  In (k, v) (retain_pending mmget order m) <-> In k order /\ mmget m k = Some v.
Proof.
  unfold retain_pending. rewrite in_flat_map. split.
  - intros [k0 [Hin H]]. destruct (mmget m k0) eqn:G; [|destruct H].
    destruct H as [E|[]]. inversion E; subst. auto.
  - intros [Hin G]. exists k. split; auto. rewrite G. now left.
Qed.

Lemma mpending_app o1 o2 m :
  retain_pending mmget (o1 ++ o2) m = retain_pending mmget o1 m ++ retain_pending mmget o2 m.
Proof. unfold retain_pending. apply flat_map_app. Qed.

Lemma mpending_nonzero order m :
  ~ In (0, 0) order -> forall kv, In kv (retain_pending mmget order m) -> fst kv <> (0, 0).
Proof.
  intros Hn [k v] Hin. apply mpending_in in Hin as [Hin _]. cbn. intros ->. contradiction.
Qed.

Lemma mpending_length order m : (length (retain_pending mmget order m) <= length order)%nat.
Proof.
  unfold retain_pending. induction order as [|k ks IH]; cbn; auto.
  rewrite app_length. destruct (mmget m k); cbn; lia.
Qed.

Lemma retain_rounds_nil {K V M} (mbind : M -> K -> V -> option M) fuel new :
  retain_rounds mbind fuel [] new = Ok new.
Proof. destruct fuel; reflexivity. Qed.

Lemma existsb_false_in {A} (f : A -> bool) l :
  existsb f l = false -> forall x, In x l -> f x = false.
Proof.
  induction l as [|y l IH]; cbn; [intros _ x []|].
  intros H x [<-|Hin]; apply orb_false_iff in H as [H1 H2]; auto.
Qed.

(** Main characterisation: on a duplicate-free key set that contains the start
    key (i.e. a prerequisite-closed set), whatever its iteration order, the
    repaired retain_keys does not panic on a well-formed map none of whose
    listed keys has a negative position; the result is well-formed, answers
    [get] exactly as before on the listed keys and is a restriction of the old
    map elsewhere. *)
Theorem m_retain_ok order m :
  NoDup order -> In (0, 0) order -> mm_wf m ->
  existsb (mmget_panics m) order = false ->
  exists m', m_retain order m = Ok m' /\ mm_wf m'
    /\ (forall k, In k order -> mmget m' k = mmget m k)
    /\ (forall k v, mmget m' k = Some v -> mmget m k = Some v).
Proof.
  intros Hnd H0 W Hp. unfold m_retain. rewrite Hp. unfold retain_rounds_default.
  destruct m as [|s a b].
  - assert (retain_pending mmget order MUnbound = []) as ->.
    { unfold retain_pending. clear. induction order; cbn; auto. }
    cbn. exists MUnbound. cbn. auto.
  - cbn in W.
    apply in_split in H0 as [o1 [o2 Eo]]. subst order.
    assert (Hn : ~ In (0, 0) o1 /\ ~ In (0, 0) o2).
    { apply NoDup_remove_2 in Hnd. split; intros C; apply Hnd; apply in_or_app; auto. }
    destruct Hn as [Hn1 Hn2].
    (* the start key is readable *)
    assert (G0 : mmget (MBound s a b) (0, 0) = Some s).
    { cbn. apply in_box_iff in W. rewrite W. unfold add_signed. rewrite !Z.add_0_r.
      destruct s as [r c]; cbn.
      destruct (Z.ltb_spec (Z.of_N r) 0); [lia|]. destruct (Z.ltb_spec (Z.of_N c) 0); [lia|].
      now rewrite !N2Z.id. }
    rewrite mpending_app.
    replace (retain_pending mmget ((0, 0) :: o2) (MBound s a b))
      with (((0, 0), s) :: retain_pending mmget o2 (MBound s a b))
      by (unfold retain_pending at 2; cbn [flat_map]; rewrite G0; reflexivity).
    remember (retain_pending mmget o1 (MBound s a b)) as P1 eqn:HeqP1.
    remember (retain_pending mmget o2 (MBound s a b)) as P2 eqn:HeqP2.
    assert (HP1 : forall kv, In kv P1 -> fst kv <> (0, 0)) by (subst P1; apply mpending_nonzero; auto).
    assert (HP2 : forall kv, In kv P2 -> fst kv <> (0, 0)) by (subst P2; apply mpending_nonzero; auto).
    assert (HI1 : forall k v, In (k, v) P1 <-> In k o1 /\ mmget (MBound s a b) k = Some v)
      by (intros; subst P1; apply mpending_in).
    assert (HI2 : forall k v, In (k, v) P2 <-> In k o2 /\ mmget (MBound s a b) k = Some v)
      by (intros; subst P2; apply mpending_in).
    destruct (mfold_box P2 s (0, 0) (0, 0) HP2) as [a2 [b2 [E2 [I2 [K2 B2]]]]].
    destruct (mfold_box P1 s a2 b2 HP1) as [a1 [b1 [E1 [I1 [K1 B1]]]]].
    assert (Hres : retain_rounds mmbind (S (length (o1 ++ (0, 0) :: o2))) (P1 ++ ((0, 0), s) :: P2) MUnbound
                   = Ok (MBound s a1 b1)).
    { rewrite app_length. cbn [length]. rewrite Nat.add_succ_r.
      cbn [retain_rounds].
      destruct (P1 ++ ((0, 0), s) :: P2) eqn:EP; [destruct P1; discriminate|]. rewrite <- EP.
      rewrite mpass_unbound_split by auto. rewrite E2.
      assert (Hlen : Nat.eqb (length P1) (length (P1 ++ ((0, 0), s) :: P2)) = false).
      { apply Nat.eqb_neq. rewrite app_length. cbn. lia. }
      rewrite Hlen.
      clear HI1. destruct P1 as [|p1 P1'].
      - cbn in E1. now rewrite E1.
      - assert (Hf : exists f, (length o1 + length o2)%nat = S f).
        { destruct o1; [cbn in HeqP1; discriminate|]. cbn. eauto. }
        destruct Hf as [f ->]. cbn [retain_rounds].
        rewrite mpass_bound by auto. rewrite E1.
        cbn [length Nat.eqb]. destruct f; reflexivity. }
    exists (MBound s a1 b1). split; [exact Hres|].
    (* the new box lies inside the old one *)
    assert (Hin_old : inbox a1 a b /\ inbox b1 a b).
    { apply B1.
      - apply (B2 a b); auto. intros [k v] Hin. apply HI2 in Hin as [_ G].
        apply mmget_extent in G as [s' [a' [b' [E [Hb _]]]]]. inversion E; subst. exact Hb.
      - apply (B2 a b); auto. intros [k v] Hin. apply HI2 in Hin as [_ G].
        apply mmget_extent in G as [s' [a' [b' [E [Hb _]]]]]. inversion E; subst. exact Hb.
      - intros [k v] Hin. apply HI1 in Hin as [_ G].
        apply mmget_extent in G as [s' [a' [b' [E [Hb _]]]]]. inversion E; subst. exact Hb. }
    assert (W' : inbox (0, 0) a1 b1).
    { apply I1, I2. unfold inbox; cbn; lia. }
    split; [exact W'|]. split.
    + intros k Hk. cbn.
      destruct (in_box k a b) eqn:Bk.
      * (* readable or panicking before; panics are excluded *)
        assert (Hnp : mmget_panics (MBound s a b) k = false).
        { apply (existsb_false_in _ _ Hp). exact Hk. }
        cbn in Hnp. rewrite Bk in Hnp. cbn in Hnp.
        destruct (add_signed (fst s) (fst k)) as [r|] eqn:A1; [|discriminate].
        destruct (add_signed (snd s) (snd k)) as [c|] eqn:A2; [|discriminate].
        assert (G : mmget (MBound s a b) k = Some (r, c)).
        { cbn. now rewrite Bk, A1, A2. }
        assert (Hb : in_box k a1 b1 = true).
        { apply in_box_iff. apply in_app_or in Hk. destruct Hk as [Hk|[<-|Hk]].
          - assert (Hin : In (k, (r, c)) P1) by (apply HI1; auto).
            destruct (K1 _ Hin) as [H|H]; cbn in H; auto.
          - exact W'.
          - assert (Hin : In (k, (r, c)) P2) by (apply HI2; auto).
            apply I1. destruct (K2 _ Hin) as [H|H]; cbn in H; auto. }
        now rewrite Hb.
      * assert (Hb : in_box k a1 b1 = false).
        { apply in_box_false. apply in_box_false in Bk. intros C. apply Bk.
          unfold inbox in *. lia. }
        now rewrite Hb.
    + intros k v. cbn. destruct (in_box k a1 b1) eqn:Bk; [|discriminate].
      apply in_box_iff in Bk.
      assert (Hb : in_box k a b = true).
      { apply in_box_iff. unfold inbox in *. lia. }
      now rewrite Hb.
Qed.

(** D3 on the matrix map: the default of the pinned commit panics. *)
Lemma m_retain_pinned_refuted :
  exists order m, NoDup order /\ In (0, 0) order /\ mm_wf m
    /\ existsb (mmget_panics m) order = false
    /\ retain_default MUnbound mmget mmbind order m = Panic SiteRetainUnwrap.
Proof.
  exists [(1, 2); (0, 0)], (MBound (0%N, 0%N) (0, 0) (1, 2)). repeat split.
  - repeat constructor; cbn; intuition discriminate.
  - cbn. auto.
  - cbn. lia.
  - cbn. lia.
  - cbn. lia.
  - cbn. lia.
Qed.
