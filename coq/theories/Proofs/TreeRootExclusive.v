(** C10, mutual exclusion at the root of a mutex tree (what make_det announces):
    the children of the root of [with_transitive_mutex] carry pairwise different
    constraints, all mutually exclusive with the first one; for the port-graph
    decomposition (first constraint IsConnected or HasNodeWeight) no host and no
    injective binding satisfies two of them — so even taking only the first
    satisfied transition of the root (Spec/TreeDet.v) loses nothing. *)
From PM Require Import Model.Prelude Model.Domain Model.Constraint Model.CTree Model.BindMaps Model.DomString
  Model.DomPGKeys Model.DomPG Proofs.TreeProofs Proofs.TreeDomains Proofs.RunSound Proofs.PGTreeProofs Proofs.PGLawful.

Section RootChildren.
  Context {C : Type} (ceqb : C -> C -> bool).
  Variable S : C -> Prop.

  (** the root exists, its children carry constraints in S, pairwise not ceqb *)
  Definition rinv (t : ctree C) : Prop :=
    exists root, nth_error (ct_nodes t) 0 = Some root
      /\ (forall c k, In (c, k) (tn_children root) -> S c)
      /\ (forall l1 c1 k1 l2 c2 k2 l3, tn_children root = l1 ++ (c1, k1) :: l2 ++ (c2, k2) :: l3 -> ceqb c1 c2 = false).

  Lemma rinv_init : rinv (ctree_new (C := C)).
  Proof.
    exists tnode_new. split; [reflexivity|]. split; [intros c k []|].
    intros l1 c1 k1 l2 c2 k2 l3 E. cbn in E. destruct l1; discriminate.
  Qed.

  Lemma snoc_split {A} (l : list A) x l1 a l2 b l3 :
    l ++ [x] = l1 ++ a :: l2 ++ b :: l3 ->
    (exists l3', l3 = l3' ++ [x] /\ l = l1 ++ a :: l2 ++ b :: l3') \/ (l3 = [] /\ b = x /\ l = l1 ++ a :: l2).
  Proof.
    intros E. destruct l3 as [|y l3'] using rev_ind.
    - right. replace (l1 ++ a :: l2 ++ [b]) with ((l1 ++ a :: l2) ++ [b]) in E by (rewrite <- app_assoc; reflexivity).
      apply app_inj_tail in E as [E1 E2]. auto.
    - left. clear IHl3'. exists l3'.
      replace (l1 ++ a :: l2 ++ b :: l3' ++ [y]) with ((l1 ++ a :: l2 ++ b :: l3') ++ [y]) in E.
      + apply app_inj_tail in E as [E1 E2]. subst y. auto.
      + rewrite <- app_assoc. cbn. f_equal. f_equal. rewrite <- app_assoc. reflexivity.
  Qed.

  (** adding labels to any node leaves the children of the root as they are *)
  Lemma add_index_root (t t' : ctree C) n i root :
    add_index t n i = Ok t' -> nth_error (ct_nodes t) 0 = Some root ->
    exists root', nth_error (ct_nodes t') 0 = Some root' /\ tn_children root' = tn_children root.
  Proof.
    unfold add_index. destruct (nth_error (ct_nodes t) n) as [nd|] eqn:En; [|discriminate].
    intros E Hr. inversion E; subst t'. cbn [ct_nodes]. destruct n as [|n'].
    - rewrite Hr in En. inversion En; subst nd.
      rewrite (nth_update_same _ _ _ _ Hr). eexists. split; [reflexivity|reflexivity].
    - rewrite nth_update_other by lia. exists root. auto.
  Qed.

  Lemma add_indices_root is : forall (t t' : ctree C) n root,
    add_indices t n is = Ok t' -> nth_error (ct_nodes t) 0 = Some root ->
    exists root', nth_error (ct_nodes t') 0 = Some root' /\ tn_children root' = tn_children root.
  Proof.
    induction is as [|i is IH]; intros t t' n root A Hr; cbn [add_indices] in A.
    - inversion A; subst. eauto.
    - destruct (add_index t n i) as [t1| |] eqn:A1; cbn [rbind] in A; try discriminate.
      destruct (add_index_root _ _ _ _ _ A1 Hr) as [r1 [Hr1 Ec1]].
      destruct (IH _ _ _ _ A Hr1) as [r2 [Hr2 Ec2]]. exists r2. split; [exact Hr2|congruence].
  Qed.

  Lemma rinv_step t c is t1 k t2 : rinv t -> S c ->
    get_or_add_child ceqb t 0 c = Ok (t1, k) -> add_indices t1 k is = Ok t2 -> rinv t2.
  Proof.
    intros [root [Hr [HS Hp]]] Hc G A.
    destruct (get_or_add_child_spec ceqb _ _ _ _ _ G) as [nd [Hn [_ Hcase]]].
    rewrite Hr in Hn. inversion Hn; subst nd. clear Hn.
    assert (R1 : exists root1, nth_error (ct_nodes t1) 0 = Some root1
                 /\ (forall c0 k0, In (c0, k0) (tn_children root1) -> S c0)
                 /\ (forall l1 c1 k1 l2 c2 k2 l3, tn_children root1 = l1 ++ (c1, k1) :: l2 ++ (c2, k2) :: l3 -> ceqb c1 c2 = false)).
    { destruct Hcase as [[-> _]|[Hk [Hnew [_ [Hroot _]]]]].
      - exists root. auto.
      - eexists. split; [exact Hroot|]. cbn [tn_children]. split.
        + intros c0 k0 Hin. apply in_app_or in Hin as [Hin|[E|[]]]; [eauto|inversion E; subst; exact Hc].
        + intros l1 c1 k1 l2 c2 k2 l3 E. apply snoc_split in E as [[l3' [_ E]]|[_ [E2 E]]].
          * eapply Hp; eauto.
          * inversion E2; subst c2 k2. apply (Hnew c1 k1). rewrite E. apply in_or_app. right. now left. }
    destruct R1 as [root1 [Hr1 [HS1 Hp1]]].
    destruct (add_indices_root is _ _ _ _ A Hr1) as [root2 [Hr2 Ec]].
    exists root2. split; [exact Hr2|]. rewrite Ec. auto.
  Qed.

  Lemma with_children_from_rinv children : forall t t',
    rinv t -> (forall c is, In (c, is) children -> S c) ->
    with_children_from ceqb t children = Ok t' -> rinv t'.
  Proof.
    induction children as [|[c is] rest IH]; intros t t' I H W; cbn [with_children_from] in W.
    - inversion W; subst. exact I.
    - destruct (get_or_add_child ceqb t 0 c) as [[t1 k]| |] eqn:G; cbn [rbind fst snd] in W; try discriminate.
      destruct (add_indices t1 k is) as [t2| |] eqn:A; cbn [rbind] in W; try discriminate.
      apply (IH t2 t'); [|intros c0 is0 Hin; apply (H c0 is0); now right|exact W].
      eapply rinv_step; eauto. apply (H c is). now left.
  Qed.
End RootChildren.

(** with_transitive_mutex: every child of the root carries the first constraint
    or one that is mutex with it; different children, different constraints *)
Theorem transitive_mutex_root {C} (ceqb : C -> C -> bool) (items : list (C * nat)) is_mutex T first fi rest :
  items = (first, fi) :: rest -> with_transitive_mutex ceqb items is_mutex = Ok T ->
  ct_make_det T = true /\
  exists root, nth_error (ct_nodes T) 0 = Some root
    /\ (forall c k, In (c, k) (tn_children root) -> In c (map fst items) /\ (c = first \/ is_mutex first c = true))
    /\ (forall l1 c1 k1 l2 c2 k2 l3, tn_children root = l1 ++ (c1, k1) :: l2 ++ (c2, k2) :: l3 -> ceqb c1 c2 = false).
Proof.
  intros -> W. unfold with_transitive_mutex in W.
  match type of W with (let* t := with_children ?cb ?ch in _) = _ => destruct (with_children cb ch) as [t| |] eqn:Wc end;
    cbn [rbind] in W; try discriminate.
  inversion W; subst T. split; [reflexivity|]. cbn [ct_nodes set_make_det].
  unfold with_children in Wc.
  apply (with_children_from_rinv ceqb (fun c => In c (map fst ((first, fi) :: rest)) /\ (c = first \/ is_mutex first c = true)) _ _ _ (rinv_init ceqb _)) in Wc; [exact Wc|].
  intros c is [E|Hin]; [inversion E; split; [now left|now left]|].
  apply in_map_iff in Hin as [[c0 i0] [E Hin]]. inversion E; subst c is. apply filter_In in Hin as [Hin Hm].
  split; [right; apply in_map_iff; exists (c0, i0); auto|now right].
Qed.

(** ** port graphs: two different constraints that are both mutex with the same
    first constraint cannot both hold under an injective binding *)
Definition inj_on (m : pgmap) (ks : list pgkey) : Prop :=
  forall k1 k2 v, In k1 ks -> In k2 ks -> pgget m k1 = Some v -> pgget m k2 = Some v -> k1 = k2.

Lemma pgport_eqb_eq p q : pgport_eqb p q = true <-> p = q.
Proof.
  unfold pgport_eqb. rewrite <- pgport_cmp_eq. destruct (pgport_cmp p q); split; intros E; try reflexivity; discriminate.
Qed.

Lemma pg_mutex_same_left first c1 c2 :
  is_ne first = false ->
  (c1 = first \/ pg_is_mutex first c1 = true) -> (c2 = first \/ pg_is_mutex first c2 = true) ->
  (forall c, c = first \/ c = c1 \/ c = c2 -> length (cargs c) = pg_arity (cpred c)) ->
  (exists k, cpred c1 = HasNodeWeight /\ cpred c2 = HasNodeWeight /\ cargs c1 = [k] /\ cargs c2 = [k])
  \/ (exists lp rp1 rp2 l r1 r2, cpred c1 = IsConnected lp rp1 /\ cpred c2 = IsConnected lp rp2
                                  /\ cargs c1 = [l; r1] /\ cargs c2 = [l; r2]).
Proof.
  intros Hne H1 H2 Har.
  assert (Hf := Har first (or_introl eq_refl)). assert (Ha1 := Har c1 (or_intror (or_introl eq_refl))).
  assert (Ha2 := Har c2 (or_intror (or_intror eq_refl))).
  destruct first as [pf af]. destruct c1 as [p1 a1]. destruct c2 as [p2 a2]. cbn [cargs cpred] in *.
  unfold is_ne in Hne. cbn [cpred] in Hne.
  destruct pf as [|lpf rpf|nf]; [| |discriminate].
  - (* HasNodeWeight *)
    left. destruct af as [|kf [|? ?]]; try discriminate.
    assert (G : forall p a, length a = pg_arity p ->
                {| cpred := p; cargs := a |} = {| cpred := HasNodeWeight; cargs := [kf] |}
                \/ pg_is_mutex {| cpred := HasNodeWeight; cargs := [kf] |} {| cpred := p; cargs := a |} = true ->
                p = HasNodeWeight /\ a = [kf]).
    { intros p a Ha [E|M]; [inversion E; auto|]. unfold pg_is_mutex in M. cbn [cpred] in M.
      destruct p; try discriminate. unfold fst_key_eq in M. cbn [cargs] in M.
      destruct a as [|x [|? ?]]; try discriminate. apply pgkey_eqb_eq in M. subst. auto. }
    destruct (G p1 a1 Ha1 H1) as [-> ->]. destruct (G p2 a2 Ha2 H2) as [-> ->].
    exists kf. auto.
  - (* IsConnected *)
    right. destruct af as [|lf [|rf [|? ?]]]; try discriminate.
    assert (G : forall p a, length a = pg_arity p ->
                {| cpred := p; cargs := a |} = {| cpred := IsConnected lpf rpf; cargs := [lf; rf] |}
                \/ pg_is_mutex {| cpred := IsConnected lpf rpf; cargs := [lf; rf] |} {| cpred := p; cargs := a |} = true ->
                exists rp r, p = IsConnected lpf rp /\ a = [lf; r]).
    { intros p a Ha [E|M]; [inversion E; eauto|]. unfold pg_is_mutex in M. cbn [cpred] in M.
      destruct p as [|lp rp|n]; try discriminate. apply andb_true_iff in M as [M1 M2].
      apply pgport_eqb_eq in M1. subst lp. unfold fst_key_eq in M2. cbn [cargs] in M2.
      destruct a as [|x [|y [|? ?]]]; try discriminate. apply pgkey_eqb_eq in M2. subst. eauto. }
    destruct (G p1 a1 Ha1 H1) as [rp1 [r1 [-> ->]]]. destruct (G p2 a2 Ha2 H2) as [rp2 [r2 [-> ->]]].
    exists lpf, rp1, rp2, lf, r1, r2. auto.
Qed.

Lemma resolve_two (m : pgmap) l r vs : resolve_args pg_dom m [l; r] = inr vs ->
  exists vl vr, vs = [vl; vr] /\ pgget m l = Some vl /\ pgget m r = Some vr.
Proof.
  cbn [resolve_args]. change (mget pg_dom m l) with (pgget m l). change (mget pg_dom m r) with (pgget m r).
  destruct (pgget m l) as [vl|]; [|discriminate]. destruct (pgget m r) as [vr|]; [|discriminate].
  intros E. inversion E. eauto.
Qed.

Theorem pg_mutex_exclusive first c1 c2 h m :
  is_ne first = false ->
  (c1 = first \/ pg_is_mutex first c1 = true) -> (c2 = first \/ pg_is_mutex first c2 = true) ->
  (forall c, c = first \/ c = c1 \/ c = c2 -> length (cargs c) = pg_arity (cpred c)) ->
  pgc_eqb c1 c2 = false ->
  inj_on m (cargs c1 ++ cargs c2) ->
  holds pg_dom h c1 m -> holds pg_dom h c2 m -> False.
Proof.
  intros Hne H1 H2 Har Hneq Hinj [vs1 [R1 K1]] [vs2 [R2 K2]].
  destruct (pg_mutex_same_left first c1 c2 Hne H1 H2 Har) as [[k [P1 [P2 [A1 A2]]]]|[lp [rp1 [rp2 [l [r1 [r2 [P1 [P2 [A1 A2]]]]]]]]]].
  - (* equal constraints *)
    unfold pgc_eqb in Hneq. rewrite P1, P2, A1, A2 in Hneq. cbn in Hneq.
    rewrite (proj2 (pgkey_eqb_eq k k) eq_refl) in Hneq. discriminate.
  - rewrite A1 in R1. rewrite A2 in R2.
    destruct (resolve_two m l r1 vs1 R1) as [vl [vr1 [-> [Gl G1]]]].
    destruct (resolve_two m l r2 vs2 R2) as [vl' [vr2 [-> [Gl' G2]]]].
    rewrite Gl in Gl'. inversion Gl'; subst vl'.
    rewrite P1 in K1. rewrite P2 in K2. cbn [check pg_dom pg_check] in K1, K2.
    inversion K1 as [E1]. inversion K2 as [E2]. unfold has_edge in E1, E2.
    apply andb_true_iff in E1 as [_ E1]. apply andb_true_iff in E2 as [_ E2].
    destruct (port_link h vl lp) as [[n' p']|]; [|discriminate].
    apply andb_true_iff in E1 as [N1 Q1]. apply andb_true_iff in E2 as [N2 Q2].
    apply N.eqb_eq in N1, N2. apply pgport_eqb_eq in Q1, Q2. subst.
    (* same target node and port: the right keys coincide, and so do the constraints *)
    assert (r1 = r2).
    { apply (Hinj r1 r2 vr2); [rewrite A1, A2; cbn; auto|rewrite A1, A2; cbn; auto 6|exact G1|exact G2]. }
    subst r2. unfold pgc_eqb in Hneq. rewrite P1, P2, A1, A2 in Hneq.
    assert (list_eqb pgkey_eqb [l; r1] [l; r1] = true) as Hl.
    { cbn. rewrite (proj2 (pgkey_eqb_eq l l) eq_refl), (proj2 (pgkey_eqb_eq r1 r1) eq_refl). reflexivity. }
    rewrite Hl, andb_true_r in Hneq.
    assert (pgpred_eqb (IsConnected lp rp2) (IsConnected lp rp2) = true) as Hp by (apply pgpred_eqb_eq; reflexivity).
    congruence.
Qed.

(** the port-graph decomposition: when the smallest constraint is not a not-equal
    constraint, the tree sets make_det and no two children of its root hold
    together under a binding that is injective on their arguments *)
Theorem pg_tree_root_exclusive cs fuel T first fi rest :
  sort_with_indices pgc_cmp cs = (first, fi) :: rest -> is_ne first = false ->
  pg_tree fuel cs = Ok T ->
  (forall c, In c cs -> length (cargs c) = pg_arity (cpred c)) ->
  ct_make_det T = true /\
  exists root, nth_error (ct_nodes T) 0 = Some root /\
    forall l1 c1 k1 l2 c2 k2 l3, tn_children root = l1 ++ (c1, k1) :: l2 ++ (c2, k2) :: l3 ->
      forall h m, inj_on m (cargs c1 ++ cargs c2) -> holds pg_dom h c1 m -> holds pg_dom h c2 m -> False.
Proof.
  intros Es Hne Pt Har. unfold pg_tree in Pt. destruct cs as [|c0 cs']; [cbn in Es; discriminate|].
  rewrite Es, Hne in Pt.
  destruct (with_transitive_mutex pgc_eqb ((first, fi) :: rest) pg_is_mutex) as [t| |] eqn:W; cbn [rbind] in Pt; try discriminate.
  inversion Pt; subst T. split; [reflexivity|]. cbn [ct_nodes set_make_det].
  destruct (transitive_mutex_root pgc_eqb _ pg_is_mutex t first fi rest eq_refl W) as [_ [root [Hr [HS Hp]]]].
  exists root. split; [exact Hr|].
  intros l1 c1 k1 l2 c2 k2 l3 E h m Hinj Hh1 Hh2.
  assert (In1 : In (c1, k1) (tn_children root)) by (rewrite E; apply in_or_app; right; now left).
  assert (In2 : In (c2, k2) (tn_children root)) by (rewrite E; apply in_or_app; right; right; apply in_or_app; right; now left).
  destruct (HS c1 k1 In1) as [M1 X1]. destruct (HS c2 k2 In2) as [M2 X2].
  assert (Hcs : forall c, In c (map fst ((first, fi) :: rest)) -> In c (c0 :: cs')).
  { intros c Hc. apply in_map_iff in Hc as [[c' i] [Ec Hin]]. cbn [fst] in Ec. subst c'.
    rewrite <- Es in Hin. apply (sort_with_indices_in pgc_cmp) in Hin. eapply nth_error_In; eauto. }
  apply (pg_mutex_exclusive first c1 c2 h m Hne X1 X2); auto.
  - intros c [-> | [-> | ->]]; apply Har, Hcs; auto. now left.
  - eapply Hp; eauto.
Qed.

(** ** the deterministic reading of the port-graph mutex tree is faithful on every
    host, under every binding that is injective on the keys of the constraints *)
From PM Require Import Spec.TreeSem Spec.TreeDet.

Definition pg_vb (h : pghost) (m : pgmap) (c : pgconstraint) : bool :=
  match resolve_args pg_dom m (cargs c) with
  | inr vs => match pg_check h (cpred c) vs with Ok true => true | _ => false end
  | inl _ => false
  end.

Lemma pg_vb_holds h m c : pg_vb h m c = true <-> holds pg_dom h c m.
Proof.
  unfold pg_vb, holds. cbn [check pg_dom]. split.
  - destruct (resolve_args pg_dom m (cargs c)) as [k|vs]; [discriminate|].
    destruct (pg_check h (cpred c) vs) as [[|]| |] eqn:E; try discriminate. intros _. eauto.
  - intros [vs [-> ->]]. reflexivity.
Qed.

Theorem pg_mutex_tree_det_faithful cs fuel T first fi rest h m :
  sort_with_indices pgc_cmp cs = (first, fi) :: rest -> is_ne first = false ->
  pg_tree fuel cs = Ok T ->
  (forall c, In c cs -> length (cargs c) = pg_arity (cpred c)) ->
  inj_on m (flat_map cargs cs) ->
  det_faithful (pg_vb h m) T cs.
Proof.
  intros Es Hne Pt Har Hinj.
  destruct (pg_tree_root_exclusive cs fuel T first fi rest Es Hne Pt Har) as [_ [root [Hr Hx]]].
  apply det_faithful_of_exclusive.
  - intros root' l1 c1 k1 l2 c2 k2 l3 Hr' E V1 V2. rewrite Hr in Hr'. inversion Hr'; subst root'.
    apply (Hx l1 c1 k1 l2 c2 k2 l3 E h m); [|now apply pg_vb_holds|now apply pg_vb_holds].
    (* the children carry constraints of the list *)
    unfold pg_tree in Pt. destruct cs as [|c0 cs']; [cbn in Es; discriminate|]. rewrite Es, Hne in Pt.
    destruct (with_transitive_mutex pgc_eqb ((first, fi) :: rest) pg_is_mutex) as [t| |] eqn:W; cbn [rbind] in Pt; try discriminate.
    inversion Pt; subst T. cbn [ct_nodes set_make_det] in Hr.
    destruct (transitive_mutex_root pgc_eqb _ pg_is_mutex t first fi rest eq_refl W) as [_ [root2 [Hr2 [HS _]]]].
    rewrite Hr in Hr2. inversion Hr2; subst root2.
    assert (Hcs : forall c k, In (c, k) (tn_children root) -> In c (c0 :: cs')).
    { intros c k Hin. destruct (HS c k Hin) as [Hm _]. apply in_map_iff in Hm as [[c' i] [Ec Hin']]. cbn [fst] in Ec. subst c'.
      rewrite <- Es in Hin'. apply (sort_with_indices_in pgc_cmp) in Hin'. eapply nth_error_In; eauto. }
    intros ka kb val Ha Hb Ga Gb. apply (Hinj ka kb val); auto.
    + apply in_app_or in Ha as [Ha|Ha]; apply in_flat_map;
        [exists c1; split; [apply (Hcs c1 k1); rewrite E; apply in_or_app; right; now left|exact Ha]
        |exists c2; split; [apply (Hcs c2 k2); rewrite E; apply in_or_app; right; right; apply in_or_app; right; now left|exact Ha]].
    + apply in_app_or in Hb as [Hb|Hb]; apply in_flat_map;
        [exists c1; split; [apply (Hcs c1 k1); rewrite E; apply in_or_app; right; now left|exact Hb]
        |exists c2; split; [apply (Hcs c2 k2); rewrite E; apply in_or_app; right; right; apply in_or_app; right; now left|exact Hb]].
  - (* faithful under every valuation that respects constraint equality *)
    unfold pg_tree in Pt. destruct cs as [|c0 cs']; [cbn in Es; discriminate|]. rewrite Es, Hne in Pt.
    destruct (with_transitive_mutex pgc_eqb ((first, fi) :: rest) pg_is_mutex) as [t| |] eqn:W; cbn [rbind] in Pt; try discriminate.
    inversion Pt; subst T.
    apply faithful_set_make_det.
    refine (proj1 (with_transitive_mutex_ok pgc_eqb (pg_vb h m) _ (c0 :: cs') _ _ t _ W)).
    + intros a b Eab. apply pgc_eqb_eq in Eab. now subst.
    + intros c i Hin. apply (sort_with_indices_in pgc_cmp). rewrite Es. exact Hin.
Qed.
