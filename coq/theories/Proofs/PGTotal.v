(** Port graphs: on a well-formed automaton the modelled traversal never reaches
    a panic site (C08, matching half; termination is not proved here).  The
    invariant: every bound AlongPath key has its root bound — what
    root_candidates.rs [free_ports] expects. *)
From PM Require Import Model.Prelude Model.Domain Model.Constraint Model.BindAll Model.BindMaps Model.Automaton Model.Traversal
  Model.DomString Model.DomPGKeys Model.DomPG Cert.WfCheck
  Proofs.BindAllProofs Proofs.BindMapProofs Proofs.RunSound Proofs.WfSound Proofs.PGTreeProofs Proofs.PGLawful Proofs.RunTotal.
Local Open Scope N_scope.

Definition aroots (m : pgmap) : Prop :=
  forall r p l v, In (AlongPath r p l, v) m -> exists rv, pgget m (PathRoot r) = Some rv.

Lemma path_insert_roots r p len acc x :
  In x (path_insert r p len acc) -> fst (fst x) = r \/ exists y, In y acc /\ fst (fst y) = fst (fst x).
Proof.
  induction acc as [|[[r' p'] l'] rest IH]; cbn [path_insert].
  - intros [<-|[]]. now left.
  - destruct (N.eqb r r' && pgport_eqb p p') eqn:E.
    + intros [<-|Hin]; [right; exists (r', p', l'); split; [now left|reflexivity]|].
      right. exists x. split; [now right|reflexivity].
    + intros [<-|Hin]; [right; exists (r', p', l'); split; [now left|reflexivity]|].
      destruct (IH Hin) as [E1|[y [Hy Ey]]]; [now left|]. right. exists y. split; [now right|exact Ey].
Qed.

Lemma traversed_paths_roots (m0 : pgmap) : aroots m0 ->
  forall x, In x (traversed_paths m0) -> exists rv, pgget m0 (PathRoot (fst (fst x))) = Some rv.
Proof.
  intros Ha. unfold traversed_paths.
  assert (G : forall m acc, (forall e, In e m -> In e m0) ->
            (forall y, In y acc -> exists rv, pgget m0 (PathRoot (fst (fst y))) = Some rv) ->
            forall x, In x (fold_left (fun acc kv => match fst kv with AlongPath r p l => path_insert r p l acc | PathRoot _ => acc end) m acc) ->
            exists rv, pgget m0 (PathRoot (fst (fst x))) = Some rv).
  { induction m as [|[k v] m IH]; intros acc Hsub Hacc x Hx; cbn [fold_left] in Hx; [auto|].
    apply (IH _ (fun e He => Hsub e (or_intror He))) in Hx; auto.
    intros y Hy. destruct k as [i|r p l]; cbn [fst] in Hy; [auto|].
    destruct (path_insert_roots _ _ _ _ _ Hy) as [E|[z [Hz Ez]]].
    - rewrite E. apply (Ha r p l v). apply Hsub. now left.
    - rewrite <- Ez. auto. }
  intros x Hx. apply (G m0 [] (fun e He => He)); auto. intros y [].
Qed.

Lemma free_ports_total h m : aroots m -> exists fp, free_ports h m = Ok fp.
Proof.
  intros Ha. unfold free_ports.
  pose proof (traversed_paths_roots m Ha) as Hr. revert Hr.
  generalize (traversed_paths m) as paths. generalize (@nil (N * list pgport)) as acc0.
  intros acc0 paths. revert acc0. induction paths as [|[[r p] len] paths IH]; intros acc0 Hr; cbn [fold_left]; [eauto|].
  cbn [rbind]. destruct (Hr (r, p, len) (or_introl eq_refl)) as [rv Erv]. cbn [fst] in Erv. rewrite Erv.
  apply IH. intros x Hx. apply Hr. now right.
Qed.

Lemma pg_opts_total h k m : aroots m -> exists vs, pg_opts h k m = Ok vs.
Proof.
  intros Ha. unfold pg_opts. destruct (pgget m k); [eauto|]. destruct k as [i|r p l].
  - destruct (N.eqb i 0); [eauto|]. destruct (pgget m (PathRoot (i - 1))); [|eauto].
    unfold find_root_candidates, nodes_with_free_ports. destruct (free_ports_total h m Ha) as [fp ->]. cbn [rbind]. eauto.
  - destruct (pgget m (PathRoot r)); eauto.
Qed.

Lemma ainsert_in (m : pgmap) k v e : In e (ainsert pgkey_eqb m k v) -> e = (k, v) \/ In e m \/ (exists v', In (fst e, v') m /\ fst e = k).
Proof.
  induction m as [|[k' v'] m IH]; cbn [ainsert].
  - intros [<-|[]]. now left.
  - destruct (pgkey_eqb k k') eqn:E.
    + apply pgkey_eqb_eq in E. subst k'. intros [<-|Hin]; [right; right; exists v'; split; [now left|reflexivity]|right; left; now right].
    + intros [<-|Hin]; [right; left; now left|].
      destruct (IH Hin) as [->|[H1|[v2 [H1 H2]]]]; [now left|right; left; now right|right; right; exists v2; split; [now right|exact H2]].
Qed.

Lemma abind_aroots h m k v m' vs : aroots m -> pg_opts h k m = Ok vs -> In v vs -> pgget m k = None ->
  abind pgkey_eqb N.eqb m k v = Some m' -> aroots m'.
Proof.
  intros Ha Ho Hv Hg B. pose proof (law_bind_mono pg_dom (fun _ _ => True) (fun _ => true) pg_lawful m k v m' B) as Hmono.
  assert (Em : m' = ainsert pgkey_eqb m k v).
  { unfold abind in B. change (aget pgkey_eqb m k) with (pgget m k) in B. rewrite Hg in B. now inversion B. }
  intros r p l w Hin. rewrite Em in Hin.
  assert (Hold : forall r0, (exists rv, pgget m (PathRoot r0) = Some rv) -> exists rv, pgget m' (PathRoot r0) = Some rv).
  { intros r0 [rv E]. exists rv. apply (Hmono (PathRoot r0) rv). exact E. }
  destruct (ainsert_in _ _ _ _ Hin) as [E|[Hold'|[v' [H1 H2]]]].
  - (* the new key is an AlongPath key: it was offered, so its root is bound *)
    inversion E; subst k. apply Hold. unfold pg_opts in Ho. rewrite Hg in Ho.
    destruct (pgget m (PathRoot r)) as [rv|]; [eauto|]. inversion Ho; subst. destruct Hv.
  - apply Hold. eapply Ha; eauto.
  - cbn [fst] in H1, H2. subst k. apply Hold. eapply Ha; eauto.
Qed.

Lemma pg_bind_key_total h inc k m : aroots m ->
  exists r, bind_key pg_dom h inc k m = Ok r /\ Forall aroots r.
Proof.
  intros Ha. unfold bind_key. change (mget pg_dom m k) with (pgget m k).
  destruct (pgget m k) as [v0|] eqn:G; [exists [m]; split; auto|].
  cbn [opts pg_dom]. destruct (pg_opts_total h k m Ha) as [vs Ho]. rewrite Ho. cbn [rbind].
  destruct vs as [|v vs'] eqn:Evs; [destruct inc; eexists; split; eauto|]. rewrite <- Evs in *.
  eexists. split; [destruct vs; [discriminate|reflexivity]|].
  apply Forall_forall. intros m' Hm'. apply in_flat_map in Hm' as [w [Hw Hm']].
  change (mbind pg_dom m k w) with (abind pgkey_eqb N.eqb m k w) in Hm'.
  destruct (abind pgkey_eqb N.eqb m k w) as [m2|] eqn:B; [|destruct Hm']. destruct Hm' as [<-|[]].
  eapply abind_aroots; eauto.
Qed.

Lemma pg_bind_all_total h m ks inc : aroots m -> exists l, bind_all pg_dom h m ks inc = Ok l /\ Forall aroots l.
Proof.
  unfold bind_all. intros Ha.
  assert (G : forall ks ms, Forall aroots ms -> exists l, bind_all_list pg_dom h inc ks ms = Ok l /\ Forall aroots l).
  { induction ks0 as [|k ks0 IH]; intros ms HF; [exists ms; cbn; auto|].
    assert (Hk : exists ms', rflatM (bind_key pg_dom h inc k) ms = Ok ms' /\ Forall aroots ms').
    { clear IH. induction ms as [|m0 ms IHm]; [exists []; cbn; auto|].
      inversion HF as [|? ? Hm0 Hms]; subst. destruct (pg_bind_key_total h inc k m0 Hm0) as [r [Er Fr]].
      destruct (IHm Hms) as [ms' [E' F']]. exists (r ++ ms'). cbn [rflatM]. rewrite Er. cbn [rbind]. rewrite E'. cbn [rbind].
      split; auto. apply Forall_app. auto. }
    destruct Hk as [ms' [E' F']]. destruct (IH ms' F') as [l [El Fl]]. exists l. cbn [bind_all_list]. rewrite E'. cbn [rbind]. auto. }
  apply G. auto.
Qed.

Lemma aretain_aroots ks m : prereq_ordered pg_dom ks -> aroots m -> aroots (aretain pgkey_eqb ks m).
Proof.
  intros [Hnd Ho] Ha r p l v Hin. unfold aretain in Hin. apply filter_In in Hin as [Hin Hk]. cbn [fst] in Hk.
  apply (memb_in pgkey_eqb pgkey_eqb_eq) in Hk.
  destruct (Ha r p l v Hin) as [rv Erv]. exists rv. unfold pgget.
  rewrite (aretain_get pgkey_eqb pgkey_eqb_eq ks m (PathRoot r)).
  assert (Hr : In (PathRoot r) ks).
  { apply in_split in Hk as [l1 [l2 E]]. specialize (Ho l1 (AlongPath r p l) l2 E (PathRoot r)). cbn in Ho.
    rewrite E. apply in_or_app. left. apply Ho. now left. }
  rewrite (proj2 (memb_in pgkey_eqb pgkey_eqb_eq (PathRoot r) ks) Hr). exact Erv.
Qed.

Lemma pg_sat_total h (c : pgconstraint) m : length (cargs c) = pg_arity (cpred c) -> exists b, sat_or_false pg_dom h c m = Ok b.
Proof.
  intros Hl. unfold sat_or_false, is_satisfied, is_satisfied_calls, rmap.
  destruct (resolve_args pg_dom m (cargs c)) as [k|vs] eqn:R; [eexists; reflexivity|].
  pose proof (resolve_length pg_dom m _ _ R) as Hv. rewrite Hl in Hv.
  cbn [check pg_dom]. destruct c as [[|lp rp|n] args]; cbn [cpred pg_arity] in *.
  - destruct vs as [|a [|? ?]]; try discriminate. eexists. reflexivity.
  - destruct vs as [|a [|b [|? ?]]]; try discriminate. eexists. reflexivity.
  - destruct vs as [|a vs']; [discriminate|]. eexists. reflexivity.
Qed.

Theorem pg_run_no_panic (A : automaton pgkey pgpred) rk ids h fuel :
  wf_check pg_dom A rk ids = true -> arity_ok pg_dom A = true ->
  not_panic (run pg_dom fuel A h).
Proof.
  intros W HAR. pose proof (wf_check_sound pg_dom pg_dom_eq A rk ids W) as HWF.
  apply (run_no_panic_gen pg_dom A ids HWF HAR h aroots aroots (fun _ Hm => Hm)) with (okks := fun _ => True); auto.
  - intros r p l v [].
  - intros m ks inc Hm _. now apply pg_bind_all_total.
  - intros st m Hst Hm. eexists. split; [reflexivity|]. apply aretain_aroots; auto. apply (wf_scope_ordered _ _ _ HWF st Hst).
  - intros st pk m _ _ _. eexists. reflexivity.
  - intros c m Ha _. now apply pg_sat_total.
Qed.
