(** C10: the helper constructors and the built-in character decomposition:
    valid indices, faithfulness, presence of the smallest constraint. *)
From PM Require Import Model.Prelude Model.Domain Model.CTree Model.CTreeChar Model.DomString Model.DomMatrix
  Spec.TreeSem Proofs.TreeProofs.

(** ** sort_with_indices *)
Section SortProofs.
  Context {A : Type} (cmp : A -> A -> comparison).

  Lemma insert_sorted_in x l y : In y (insert_sorted cmp x l) <-> y = x \/ In y l.
  Proof.
    induction l as [|z l IH]; cbn; [intuition|].
    destruct (cmp (fst x) (fst z)); cbn; rewrite ?IH; intuition.
  Qed.

  Lemma sort_in l y : In y (sort_with_indices cmp l) <-> In y (combine l (seq 0 (length l))).
  Proof.
    unfold sort_with_indices. induction (combine l (seq 0 (length l))) as [|z r IH]; cbn; [tauto|].
    rewrite insert_sorted_in, IH. intuition.
  Qed.

  Lemma combine_seq_nth (l : list A) : forall start c i,
    In (c, i) (combine l (seq start (length l))) <-> (start <= i /\ nth_error l (i - start) = Some c).
  Proof.
    induction l as [|x l IH]; intros start c i; cbn.
    - split; [tauto|]. intros [_ H]. destruct (i - start); discriminate.
    - rewrite IH. split.
      + intros [E|[H1 H2]].
        * inversion E; subst. rewrite Nat.sub_diag. auto.
        * split; [lia|]. replace (i - start) with (S (i - S start)) by lia. exact H2.
      + intros [H1 H2]. destruct (i - start) as [|n] eqn:En; cbn in H2.
        * left. inversion H2; subst. f_equal. lia.
        * right. split; [lia|]. replace (i - S start) with n by lia. exact H2.
  Qed.

  (** the sorted list consists of the pairs (constraint, original position) *)
  Lemma sort_with_indices_in l c i :
    In (c, i) (sort_with_indices cmp l) <-> nth_error l i = Some c.
  Proof. rewrite sort_in, combine_seq_nth, Nat.sub_0_r. intuition lia. Qed.

  (** minimality of the head, for comparisons that behave like a total preorder *)
  Hypothesis cmp_total : forall a b, cmp a b = Gt -> cmp b a <> Gt.
  Hypothesis cmp_trans : forall a b c, cmp a b <> Gt -> cmp b c <> Gt -> cmp a c <> Gt.

  Definition head_le (l : list (A * nat)) : Prop :=
    match l with [] => True | x :: r => forall y, In y r -> cmp (fst x) (fst y) <> Gt end.

  Fixpoint sortedl (l : list (A * nat)) : Prop :=
    match l with [] => True | x :: r => (forall y, In y r -> cmp (fst x) (fst y) <> Gt) /\ sortedl r end.

  Lemma insert_sorted_sorted x l : sortedl l -> sortedl (insert_sorted cmp x l).
  Proof.
    induction l as [|z l IH]; cbn; [auto|]. intros [Hz Hs].
    destruct (cmp (fst x) (fst z)) eqn:Cx; cbn.
    - split; auto. intros y [<-|Hy]; [congruence|].
      eapply cmp_trans; [|apply Hz; exact Hy]. congruence.
    - split; auto. intros y [<-|Hy]; [congruence|].
      eapply cmp_trans; [|apply Hz; exact Hy]. congruence.
    - split; [|auto]. intros y Hy. apply insert_sorted_in in Hy as [->|Hy]; auto.
  Qed.

  Lemma sort_sorted l : sortedl (sort_with_indices cmp l).
  Proof.
    unfold sort_with_indices. induction (combine l (seq 0 (length l))) as [|z r IH]; cbn; auto.
    now apply insert_sorted_sorted.
  Qed.

  Theorem sort_head_minimal l c0 i0 rest c i :
    sort_with_indices cmp l = (c0, i0) :: rest -> nth_error l i = Some c -> cmp c0 c <> Gt.
  Proof.
    intros Hs Hn. pose proof (sort_sorted l) as S. rewrite Hs in S. destruct S as [Hh _].
    apply sort_with_indices_in in Hn. rewrite Hs in Hn. destruct Hn as [E|Hin].
    - inversion E; subst. intros C. exact (cmp_total _ _ C C).
    - apply (Hh _ Hin).
  Qed.
End SortProofs.

(** ** helper constructors *)
Section Helpers.
  Context {C : Type} (ceqb : C -> C -> bool) (v : C -> bool).
  Hypothesis ceqb_v : forall a b, ceqb a b = true -> v a = v b.

  (** the items are (constraint, position) pairs of the list cs *)
  Definition indexed (cs : list C) (items : list (C * nat)) : Prop :=
    forall c i, In (c, i) items -> nth_error cs i = Some c.

  Lemma singles_same_truth cs (items : list (C * nat)) :
    indexed cs items ->
    forall c is, In (c, is) (map (fun ci => (fst ci, [snd ci])) items) ->
      forall i, In i is -> same_truth v cs c i.
  Proof.
    intros Hi c is Hin i Hii. apply in_map_iff in Hin as [[c' i'] [E Hin]]. cbn in E. inversion E; subst.
    destruct Hii as [<-|[]]. exists c. split; auto.
  Qed.

  Theorem with_transitive_mutex_ok cs items is_mutex T :
    indexed cs items ->
    with_transitive_mutex ceqb items is_mutex = Ok T ->
    faithful v T cs /\ valid_indices T (length cs)
    /\ (forall c i rest, items = (c, i) :: rest -> in_tree T i).
  Proof.
    intros Hi W. unfold with_transitive_mutex in W. destruct items as [|[first fi] rest].
    - inversion W; subst. split; [|split].
      + intros i [n [nd [Hn Hl]]]. destruct n as [|[|n]]; cbn in Hn; try discriminate.
        inversion Hn; subst. destruct Hl.
      + intros i [n [nd [Hn Hl]]]. destruct n as [|[|n]]; cbn in Hn; try discriminate.
        inversion Hn; subst. destruct Hl.
      + intros c i r E. discriminate.
    - set (kept := filter (fun ci => is_mutex first (fst ci)) rest) in W.
      destruct (with_children ceqb ((first, [fi]) :: map (fun ci => (fst ci, [snd ci])) kept)) as [t| |] eqn:Wc;
        cbn in W; try discriminate. inversion W; subst.
      assert (Hch : forall c is, In (c, is) ((first, [fi]) :: map (fun ci : C * nat => (fst ci, [snd ci])) kept) ->
                                 forall i, In i is -> same_truth v cs c i).
      { intros c is [E|Hin] i Hii.
        - inversion E; subst. destruct Hii as [<-|[]]. exists c. split; auto. apply Hi. now left.
        - eapply (singles_same_truth cs kept); eauto.
          intros c' i' Hk. apply Hi. right. unfold kept in Hk. apply filter_In in Hk. tauto. }
      destruct (with_children_ok ceqb v cs ceqb_v _ _ Hch Wc) as [F [Vd L]].
      split; [now apply faithful_set_make_det|]. split.
      + intros i Hin. apply Vd. exact Hin.
      + intros c i r E. inversion E; subst. apply (L c [i] i); [now left|now left].
  Qed.

  Lemma pairwise_filter_subset is_mutex : forall (items : list (C * nat)) kept c is,
    In (c, is) (pairwise_filter is_mutex kept items) ->
    In (c, is) kept \/ exists i, is = [i] /\ In (c, i) items.
  Proof.
    induction items as [|[c0 i0] items IH]; intros kept c is Hin; cbn in Hin; [auto|].
    destruct (forallb (fun o => is_mutex (fst o) c0) kept).
    - destruct (IH _ _ _ Hin) as [H|[i [-> H]]].
      + apply in_app_or in H as [H|[E|[]]]; [auto|]. inversion E; subst. right. exists i0. split; auto. now left.
      + right. exists i. split; auto. now right.
    - destruct (IH _ _ _ Hin) as [H|[i [-> H]]]; [auto|]. right. exists i. split; auto. now right.
  Qed.

  Lemma pairwise_filter_keeps is_mutex : forall (items : list (C * nat)) kept e,
    In e kept -> In e (pairwise_filter is_mutex kept items).
  Proof.
    induction items as [|[c0 i0] items IH]; intros kept e Hin; cbn; auto.
    destruct (forallb _ kept); apply IH; auto. apply in_or_app. now left.
  Qed.

  Theorem with_pairwise_mutex_ok cs items is_mutex T :
    indexed cs items ->
    with_pairwise_mutex ceqb items is_mutex = Ok T ->
    faithful v T cs /\ valid_indices T (length cs)
    /\ (forall c i rest, items = (c, i) :: rest -> in_tree T i).
  Proof.
    intros Hi W. unfold with_pairwise_mutex in W.
    destruct (with_children ceqb (pairwise_filter is_mutex [] items)) as [t| |] eqn:Wc; cbn in W; try discriminate.
    inversion W; subst.
    assert (Hch : forall c is, In (c, is) (pairwise_filter is_mutex [] items) ->
                               forall i, In i is -> same_truth v cs c i).
    { intros c is Hin i Hii. destruct (pairwise_filter_subset _ _ _ _ _ Hin) as [[]|[j [-> Hj]]].
      destruct Hii as [<-|[]]. exists c. split; auto. }
    destruct (with_children_ok ceqb v cs ceqb_v _ _ Hch Wc) as [F [Vd L]].
    split; [now apply faithful_set_make_det|]. split; [exact Vd|].
    intros c i r E. subst items. apply (L c [i] i); [|now left].
    cbn. apply pairwise_filter_keeps. now left.
  Qed.
End Helpers.

(** ** the character decomposition (strings and matrices) *)
Section CharTreeProofs.
  Context {K : Type} (kcmp : K -> K -> comparison).
  Notation C := (constraint K cpredicate).
  Variable v : C -> bool.
  Hypothesis kcmp_eq : forall a b, kcmp a b = Eq -> a = b.
  Hypothesis kcmp_refl : forall a, kcmp a a = Eq.

  Lemma cc_eqb_eq (a b : C) : cc_eqb kcmp a b = true -> a = b.
  Proof.
    unfold cc_eqb. destruct a as [pa aa], b as [pb ab]. cbn. intros H.
    apply andb_true_iff in H as [H1 H2].
    assert (pa = pb).
    { destruct pa as [|x], pb as [|y]; cbn in H1; try discriminate; auto.
      apply N.eqb_eq in H1. now subst. }
    subst. f_equal. revert ab H2. induction aa as [|x aa IH]; intros [|y ab] H2; cbn in H2; try discriminate; auto.
    apply andb_true_iff in H2 as [Hx Hr]. unfold keqb_of in Hx.
    destruct (kcmp x y) eqn:Ek; try discriminate. apply kcmp_eq in Ek. subst. f_equal. auto.
  Qed.

  Theorem char_tree_ok cs T :
    cs <> [] -> char_tree kcmp cs = Ok T ->
    faithful v T cs /\ valid_indices T (length cs)
    /\ exists c0 i0 rest, sort_with_indices (cc_cmp kcmp) cs = (c0, i0) :: rest /\ in_tree T i0.
  Proof.
    intros Hne Ct. unfold char_tree in Ct. destruct cs as [|c1 cs']; [contradiction|].
    set (cs := c1 :: cs') in *.
    destruct (sort_with_indices (cc_cmp kcmp) cs) as [|[first fi] rest] eqn:Es.
    { exfalso. assert (In (c1, 0) (sort_with_indices (cc_cmp kcmp) cs)) by (apply sort_with_indices_in; reflexivity).
      rewrite Es in H. destruct H. }
    assert (Hidx : indexed cs ((first, fi) :: rest)).
    { intros c i Hin. apply (sort_with_indices_in (cc_cmp kcmp)). rewrite Es. exact Hin. }
    assert (Hv : forall a b : C, cc_eqb kcmp a b = true -> v a = v b).
    { intros a b H. apply cc_eqb_eq in H. now subst. }
    destruct (cpred first) eqn:Ep.
    - (* BindingEq: only the first constraint *)
      destruct (with_children (cc_eqb kcmp) [(first, [fi])]) as [t| |] eqn:Wc; cbn in Ct; try discriminate.
      inversion Ct; subst.
      assert (Hch : forall c is, In (c, is) [(first, [fi])] -> forall i, In i is -> same_truth v cs c i).
      { intros c is [E|[]] i Hii. inversion E; subst. destruct Hii as [<-|[]].
        exists c. split; auto. apply Hidx. now left. }
      destruct (with_children_ok _ v cs Hv _ _ Hch Wc) as [F [Vd L]].
      split; [now apply faithful_set_make_det|]. split; [exact Vd|].
      exists first, fi, rest. split; auto. apply (L first [fi] fi); now left.
    - (* ConstVal: all constant checks of the same cell *)
      destruct (cargs first) as [|x [|x2 xs]] eqn:Ea; try discriminate.
      set (kept := filter _ ((first, fi) :: rest)) in Ct.
      destruct (with_children (cc_eqb kcmp) (map (fun ci => (fst ci, [snd ci])) kept)) as [t| |] eqn:Wc;
        cbn in Ct; try discriminate.
      inversion Ct; subst.
      assert (Hk : indexed cs kept).
      { intros c' i' Hin. apply Hidx. unfold kept in Hin. apply filter_In in Hin. tauto. }
      destruct (with_children_ok _ v cs Hv _ _ (singles_same_truth v cs kept Hk) Wc) as [F [Vd L]].
      split; [now apply faithful_set_make_det|]. split; [exact Vd|].
      exists first, fi, rest. split; auto.
      apply (L first [fi] fi); [|now left].
      apply in_map_iff. exists (first, fi). split; auto.
      unfold kept. apply filter_In. split; [now left|]. cbn. rewrite Ep, Ea.
      unfold keqb_of. now rewrite kcmp_refl.
  Qed.
End CharTreeProofs.
