(** Soundness of the answer checker of Cert/SchemeCheck.v. *)
From PM Require Import Model.Prelude Model.Scheme Spec.TopoSpec Cert.SchemeCheck Proofs.SchemeProofs.

Section SchemeCheckSound.
  Context {K : Type} (keqb : K -> K -> bool) (req : K -> list K).
  Hypothesis keqb_spec : forall a b, keqb a b = true <-> a = b.
  Let mem_in := memb_in keqb keqb_spec.

  Lemma prereq_firstb_sound known : forall out seen,
    prereq_firstb keqb req known seen out = true ->
    forall l1 k l2, out = l1 ++ k :: l2 ->
      forall r, In r (req k) -> ~ In r known -> In r l1 \/ In r seen.
  Proof.
    induction out as [|x rest IH]; intros seen Hb l1 k l2 E r Hr Hk; [destruct l1; discriminate|].
    cbn [prereq_firstb] in Hb. apply andb_true_iff in Hb as [Hx Hrest].
    destruct l1 as [|y l1'].
    - cbn [app] in E. inversion E; subst x rest. rewrite forallb_forall in Hx. specialize (Hx r Hr).
      apply orb_true_iff in Hx as [Hx|Hx]; [apply mem_in in Hx; contradiction|apply mem_in in Hx; now right].
    - cbn [app] in E. inversion E; subst y rest.
      destruct (IH (x :: seen) Hrest l1' k l2 eq_refl r Hr Hk) as [H1|[<-|H1]]; [left; now right|left; now left|now right].
  Qed.

  Theorem valid_answer_sound fuel keys known l out :
    acyclic req -> all_missing_bindings keqb req fuel keys known = Ok l ->
    valid_answerb keqb req known l out = true ->
    NoDup out
    /\ (forall x, In x out <-> closure_list req (fun x => In x known) keys x)
    /\ prereq_first req (fun x => In x known) out
    /\ (forall x, In x out -> ~ In x known).
  Proof.
    intros Hac A V. destruct (all_missing_ok keqb req keqb_spec fuel keys known l Hac A) as [_ [Hin [_ Hnk]]].
    unfold valid_answerb in V. apply andb_true_iff in V as [V Hpf]. apply andb_true_iff in V as [Hnd Hss].
    unfold same_setb in Hss. apply andb_true_iff in Hss as [S1 S2]. rewrite forallb_forall in S1, S2.
    assert (Hsame : forall x, In x out <-> In x l).
    { intros x. split; intros Hx; [apply mem_in, S1, Hx|apply mem_in, S2, Hx]. }
    split; [now apply (nodupb_NoDup keqb keqb_spec)|]. split; [|split].
    - intros x. rewrite Hsame. apply Hin.
    - intros l1 k l2 E r Hr Hk.
      destruct (prereq_firstb_sound known out [] Hpf l1 k l2 E r Hr Hk) as [H1|[]]. exact H1.
    - intros x Hx. apply Hnk. now apply Hsame.
  Qed.
End SchemeCheckSound.
