(** Matrices: the traversal on a well-formed automaton with non-negative keys
    never panics and terminates (C08, matching half) — instance of RunTotal. *)
From PM Require Import Model.Prelude Model.Domain Model.Constraint Model.BindAll Model.Automaton Model.Traversal
  Model.BindMaps Model.DomString Model.DomMatrix Cert.CharCert Cert.WfCheck
  Proofs.BindAllProofs Proofs.BindMapProofs Proofs.BindMapMatrixProofs Proofs.BindMapHistories Proofs.WfSound
  Proofs.LawfulDomains Proofs.StringRun Proofs.MatrixRun Proofs.RunTotal.
Local Open Scope Z_scope.

Definition isbm (m : mpm) : Prop := exists s a b, m = MBound s a b /\ inbox (0, 0) a b.

Lemma isbm_wf m : isbm m -> mm_wf m.
Proof. intros [s [a [b [-> W]]]]. exact W. Qed.

Lemma mmget_start s a b : inbox (0, 0) a b -> mmget (MBound s a b) (0, 0) = Some s.
Proof.
  intros W. cbn [mmget]. apply in_box_iff in W. rewrite W. unfold add_signed. cbn [fst snd]. rewrite !Z.add_0_r.
  destruct (Z.ltb_spec (Z.of_N (fst s)) 0); [lia|]. destruct (Z.ltb_spec (Z.of_N (snd s)) 0); [lia|].
  rewrite !N2Z.id. now destruct s.
Qed.

Lemma m_bind_key_isb h inc k s a b : inbox (0, 0) a b ->
  exists r, bind_key matrix_dom h inc k (MBound s a b) = Ok r /\ Forall isbm r /\ (length r <= 1)%nat.
Proof.
  intros W. unfold bind_key. change (mget matrix_dom (MBound s a b) k) with (mmget (MBound s a b) k).
  assert (Hself : isbm (MBound s a b)) by (exists s, a, b; auto).
  destruct (mmget (MBound s a b) k) as [v|] eqn:G.
  - eexists. split; [reflexivity|]. split; [constructor; auto|cbn; lia].
  - assert (Hk : mkey_eqb k (0, 0) = false).
    { destruct (mkey_eqb k (0, 0)) eqn:E; auto. apply mkey_eqb_spec in E. subst k. rewrite (mmget_start s a b W) in G. discriminate. }
    cbn [opts matrix_dom]. unfold m_opts. rewrite Hk.
    assert (Hone : forall v, exists r, (match [v] with [] => if inc then Ok [MBound s a b] else Ok []
                                        | _ => Ok (flat_map (fun v0 => match mbind matrix_dom (MBound s a b) k v0 with Some m' => [m'] | None => [] end) [v]) end) = Ok r
                                       /\ Forall isbm r /\ (length r <= 1)%nat).
    { intros v. cbn [flat_map]. change (mbind matrix_dom (MBound s a b) k v) with (mmbind (MBound s a b) k v).
      unfold mmbind. rewrite Hk. cbn [app]. eexists. split; [reflexivity|]. split; [|cbn; lia].
      constructor; [|constructor]. eexists _, _, _. split; [reflexivity|]. unfold inbox in *. cbn in *. lia. }
    assert (Hnone : exists r, (if inc then Ok [MBound s a b] else Ok []) = Ok r /\ Forall isbm r /\ (length r <= 1)%nat).
    { destruct inc; eexists; (split; [reflexivity|]); (split; [|cbn; lia]); auto. }
    destruct (add_signed (fst s) (fst k)) as [r0|]; [|cbn [rbind]; exact Hnone].
    destruct (add_signed (snd s) (snd k)) as [c0|]; [|cbn [rbind]; exact Hnone].
    destruct (cell_at h (r0, c0)); cbn [rbind]; [apply Hone|exact Hnone].
Qed.

Lemma m_bind_list_isb h inc : forall ks ms, Forall isbm ms ->
  exists l, bind_all_list matrix_dom h inc ks ms = Ok l /\ Forall isbm l /\ (length l <= length ms)%nat.
Proof.
  induction ks as [|k ks IH]; intros ms HF; [exists ms; cbn; auto|].
  assert (Hk : exists ms', rflatM (bind_key matrix_dom h inc k) ms = Ok ms' /\ Forall isbm ms' /\ (length ms' <= length ms)%nat).
  { clear IH. induction ms as [|m ms IHm]; [exists []; cbn; auto|].
    inversion HF as [|? ? Hm Hms]; subst. destruct Hm as [s [a [b [-> W]]]].
    destruct (m_bind_key_isb h inc k s a b W) as [r [Er [Fr Lr]]]. destruct (IHm Hms) as [ms' [E' [F' L']]].
    exists (r ++ ms'). cbn [rflatM]. rewrite Er. cbn [rbind]. rewrite E'. cbn [rbind]. split; auto.
    split; [apply Forall_app; auto|]. rewrite app_length. cbn [length]. lia. }
  destruct Hk as [ms' [E' [F' L']]]. destruct (IH ms' F') as [l [El [Fl Ll]]].
  exists l. cbn [bind_all_list]. rewrite E'. cbn [rbind]. split; auto. split; auto. lia.
Qed.

Definition ncells (h : mhost) : nat := length (all_cells_from h 0).

Lemma m_bind_all_total h inc ks m : mm_wf m ->
  exists l, bind_all matrix_dom h m ks inc = Ok l /\ (length l <= Nat.max 1 (ncells h))%nat /\ Forall mm_wf l.
Proof.
  unfold bind_all. destruct m as [|s a b]; intros W.
  - induction ks as [|k ks IH].
    + exists [MUnbound]. cbn [bind_all_list length]. split; auto. split; [lia|constructor; [exact I|constructor]].
    + cbn [bind_all_list rflatM]. unfold bind_key at 1. change (mget matrix_dom MUnbound k) with (mmget MUnbound k). cbn [mmget].
      cbn [opts matrix_dom]. unfold m_opts.
      assert (Hempty : bind_all_list matrix_dom h inc ks [] = Ok []).
      { clear. induction ks; cbn; auto. }
      destruct (mkey_eqb k (0, 0)) eqn:Ek.
      * cbn [rbind]. destruct (all_cells_from h 0) as [|v vs] eqn:En.
        -- destruct inc; cbn [rbind app]; [exact IH|]. rewrite Hempty. exists []. cbn [length]. split; auto. split; [lia|constructor].
        -- rewrite <- En. cbn [rbind]. rewrite app_nil_r.
           set (ms := flat_map (fun v0 => match mbind matrix_dom MUnbound k v0 with Some m' => [m'] | None => [] end) (all_cells_from h 0)).
           assert (Hfm : Forall isbm ms /\ length ms = ncells h).
           { unfold ms, ncells. apply mkey_eqb_spec in Ek. subst k. clear.
             induction (all_cells_from h 0) as [|x xs [F1 F2]]; cbn [flat_map]; [split; [constructor|reflexivity]|].
             change (mbind matrix_dom MUnbound (0, 0) x) with (Some (MBound x (0, 0) (0, 0))). cbn [app].
             split; [constructor; [exists x, (0, 0), (0, 0); split; [reflexivity|unfold inbox; cbn; lia]|exact F1]|cbn [length]; now rewrite F2]. }
           destruct Hfm as [HF Hlen].
           destruct (m_bind_list_isb h inc ks ms HF) as [l' [El [Fl Ll]]]. exists l'. split; auto. split; [lia|].
           eapply Forall_impl; [|exact Fl]. intros m0. apply isbm_wf.
      * cbn [rbind]. destruct inc; cbn [app rbind]; [exact IH|]. rewrite Hempty. exists []. cbn [length]. split; auto. split; [lia|constructor].
  - destruct (m_bind_list_isb h inc ks [MBound s a b]) as [l' [El [Fl Ll]]].
    { constructor; [exists s, a, b; auto|constructor]. }
    exists l'. split; auto. split; [cbn in Ll; lia|]. eapply Forall_impl; [|exact Fl]. intros m0. apply isbm_wf.
Qed.

Lemma m_no_panic_nn m order : (forall k, In k order -> nn k) -> existsb (mmget_panics m) order = false.
Proof.
  intros Hn. destruct (existsb (mmget_panics m) order) eqn:E; auto. exfalso.
  apply existsb_exists in E as [k [Hk Hp]]. destruct (Hn k Hk) as [H1 H2].
  destruct m as [|s a b]; [discriminate|]. cbn [mmget_panics] in Hp. apply andb_true_iff in Hp as [_ Hp].
  rewrite !add_signed_nn in Hp by auto. discriminate.
Qed.

Lemma m_retain_total_ord order m : prereq_ordered matrix_dom order -> (forall k, In k order -> nn k) -> mm_wf m ->
  exists m', mretain matrix_dom order m = Ok m' /\ mm_wf m'.
Proof.
  intros Ho Hn W. destruct order as [|k ks] eqn:E.
  - exists MUnbound. split; [reflexivity|exact I].
  - destruct (m_retain_ok (k :: ks) m (proj1 Ho)) as [m' [Em [W' _]]]; auto.
    + rewrite (m_prereq_head _ k ks Ho eq_refl). now left.
    + now apply m_no_panic_nn.
    + exists m'. auto.
Qed.

Lemma m_sat_total h (c : constraint mkey cpredicate) m :
  length (cargs c) = c_arity (cpred c) -> exists b, sat_or_false matrix_dom h c m = Ok b.
Proof.
  intros Ha. unfold sat_or_false, is_satisfied, is_satisfied_calls, rmap.
  destruct (resolve_args matrix_dom m (cargs c)) as [k|vs] eqn:R; [eexists; reflexivity|].
  pose proof (resolve_length matrix_dom m _ _ R) as Hl. rewrite Ha in Hl.
  cbn [check matrix_dom]. destruct c as [[|x] args]; cbn [cpred c_arity] in *.
  - destruct vs as [|a [|b [|? ?]]]; try discriminate. eexists. reflexivity.
  - destruct vs as [|a [|? ?]]; try discriminate. eexists. reflexivity.
Qed.

(** the traversal of a well-formed matrix automaton never panics and terminates *)
Theorem m_run_total (A : automaton mkey cpredicate) rk ids h :
  wf_check matrix_dom A rk ids = true -> arity_ok matrix_dom A = true -> m_keys_nn A = true ->
  exists fuel0, forall fuel, (fuel0 <= fuel)%nat -> exists ms, run matrix_dom fuel A h = Ok ms.
Proof.
  intros W HAR HNN. pose proof (wf_check_sound matrix_dom matrix_dom_eq A rk ids W) as HWF.
  destruct (wf_acyclic _ _ _ HWF) as [rank Hrank].
  apply (run_total_gen matrix_dom A ids HWF HAR h mm_wf mm_wf (fun _ Hm => Hm) (Nat.max 1 (ncells h)) I (fun _ => True)) with (rank := rank); auto.
  - intros m ks inc Hm _. now apply m_bind_all_total.
  - intros st m Hst Hm. apply m_retain_total_ord; auto.
    + apply (wf_scope_ordered _ _ _ HWF st Hst).
    + intros k Hk. eapply (scope_nn A HNN); eauto.
  - intros st pk m Hst Hpk Hm. destruct (m_retain_total_ord (snd pk) m) as [m' [E _]]; eauto.
    + apply (wf_match_ordered _ _ _ HWF st pk Hst Hpk).
    + intros k Hk. eapply (match_nn A HNN); eauto.
  - intros c m Ha _. now apply m_sat_total.
Qed.
