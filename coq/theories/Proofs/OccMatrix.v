(** Matrices: the constraints generated for a pattern are true at anchor [a]
    exactly when the pattern occurs with its top-left corner on cell [a]. *)
From PM Require Import Model.Prelude Model.Domain Model.Constraint Model.DomString Model.DomMatrix
  Spec.Occ Proofs.OccProofs Proofs.CellsProofs Proofs.RunSound Proofs.BindMapMatrixProofs
  Proofs.LawfulDomains.

Lemma mvar_lookup_glookup env x : mvar_lookup env x = glookup env x.
Proof. induction env as [|[y p] env IH]; cbn; [reflexivity|]. now rewrite IH. Qed.

Lemma m_cvec_loop_gloop cells : forall env, m_cvec_loop cells env = gloop cells env.
Proof.
  induction cells as [|[k [l|x]] r IH]; intros env; cbn.
  - reflexivity.
  - now rewrite IH.
  - rewrite mvar_lookup_glookup. destruct (glookup env x); [now rewrite IH|apply IH].
Qed.

Definition m_extras (cs : list mconstraint) (env : list (N * mkey)) : list mconstraint :=
  map (fun pos => {| cpred := CBindingEq; cargs := [pos; pos] |})
      (filter (fun pos => negb (existsb (fun c => memb mkey_eqb pos (cargs c)) cs)) (map snd (rev env))).

Lemma m_cvec_unfold p :
  m_cvec p =
  let '(cs, env) := gloop (m_enum p 0%Z) [] in
  match cs ++ m_extras cs env with
  | [] => [{| cpred := CBindingEq; cargs := [(0, 0)%Z; (0, 0)%Z] |}]
  | cs' => cs'
  end.
Proof. unfold m_cvec. rewrite m_cvec_loop_gloop. reflexivity. Qed.

Lemma glookup_in (env : list (N * mkey)) x k : glookup env x = Some k -> In k (map snd (rev env)).
Proof.
  induction env as [|[y p] env IH]; cbn; [discriminate|].
  rewrite map_app, in_app_iff. destruct (N.eqb x y).
  - intros E. inversion E; subst. right. cbn. auto.
  - intros E. left. auto.
Qed.

Lemma mkey_mem_in k l : memb mkey_eqb k l = true <-> In k l.
Proof. apply (memb_in mkey_eqb mkey_eqb_spec). Qed.

(** constraints true at anchor a <-> every cell lands on a fitting character,
    and (for a pattern without cells) the anchor cell exists *)
Theorem m_cvec_occ p h a :
  forallb (cvalb (m_char_of h a)) (m_cvec p) = true
  <-> (occursb (m_char_of h a) (m_enum p 0%Z) = true
       /\ (m_enum p 0%Z = [] -> m_char_of h a (0, 0)%Z <> None)).
Proof.
  rewrite m_cvec_unfold.
  destruct (gloop (m_enum p 0%Z) []) as [cs env'] eqn:G.
  assert (HR : R (m_char_of h a) [] []) by (intros x; cbn; exact I).
  pose proof (gloop_equiv (m_char_of h a) (m_enum p 0%Z) [] [] cs env' HR G) as EQ.
  unfold occursb.
  (* the extras hold iff the unreferenced first cells exist *)
  assert (EX : forallb (cvalb (m_char_of h a)) (m_extras cs env') = true <->
               forall pos, In pos (map snd (rev env')) ->
                 existsb (fun c => memb mkey_eqb pos (cargs c)) cs = false ->
                 m_char_of h a pos <> None).
  { unfold m_extras. rewrite forallb_forall. split.
    - intros Hall pos Hin Hex.
      assert (Hc : cvalb (m_char_of h a) {| cpred := CBindingEq; cargs := [pos; pos] |} = true).
      { apply Hall. apply in_map_iff. exists pos. split; [reflexivity|].
        apply filter_In. split; auto. now rewrite Hex. }
      eapply cvalb_args_exist; eauto. cbn. auto.
    - intros Hall c Hc. apply in_map_iff in Hc as [pos [<- Hf]]. apply filter_In in Hf as [Hin Hex].
      apply negb_true_iff in Hex. specialize (Hall pos Hin Hex).
      unfold cvalb. cbn. destruct (m_char_of h a pos); [apply N.eqb_refl|contradiction]. }
  split.
  - intros Hall.
    assert (Hboth : forallb (cvalb (m_char_of h a)) cs = true
                    /\ forallb (cvalb (m_char_of h a)) (m_extras cs env') = true
                    /\ (cs ++ m_extras cs env' = [] -> m_char_of h a (0, 0)%Z <> None)).
    { destruct (cs ++ m_extras cs env') as [|c0 l0] eqn:Eapp.
      - apply app_eq_nil in Eapp as [-> ->]. repeat split; auto. intros _.
        cbn [forallb] in Hall. apply andb_true_iff in Hall as [Hc _].
        eapply (cvalb_args_exist _ _ (0, 0)%Z Hc). cbn. auto.
      - rewrite <- Eapp in Hall. rewrite forallb_app in Hall. apply andb_true_iff in Hall as [H1 H2].
        repeat split; auto. intros C. discriminate. }
    destruct Hboth as [Hcs [Hex Hnil]].
    assert (Hn : news_exist (m_char_of h a) [] env').
    { intros x k0 L1 _.
      destruct (existsb (fun c => memb mkey_eqb k0 (cargs c)) cs) eqn:Ex.
      - apply existsb_exists in Ex as [c [Hc Hm]]. apply mkey_mem_in in Hm.
        rewrite forallb_forall in Hcs. eapply cvalb_args_exist; eauto.
      - apply (proj1 EX Hex k0); auto. eapply glookup_in; eauto. }
    destruct (proj2 EQ (conj Hcs Hn)) as [cenv' Ho]. rewrite Ho. split; auto.
    intros Hnil'. apply Hnil. rewrite Hnil' in G. cbn in G. inversion G; subst. reflexivity.
  - intros [Ho Hnil].
    destruct (occ_env (m_char_of h a) (m_enum p 0%Z) []) as [cenv'|] eqn:Hoe; [|discriminate].
    destruct (proj1 EQ (ex_intro _ cenv' eq_refl)) as [Hcs Hn].
    assert (Hnd : NoDup (map fst env')).
    { eapply gloop_nodup; [|exact G]. constructor. }
    (* the first cells of all variables exist, hence the extras hold *)
    assert (Hex : forallb (cvalb (m_char_of h a)) (m_extras cs env') = true).
    { apply EX. intros pos Hin _.
      apply in_map_iff in Hin as [[x k] [<- Hin]]. apply in_rev in Hin. cbn.
      apply (Hn x k); [|reflexivity]. apply (glookup_of_in (m_char_of h a)); [exact Hnd|exact Hin]. }
    destruct (cs ++ m_extras cs env') as [|c0 l0] eqn:Eapp.
    + cbn. rewrite andb_true_r. unfold cvalb. cbn.
      apply app_eq_nil in Eapp as [-> Hm].
      assert (Hcells : m_enum p 0%Z = []).
      { destruct (m_enum p 0%Z) as [|[k [l|x]] r] eqn:Ecells; auto; exfalso.
        - cbn in G. destruct (gloop r []) as [cs0 e0]. inversion G.
        - cbn in G. assert (Lx : glookup env' x = Some k).
          { eapply gloop_mono; eauto. cbn. now rewrite N.eqb_refl. }
          pose proof (glookup_in _ _ _ Lx) as Hin.
          unfold m_extras in Hm. cbn in Hm.
          assert (Hf : forall l : list mkey, filter (fun _ => true) l = l).
          { induction l as [|z l IHl]; cbn; [reflexivity|now rewrite IHl]. }
          rewrite Hf in Hm. destruct (map snd (rev env')); [destruct Hin|discriminate]. }
      specialize (Hnil Hcells). destruct (m_char_of h a (0, 0)%Z); [apply N.eqb_refl|contradiction].
    + rewrite <- Eapp. rewrite forallb_app, Hcs, Hex. reflexivity.
Qed.

(** ** link with the engine's notion of satisfaction *)
Lemma m_char_of_get h s a b k v :
  mmget (MBound s a b) k = Some v -> m_char_of h s k = cell_at h v.
Proof.
  cbn. destruct (in_box k a b); [|discriminate]. unfold m_char_of.
  destruct (add_signed (fst s) (fst k)) as [r|]; [|discriminate].
  destruct (add_signed (snd s) (snd k)) as [c|]; [|discriminate].
  intros E. inversion E. reflexivity.
Qed.

Lemma m_holds_cvalb h c s a b :
  holds matrix_dom h c (MBound s a b) -> cvalb (m_char_of h s) c = true.
Proof.
  intros [vs [Rv Ck]].
  destruct c as [[|l] args]; cbn [cpred cargs] in *.
  - destruct args as [|k1 [|k2 [|k3 r]]]; cbn [resolve_args] in Rv.
    + inversion Rv; subst. cbn in Ck. discriminate Ck.
    + change (mget matrix_dom) with mmget in Rv.
      destruct (mmget (MBound s a b) k1); inversion Rv; subst. cbn in Ck. discriminate Ck.
    + change (mget matrix_dom) with mmget in Rv.
      destruct (mmget (MBound s a b) k1) as [v1|] eqn:G1; [|discriminate Rv].
      destruct (mmget (MBound s a b) k2) as [v2|] eqn:G2; [|discriminate Rv].
      inversion Rv; subst. cbn in Ck. unfold cvalb; cbn [cpred cargs].
      rewrite (m_char_of_get h _ _ _ _ _ G1), (m_char_of_get h _ _ _ _ _ G2).
      destruct (cell_at h v1), (cell_at h v2); inversion Ck; auto.
    + change (mget matrix_dom) with mmget in Rv.
      destruct (mmget (MBound s a b) k1) as [v1|]; [|discriminate Rv].
      destruct (mmget (MBound s a b) k2) as [v2|]; [|discriminate Rv].
      destruct (mmget (MBound s a b) k3) as [v3|]; [|discriminate Rv].
      destruct (resolve_args matrix_dom (MBound s a b) r); inversion Rv; subst. cbn in Ck. discriminate Ck.
  - destruct args as [|k1 [|k2 r]]; cbn [resolve_args] in Rv.
    + inversion Rv; subst. cbn in Ck. discriminate Ck.
    + change (mget matrix_dom) with mmget in Rv.
      destruct (mmget (MBound s a b) k1) as [v1|] eqn:G1; [|discriminate Rv].
      inversion Rv; subst. cbn in Ck. unfold cvalb; cbn [cpred cargs].
      rewrite (m_char_of_get h _ _ _ _ _ G1).
      destruct (cell_at h v1); inversion Ck; auto.
    + change (mget matrix_dom) with mmget in Rv.
      destruct (mmget (MBound s a b) k1) as [v1|]; [|discriminate Rv].
      destruct (mmget (MBound s a b) k2) as [v2|]; [|discriminate Rv].
      destruct (resolve_args matrix_dom (MBound s a b) r); inversion Rv; subst. cbn in Ck. discriminate Ck.
Qed.

Lemma m_cvec_nonempty p : m_cvec p <> [].
Proof.
  rewrite m_cvec_unfold. destruct (gloop (m_enum p 0%Z) []) as [cs env].
  destruct (cs ++ m_extras cs env); discriminate.
Qed.

Lemma m_cvec_args_nonempty p c : In c (m_cvec p) -> cargs c <> [].
Proof.
  rewrite m_cvec_unfold. destruct (gloop (m_enum p 0%Z) []) as [cs env] eqn:G.
  assert (Hcs : forall c, In c cs -> cargs c <> []).
  { clear - G. revert G. generalize (@nil (N * mkey)). generalize (m_enum p 0%Z). revert cs env.
    intros cs env cells. revert cs env.
    induction cells as [|[k [l|x]] r IH]; intros cs env e0 G c Hin; cbn in G.
    - inversion G; subst. destruct Hin.
    - destruct (gloop r e0) as [cs0 e1] eqn:G0. inversion G; subst.
      destruct Hin as [<-|Hin]; [discriminate|]. eapply IH; eauto.
    - destruct (glookup e0 x).
      + destruct (gloop r e0) as [cs0 e1] eqn:G0. inversion G; subst.
        destruct Hin as [<-|Hin]; [discriminate|]. eapply IH; eauto.
      + eapply IH; eauto. }
  assert (Hex : forall c, In c (m_extras cs env) -> cargs c <> []).
  { intros c0 Hc. unfold m_extras in Hc. apply in_map_iff in Hc as [pos [<- _]]. discriminate. }
  destruct (cs ++ m_extras cs env) as [|c0 l0] eqn:Eapp.
  - intros [<-|[]]. discriminate.
  - rewrite <- Eapp. intros Hin. apply in_app_or in Hin as [Hin|Hin]; auto.
Qed.

(** a binding that satisfies every constraint of a pattern and whose start value
    is an existing host cell is anchored at an occurrence of the pattern *)
Theorem m_constraints_sound p h m :
  m_inv h m ->
  (forall c, In c (m_cvec p) -> holds matrix_dom h c m) ->
  exists s a b, m = MBound s a b /\ occ_matrix p h s.
Proof.
  intros [W S] Hall.
  destruct m as [|s a b].
  - exfalso. destruct (m_cvec p) as [|c cs] eqn:Ec; [now apply (m_cvec_nonempty p)|].
    assert (Hne : cargs c <> []) by (apply (m_cvec_args_nonempty p); rewrite Ec; now left).
    destruct (Hall c (or_introl eq_refl)) as [vs [Rv _]].
    destruct (cargs c); [contradiction|]. cbn in Rv. discriminate.
  - exists s, a, b. split; auto. split; [exact S|].
    apply occ_env_iff. apply (m_cvec_occ p h s).
    apply forallb_forall. intros c Hc. eapply m_holds_cvalb. apply Hall. exact Hc.
Qed.
