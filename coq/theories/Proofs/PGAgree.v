(** C03 / C04 / C06, port graphs, where they hold: two well-formed, sound and
    complete automata over single-root keys (any heuristics, any pattern lists of
    single-root patterns) that both contain a good pattern P report the same
    matches of P: whatever one reports, the other reports with the same values on
    the keys it records for P.  A reported match is an embedding (soundness); an
    embedding is reported (completeness on single-root sets). *)
From PM Require Import Model.Prelude Model.Domain Model.Constraint Model.BindMaps Model.Automaton Model.Traversal
  Model.DomString Model.DomPGKeys Model.DomPG Model.DomPGPattern Cert.PGCert Cert.LabCheck Cert.WfCheck Cert.WinCheck
  Proofs.PGTreeProofs Proofs.PGLawful Proofs.PGComplete Proofs.PGEmbed Proofs.PGEmbedComplete Proofs.PGWalkEmbed
  Proofs.PGSingleGood Proofs.PGRunSingleRoot Model.Scheme Model.Matchers Spec.TopoSpec Proofs.SchemeProofs Proofs.SingleSound.
Local Open Scope N_scope.

(** ** live nodes *)
Lemma in_combine_seq {X} (g : nat -> N) (l : list X) : forall s a x,
  In (a, x) (combine (map g (seq s (length l))) l) <-> exists i, a = g (s + i)%nat /\ nth_error l i = Some x.
Proof.
  induction l as [|y ys IH]; intros s a x; cbn [length seq map combine].
  - split; [intros []|intros [i [_ Hn]]; destruct i; discriminate].
  - cbn [In]. rewrite IH. split.
    + intros [E|[i [Ea Hn]]].
      * inversion E; subst. exists 0%nat. rewrite Nat.add_0_r. auto.
      * exists (S i). cbn [nth_error]. split; [rewrite Ea; f_equal; lia|exact Hn].
    + intros [[|i] [Ea Hn]]; cbn [nth_error] in Hn.
      * left. inversion Hn; subst. rewrite Nat.add_0_r. reflexivity.
      * right. exists i. split; [rewrite Ea; f_equal; lia|exact Hn].
Qed.

Lemma live_nodes_spec h n : In n (live_nodes h) <-> exists io, nth_error (pg_nodes h) (N.to_nat n) = Some (Some io).
Proof.
  unfold live_nodes, nseq. rewrite Nnat.Nat2N.id. rewrite in_flat_map. split.
  - intros [[a x] [Hin Hx]]. cbn [fst snd] in Hx. destruct x as [io|]; [|destruct Hx]. destruct Hx as [<-|[]].
    apply (in_combine_seq N.of_nat (pg_nodes h) 0) in Hin as [i [Ea Hn]]. cbn [plus] in Ea. subst a.
    rewrite Nnat.Nat2N.id. eauto.
  - intros [io Hn]. exists (n, Some io). split; [|cbn; now left].
    apply (in_combine_seq N.of_nat (pg_nodes h) 0). exists (N.to_nat n). cbn [plus]. rewrite Nnat.N2Nat.id. auto.
Qed.

Lemma has_port_live h n p : has_port h n p = true -> In n (live_nodes h).
Proof.
  unfold has_port, node_ports. intros Hp. apply live_nodes_spec.
  destruct (nth_error (pg_nodes h) (N.to_nat n)) as [[io|]|]; try discriminate. eauto.
Qed.

(** ** from a binding map under which the constraints of a good pattern hold to an embedding *)
Section FromMatch.
  Variable P H : pghost.
  Variable root : N.
  Variable cs : list pgconstraint.
  Variable nk : list (N * pgkey).
  Variable b : pgmap.
  Hypothesis CV : pg_cvec_full P root = Ok (cs, nk).
  Hypothesis Hcov : lines_cover P root = true.
  Hypothesis Hkeyed : nodes_keyed P nk = true.
  Hypothesis Hkd : keys_distinct nk = true.
  Hypothesis Hgood : pg_good_pattern P root cs nk = true.
  Hypothesis HwP : pg_host_wfb P = true.
  Hypothesis HwH : pg_host_wfb H = true.
  (** the root lies on a link *)
  Hypothesis Hrl : existsb (fun l : N * N * N * N => let '(a, _, bb, _) := l in N.eqb a root || N.eqb bb root) (pg_links P) = true.
  Hypothesis Hall : forall c, In c cs -> pgval H b c = true.

  Definition fb (u : N) : N := match image b nk u with Some val => val | None => 0 end.

  Lemma nk_get_in u k : In (u, k) nk -> nk_get nk u = Some k.
  Proof.
    unfold keys_distinct in Hkd. apply andb_true_iff in Hkd as [_ Hn]. apply (nodupb_NoDup N.eqb N.eqb_eq) in Hn.
    clear - Hn. induction nk as [|[u' k'] r IH]; intros Hin; [destruct Hin|]. cbn [nk_get].
    cbn [map fst] in Hn. inversion Hn as [|? ? Hni Hnd]; subst. destruct Hin as [E|Hin].
    - inversion E; subst. now rewrite N.eqb_refl.
    - destruct (N.eqb_spec u u') as [->|Hne]; [|now apply IH].
      exfalso. apply Hni. apply in_map_iff. exists (u', k). auto.
  Qed.

  (** every key of the pattern is bound (it is an argument of a constraint that holds) *)
  Lemma resolve_bound (m : pgmap) args vs k : resolve_args pg_dom m args = inr vs -> In k args -> pgget m k <> None.
  Proof.
    revert vs. induction args as [|a r IH]; intros vs R Hin; [destruct Hin|]. cbn [resolve_args] in R.
    change (mget pg_dom m a) with (pgget m a) in R. destruct (pgget m a) as [va|] eqn:Ea; [|discriminate].
    destruct (resolve_args pg_dom m r) as [k0|vs0] eqn:Rr; [discriminate|].
    destruct Hin as [<-|Hin]; [congruence|]. eapply IH; eauto.
  Qed.

  Lemma nk_bound u k : In (u, k) nk -> exists val, pgget b k = Some val.
  Proof.
    intros Hin. unfold pg_good_pattern in Hgood. apply andb_true_iff in Hgood as [Hg _]. apply andb_true_iff in Hg as [_ G3].
    rewrite forallb_forall in G3. specialize (G3 (u, k) Hin). apply existsb_exists in G3 as [c [Hc Hk]]. cbn [snd] in Hk.
    apply (memb_in pgkey_eqb pgkey_eqb_eq) in Hk.
    pose proof (Hall c Hc) as Hv. unfold pgval in Hv.
    destruct (resolve_args pg_dom b (cargs c)) as [k0|vs] eqn:R; [discriminate|].
    pose proof (resolve_bound b (cargs c) vs k R Hk) as Hb. destruct (pgget b k) as [val|]; [eauto|contradiction].
  Qed.

  Lemma fb_key u k : In (u, k) nk -> pgget b k = Some (fb u).
  Proof.
    intros Hin. destruct (nk_bound u k Hin) as [val Ev]. unfold fb, image. rewrite (nk_get_in u k Hin), Ev. reflexivity.
  Qed.

  Lemma pnode_keyed u : pnode P u -> In u (map fst nk).
  Proof.
    intros [l [Hl He]]. destruct l as [[[a oa] bb] ib]. pose proof (pg_host_wfb_sound P HwP) as [W1 _].
    destruct (W1 _ _ _ _ Hl) as [Hp1 Hp2].
    assert (Hlive : In u (live_nodes P)).
    { cbn in He. destruct He as [->| ->]; eapply has_port_live; eauto. }
    unfold nodes_keyed in Hkeyed. rewrite forallb_forall in Hkeyed. specialize (Hkeyed u Hlive).
    apply existsb_exists in Hkeyed as [[u' k] [Hin E]]. cbn [fst] in E. apply N.eqb_eq in E. subst u'.
    apply in_map_iff. exists (u, k). auto.
  Qed.

  Theorem fb_embedding : pg_embedding P H root nk fb.
  Proof.
    destruct (pg_constraints_embed P root H b cs nk CV Hcov Hall) as [Hl Hd].
    assert (Him : forall u k, In (u, k) nk -> image b nk u = Some (fb u)).
    { intros u k Hin. unfold image. rewrite (nk_get_in u k Hin). now apply fb_key. }
    split; [|split].
    - intros a oa bb ib Hin. destruct (Hl a oa bb ib Hin) as [va [vb [Ia [Ib HinH]]]].
      unfold fb. now rewrite Ia, Ib.
    - (* injective on the keyed nodes, which include the nodes of the links *)
      assert (Hinj : forall u v, In u (map fst nk) -> In v (map fst nk) -> fb u = fb v -> u = v).
      { intros u v Hu Hv E. apply in_map_iff in Hu as [[u1 ku] [Eu Hinu]]. apply in_map_iff in Hv as [[v1 kv] [Ev Hinv]].
        cbn [fst] in Eu, Ev. subst u1 v1.
        destruct (ForallOrdPairs_In Hd _ _ Hinu Hinv) as [Eq|[Df|Df]].
        - now inversion Eq.
        - exfalso. apply (Df (fb u) (fb v)); cbn [snd]; [now apply fb_key|now apply fb_key|exact E].
        - exfalso. apply (Df (fb v) (fb u)); cbn [snd]; [now apply fb_key|now apply fb_key|now symmetry]. }
      intros u v [Hu|Hu] [Hv|Hv] E; apply Hinj; auto using pnode_keyed.
    - (* the image of the root is a node of the host: the root lies on a link *)
      apply existsb_exists in Hrl as [[[[a oa] bb] ib] [Hin E]].
      destruct (Hl a oa bb ib Hin) as [va [vb [Ia [Ib HinH]]]].
      pose proof (pg_host_wfb_sound H HwH) as [W1 _]. destruct (W1 _ _ _ _ HinH) as [Hp1 Hp2].
      apply orb_true_iff in E as [E|E]; apply N.eqb_eq in E; subst.
      + unfold fb. rewrite Ia. eapply has_port_live; eauto.
      + unfold fb. rewrite Ib. eapply has_port_live; eauto.
  Qed.
End FromMatch.

Definition root_linked (P : pghost) (root : N) : bool :=
  existsb (fun l : N * N * N * N => let '(a, _, bb, _) := l in N.eqb a root || N.eqb bb root) (pg_links P).

(** whatever a sound automaton reports for a good pattern, every complete automaton
    over single-root keys that contains the pattern reports too, with the same
    values on the keys it records *)
Theorem pg_runs_agree (P : pghost) (root : N) cs nk (H : pghost)
        (A1 : automaton pgkey pgpred) (L1 : labelling) css1 i1 fuel1 ms1 b1
        (A2 : automaton pgkey pgpred) rk2 ids2 css2 pres2 i2 fuel2 ms2 :
  pg_cvec_full P root = Ok (cs, nk) -> lines_cover P root = true -> lines_sound P root = true ->
  nodes_keyed P nk = true -> keys_distinct nk = true -> pg_good_pattern P root cs nk = true ->
  root_linked P root = true -> pg_host_wfb P = true -> pg_host_wfb H = true ->
  lab_ok pg_dom (fun _ => true) pg_atoms A1 L1 css1 = true -> nth_error css1 i1 = Some cs ->
  run pg_dom fuel1 A1 H = Ok ms1 -> In (N.of_nat i1, b1) ms1 ->
  wf_check pg_dom A2 rk2 ids2 = true -> cert_complete pg_entails pg_refutes A2 css2 pres2 = true ->
  nth_error css2 i2 = Some cs -> nth_error pres2 i2 = Some true ->
  aut_single_root A2 = true -> match_keys_in nk A2 (N.of_nat i2) = true ->
  run pg_dom fuel2 A2 H = Ok ms2 ->
  exists st keys b2, In st (au_states A2) /\ In (N.of_nat i2, keys) (a_matches st) /\ In (N.of_nat i2, b2) ms2
    /\ forall k, In k keys -> pgget b2 k = pgget b1 k.
Proof.
  intros CV Hcov Hls Hkeyed Hkd Hg Hrl HwP HwH C1 Hcs1 R1 Hin1 W2 CC2 Hcs2 Hpr2 Hsr Hmk R2.
  destruct (pg_run_sound A1 L1 css1 C1 H fuel1 ms1 R1 (N.of_nat i1, b1) Hin1) as [cp [Hn Hall]].
  cbn [fst snd] in Hn, Hall. rewrite Nnat.Nat2N.id in Hn.
  assert (Ecp : Some cp = Some cs) by (transitivity (nth_error css1 i1); [symmetry; exact Hn|exact Hcs1]).
  inversion Ecp; subst cp.
  assert (Hall' : forall c, In c cs -> pgval H b1 c = true) by (intros c Hc; apply pgval_holds; auto).
  pose proof (fb_embedding P H root cs nk b1 CV Hcov Hkeyed Hkd Hg HwP HwH Hrl Hall') as He.
  destruct (pg_run_reports_embedding_single_root_sets P root cs nk H (fb nk b1) A2 rk2 ids2 css2 pres2 i2 fuel2 ms2
              CV Hls Hkd Hg HwP HwH He W2 CC2 Hcs2 Hpr2 Hsr Hmk R2) as [st [keys [b2 [Hst [Hpk [Hb2 Hk]]]]]].
  exists st, keys, b2. split; [exact Hst|]. split; [exact Hpk|]. split; [exact Hb2|].
  intros k Hk'. destruct (Hk k Hk') as [u [Hin Eb]]. rewrite Eb. symmetry.
  exact (fb_key P H root cs nk b1 Hkd Hg Hall' u k Hin).
Qed.

(** ** the automaton and the single-pattern baseline agree on good patterns (C03) *)
Lemma pg_single_holds cs h fuel r : Matchers.single pg_dom fuel cs h = Ok r ->
  forall m, In m r -> forall c, In c cs -> pgval h m c = true.
Proof.
  intros S m Hin. unfold Matchers.single, Matchers.single_ext in S.
  destruct (Matchers.requested pg_dom fuel [] cs) as [reqk| |] eqn:Rq; cbn [rbind] in S; try discriminate.
  unfold Matchers.requested, Matchers.amb in Rq. cbn [app] in Rq.
  change (keqb pg_dom) with pgkey_eqb in Rq. change (req pg_dom) with pg_req in Rq.
  destruct (SchemeProofs.all_missing_ok pgkey_eqb pg_req pgkey_eqb_eq fuel _ [] reqk pg_req_acyclic Rq) as [_ [Hinc _]].
  assert (Hcovk : forall c, In c cs -> incl (cargs c) reqk).
  { intros c Hc k Hk. apply Hinc. exists k. split; [apply in_flat_map; eauto|]. constructor. tauto. }
  destruct (SingleSound.single_loop_from_empty_sound pg_dom (fun _ _ => True) (fun _ => true) pg_lawful
              cs reqk eq_refl Hcovk h fuel r S m Hin) as [_ [Hall _]].
  intros c Hc. apply pgval_holds. auto.
Qed.

(** what the baseline reports, every complete automaton over single-root keys reports *)
Theorem pg_single_then_run (P : pghost) (root : N) cs nk (H : pghost) fuel1 r1 m1
        (A2 : automaton pgkey pgpred) rk2 ids2 css2 pres2 i2 fuel2 ms2 :
  pg_cvec_full P root = Ok (cs, nk) -> lines_cover P root = true -> lines_sound P root = true ->
  nodes_keyed P nk = true -> keys_distinct nk = true -> pg_good_pattern P root cs nk = true ->
  root_linked P root = true -> pg_host_wfb P = true -> pg_host_wfb H = true ->
  Matchers.single pg_dom fuel1 cs H = Ok r1 -> In m1 r1 ->
  wf_check pg_dom A2 rk2 ids2 = true -> cert_complete pg_entails pg_refutes A2 css2 pres2 = true ->
  nth_error css2 i2 = Some cs -> nth_error pres2 i2 = Some true ->
  aut_single_root A2 = true -> match_keys_in nk A2 (N.of_nat i2) = true ->
  run pg_dom fuel2 A2 H = Ok ms2 ->
  exists st keys b2, In st (au_states A2) /\ In (N.of_nat i2, keys) (a_matches st) /\ In (N.of_nat i2, b2) ms2
    /\ forall k, In k keys -> pgget b2 k = pgget m1 k.
Proof.
  intros CV Hcov Hls Hkeyed Hkd Hg Hrl HwP HwH S1 Hin1 W2 CC2 Hcs2 Hpr2 Hsr Hmk R2.
  pose proof (pg_single_holds cs H fuel1 r1 S1 m1 Hin1) as Hall'.
  pose proof (fb_embedding P H root cs nk m1 CV Hcov Hkeyed Hkd Hg HwP HwH Hrl Hall') as He.
  destruct (pg_run_reports_embedding_single_root_sets P root cs nk H (fb nk m1) A2 rk2 ids2 css2 pres2 i2 fuel2 ms2
              CV Hls Hkd Hg HwP HwH He W2 CC2 Hcs2 Hpr2 Hsr Hmk R2) as [st [keys [b2 [Hst [Hpk [Hb2 Hk]]]]]].
  exists st, keys, b2. split; [exact Hst|]. split; [exact Hpk|]. split; [exact Hb2|].
  intros k Hk'. destruct (Hk k Hk') as [u [Hin Eb]]. rewrite Eb. symmetry.
  exact (fb_key P H root cs nk m1 Hkd Hg Hall' u k Hin).
Qed.

(** what a sound automaton reports, the baseline reports *)
Theorem pg_run_then_single (P : pghost) (root : N) cs nk (H : pghost)
        (A1 : automaton pgkey pgpred) (L1 : labelling) css1 i1 fuel1 ms1 b1 fuel2 r2 :
  pg_cvec_full P root = Ok (cs, nk) -> lines_cover P root = true -> lines_sound P root = true ->
  nodes_keyed P nk = true -> keys_distinct nk = true -> pg_good_pattern P root cs nk = true ->
  root_linked P root = true -> pg_host_wfb P = true -> pg_host_wfb H = true ->
  lab_ok pg_dom (fun _ => true) pg_atoms A1 L1 css1 = true -> nth_error css1 i1 = Some cs ->
  run pg_dom fuel1 A1 H = Ok ms1 -> In (N.of_nat i1, b1) ms1 ->
  Matchers.single pg_dom fuel2 cs H = Ok r2 ->
  exists m2, In m2 r2 /\ forall u k, In (u, k) nk -> pgget m2 k = pgget b1 k.
Proof.
  intros CV Hcov Hls Hkeyed Hkd Hg Hrl HwP HwH C1 Hcs1 R1 Hin1 S2.
  destruct (pg_run_sound A1 L1 css1 C1 H fuel1 ms1 R1 (N.of_nat i1, b1) Hin1) as [cp [Hn Hall]].
  cbn [fst snd] in Hn, Hall. rewrite Nnat.Nat2N.id in Hn.
  assert (Ecp : Some cp = Some cs) by (transitivity (nth_error css1 i1); [symmetry; exact Hn|exact Hcs1]).
  inversion Ecp; subst cp.
  assert (Hall' : forall c, In c cs -> pgval H b1 c = true) by (intros c Hc; apply pgval_holds; auto).
  pose proof (fb_embedding P H root cs nk b1 CV Hcov Hkeyed Hkd Hg HwP HwH Hrl Hall') as He.
  destruct (pg_single_reports_embedding P root cs nk H (fb nk b1) fuel2 r2 CV Hls Hkd Hg HwP HwH He S2) as [m2 [Hm2 HQ]].
  exists m2. split; [exact Hm2|]. intros u k Hin. rewrite (HQ u k Hin). symmetry.
  exact (fb_key P H root cs nk b1 Hkd Hg Hall' u k Hin).
Qed.
