(** Port graphs: the constraint vector generated from a pattern (modelled
    line_partition / constraint_vec) is sound for embeddings: if every constraint
    is true under a binding map, then the nodes that received keys are mapped
    injectively and every link that lies on a line is a link of the host; with
    the per-pattern validation [lines_cover] this is every link of the pattern. *)
From PM Require Import Model.Prelude Model.Domain Model.Constraint Model.BindMaps Model.DomString
  Model.DomPGKeys Model.DomPG Model.DomPGPattern Cert.PGCert Cert.LabCheck Model.Automaton Model.Traversal Model.Scheme Model.Matchers Spec.TopoSpec Proofs.SchemeProofs Proofs.SingleSound Proofs.PGTreeProofs Proofs.PGLawful Proofs.PGComplete.
Local Open Scope N_scope.

Section Embed.
  Variable H : pghost.
  Variable m : pgmap.

  (** keyed nodes are bound to pairwise different host nodes *)
  Definition differ (e e' : N * pgkey) : Prop :=
    forall v v', pgget m (snd e) = Some v -> pgget m (snd e') = Some v' -> v <> v'.
  Definition Dist (nk : list (N * pgkey)) : Prop := ForallOrdPairs differ nk.

  Lemma Dist_snoc nk x : Dist nk -> (forall e, In e nk -> differ e x) -> Dist (nk ++ [x]).
  Proof.
    induction 1 as [|e l Hall Hfop IH]; intros Hx; cbn [app].
    - constructor; [constructor|constructor].
    - constructor.
      + apply Forall_app. split; [exact Hall|]. constructor; [apply Hx; now left|constructor].
      + apply IH. intros e' He'. apply Hx. now right.
  Qed.

  Lemma nk_get_app nk x u k : nk_get nk u = Some k -> nk_get (nk ++ [x]) u = Some k.
  Proof.
    induction nk as [|[n' k'] r IH]; cbn; [discriminate|]. destruct (N.eqb u n'); auto.
  Qed.

  Lemma nk_get_fresh nk u key : nk_get nk u = None -> nk_get (nk ++ [(u, key)]) u = Some key.
  Proof.
    induction nk as [|[n' k'] r IH]; cbn; [now rewrite N.eqb_refl|]. destruct (N.eqb u n'); [discriminate|auto].
  Qed.

  (** a link of the host between two ports, whichever end it is read from *)
  Definition host_link (l r : pport) : Prop :=
    match snd l, snd r with
    | POut o, PIn i => In (fst l, o, fst r, i) (pg_links H)
    | PIn i, POut o => In (fst r, o, fst l, i) (pg_links H)
    | _, _ => False
    end.

  Lemma has_edge_host_link l lp r rp : has_edge H l lp r rp = true -> host_link (l, lp) (r, rp).
  Proof.
    unfold has_edge, host_link. intros He. apply andb_true_iff in He as [_ He]. cbn [fst snd].
    destruct lp as [k|k]; cbn [port_link] in He.
    - destruct (find _ (pg_links H)) as [[[[a oa] b] ib]|] eqn:F; [|discriminate].
      apply find_some in F as [Hin Hf]. apply andb_true_iff in Hf as [E1 E2]. apply N.eqb_eq in E1, E2. subst.
      apply andb_true_iff in He as [E3 E4]. apply N.eqb_eq in E3. subst.
      destruct rp as [k'|k']; [unfold pgport_eqb in E4; cbn in E4; discriminate|].
      unfold pgport_eqb in E4. cbn in E4. destruct (N.compare_spec oa k'); try discriminate. subst. exact Hin.
    - destruct (find _ (pg_links H)) as [[[[a oa] b] ib]|] eqn:F; [|discriminate].
      apply find_some in F as [Hin Hf]. apply andb_true_iff in Hf as [E1 E2]. apply N.eqb_eq in E1, E2. subst.
      apply andb_true_iff in He as [E3 E4]. apply N.eqb_eq in E3. subst.
      destruct rp as [k'|k']; [|unfold pgport_eqb in E4; cbn in E4; discriminate].
      unfold pgport_eqb in E4. cbn in E4. destruct (N.compare_spec ib k'); try discriminate. subst. exact Hin.
  Qed.

  (** the link (lp, rp) of the pattern is realised in the host under the keys of [nk] *)
  Definition link_ok (nk : list (N * pgkey)) (l : plink) : Prop :=
    exists lk rk va vb, nk_get nk (fst (fst l)) = Some lk /\ nk_get nk (fst (snd l)) = Some rk
      /\ pgget m lk = Some va /\ pgget m rk = Some vb
      /\ host_link (va, snd (fst l)) (vb, snd (snd l)).

  Lemma link_ok_app nk x l : link_ok nk l -> link_ok (nk ++ [x]) l.
  Proof.
    intros [lk [rk [va [vb [H1 [H2 H3]]]]]]. exists lk, rk, va, vb. split; [now apply nk_get_app|]. split; [now apply nk_get_app|auto].
  Qed.

  Lemma pgval_conn lp rp lk rk :
    pgval H m (mk (IsConnected lp rp) [lk; rk]) = true ->
    exists va vb, pgget m lk = Some va /\ pgget m rk = Some vb /\ has_edge H va lp vb rp = true.
  Proof.
    unfold pgval. cbn [cargs cpred mk resolve_args]. change (mget pg_dom m) with (pgget m).
    destruct (pgget m lk) as [va|]; [|discriminate]. destruct (pgget m rk) as [vb|]; [|discriminate].
    cbn [pg_check]. destruct (has_edge H va lp vb rp) eqn:E; [|discriminate]. eauto.
  Qed.

  Lemma pgval_ne_fresh n key others :
    pgval H m (mk (IsNotEqual n) (key :: others)) = true ->
    exists v, pgget m key = Some v /\ forall k v', In k others -> pgget m k = Some v' -> v <> v'.
  Proof.
    unfold pgval. cbn [cargs cpred mk]. destruct (resolve_args pg_dom m (key :: others)) as [e|vs] eqn:R; [discriminate|].
    apply resolve_cons_inr in R as [v [ws [Ev [Rw ->]]]]. cbn [pg_check]. intros Hc.
    destruct (nmem v ws) eqn:Em; [discriminate|]. exists v. split; auto.
    intros k v' Hk Hv' ->. clear Hc.
    assert (In v' ws).
    { clear Em. revert ws Rw. induction others as [|x l IH]; intros ws Rw; [destruct Hk|].
      apply resolve_cons_inr in Rw as [w [ws' [Ew [Rw' ->]]]]. destruct Hk as [->|Hk].
      - rewrite Hv' in Ew. inversion Ew; subst. now left.
      - right. eauto. }
    apply (memb_in N.eqb N.eqb_eq) in H0. unfold nmem in Em. congruence.
  Qed.

  Lemma line_constraints_ok line : forall i ri ro nk cs nk',
    line_constraints line i ri ro nk = Ok (cs, nk') ->
    (forall c, In c cs -> pgval H m c = true) -> Dist nk ->
    Dist nk' /\ (forall u k, nk_get nk u = Some k -> nk_get nk' u = Some k)
    /\ (forall l, In l line -> link_ok nk' l).
  Proof.
    induction line as [|[lport rport] rest IH]; intros i ri ro nk cs nk' LC Hall HD; cbn [line_constraints] in LC.
    - inversion LC; subst. split; auto. split; auto. intros l [].
    - destruct (nk_get nk (fst lport)) as [left_key|] eqn:Gl; [|discriminate].
      destruct (nk_get nk (fst rport)) as [rk0|] eqn:Gr.
      + (* the right node already has a key *)
        destruct (line_constraints rest (i + 1) ri ro nk) as [[cs1 nk1]| |] eqn:R1; cbn [rbind] in LC; try discriminate.
        inversion LC; subst. cbn [app fst snd] in Hall.
        destruct (IH _ _ _ _ _ _ R1 (fun c Hc => Hall c (or_intror Hc)) HD) as [D1 [S1 L1]].
        split; auto. split; auto. intros l [<-|Hl]; [|auto].
        destruct (pgval_conn _ _ _ _ (Hall _ (or_introl eq_refl))) as [va [vb [Ea [Eb He]]]].
        exists left_key, rk0, va, vb. cbn [fst snd]. split; [auto|]. split; [auto|]. split; auto. split; auto.
        apply (has_edge_host_link va (snd lport) vb (snd rport) He).
      + (* a new key *)
        set (key := AlongPath ri ro (i + 1)) in LC.
        destruct (line_constraints rest (i + 1) ri ro (nk ++ [(fst rport, key)])) as [[cs1 nk1]| |] eqn:R1; cbn [rbind] in LC; try discriminate.
        inversion LC; subst. cbn [app fst snd] in Hall.
        assert (Hne : pgval H m (mk (IsNotEqual (N.of_nat (length nk))) (key :: map snd nk)) = true) by (apply Hall; now left).
        destruct (pgval_ne_fresh _ _ _ Hne) as [v [Ev Hv]].
        assert (HD' : Dist (nk ++ [(fst rport, key)])).
        { apply Dist_snoc; auto. intros e He v1 v2 H1 H2. cbn [snd] in H2. rewrite Ev in H2. inversion H2; subst v2.
          intros ->. apply (Hv (snd e) v); auto. apply in_map. exact He. }
        destruct (IH _ _ _ _ _ _ R1 (fun c Hc => Hall c (or_intror (or_intror Hc))) HD') as [D1 [S1 L1]].
        split; auto. split; [intros u k Hk; apply S1; now apply nk_get_app|].
        intros l [<-|Hl]; [|auto].
        destruct (pgval_conn _ _ _ _ (Hall _ (or_intror (or_introl eq_refl)))) as [va [vb [Ea [Eb He]]]].
        exists left_key, key, va, vb. cbn [fst snd]. split; [apply S1; now apply nk_get_app|].
        split; [apply S1; now apply nk_get_fresh|]. split; auto. split; auto.
        apply (has_edge_host_link va (snd lport) vb (snd rport) He).
  Qed.

  Lemma lines_constraints_ok lines : forall nk nr cs nk',
    lines_constraints lines nk nr = Ok (cs, nk') ->
    (forall c, In c cs -> pgval H m c = true) -> Dist nk ->
    Dist nk' /\ (forall u k, nk_get nk u = Some k -> nk_get nk' u = Some k)
    /\ (forall l, In l (concat lines) -> link_ok nk' l).
  Proof.
    induction lines as [|line rest IH]; intros nk nr cs nk' LC Hall HD; cbn [lines_constraints] in LC.
    - inversion LC; subst. split; auto. split; auto. intros l [].
    - destruct line as [|first line'].
      + cbn [concat app]. eapply IH; eauto.
      + destruct (match ni_get nr (fst (fst first)) with
                  | Some i => (i, nr)
                  | None => (N.of_nat (length nr), nr ++ [(fst (fst first), N.of_nat (length nr))])
                  end) as [ri nr'] eqn:Er.
        destruct (line_constraints (first :: line') 0 ri (snd (fst first)) nk) as [[cs1 nk1]| |] eqn:R1; cbn [rbind] in LC; try discriminate.
        cbn [snd] in LC.
        destruct (lines_constraints rest nk1 nr') as [[cs2 nk2]| |] eqn:R2; cbn [rbind] in LC; try discriminate.
        cbn [fst snd] in LC. inversion LC; subst.
        destruct (line_constraints_ok _ _ _ _ _ _ _ R1 (fun c Hc => Hall c (in_or_app _ _ _ (or_introl Hc))) HD) as [D1 [S1 L1]].
        destruct (IH _ _ _ _ R2 (fun c Hc => Hall c (in_or_app _ _ _ (or_intror Hc))) D1) as [D2 [S2 L2]].
        split; auto. split; [intros u k Hk; apply S2; now apply S1|].
        cbn [concat]. intros l Hl. apply in_app_or in Hl as [Hl|Hl]; [|auto].
        destruct (L1 l Hl) as [lk [rk [va [vb [H1 [H2 H3]]]]]]. exists lk, rk, va, vb. split; [now apply S2|]. split; [now apply S2|auto].
  Qed.
End Embed.

(** the host node a pattern node is mapped to *)
Definition image (m : pgmap) (nk : list (N * pgkey)) (u : N) : option N :=
  match nk_get nk u with Some k => pgget m k | None => None end.

Theorem pg_constraints_embed (P : pghost) (root : N) (H : pghost) (m : pgmap) cs nk :
  pg_cvec_full P root = Ok (cs, nk) -> lines_cover P root = true ->
  (forall c, In c cs -> pgval H m c = true) ->
  (* every link of the pattern is a link of the host between the images *)
  (forall a oa b ib, In (a, oa, b, ib) (pg_links P) ->
     exists va vb, image m nk a = Some va /\ image m nk b = Some vb /\ In (va, oa, vb, ib) (pg_links H))
  (* and distinct keyed nodes have distinct images *)
  /\ Dist m nk.
Proof.
  unfold pg_cvec_full. intros CV Hcov Hall.
  destruct (pg_links P) as [|l0 ls] eqn:El.
  - inversion CV; subst. split; [intros a oa b ib []|]. constructor; [constructor|constructor].
  - destruct (lines_constraints (line_partition P root) [(root, PathRoot 0)] [(root, 0)]) as [[cs0 nk0]| |] eqn:LC; cbn [rbind] in CV; try discriminate.
    assert (HD0 : Dist m [(root, PathRoot 0)]) by (constructor; [constructor|constructor]).
    assert (Hcs : cs0 = [] \/ cs = cs0) by (cbn [fst] in CV; destruct cs0; [now left|right; inversion CV; reflexivity]).
    assert (Enk : nk = nk0) by (cbn [fst snd] in CV; destruct cs0; inversion CV; reflexivity). subst nk.
    assert (Hall0 : forall c, In c cs0 -> pgval H m c = true).
    { destruct Hcs as [->| <-]; [intros c []|exact Hall]. }
    destruct (lines_constraints_ok H m _ _ _ _ _ LC Hall0 HD0) as [D [_ LK]]. split; [|exact D].
    intros a oa b ib Hin. unfold lines_cover in Hcov. rewrite El in Hcov. rewrite forallb_forall in Hcov.
    rewrite <- El in Hin. rewrite El in Hin. specialize (Hcov _ Hin).
    apply existsb_exists in Hcov as [l [Hl Hsame]].
    destruct (LK l Hl) as [lk [rk [va [vb [G1 [G2 [E1 [E2 HL]]]]]]]].
    unfold plink_same, link_as_plink in Hsame. destruct l as [[ln lp] [rn rp]]. cbn [fst snd] in *.
    unfold pport_eqb in Hsame. cbn [fst snd] in Hsame.
    apply orb_true_iff in Hsame as [Hs|Hs]; apply andb_true_iff in Hs as [Hs1 Hs2];
      apply andb_true_iff in Hs1 as [A1 A2]; apply andb_true_iff in Hs2 as [B1 B2];
      apply N.eqb_eq in A1, B1; unfold pgport_eqb in A2, B2;
      destruct (pgport_cmp (POut oa) _) eqn:C1 in A2; try discriminate;
      destruct (pgport_cmp (PIn ib) _) eqn:C2 in B2; try discriminate;
      apply pgport_cmp_eq in C1, C2; subst.
    + exists va, vb. unfold image. rewrite G1, G2. repeat split; auto; try exact HL.
    + exists vb, va. unfold image. rewrite G1, G2. repeat split; auto; try exact HL.
Qed.

(** every match reported on a labelled automaton is an embedding of its pattern:
    links of the pattern go to links of the host, keyed pattern nodes to pairwise
    different host nodes *)
Theorem pg_run_embeds (A : automaton pgkey pgpred) (L : LabCheck.labelling)
        (pats : list (pghost * N)) (full : list (list pgconstraint * list (N * pgkey))) :
  Forall2 (fun pr f => pg_cvec_full (fst pr) (snd pr) = Ok f /\ lines_cover (fst pr) (snd pr) = true) pats full ->
  LabCheck.lab_ok pg_dom (fun _ => true) pg_atoms A L (map fst full) = true ->
  forall (h : pghost) (fuel : nat) (ms : list (N * pgmap)),
    Traversal.run pg_dom fuel A h = Ok ms ->
    forall pid m, In (pid, m) ms ->
      exists P root cs nk, nth_error pats (N.to_nat pid) = Some (P, root) /\ nth_error full (N.to_nat pid) = Some (cs, nk)
        /\ (forall a oa b ib, In (a, oa, b, ib) (pg_links P) ->
              exists va vb, image m nk a = Some va /\ image m nk b = Some vb /\ In (va, oa, vb, ib) (pg_links h))
        /\ Dist m nk.
Proof.
  intros HF C h fuel ms R pid m Hin.
  destruct (pg_run_sound A L (map fst full) C h fuel ms R (pid, m) Hin) as [cp [Hn Hall]]. cbn [fst snd] in Hn, Hall.
  rewrite nth_error_map in Hn. destruct (nth_error full (N.to_nat pid)) as [[cs nk]|] eqn:Ef; [|discriminate].
  cbn in Hn. inversion Hn; subst cp.
  assert (Hp : exists P root, nth_error pats (N.to_nat pid) = Some (P, root)
                 /\ pg_cvec_full P root = Ok (cs, nk) /\ lines_cover P root = true).
  { clear - HF Ef. revert Ef. generalize (N.to_nat pid) as n. induction HF as [|[P root] f ps fs [H1 H2] HF IH]; intros n Ef; [destruct n; discriminate|].
    destruct n as [|n]; cbn in *; [inversion Ef; subst; eauto|eauto]. }
  destruct Hp as [P [root [Hp [CV Hcov]]]].
  exists P, root, cs, nk. split; auto. split; auto.
  apply (pg_constraints_embed P root h m cs nk CV Hcov). intros c Hc. apply pgval_holds. auto.
Qed.

(** ** the single-pattern matcher on port graphs reports embeddings only *)
Lemma pg_req_acyclic : TopoSpec.acyclic pg_req.
Proof.
  exists (fun k => match k with PathRoot i => N.to_nat i | AlongPath r _ _ => S (N.to_nat r) end).
  intros k r. destruct k as [i|r0 p l]; cbn [pg_req].
  - destruct (N.eqb_spec i 0); [intros []|]. intros [<-|[]]. lia.
  - intros [<-|[]]. lia.
Qed.

Theorem pg_single_embeds (P : pghost) (root : N) cs nk h fuel r :
  pg_cvec_full P root = Ok (cs, nk) -> lines_cover P root = true ->
  Matchers.single pg_dom fuel cs h = Ok r ->
  forall m, In m r ->
    (forall a oa b ib, In (a, oa, b, ib) (pg_links P) ->
       exists va vb, image m nk a = Some va /\ image m nk b = Some vb /\ In (va, oa, vb, ib) (pg_links h))
    /\ Dist m nk.
Proof.
  intros CV Hcov S m Hin. unfold Matchers.single, Matchers.single_ext in S.
  destruct (Matchers.requested pg_dom fuel [] cs) as [reqk| |] eqn:Rq; cbn [rbind] in S; try discriminate.
  unfold Matchers.requested, Matchers.amb in Rq. cbn [app] in Rq.
  change (keqb pg_dom) with pgkey_eqb in Rq. change (req pg_dom) with pg_req in Rq.
  destruct (SchemeProofs.all_missing_ok pgkey_eqb pg_req pgkey_eqb_eq fuel _ [] reqk pg_req_acyclic Rq) as [_ [Hinc _]].
  assert (Hcovk : forall c, In c cs -> incl (cargs c) reqk).
  { intros c Hc k Hk. apply Hinc. exists k. split; [apply in_flat_map; eauto|]. constructor. tauto. }
  destruct (SingleSound.single_loop_from_empty_sound pg_dom (fun _ _ => True) (fun _ => true) pg_lawful
              cs reqk eq_refl Hcovk h fuel r S m Hin) as [_ [Hall _]].
  apply (pg_constraints_embed P root h m cs nk CV Hcov). intros c Hc. apply pgval_holds. auto.
Qed.
