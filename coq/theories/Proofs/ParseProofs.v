(** Parsing and printing patterns are inverse to each other (Model/Parse.v). *)
From PM Require Import Model.Prelude Model.DomString Model.DomMatrix Model.Parse.
Local Open Scope N_scope.

(** ** strings *)
Definition s_printable (p : spattern) : Prop := forall c, In (Lit c) p -> c <> c_dollar.

Theorem s_parse_print p : s_printable p -> s_parse (s_print p) = Ok p.
Proof.
  induction p as [|cv p IH]; intros Hp; [reflexivity|].
  assert (Hp' : s_printable p) by (intros c Hc; apply Hp; now right).
  destruct cv as [c|v]; cbn [s_print flat_map s_print_cv app s_parse].
  - destruct (N.eqb_spec c c_dollar) as [E|_]; [exfalso; exact (Hp c (or_introl eq_refl) E)|].
    fold (s_print p). rewrite (IH Hp'). reflexivity.
  - rewrite N.eqb_refl. fold (s_print p). rewrite (IH Hp'). reflexivity.
Qed.

(** what was parsed prints back to the text: parsing loses nothing *)
Theorem s_print_parse : forall n l p, (length l <= n)%nat -> s_parse l = Ok p -> s_print p = l.
Proof.
  induction n as [|n IH]; intros l p Hn E.
  - destruct l; [|cbn in Hn; lia]. cbn in E. inversion E. reflexivity.
  - destruct l as [|c l']; [cbn in E; inversion E; reflexivity|]. cbn [s_parse] in E.
    destruct (N.eqb_spec c c_dollar) as [->|_].
    + destruct l' as [|v l'']; [discriminate|].
      destruct (s_parse l'') as [r| |] eqn:R; cbn [rbind] in E; try discriminate. inversion E; subst.
      cbn [s_print flat_map s_print_cv app]. fold (s_print r). rewrite (IH l'' r); [reflexivity| |exact R].
      cbn [length] in Hn. lia.
    + destruct (s_parse l') as [r| |] eqn:R; cbn [rbind] in E; try discriminate. inversion E; subst.
      cbn [s_print flat_map s_print_cv app]. fold (s_print r). rewrite (IH l' r); [reflexivity| |exact R].
      cbn [length] in Hn. lia.
Qed.

(** the only failure is a '$' with nothing after it *)
Theorem s_parse_total : forall n l, (length l <= n)%nat ->
  (exists p, s_parse l = Ok p) \/ (exists l0, l = l0 ++ [c_dollar]).
Proof.
  induction n as [|n IH]; intros l Hn.
  - destruct l; [left; exists []; reflexivity|cbn in Hn; lia].
  - destruct l as [|c l']; [left; exists []; reflexivity|]. cbn [s_parse].
    destruct (N.eqb_spec c c_dollar) as [->|_].
    + destruct l' as [|v l'']; [right; exists []; reflexivity|].
      destruct (IH l'') as [[p Ep]|[l0 ->]]; [cbn [length] in Hn; lia| |].
      * left. rewrite Ep. eexists; reflexivity.
      * right. exists (c_dollar :: v :: l0). reflexivity.
    + destruct (IH l') as [[p Ep]|[l0 ->]]; [cbn [length] in Hn; lia| |].
      * left. rewrite Ep. eexists; reflexivity.
      * right. exists (c :: l0). reflexivity.
Qed.

(** ** matrices *)
Definition cv_printable (cv : charvar) : Prop :=
  match cv with
  | Lit c => c <> c_dollar /\ c <> c_dash /\ is_whitespace c = false
  | Var v => is_whitespace v = false
  end.
Definition m_printable (p : mpattern) : Prop :=
  forall row cv, In row p -> In (Some cv) row -> cv_printable cv.

Lemma lines_from_app_nl row rest : forall cur,
  (forall c, In c row -> c <> c_nl) ->
  lines_from (row ++ c_nl :: rest) cur = (rev cur ++ row) :: lines_from rest [].
Proof.
  induction row as [|c row IH]; intros cur Hr; cbn [app lines_from].
  - rewrite N.eqb_refl, app_nil_r. reflexivity.
  - destruct (N.eqb_spec c c_nl) as [E|_]; [exfalso; exact (Hr c (or_introl eq_refl) E)|].
    rewrite IH by (intros x Hx; apply Hr; now right). cbn [rev]. rewrite <- app_assoc. reflexivity.
Qed.

Lemma ws_nl : is_whitespace c_nl = true. Proof. reflexivity. Qed.
Lemma ws_dollar : is_whitespace c_dollar = false. Proof. reflexivity. Qed.
Lemma ws_dash : is_whitespace c_dash = false. Proof. reflexivity. Qed.

Lemma cells_no_ws (row : list (option charvar)) :
  (forall cv, In (Some cv) row -> cv_printable cv) ->
  forall c, In c (flat_map m_print_cell row) -> is_whitespace c = false.
Proof.
  intros Hp c Hc. apply in_flat_map in Hc as [cell [Hcell Hin]].
  destruct cell as [[l|v]|]; cbn in Hin.
  - destruct Hin as [<-|[]]. apply (Hp (Lit l) Hcell).
  - destruct Hin as [<-|[<-|[]]]; [exact ws_dollar|apply (Hp (Var v) Hcell)].
  - destruct Hin as [<-|[]]. exact ws_dash.
Qed.

Lemma filter_all {X} (f : X -> bool) l : (forall x, In x l -> f x = true) -> filter f l = l.
Proof.
  induction l as [|x l IH]; intros H; [reflexivity|]. cbn [filter]. rewrite (H x (or_introl eq_refl)).
  f_equal. apply IH. intros y Hy. apply H. now right.
Qed.

Lemma m_parse_cells_print (row : list (option charvar)) :
  (forall cv, In (Some cv) row -> cv_printable cv) ->
  m_parse_cells (flat_map m_print_cell row) = Ok row.
Proof.
  induction row as [|cell row IH]; intros Hp; [reflexivity|].
  assert (Hp' : forall cv, In (Some cv) row -> cv_printable cv) by (intros cv Hc; apply Hp; now right).
  destruct cell as [[c|v]|]; cbn [flat_map m_print_cell s_print_cv app m_parse_cells].
  - destruct (Hp (Lit c) (or_introl eq_refl)) as [H1 [H2 _]].
    destruct (N.eqb_spec c c_dollar); [contradiction|]. destruct (N.eqb_spec c c_dash); [contradiction|].
    rewrite (IH Hp'). reflexivity.
  - rewrite N.eqb_refl. rewrite (IH Hp'). reflexivity.
  - change (N.eqb c_dash c_dollar) with false. cbn match. rewrite N.eqb_refl. rewrite (IH Hp'). reflexivity.
Qed.

Theorem m_parse_print p : m_printable p -> m_parse (m_print p) = Ok p.
Proof.
  unfold m_parse, lines. induction p as [|row p IH]; intros Hp; [reflexivity|].
  assert (Hrow : forall cv, In (Some cv) row -> cv_printable cv) by (intros cv Hc; exact (Hp row cv (or_introl eq_refl) Hc)).
  assert (Hp' : m_printable p) by (intros r cv Hr Hc; exact (Hp r cv (or_intror Hr) Hc)).
  cbn [m_print flat_map]. unfold m_print_row at 1. rewrite <- app_assoc. cbn [app].
  fold (m_print p).
  rewrite lines_from_app_nl.
  2:{ intros c Hc E. pose proof (cells_no_ws row Hrow c Hc) as W. rewrite E, ws_nl in W. discriminate. }
  cbn [rev app rmapM]. unfold m_parse_row at 1.
  rewrite filter_all.
  2:{ intros c Hc. rewrite (cells_no_ws row Hrow c Hc). reflexivity. }
  rewrite (m_parse_cells_print row Hrow). cbn [rbind]. rewrite (IH Hp'). reflexivity.
Qed.

(** a row fails to parse only when, blanks removed, it ends in a '$'; a matrix pattern only when
    one of its lines does *)
Lemma m_parse_cells_total : forall n l, (length l <= n)%nat ->
  (exists r, m_parse_cells l = Ok r) \/ (exists l0, l = l0 ++ [c_dollar]).
Proof.
  induction n as [|n IH]; intros l Hn.
  - destruct l; [left; exists []; reflexivity|cbn in Hn; lia].
  - destruct l as [|c l']; [left; exists []; reflexivity|]. cbn [m_parse_cells].
    destruct (N.eqb_spec c c_dollar) as [->|_].
    + destruct l' as [|v l'']; [right; exists []; reflexivity|].
      destruct (IH l'') as [[r Er]|[l0 ->]]; [cbn [length] in Hn; lia| |].
      * left. rewrite Er. eexists; reflexivity.
      * right. exists (c_dollar :: v :: l0). reflexivity.
    + destruct (IH l') as [[r Er]|[l0 ->]]; [cbn [length] in Hn; lia| |].
      * left. destruct (N.eqb c c_dash); rewrite Er; eexists; reflexivity.
      * right. exists (c :: l0). reflexivity.
Qed.

Theorem m_parse_total l :
  (exists p, m_parse l = Ok p)
  \/ (exists row l0, In row (lines l) /\ filter (fun c => negb (is_whitespace c)) row = l0 ++ [c_dollar]).
Proof.
  unfold m_parse. induction (lines l) as [|row rows IH]; [left; exists []; reflexivity|].
  cbn [rmapM]. unfold m_parse_row at 1.
  destruct (m_parse_cells_total (length (filter (fun c => negb (is_whitespace c)) row)) _ (le_n _)) as [[r Er]|[l0 E0]].
  - rewrite Er. cbn [rbind]. destruct IH as [[p Ep]|[row' [l0 [Hin E0]]]].
    + left. rewrite Ep. eexists; reflexivity.
    + right. exists row', l0. split; [now right|exact E0].
  - right. exists row, l0. split; [now left|exact E0].
Qed.

Example parse_examples :
  s_parse [97; 36; 120; 98] = Ok [Lit 97; Var 120; Lit 98]
  /\ s_parse [97; 36] = Panic (SiteOther 50)
  /\ m_parse [32; 97; 32; 36; 98; 32; 99; 10; 32; 36; 98; 32; 45; 32; 100]
     = Ok [[Some (Lit 97); Some (Var 98); Some (Lit 99)]; [Some (Var 98); None; Some (Lit 100)]]
  /\ m_parse [97; 10; 10; 98; 10] = Ok [[Some (Lit 97)]; []; [Some (Lit 98)]]
  /\ m_parse [] = Ok [] /\ m_parse [10] = Ok [[]].
Proof. vm_compute. repeat split; reflexivity. Qed.
