(** Strings: the constraints generated for a pattern are true at anchor [a]
    exactly when the pattern occurs at character position [a] (C01/C02/C05). *)
From PM Require Import Model.Prelude Model.Domain Model.Constraint Model.DomString Model.DomMatrix
  Spec.Occ Proofs.OccProofs Proofs.CellsProofs Proofs.RunSound.
Local Open Scope N_scope.

Lemma var_lookup_glookup env x : var_lookup env x = glookup env x.
Proof. induction env as [|[y p] env IH]; cbn; [reflexivity|]. now rewrite IH. Qed.

Lemma s_cvec_loop_gloop p : forall i env,
  s_cvec_loop p i env = fst (gloop (s_cells p i) env).
Proof.
  induction p as [|[l|x] p IH]; intros i env; cbn; auto.
  - rewrite IH. destruct (gloop (s_cells p (i + 1)) env); reflexivity.
  - rewrite var_lookup_glookup. destruct (glookup env x) as [f|].
    + rewrite IH. destruct (gloop (s_cells p (i + 1)) env); reflexivity.
    + apply IH.
Qed.

Lemma s_cells_keys p : forall i k cv, In (k, cv) (s_cells p i) -> i <= k < i + N.of_nat (length p).
Proof.
  induction p as [|c p IH]; intros i k cv Hin; cbn in Hin; [destruct Hin|].
  destruct Hin as [E|Hin].
  - inversion E; subst. cbn [length]. lia.
  - apply IH in Hin. cbn [length]. lia.
Qed.

Lemma s_cells_has p : forall i j cv, nth_error p j = Some cv -> In (i + N.of_nat j, cv) (s_cells p i).
Proof.
  induction p as [|c p IH]; intros i j cv Hn; destruct j; cbn in *; try discriminate.
  - inversion Hn; subst. left. f_equal. lia.
  - right. replace (i + N.pos (Pos.of_succ_nat j)) with ((i + 1) + N.of_nat j) by lia. apply IH. exact Hn.
Qed.

Lemma s_char_exists h a k : s_char_of h a k <> None <-> (N.to_nat (a + k) < length h)%nat.
Proof.
  unfold s_char_of, char_at. rewrite <- nth_error_Some. tauto.
Qed.

Lemma s_char_downward h a k k' : k' <= k -> s_char_of h a k <> None -> s_char_of h a k' <> None.
Proof. rewrite !s_char_exists. lia. Qed.

Definition s_maxk (p : spattern) : N := N.of_nat (length p) - 1.

Lemma s_cvec_unfold p : p <> [] ->
  s_cvec p =
  let cs := fst (gloop (s_cells p 0) []) in
  if existsb (fun c => memb N.eqb (s_maxk p) (cargs c)) cs then cs
  else cs ++ [{| cpred := CBindingEq; cargs := [s_maxk p; s_maxk p] |}].
Proof.
  intros Hne. unfold s_cvec. rewrite s_cvec_loop_gloop. destruct p; [contradiction|reflexivity].
Qed.

(** constraints true at anchor a  <->  the pattern occurs at a *)
Theorem s_cvec_occ p h a : p <> [] ->
  (forallb (cvalb (s_char_of h a)) (s_cvec p) = true <-> occ_stringb p h a = true).
Proof.
  intros Hne. rewrite (s_cvec_unfold p Hne). cbn zeta.
  destruct (gloop (s_cells p 0) []) as [cs env'] eqn:G. cbn [fst].
  assert (HR : R (s_char_of h a) [] []) by (intros x; cbn; exact I).
  pose proof (gloop_equiv (s_char_of h a) (s_cells p 0) [] [] cs env' HR G) as EQ.
  unfold occ_stringb, occursb.
  assert (Hlen : (0 < length p)%nat) by (destruct p; [contradiction|cbn; lia]).
  split.
  - intros Hall.
    assert (Hcs : forallb (cvalb (s_char_of h a)) cs = true
                  /\ s_char_of h a (s_maxk p) <> None).
    { destruct (existsb (fun c => memb N.eqb (s_maxk p) (cargs c)) cs) eqn:Ex.
      - split; auto. apply existsb_exists in Ex as [c [Hc Hm]].
        apply (memb_in N.eqb N.eqb_eq) in Hm.
        rewrite forallb_forall in Hall. eapply cvalb_args_exist; eauto.
      - rewrite forallb_app in Hall. apply andb_true_iff in Hall as [H1 H2]. split; auto.
        cbn [forallb] in H2. apply andb_true_iff in H2 as [H2 _].
        eapply (cvalb_args_exist _ _ (s_maxk p) H2). cbn. auto. }
    destruct Hcs as [Hcs Hmax].
    assert (Hn : news_exist (s_char_of h a) [] env').
    { intros x k0 L1 _. pose proof (gloop_env_keys _ _ _ _ _ _ G L1 eq_refl) as Hin.
      apply s_cells_keys in Hin. eapply s_char_downward; [|exact Hmax]. unfold s_maxk. lia. }
    destruct (proj2 EQ (conj Hcs Hn)) as [cenv' ->]. reflexivity.
  - destruct (occ_env (s_char_of h a) (s_cells p 0) []) as [cenv'|] eqn:Ho; [|discriminate].
    intros _. destruct (proj1 EQ (ex_intro _ cenv' eq_refl)) as [Hcs _].
    destruct (existsb (fun c => memb N.eqb (s_maxk p) (cargs c)) cs); auto.
    rewrite forallb_app, Hcs. cbn. rewrite andb_true_r.
    (* the last cell lies on an existing character *)
    destruct (occ_env_sound _ _ _ _ Ho) as [_ Hall].
    destruct (nth_error p (length p - 1)) as [cv|] eqn:Nth;
      [|apply nth_error_None in Nth; lia].
    pose proof (s_cells_has p 0 _ _ Nth) as Hin.
    specialize (Hall (fun x => match var_lookup cenv' x with Some c => c | None => 0 end)).
    assert (Ag : agrees (fun x => match var_lookup cenv' x with Some c => c | None => 0 end) cenv').
    { intros x c Hx. cbn. now rewrite Hx. }
    destruct (Hall Ag _ Hin) as [ch [Ck _]]. cbn in Ck.
    replace (N.of_nat (length p - 1)) with (s_maxk p) in Ck by (unfold s_maxk; lia).
    unfold cvalb. cbn. rewrite Ck. apply N.eqb_refl.
Qed.

(** ** link with the engine's notion of satisfaction *)
Lemma s_resolve_bound a len args vs :
  resolve_args string_dom (SBound a len) args = inr vs -> vs = map (fun k => a + k) args.
Proof.
  revert vs. induction args as [|k ks IH]; intros vs Rv; cbn in Rv.
  - inversion Rv. reflexivity.
  - destruct (k <? len); [|discriminate].
    destruct (resolve_args string_dom (SBound a len) ks) as [k'|vs'] eqn:R'; [discriminate|].
    inversion Rv; subst. cbn. f_equal. apply IH. reflexivity.
Qed.

Lemma s_holds_cvalb h c a len :
  holds string_dom h c (SBound a len) -> cvalb (s_char_of h a) c = true.
Proof.
  intros [vs [Rv Ck]]. apply s_resolve_bound in Rv. subst vs.
  destruct c as [[|l] args]; cbn in *.
  - destruct args as [|k1 [|k2 [|k3 r]]]; cbn in Ck; try discriminate.
    unfold cvalb; cbn. unfold s_char_of.
    destruct (char_at h (a + k1)), (char_at h (a + k2)); inversion Ck; auto.
  - destruct args as [|k1 [|k2 r]]; cbn in Ck; try discriminate.
    unfold cvalb; cbn. unfold s_char_of.
    destruct (char_at h (a + k1)); inversion Ck; auto.
Qed.

Lemma s_holds_unbound h c : cargs c <> [] -> ~ holds string_dom h c SUnbound.
Proof.
  intros Hne [vs [Rv _]]. destruct (cargs c); [contradiction|]. cbn in Rv. discriminate.
Qed.

Lemma s_cvec_nonempty_args p c : In c (s_cvec p) -> cargs c <> [].
Proof.
  unfold s_cvec. rewrite s_cvec_loop_gloop.
  assert (G : forall cells env c, In c (fst (@gloop N cells env)) -> cargs c <> []).
  { induction cells as [|[k [l|x]] r IH]; intros env c0 Hin; cbn in Hin.
    - destruct Hin.
    - destruct (gloop r env) as [cs0 e0] eqn:G0. cbn in Hin. destruct Hin as [<-|Hin]; [discriminate|].
      apply (IH env). now rewrite G0.
    - destruct (glookup env x).
      + destruct (gloop r env) as [cs0 e0] eqn:G0. cbn in Hin. destruct Hin as [<-|Hin]; [discriminate|].
        apply (IH env). now rewrite G0.
      + eapply IH; eauto. }
  destruct p as [|cv p']; [intros []|].
  destruct (existsb _ _).
  - apply G.
  - intros Hin. apply in_app_or in Hin as [Hin|[<-|[]]]; [eapply G; eauto|discriminate].
Qed.

Lemma s_cvec_nonempty p : p <> [] -> s_cvec p <> [].
Proof.
  intros Hne. rewrite (s_cvec_unfold p Hne). cbn zeta.
  destruct (existsb _ _) eqn:Ex.
  - apply existsb_exists in Ex as [c [Hc _]]. intros C. rewrite C in Hc. destruct Hc.
  - intros C. apply app_eq_nil in C as [_ C]. discriminate.
Qed.

(** a binding that satisfies every constraint of a non-empty pattern is
    anchored at an occurrence of that pattern *)
Theorem s_constraints_sound p h m : p <> [] ->
  (forall c, In c (s_cvec p) -> holds string_dom h c m) ->
  exists a len, m = SBound a len /\ occ_string p h a.
Proof.
  intros Hne Hall.
  destruct m as [|a len].
  - exfalso. destruct (s_cvec p) as [|c cs] eqn:Ec; [now apply (s_cvec_nonempty p Hne)|].
    apply (s_holds_unbound h c).
    + apply (s_cvec_nonempty_args p). rewrite Ec. now left.
    + apply Hall. now left.
  - exists a, len. split; auto. apply occ_string_iff. apply (s_cvec_occ p h a Hne).
    apply forallb_forall. intros c Hc. eapply s_holds_cvalb. apply Hall. exact Hc.
Qed.
