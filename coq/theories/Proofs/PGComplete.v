(** Port graphs: soundness of the entailment / refutation rules with respect to
    the valuation induced by a host and a (total) binding map, hence the
    completeness certificate applies to port-graph automata (abstract
    semantics). *)
From PM Require Import Model.Prelude Model.Domain Model.Constraint Model.BindMaps Model.Automaton
  Model.DomPGKeys Model.DomPG Cert.PGCert Cert.WinCheck Proofs.RunSound Proofs.PGTreeProofs Proofs.PGLawful Proofs.WinSound Proofs.AbsEquiv Cert.LabCheck.
Local Open Scope N_scope.

(** the truth value of a constraint under host [h] and bindings [m] *)
Definition pgval (h : pghost) (m : pgmap) (c : pgconstraint) : bool :=
  match resolve_args pg_dom m (cargs c) with
  | inr vs => match pg_check h (cpred c) vs with Ok true => true | _ => false end
  | inl _ => false
  end.

Lemma pgval_holds h m c : pgval h m c = true <-> holds pg_dom h c m.
Proof.
  unfold pgval, holds. split.
  - destruct (resolve_args pg_dom m (cargs c)) as [k|vs]; [discriminate|].
    intros Hc. exists vs. split; auto. cbn [check pg_dom]. destruct (pg_check h (cpred c) vs) as [[|]| |]; try discriminate. reflexivity.
  - intros [vs [R C]]. rewrite R. cbn [check pg_dom] in C. now rewrite C.
Qed.

Lemma pgc_eqb_refl_iff a b : pgc_eqb a b = true <-> a = b.
Proof.
  split; [apply pgc_eqb_eq|]. intros ->. unfold pgc_eqb. apply andb_true_iff. split.
  - now apply pgpred_eqb_eq.
  - now apply (list_eqb_spec pgkey_eqb pgkey_eqb_eq).
Qed.

(** symmetric not-equal atoms have the same truth value *)
Lemma atom_eqb_val h m a d : atom_eqb a d = true -> pgval h m d = true -> pgval h m a = true.
Proof.
  unfold atom_eqb. intros He Hd. apply orb_true_iff in He as [He|He].
  - apply pgc_eqb_refl_iff in He. now subst.
  - destruct a as [[|l r|n] [|k [|o [|? ?]]]]; cbn [cpred cargs] in He; try discriminate.
    destruct d as [[|l' r'|n'] [|k' [|o' [|? ?]]]]; cbn [cpred cargs] in He; try discriminate.
    apply andb_true_iff in He as [E1 E2]. apply pgkey_eqb_eq in E1, E2. subst k' o'.
    unfold pgval in *. cbn [cargs cpred resolve_args] in *. change (mget pg_dom m) with (pgget m) in *.
    destruct (pgget m o) as [vo|]; [|discriminate]. destruct (pgget m k) as [vk|]; [|discriminate].
    cbn [pg_check] in *. unfold nmem, memb in *. cbn [existsb orb] in *.
    destruct (N.eqb_spec vo vk) as [->|Hne]; cbn in Hd; [discriminate|].
    destruct (N.eqb_spec vk vo) as [->|]; [contradiction|reflexivity].
Qed.

Lemma args_bound_of_true h m d k : pgval h m d = true -> In k (cargs d) -> exists v, pgget m k = Some v.
Proof.
  unfold pgval. destruct (resolve_args pg_dom m (cargs d)) as [e|vs] eqn:R; [discriminate|]. intros _.
  revert vs R. induction (cargs d) as [|x l IH]; intros vs R Hin; [destruct Hin|].
  apply resolve_cons_inr in R as [v [vs' [E [R' _]]]]. destruct Hin as [->|Hin]; eauto.
Qed.

Lemma atoms_true h m c : pgval h m c = true -> forall a, In a (pg_atoms c) -> pgval h m a = true.
Proof. intros Hc a Ha. apply pgval_holds. apply pgval_holds in Hc. eapply pg_atoms_complete; eauto. Qed.

Lemma pg_entails_sound h m cp c :
  pg_entails cp c = true -> (forall d, In d cp -> pgval h m d = true) -> pgval h m c = true.
Proof.
  unfold pg_entails. intros He Hcp. rewrite forallb_forall in He.
  apply pgval_holds. apply pg_atoms_sound. intros a Ha. apply pgval_holds.
  specialize (He a Ha). apply orb_true_iff in He as [He|He].
  - apply existsb_exists in He as [d [Hd Hae]]. apply in_flat_map in Hd as [d0 [Hd0 Hd]].
    eapply atom_eqb_val; [exact Hae|]. eapply atoms_true; [apply Hcp; exact Hd0|exact Hd].
  - assert (Hk : forall k, memb pgkey_eqb k (keys_of cp) = true -> exists v, pgget m k = Some v).
    { intros k Hm. apply (memb_in pgkey_eqb pgkey_eqb_eq) in Hm. unfold keys_of in Hm.
      apply in_flat_map in Hm as [d [Hd Hkd]]. eapply args_bound_of_true; eauto. }
    destruct a as [[|l r|n] [|k [|? ?]]]; cbn [cpred cargs] in He; try discriminate;
      destruct (Hk k He) as [v Ev]; unfold pgval; cbn [cargs cpred resolve_args];
      change (mget pg_dom m k) with (pgget m k); rewrite Ev; reflexivity.
Qed.

Lemma has_edge_unique h l lp r rp r' rp' :
  has_edge h l lp r rp = true -> has_edge h l lp r' rp' = true -> r = r' /\ rp = rp'.
Proof.
  unfold has_edge. intros H1 H2. apply andb_true_iff in H1 as [_ H1]. apply andb_true_iff in H2 as [_ H2].
  destruct (port_link h l lp) as [[n p]|]; [|discriminate].
  apply andb_true_iff in H1 as [A1 B1]. apply andb_true_iff in H2 as [A2 B2].
  apply N.eqb_eq in A1, A2. unfold pgport_eqb in B1, B2.
  destruct (pgport_cmp p rp) eqn:C1; try discriminate. destruct (pgport_cmp p rp') eqn:C2; try discriminate.
  apply pgport_cmp_eq in C1, C2. subst. auto.
Qed.

Lemma pg_refutes_sound h m cp c :
  pg_refutes cp c = true -> (forall d, In d cp -> pgval h m d = true) -> pgval h m c = false.
Proof.
  unfold pg_refutes. intros Hr Hcp.
  destruct c as [[|l r|n] [|a [|b [|? ?]]]]; cbn [cpred cargs] in Hr; try discriminate.
  apply existsb_exists in Hr as [d [Hd Hr]]. pose proof (Hcp d Hd) as Hdv.
  destruct d as [[|l' r'|n'] [|a' [|b' [|? ?]]]]; cbn [cpred cargs] in Hr; try discriminate.
  apply andb_true_iff in Hr as [Hr Hx]. apply andb_true_iff in Hr as [Ea El].
  apply pgkey_eqb_eq in Ea. subst a'. unfold pgport_eqb in El. destruct (pgport_cmp l l') eqn:Cl; try discriminate.
  apply pgport_cmp_eq in Cl. subst l'.
  destruct (pgval h m {| cpred := IsConnected l r; cargs := [a; b] |}) eqn:Hc; auto. exfalso.
  unfold pgval in Hc, Hdv. cbn [cargs cpred resolve_args] in Hc, Hdv. change (mget pg_dom m) with (pgget m) in *.
  destruct (pgget m a) as [va|]; [|discriminate].
  destruct (pgget m b) as [vb|] eqn:Eb; [|discriminate]. destruct (pgget m b') as [vb'|] eqn:Eb'; [|discriminate].
  cbn [pg_check] in Hc, Hdv.
  destruct (has_edge h va l vb r) eqn:H1; [|discriminate]. destruct (has_edge h va l vb' r') eqn:H2; [|discriminate].
  destruct (has_edge_unique _ _ _ _ _ _ _ H1 H2) as [Evb Er]. subst vb' r'.
  apply orb_true_iff in Hx as [Hx|Hx].
  - unfold pgport_eqb in Hx. rewrite (proj2 (pgport_cmp_eq r r) eq_refl) in Hx. discriminate.
  - unfold known_ne in Hx. apply existsb_exists in Hx as [f [Hf Hfe]].
    apply in_flat_map in Hf as [d0 [Hd0 Hf]].
    pose proof (atom_eqb_val h m _ _ Hfe (atoms_true h m d0 (Hcp d0 Hd0) f Hf)) as Hne.
    unfold pgval in Hne. cbn [cargs cpred resolve_args] in Hne. change (mget pg_dom m) with (pgget m) in Hne.
    rewrite Eb, Eb' in Hne. cbn [pg_check] in Hne. unfold nmem, memb in Hne. cbn [existsb orb] in Hne.
    rewrite N.eqb_refl in Hne. discriminate.
Qed.

(** abstract completeness of certified port-graph automata *)
Theorem pg_cert_complete_sound (A : automaton pgkey pgpred) cs present i cp h m :
  cert_complete pg_entails pg_refutes A cs present = true ->
  nth_error cs i = Some cp -> nth_error present i = Some true ->
  (forall d, In d cp -> pgval h m d = true) -> aaccepts (pgval h m) A (N.of_nat i).
Proof.
  apply cert_complete_sound.
  - apply pg_entails_sound.
  - apply pg_refutes_sound.
Qed.

(** acceptance of pattern i under (host, bindings) is equivalent to the truth of
    its constraint vector, on automata passing both certificates; hence two such
    automata (any heuristics, any pattern lists sharing the vector) agree *)
Theorem pg_accepts_iff (A : automaton pgkey pgpred) (L : LabCheck.labelling) cs present i cp h m :
  LabCheck.lab_ok pg_dom (fun _ => true) pg_atoms A L cs = true ->
  cert_complete pg_entails pg_refutes A cs present = true ->
  nth_error cs i = Some cp -> nth_error present i = Some true ->
  (aaccepts (pgval h m) A (N.of_nat i) <-> forall c, In c cp -> pgval h m c = true).
Proof.
  intros C W Hn Hp.
  refine (AbsEquiv.accepts_iff pg_dom pg_dom_eq (fun _ => true) pg_atoms pg_entails pg_refutes (pgval h m)
            _ _ _ _ A L cs C present i cp W Hn Hp).
  - intros c Ha. apply pgval_holds. apply pg_atoms_sound. intros a Hin. apply pgval_holds. auto.
  - intros c Hc a Ha. eapply atoms_true; eauto.
  - intros cp0 c0. apply pg_entails_sound.
  - intros cp0 c0. apply pg_refutes_sound.
Qed.
