(** C10 for the port-graph decomposition: [conditioned] is an equivalence under
    every node assignment, hence the powerset tree of a not-equal family is
    faithful; the other branch is a transitive-mutex tree. *)
From PM Require Import Model.Prelude Model.Domain Model.CTree Model.DomPGKeys
  Spec.TreeSem Proofs.TreeProofs Proofs.TreeDomains Proofs.PowersetProofs.

Lemma pgport_cmp_eq a b : pgport_cmp a b = Eq <-> a = b.
Proof.
  destruct a as [x|x], b as [y|y]; cbn; try (split; [discriminate|intros X; inversion X]).
  - rewrite N.compare_eq_iff. split; [now intros ->|intros X; now inversion X].
  - rewrite N.compare_eq_iff. split; [now intros ->|intros X; now inversion X].
Qed.

Lemma lex_eq a b : lex a b = Eq <-> a = Eq /\ b = Eq.
Proof. destruct a; cbn; split; intros H; try discriminate; try tauto; destruct H; try discriminate; auto. Qed.

Lemma pgkey_cmp_eq a b : pgkey_cmp a b = Eq <-> a = b.
Proof.
  destruct a as [i|r p l], b as [j|r' p' l']; cbn.
  - rewrite N.compare_eq_iff. split; [now intros ->|intros X; now inversion X].
  - rewrite lex_eq. split; [intros [_ X]; discriminate|discriminate].
  - rewrite lex_eq. split; [intros [_ X]; discriminate|discriminate].
  - rewrite !lex_eq, !N.compare_eq_iff, pgport_cmp_eq. split.
    + intros [-> [-> ->]]. reflexivity.
    + intros X. inversion X. auto.
Qed.

Lemma pgkey_eqb_eq a b : pgkey_eqb a b = true <-> a = b.
Proof. unfold pgkey_eqb. rewrite <- pgkey_cmp_eq. destruct (pgkey_cmp a b); split; intros; try discriminate; auto. Qed.

Lemma pgpred_cmp_eq a b : pgpred_cmp a b = Eq <-> a = b.
Proof.
  destruct a as [|l r|n], b as [|l' r'|m]; cbn; try (split; [discriminate|intros X; inversion X]); try tauto.
  - rewrite lex_eq, !pgport_cmp_eq. split; [intros [-> ->]; reflexivity|intros X; inversion X; auto].
  - rewrite N.compare_eq_iff. split; [now intros ->|intros X; now inversion X].
Qed.

Lemma pgc_eqb_eq (a b : pgconstraint) : pgc_eqb a b = true -> a = b.
Proof.
  destruct a as [pa aa], b as [pb ab]. unfold pgc_eqb. cbn. intros H. apply andb_true_iff in H as [H1 H2].
  unfold pgpred_eqb in H1. destruct (pgpred_cmp pa pb) eqn:E; try discriminate. apply pgpred_cmp_eq in E. subst.
  f_equal. apply (list_eqb_spec pgkey_eqb pgkey_eqb_eq). exact H2.
Qed.

(** ** key sets *)
Lemma kset_insert_in k s x : In x (kset_insert k s) <-> x = k \/ In x s.
Proof.
  induction s as [|y s IH]; cbn; [intuition|].
  destruct (pgkey_cmp k y) eqn:E; cbn.
  - apply pgkey_cmp_eq in E. subst. intuition.
  - intuition.
  - rewrite IH. intuition.
Qed.

Lemma kset_of_in l x : In x (kset_of l) <-> In x l.
Proof.
  unfold kset_of. assert (G : forall s, In x (fold_left (fun s k => kset_insert k s) l s) <-> In x l \/ In x s).
  { induction l as [|k l IH]; intros s; cbn; [tauto|]. rewrite IH, kset_insert_in. intuition. }
  rewrite G. cbn. tauto.
Qed.

Lemma kset_remove_in k s x : In x (kset_remove k s) <-> In x s /\ x <> k.
Proof.
  unfold kset_remove. rewrite filter_In, negb_true_iff. split; intros [H1 H2]; split; auto.
  - intros ->. rewrite (proj2 (pgkey_eqb_eq k k) eq_refl) in H2. discriminate.
  - destruct (pgkey_eqb x k) eqn:E; auto. apply pgkey_eqb_eq in E. contradiction.
Qed.

Lemma remove_all_in os : forall ks x,
  In x (fold_left (fun ks k => kset_remove k ks) os ks) <-> In x ks /\ ~ In x os.
Proof.
  induction os as [|o os IH]; intros ks x; cbn; [tauto|].
  rewrite IH, kset_remove_in. intuition.
Qed.

(** ** valuations induced by a node assignment *)
Section PGVal.
  Variable beta : pgkey -> N.
  Variable atomv : pgconstraint -> bool.   (* truth of the opaque predicates *)

  Definition ne_true (c : pgconstraint) : bool :=
    match cargs c with
    | k :: others => forallb (fun s => negb (N.eqb (beta k) (beta s))) others
    | [] => true
    end.

  Definition pgv (c : pgconstraint) : bool := if is_ne c then ne_true c else atomv c.

  Lemma pgv_eqb a b : pgc_eqb a b = true -> pgv a = pgv b.
  Proof. intros H. apply pgc_eqb_eq in H. now subst. Qed.

  (** a family of not-equal constraints on one first key *)
  Definition ne_family (k0 : pgkey) (cs : list (pgconstraint * nat)) : Prop :=
    forall c i, In (c, i) cs -> is_ne c = true /\ exists others, cargs c = k0 :: others.

  Lemma ne_true_spec k0 others p :
    ne_true {| cpred := p; cargs := k0 :: others |} = true
    <-> forall s, In s others -> beta k0 <> beta s.
  Proof.
    unfold ne_true. cbn. rewrite forallb_forall. split; intros H s Hs; specialize (H s Hs).
    - apply negb_true_iff in H. now apply N.eqb_neq.
    - apply negb_true_iff. now apply N.eqb_neq.
  Qed.

  Theorem pg_conditioned_equiv k0 cs c sat :
    ne_family k0 cs ->
    In c (map fst cs) -> incl sat (map fst cs) -> (forall s, In s sat -> pgv s = true) ->
    match pg_conditioned c sat with None => pgv c = true | Some c' => pgv c' = pgv c end.
  Proof.
    intros Fam Hc Hsat Htrue.
    assert (Fc : forall x, In x (map fst cs) -> is_ne x = true /\ exists others, cargs x = k0 :: others).
    { intros x Hx. apply in_map_iff in Hx as [[x' i] [<- Hin]]. eapply Fam; eauto. }
    destruct (Fc c Hc) as [Hne [others Ha]].
    unfold pg_conditioned, pg_conditioned_res. rewrite Hne. cbn [negb]. rewrite Ha.
    match goal with |- context [existsb ?f sat] => destruct (existsb f sat) eqn:Ex end.
    { exfalso. apply existsb_exists in Ex as [s [Hs He]].
      destruct (Fc s (Hsat s Hs)) as [_ [o Hs']]. rewrite Hs' in He. discriminate. }
    match goal with |- context [fold_left ?f sat (kset_of others)] => set (keys := fold_left f sat (kset_of others)) end.
    (* membership in the remaining key set *)
    set (cov := fun (l : list pgconstraint) (x : pgkey) =>
                  existsb (fun s : pgconstraint => match cargs s with _ :: o => memb pgkey_eqb x o | [] => false end) l).
    assert (Hgen : forall sat', incl sat' (map fst cs) -> forall ks x,
              In x (fold_left (fun (ks : list pgkey) (s : pgconstraint) =>
                                 match cargs s with
                                 | [] => ks
                                 | f :: os => if pgkey_eqb f k0
                                              then fold_left (fun ks0 k => kset_remove k ks0) os ks else ks
                                 end) sat' ks)
              <-> In x ks /\ cov sat' x = false).
    { induction sat' as [|s sat' IH]; intros Hs' ks x; cbn.
      - tauto.
      - destruct (Fc s (Hs' s (or_introl eq_refl))) as [_ [o Ho]]. rewrite Ho.
        rewrite (proj2 (pgkey_eqb_eq k0 k0) eq_refl).
        rewrite IH by (intros y Hy; apply Hs'; now right).
        rewrite remove_all_in, orb_false_iff, (memb_not_in pgkey_eqb pgkey_eqb_eq). tauto. }
    assert (Hkeys : forall x, In x keys <-> In x others /\ cov sat x = false).
    { intros x. unfold keys. rewrite (Hgen sat Hsat), kset_of_in. reflexivity. }
    (* what the satisfied constraints say *)
    assert (Hcov : forall x, cov sat x = true -> beta k0 <> beta x).
    { intros x Hx. apply existsb_exists in Hx as [s [Hs Hm]].
      destruct (Fc s (Hsat s Hs)) as [Hn [o Ho]]. rewrite Ho in Hm.
      apply (memb_in pgkey_eqb pgkey_eqb_eq) in Hm.
      specialize (Htrue s Hs). unfold pgv in Htrue. rewrite Hn in Htrue.
      destruct s as [ps as_]. cbn in Ho. subst as_. apply (proj1 (ne_true_spec k0 o ps) Htrue). exact Hm. }
    assert (Hvc : pgv c = true <-> forall s, In s others -> beta k0 <> beta s).
    { unfold pgv. rewrite Hne. destruct c as [pc ac]. cbn in Ha. subst ac. apply ne_true_spec. }
    destruct keys as [|k1 keys'] eqn:Ek.
    - apply Hvc. intros s Hs. destruct (cov sat s) eqn:Cs; [now apply Hcov|].
      exfalso. apply (proj2 (Hkeys s) (conj Hs Cs)).
    - unfold pgv at 1. cbn [is_ne cpred]. apply Bool.eq_true_iff_eq.
      rewrite ne_true_spec, Hvc. split.
      + intros Hk s Hs. destruct (cov sat s) eqn:Cs; [now apply Hcov|]. apply Hk. apply Hkeys. auto.
      + intros Ho s Hs. apply Ho. apply Hkeys. exact Hs.
  Qed.
End PGVal.

(** ** the port-graph decomposition as a whole *)
Theorem pg_tree_ok (beta : pgkey -> N) (atomv : pgconstraint -> bool) cs fuel T :
  cs <> [] -> pg_tree fuel cs = Ok T ->
  faithful (pgv beta atomv) T cs /\ valid_indices T (length cs)
  /\ exists c0 i0 rest, sort_with_indices pgc_cmp cs = (c0, i0) :: rest /\ in_tree T i0.
Proof.
  intros Hne Pt. unfold pg_tree in Pt. destruct cs as [|c1 cs']; [contradiction|].
  set (cs := c1 :: cs') in *.
  destruct (sort_with_indices pgc_cmp cs) as [|[first fi] rest] eqn:Es.
  { exfalso. assert (In (c1, 0) (sort_with_indices pgc_cmp cs)) by (apply sort_with_indices_in; reflexivity).
    rewrite Es in H. destruct H. }
  assert (Hidx : forall c i, In (c, i) ((first, fi) :: rest) -> nth_error cs i = Some c).
  { intros c i Hin. apply (sort_with_indices_in pgc_cmp). rewrite Es. exact Hin. }
  destruct (is_ne first) eqn:Nf.
  - destruct (existsb (fun ci : pgconstraint * nat => is_ne (fst ci) && match cargs (fst ci) with [] => true | _ => false end)
                      ((first, fi) :: rest)) eqn:Ex; [discriminate|].
    set (fam := filter (fun ci : pgconstraint * nat => is_ne (fst ci) && fst_key_eq (fst ci) first) ((first, fi) :: rest)) in Pt.
    destruct (with_powerset pgc_eqb pg_conditioned fuel fam) as [t| |] eqn:Wp; cbn in Pt; try discriminate.
    inversion Pt; subst. clear Pt.
    (* the first constraint has a first key *)
    destruct (cargs first) as [|k0 others0] eqn:Af.
    { exfalso. cbn in Ex. rewrite Nf, Af in Ex. discriminate. }
    assert (Hfam : ne_family k0 fam).
    { intros c i Hin. unfold fam in Hin. apply filter_In in Hin as [_ Hb]. cbn in Hb.
      apply andb_true_iff in Hb as [H1 H2]. split; auto.
      unfold fst_key_eq in H2. rewrite Af in H2. destruct (cargs c) as [|x o]; [discriminate|].
      apply pgkey_eqb_eq in H2. subst. eauto. }
    assert (Hfi : forall c i, In (c, i) fam -> nth_error cs i = Some c).
    { intros c i Hin. apply Hidx. unfold fam in Hin. apply filter_In in Hin. tauto. }
    destruct (with_powerset_ok pgc_eqb pg_conditioned (pgv beta atomv) fam cs Hfi (pgv_eqb beta atomv)
                (fun c sat => pg_conditioned_equiv beta atomv k0 fam c sat Hfam) fuel t Wp) as [F [Vd L]].
    split; [now apply faithful_set_make_det|]. split; [exact Vd|].
    exists first, fi, rest. split; auto. apply (L first fi).
    unfold fam. apply filter_In. split; [now left|]. cbn. rewrite Nf. cbn.
    unfold fst_key_eq. rewrite Af. now apply pgkey_eqb_eq.
  - destruct (with_transitive_mutex pgc_eqb ((first, fi) :: rest) pg_is_mutex) as [t| |] eqn:Wt; cbn in Pt; try discriminate.
    inversion Pt; subst.
    destruct (with_transitive_mutex_ok pgc_eqb (pgv beta atomv) (pgv_eqb beta atomv) cs _ _ t Hidx Wt) as [F [Vd L]].
    split; [now apply faithful_set_make_det|]. split; [exact Vd|].
    exists first, fi, rest. split; auto. apply (L first fi rest). reflexivity.
Qed.
