(** C14: laws of the binding maps, single steps and histories. *)
From PM Require Import Model.Prelude Model.Domain Model.BindMaps Model.DomString Model.DomMatrix.

(** * Generic association map (stands for HashMap and BTreeMap) *)
Section AMapLaws.
  Context {K V : Type} (keqb : K -> K -> bool) (veqb : V -> V -> bool).
  Hypothesis keqb_spec : forall a b, keqb a b = true <-> a = b.
  Hypothesis veqb_spec : forall a b, veqb a b = true <-> a = b.

  Notation aget := (@aget K V keqb).
  Notation ainsert := (@ainsert K V keqb).
  Notation abind := (@abind K V keqb veqb).
  Notation aretain := (@aretain K V keqb).

  Lemma keqb_refl k : keqb k k = true.
  Proof. now apply keqb_spec. Qed.

  Lemma keqb_false a b : a <> b -> keqb a b = false.
  Proof.
    intros H. destruct (keqb a b) eqn:E; auto. apply keqb_spec in E. contradiction.
  Qed.

  Lemma aget_ainsert_same m k v : aget (ainsert m k v) k = Some v.
  Proof.
    induction m as [|[k' v'] m IH]; cbn.
    - now rewrite keqb_refl.
    - destruct (keqb k k') eqn:E; cbn; rewrite E; auto.
  Qed.

  Lemma aget_ainsert_other m k v k' : k' <> k -> aget (ainsert m k v) k' = aget m k'.
  Proof.
    intros Hne. induction m as [|[k0 v0] m IH]; cbn.
    - now rewrite (keqb_false _ _ Hne).
    - destruct (keqb k k0) eqn:E; cbn.
      + apply keqb_spec in E. subst k0. now rewrite (keqb_false _ _ Hne).
      + destruct (keqb k' k0); auto.
  Qed.

  (** bind succeeds exactly when the key is free or already holds this value ... *)
  Theorem abind_ok_iff m k v :
    (exists m', abind m k v = Some m') <-> (aget m k = None \/ aget m k = Some v).
  Proof.
    unfold abind. destruct (aget m k) as [v'|] eqn:G.
    - destruct (veqb v' v) eqn:E.
      + apply veqb_spec in E. subst. split; eauto.
      + split.
        * intros [m' C]. discriminate.
        * intros [C|C]; [discriminate|]. inversion C; subst.
          rewrite (proj2 (veqb_spec v v) eq_refl) in E. discriminate.
    - split; eauto.
  Qed.

  (** ... and then the key reads back the value, every other key is untouched. *)
  Theorem abind_get m k v m' :
    abind m k v = Some m' ->
    aget m' k = Some v /\ forall k', k' <> k -> aget m' k' = aget m k'.
  Proof.
    unfold abind. intros E.
    assert (m' = ainsert m k v) as ->.
    { destruct (aget m k); [destruct (veqb v0 v)|]; congruence. }
    split; [apply aget_ainsert_same|]. intros k' Hne. now apply aget_ainsert_other.
  Qed.

  Theorem abind_second_value_rejected m k v v' :
    aget m k = Some v' -> v' <> v -> abind m k v = None.
  Proof.
    intros G Hne. unfold abind. rewrite G.
    destruct (veqb v' v) eqn:E; auto. apply veqb_spec in E. contradiction.
  Qed.

  Lemma aget_filter_absent keys (m : amap) k :
    memb keqb k keys = false ->
    aget (filter (fun kv : K * V => memb keqb (fst kv) keys) m) k = None.
  Proof.
    intros Hm. induction m as [|[k' v'] m IH]; cbn; auto.
    destruct (memb keqb k' keys) eqn:E; cbn; auto.
    destruct (keqb k k') eqn:Ek; auto. apply keqb_spec in Ek. subst. congruence.
  Qed.

  (** retain_keys keeps get on the listed keys and forgets every other key. *)
  Theorem aretain_get keys m k :
    aget (aretain keys m) k = if memb keqb k keys then aget m k else None.
  Proof.
    unfold aretain. destruct (memb keqb k keys) eqn:Hm.
    - induction m as [|[k' v'] m IH]; cbn; auto.
      destruct (keqb k k') eqn:Ek.
      + apply keqb_spec in Ek. subst k'. rewrite Hm. cbn. now rewrite keqb_refl.
      + destruct (memb keqb k' keys); cbn; [rewrite Ek|]; auto.
    - now apply aget_filter_absent.
  Qed.
End AMapLaws.

(** * Histories, for any map satisfying two laws *)
Section Histories.
  Context {K V M : Type}.
  Variable mget : M -> K -> option V.
  Variable mbind : M -> K -> V -> option M.
  Variable mretain : list K -> M -> res M.

  (** L1: a successful bind never disturbs an existing binding.
      L2: a successful retain keeps get on the listed keys. *)
  Hypothesis L1 : forall m k v m', mbind m k v = Some m' ->
    forall k' v', mget m k' = Some v' -> mget m' k' = Some v'.
  Hypothesis L2 : forall order m m', mretain order m = Ok m' ->
    forall k, In k order -> mget m' k = mget m k.

  Definition retains_keep (k : K) (ops : list (@mop K V)) : Prop :=
    forall order, In (ORetain order) ops -> In k order.

  (** Once readable, a key stays readable with the same value through every
      further history whose retain_keys calls list it. *)
  Theorem get_stable m k v ops :
    mget m k = Some v -> retains_keep k ops ->
    mget (mfinal mget mbind mretain m ops) k = Some v.
  Proof.
    revert m. induction ops as [|op ops IH]; intros m G R; cbn; auto.
    apply IH.
    - destruct op as [k0 v0|k0|order]; cbn.
      + destruct (mbind m k0 v0) as [m'|] eqn:B; cbn; auto. eapply L1; eauto.
      + exact G.
      + destruct (mretain order m) as [m'| |] eqn:Rt; cbn; auto.
        rewrite (L2 _ _ _ Rt); auto. apply R. now left.
    - intros order Hin. apply R. now right.
  Qed.

  (** A rejected bind (or a panicking retain) leaves the map as it was. *)
  Theorem rejected_bind_unchanged m k v :
    mbind m k v = None -> fst (mstep mget mbind mretain m (OBind k v)) = m.
  Proof. intros B. cbn. now rewrite B. Qed.
End Histories.

(** * StringPositionMap *)
Local Open Scope N_scope.
Arguments N.max : simpl never.
Arguments N.add : simpl never.
Arguments N.ltb : simpl never.
Arguments N.eqb : simpl never.

Lemma sget_extent m k v :
  sget m k = Some v -> exists s l, m = SBound s l /\ k < l /\ v = s + k.
Proof.
  destruct m as [|s l]; cbn; [discriminate|].
  destruct (N.ltb_spec k l); [|discriminate]. intros E. inversion E. eauto.
Qed.

Lemma sget_unbound k : sget SUnbound k = None.
Proof. reflexivity. Qed.

Lemma sbind_offered h m k v m' :
  sbind m k v = Some m' -> In v (s_opts h k m) -> sget m' k = Some v.
Proof.
  unfold sbind, s_opts. destruct (N.eqb_spec k 0) as [->|Hk].
  - destruct m; [|discriminate]. intros E _. inversion E; subst. cbn. now rewrite N.add_0_r.
  - destruct m as [|s l]; [discriminate|]. intros E Hin. inversion E; subst. cbn.
    destruct (N.ltb_spec (s + k) (blen h)); [|destruct Hin].
    destruct Hin as [<-|[]].
    destruct (N.ltb_spec k (N.max l (k + 1))); [reflexivity|lia].
Qed.

Lemma sbind_monotone m k v m' :
  sbind m k v = Some m' -> forall k' v', sget m k' = Some v' -> sget m' k' = Some v'.
Proof.
  unfold sbind. destruct (N.eqb_spec k 0) as [->|Hk].
  - destruct m; [|discriminate]. intros _ k' v' C. discriminate.
  - destruct m as [|s l]; [discriminate|]. intros E k' v' G. inversion E; subst. cbn in *.
    destruct (N.ltb_spec k' l); [|discriminate].
    destruct (N.ltb_spec k' (N.max l (k + 1))); [exact G|lia].
Qed.

Lemma sbind_start_rebind_rejected s l v : sbind (SBound s l) 0 v = None.
Proof. reflexivity. Qed.

Lemma sbind_before_start_rejected k v : k <> 0 -> sbind SUnbound k v = None.
Proof. intros H. unfold sbind. destruct (N.eqb_spec k 0); [contradiction|reflexivity]. Qed.

Lemma sbind_ok_iff m k v :
  (exists m', sbind m k v = Some m') <-> ((k = 0 /\ m = SUnbound) \/ (k <> 0 /\ m <> SUnbound)).
Proof.
  unfold sbind. destruct (N.eqb_spec k 0) as [->|Hk]; destruct m as [|s l]; split;
    try (intros [m' C]; discriminate); eauto.
  - intros [[_ C]|[C _]]; [discriminate|contradiction].
  - intros [[C _]|[_ C]]; contradiction.
  - intros _. right. split; auto. discriminate.
Qed.

(** ** retain_keys (repaired default) on the string map *)
Definition lmax (l : list N) : N := fold_right N.max 0 l.

Lemma lmax_cons x xs : lmax (x :: xs) = N.max x (lmax xs).
Proof. reflexivity. Qed.

Lemma lmax_in k l : In k l -> k <= lmax l.
Proof.
  induction l as [|x xs IH]; [intros []|]. rewrite lmax_cons.
  intros [->|H]; [lia|]. specialize (IH H). lia.
Qed.

Lemma lmax_bound l b : (forall k, In k l -> k <= b) -> lmax l <= b.
Proof.
  induction l as [|x xs IH]; intros H; [unfold lmax; cbn; lia|]. rewrite lmax_cons.
  assert (x <= b) by (apply H; now left).
  assert (lmax xs <= b) by (apply IH; intros k Hk; apply H; now right). lia.
Qed.

Notation spass := (retain_pass (K:=N) (V:=N) sbind).

(** A pass starting from a bound map accepts every non-start key. *)
Lemma spass_bound pending s l :
  (forall kv, In kv pending -> fst kv <> 0) ->
  spass pending (SBound s l)
  = ([], SBound s (N.max l (lmax (map (fun kv => fst kv + 1) pending)))).
Proof.
  revert l. induction pending as [|[k v] ps IH]; intros l Hnz; cbn [retain_pass map fst].
  - unfold lmax. cbn [fold_right]. now rewrite N.max_0_r.
  - assert (k <> 0) by (apply (Hnz (k, v)); now left).
    unfold sbind at 1. destruct (N.eqb_spec k 0); [contradiction|].
    rewrite IH by (intros kv Hkv; apply Hnz; now right).
    rewrite lmax_cons. f_equal. f_equal. lia.
Qed.

(** A pass starting from the empty map: everything before the start key stays
    pending, the start key is bound, every later non-start key is accepted. *)
Lemma spass_unbound pending :
  (forall kv, In kv pending -> fst kv <> 0) -> spass pending SUnbound = (pending, SUnbound).
Proof.
  induction pending as [|[k v] ps IH]; intros Hnz; cbn [retain_pass]; auto.
  assert (k <> 0) by (apply (Hnz (k, v)); now left).
  unfold sbind at 1. destruct (N.eqb_spec k 0); [contradiction|].
  rewrite IH by (intros kv Hkv; apply Hnz; now right). reflexivity.
Qed.

Lemma spass_unbound_split before s after :
  (forall kv, In kv before -> fst kv <> 0) ->
  (forall kv, In kv after -> fst kv <> 0) ->
  spass (before ++ (0, s) :: after) SUnbound
  = (before, SBound s (N.max 1 (lmax (map (fun kv => fst kv + 1) after)))).
Proof.
  intros Hb Ha. induction before as [|[k v] bs IH]; cbn [app retain_pass].
  - change (sbind SUnbound 0 s) with (Some (SBound s 1)). cbv iota beta.
    rewrite spass_bound by exact Ha. reflexivity.
  - assert (k <> 0) by (apply (Hb (k, v)); now left).
    unfold sbind at 1. destruct (N.eqb_spec k 0); [contradiction|].
    rewrite IH by (intros kv Hkv; apply Hb; now right). reflexivity.
Qed.

Lemma pending_keys order m :
  map fst (retain_pending sget order m) = filter (fun k => match sget m k with Some _ => true | None => false end) order.
Proof.
  unfold retain_pending. induction order as [|k ks IH]; cbn; auto.
  destruct (sget m k); cbn; now rewrite IH.
Qed.

Lemma pending_vals order m kv :
  In kv (retain_pending sget order m) -> In (fst kv) order /\ sget m (fst kv) = Some (snd kv).
Proof.
  unfold retain_pending. rewrite in_flat_map. intros [k [Hk Hin]].
  destruct (sget m k) eqn:G; [|destruct Hin]. destruct Hin as [<-|[]]. cbn. auto.
Qed.

Lemma retain_pending_app order1 order2 m :
  retain_pending sget (order1 ++ order2) m
  = retain_pending sget order1 m ++ retain_pending sget order2 m.
Proof. unfold retain_pending. now rewrite flat_map_app. Qed.

Lemma pending_nonzero order m :
  ~ In 0 order -> forall kv, In kv (retain_pending sget order m) -> fst kv <> 0.
Proof.
  intros Hn kv Hkv. apply pending_vals in Hkv. destruct Hkv as [Hin _].
  intros C. apply Hn. now rewrite <- C.
Qed.

Lemma pending_lmax order s l :
  lmax (map (fun kv : N * N => fst kv + 1) (retain_pending sget order (SBound s l))) <= l.
Proof.
  apply lmax_bound. intros k Hk. apply in_map_iff in Hk as [kv [<- Hkv]].
  apply pending_vals in Hkv. destruct Hkv as [_ G]. apply sget_extent in G.
  destruct G as [s' [l' [E [Hlt _]]]]. inversion E; subst. lia.
Qed.

Lemma pending_lmax_in order s l k :
  In k order -> k < l ->
  k + 1 <= lmax (map (fun kv : N * N => fst kv + 1) (retain_pending sget order (SBound s l))).
Proof.
  intros Hin Hlt. apply lmax_in. apply in_map_iff. exists (k, s + k). split; auto.
  unfold retain_pending. apply in_flat_map. exists k. split; auto. cbn.
  destruct (N.ltb_spec k l); [now left|lia].
Qed.

(** Main characterisation: on a duplicate-free key set that contains the start
    key the repaired retain_keys never panics, whatever the iteration order;
    the result answers [get] exactly as before on the listed keys and is a
    restriction of the old map elsewhere. *)
Theorem s_retain_ok order m :
  NoDup order -> In 0 order ->
  exists m', retain_rounds_default SUnbound sget sbind order m = Ok m'
    /\ (forall k, In k order -> sget m' k = sget m k)
    /\ (forall k v, sget m' k = Some v -> sget m k = Some v).
Proof.
  intros Hnd H0. unfold retain_rounds_default.
  destruct m as [|s l].
  - assert (retain_pending sget order SUnbound = []) as ->.
    { unfold retain_pending. clear. induction order; cbn; auto. }
    cbn. exists SUnbound. auto.
  - apply in_split in H0 as [o1 [o2 Eo]]. subst order.
    assert (Hn1 : ~ In 0 o1 /\ ~ In 0 o2).
    { apply NoDup_remove_2 in Hnd. split; intros C; apply Hnd; apply in_or_app; auto. }
    destruct Hn1 as [Hn1 Hn2].
    rewrite retain_pending_app.
    replace (retain_pending sget (0 :: o2) (SBound s l))
      with ((if 0 <? l then [(0, s + 0)] else []) ++ retain_pending sget o2 (SBound s l))
      by (unfold retain_pending; cbn; destruct (0 <? l); reflexivity).
    set (P1 := retain_pending sget o1 (SBound s l)).
    set (P2 := retain_pending sget o2 (SBound s l)).
    assert (HP1 : forall kv, In kv P1 -> fst kv <> 0) by (apply pending_nonzero; auto).
    assert (HP2 : forall kv, In kv P2 -> fst kv <> 0) by (apply pending_nonzero; auto).
    destruct (N.ltb_spec 0 l) as [Hl|Hl].
    + (* the start key is readable *)
      rewrite N.add_0_r. cbn [app].
      set (L2 := N.max 1 (lmax (map (fun kv : N * N => fst kv + 1) P2))).
      set (L := N.max L2 (lmax (map (fun kv : N * N => fst kv + 1) P1))).
      assert (HL : L <= l).
      { unfold L, L2. pose proof (pending_lmax o1 s l). pose proof (pending_lmax o2 s l).
        fold P1 in H. fold P2 in H0. lia. }
      assert (Hres : retain_rounds sbind (S (length (o1 ++ 0 :: o2))) (P1 ++ (0, s) :: P2) SUnbound
                     = Ok (SBound s L)).
      { rewrite app_length. cbn [length]. rewrite Nat.add_succ_r.
        cbn [retain_rounds].
        destruct (P1 ++ (0, s) :: P2) eqn:EP; [destruct P1; discriminate|]. rewrite <- EP.
        rewrite spass_unbound_split by auto. fold L2.
        assert (Hlen : Nat.eqb (length P1) (length (P1 ++ (0, s) :: P2)) = false).
        { apply Nat.eqb_neq. rewrite app_length. cbn. lia. }
        rewrite Hlen.
        destruct P1 as [|p1 P1'] eqn:E1.
        - cbn. unfold L. cbn. now rewrite N.max_0_r.
        - assert (Hf : exists f, (length o1 + length o2)%nat = S f).
          { assert (length o1 <> 0)%nat.
            { intros C. destruct o1; [|discriminate]. unfold P1 in E1. discriminate. }
            destruct (length o1 + length o2)%nat eqn:En; [lia|eauto]. }
          destruct Hf as [f ->]. cbn [retain_rounds]. rewrite <- E1.
          rewrite spass_bound by (rewrite E1; auto). fold L.
          rewrite E1. cbn [length Nat.eqb]. reflexivity. }
      exists (SBound s L). split; [exact Hres|]. split.
      * intros k Hk. cbn. destruct (N.ltb_spec k l) as [Hkl|Hkl].
        -- assert (k + 1 <= L).
           { apply in_app_or in Hk. destruct Hk as [Hk|[<-|Hk]].
             - pose proof (pending_lmax_in o1 s l k Hk Hkl). fold P1 in H. unfold L. lia.
             - unfold L, L2. lia.
             - pose proof (pending_lmax_in o2 s l k Hk Hkl). fold P2 in H. unfold L, L2. lia. }
           destruct (N.ltb_spec k L); [reflexivity|lia].
        -- destruct (N.ltb_spec k L); [lia|reflexivity].
      * intros k v. cbn. destruct (N.ltb_spec k L); [|discriminate].
        destruct (N.ltb_spec k l); [auto|lia].
    + (* degenerate map SBound s 0: nothing readable *)
      assert (l = 0) by lia. subst l.
      assert (Hnil : forall o, retain_pending sget o (SBound s 0) = []).
      { intros o. unfold retain_pending. induction o as [|a o IHo]; cbn [flat_map]; auto.
        unfold sget at 1. destruct (N.ltb_spec a 0); [lia|]. exact IHo. }
      unfold P1, P2. rewrite !Hnil. cbn. exists SUnbound. split; auto. split.
      * intros k _. cbn. destruct (N.ltb_spec k 0); [lia|reflexivity].
      * intros k v C. discriminate.
Qed.

(** The extent of the result: it reaches just past the largest listed key that
    was readable, so every key of the result lies at or below such a key. *)
Lemma lmax_lt_ex x l : x < lmax l -> exists y, In y l /\ x < y.
Proof.
  induction l as [|y ys IH]; [unfold lmax; cbn; lia|]. rewrite lmax_cons. intros Hx.
  destruct (N.ltb_spec x y) as [Hy|Hy]; [exists y; split; [now left|exact Hy]|].
  destruct IH as [z [Hz Hxz]]; [lia|]. exists z. split; [now right|exact Hxz].
Qed.

Theorem s_retain_tight order s l m' :
  NoDup order -> In 0 order -> 0 < l ->
  retain_rounds_default SUnbound sget sbind order (SBound s l) = Ok m' ->
  exists L, m' = SBound s L /\ 0 < L
    /\ forall k, k < L -> exists k', In k' order /\ k <= k' /\ k' < l.
Proof.
  intros Hnd H0 Hl. unfold retain_rounds_default.
  apply in_split in H0 as [o1 [o2 Eo]]. subst order.
  assert (Hn1 : ~ In 0 o1 /\ ~ In 0 o2).
  { apply NoDup_remove_2 in Hnd. split; intros C; apply Hnd; apply in_or_app; auto. }
  destruct Hn1 as [Hn1 Hn2].
  rewrite retain_pending_app.
  replace (retain_pending sget (0 :: o2) (SBound s l))
    with ((if 0 <? l then [(0, s + 0)] else []) ++ retain_pending sget o2 (SBound s l))
    by (unfold retain_pending; cbn; destruct (0 <? l); reflexivity).
  set (P1 := retain_pending sget o1 (SBound s l)).
  set (P2 := retain_pending sget o2 (SBound s l)).
  assert (HP1 : forall kv, In kv P1 -> fst kv <> 0) by (apply pending_nonzero; auto).
  assert (HP2 : forall kv, In kv P2 -> fst kv <> 0) by (apply pending_nonzero; auto).
  destruct (N.ltb_spec 0 l) as [_|]; [|lia].
  rewrite N.add_0_r. cbn [app].
  set (L2 := N.max 1 (lmax (map (fun kv : N * N => fst kv + 1) P2))).
  set (L := N.max L2 (lmax (map (fun kv : N * N => fst kv + 1) P1))).
  assert (Hres : retain_rounds sbind (S (length (o1 ++ 0 :: o2))) (P1 ++ (0, s) :: P2) SUnbound
                 = Ok (SBound s L)).
  { rewrite app_length. cbn [length]. rewrite Nat.add_succ_r.
    cbn [retain_rounds].
    destruct (P1 ++ (0, s) :: P2) eqn:EP; [destruct P1; discriminate|]. rewrite <- EP.
    rewrite spass_unbound_split by auto. fold L2.
    assert (Hlen : Nat.eqb (length P1) (length (P1 ++ (0, s) :: P2)) = false).
    { apply Nat.eqb_neq. rewrite app_length. cbn. lia. }
    rewrite Hlen.
    destruct P1 as [|p1 P1'] eqn:E1.
    - cbn. unfold L. cbn. now rewrite N.max_0_r.
    - assert (Hf : exists f, (length o1 + length o2)%nat = S f).
      { assert (length o1 <> 0)%nat.
        { intros C. destruct o1; [|discriminate]. unfold P1 in E1. discriminate. }
        destruct (length o1 + length o2)%nat eqn:En; [lia|eauto]. }
      destruct Hf as [f ->]. cbn [retain_rounds]. rewrite <- E1.
      rewrite spass_bound by (rewrite E1; auto). fold L.
      rewrite E1. cbn [length Nat.eqb]. reflexivity. }
  rewrite Hres. intros X. inversion X; subst m'. exists L. split; [reflexivity|]. split; [unfold L, L2; lia|].
  intros k Hk.
  assert (Hpend : forall o, (forall x, In x o -> In x (o1 ++ 0 :: o2)) ->
            k < lmax (map (fun kv : N * N => fst kv + 1) (retain_pending sget o (SBound s l))) ->
            exists k', In k' (o1 ++ 0 :: o2) /\ k <= k' /\ k' < l).
  { intros o Ho Hlt. apply lmax_lt_ex in Hlt as [y [Hy Hky]].
    apply in_map_iff in Hy as [kv [<- Hkv]]. apply pending_vals in Hkv as [Hin G].
    exists (fst kv). split; [now apply Ho|]. split; [lia|].
    apply sget_extent in G. destruct G as [s' [l' [E [Hlt' _]]]]. inversion E; subst. exact Hlt'. }
  destruct (N.ltb_spec k (lmax (map (fun kv : N * N => fst kv + 1) P1))) as [H1|H1].
  { apply (Hpend o1); auto. intros x Hx. apply in_or_app. now left. }
  destruct (N.ltb_spec k (lmax (map (fun kv : N * N => fst kv + 1) P2))) as [H2|H2].
  { apply (Hpend o2); auto. intros x Hx. apply in_or_app. right. now right. }
  exists 0. split; [apply in_or_app; right; now left|]. unfold L, L2 in Hk. lia.
Qed.

(** The empty key set: the result is the empty map. *)
Lemma s_retain_nil m : retain_rounds_default SUnbound sget sbind [] m = Ok SUnbound.
Proof. reflexivity. Qed.

(** D3: the default of the pinned commit panics on {4, 0} iterated as [4; 0]. *)
Lemma s_retain_pinned_refuted :
  exists order m, NoDup order /\ In 0 order
    /\ retain_default SUnbound sget sbind order m = Panic SiteRetainUnwrap.
Proof.
  exists [4; 0], (SBound 0 5). split; [|split].
  - repeat constructor; cbn; intuition discriminate.
  - cbn. auto.
  - vm_compute. reflexivity.
Qed.
