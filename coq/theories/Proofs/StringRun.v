(** Strings: from abstract acceptance under the valuation of (host, anchor) to an
    actual emission of the traversal (completeness, C02).  Part 1: the string
    domain computed explicitly (bind_all, retain, evaluation). *)
From PM Require Import Model.Prelude Model.Domain Model.Constraint Model.BindAll Model.Automaton Model.Traversal
  Model.BindMaps Model.DomString Spec.Extends Spec.Occ Cert.CharCert Cert.WfCheck
  Proofs.BindAllProofs Proofs.BindMapProofs Proofs.RunSound Proofs.LawfulDomains Proofs.CellsProofs
  Proofs.OccString Proofs.OccProofs Proofs.RunTrace Proofs.ToposortProofs Proofs.WfSound Proofs.WinSound Cert.WinCheck.
Local Open Scope N_scope.
Arguments N.max : simpl never.
Arguments N.add : simpl never.
Arguments N.ltb : simpl never.
Arguments N.eqb : simpl never.

Lemma utf8_len_pos c : 1 <= utf8_len c.
Proof. unfold utf8_len. destruct (c <? 128); [lia|]. destruct (c <? 2048); [lia|]. destruct (c <? 65536); lia. Qed.

Lemma blen_ge_length h : N.of_nat (length h) <= blen h.
Proof.
  induction h as [|c h IH]; cbn [length blen fold_right]; [lia|].
  pose proof (utf8_len_pos c). fold (blen h). lia.
Qed.

(** the valuation of (host, anchor) is the truth of the constraint when key k
    denotes character a + k *)
Lemma sval_cvalb h a c : sval h a c = cvalb (s_char_of h a) c.
Proof.
  unfold sval, cvalb, s_char_of. destruct c as [[|l] args]; cbn [cpred cargs].
  - destruct args as [|k1 [|k2 [|k3 r]]]; cbn; auto.
    destruct (char_at h (a + k1)), (char_at h (a + k2)); auto. destruct (N.eqb n n0); auto.
  - destruct args as [|k1 [|k2 r]]; cbn; auto.
    destruct (char_at h (a + k1)); auto. destruct (N.eqb n l); auto.
Qed.

Lemma sval_args_exist h a c k :
  sval h a c = true -> In k (cargs c) -> a + k < N.of_nat (length h).
Proof.
  rewrite sval_cvalb. intros Hv Hk.
  pose proof (cvalb_args_exist _ _ _ Hv Hk) as He. apply s_char_exists in He. lia.
Qed.

(** ** bind_all on the string domain: the extent after trying to bind a key list *)
Fixpoint s_extend (h : shost) (a : N) (ks : list N) (len : N) : N :=
  match ks with
  | [] => len
  | k :: ks' =>
      if k <? len then s_extend h a ks' len
      else if a + k <? blen h then s_extend h a ks' (N.max len (k + 1))
      else s_extend h a ks' len
  end.

Lemma s_extend_ge h a ks : forall len, len <= s_extend h a ks len.
Proof.
  induction ks as [|k ks IH]; intros len; cbn; [lia|].
  destruct (k <? len); [apply IH|]. destruct (a + k <? blen h); [|apply IH].
  specialize (IH (N.max len (k + 1))). lia.
Qed.

Lemma s_extend_covers h a ks : forall len k,
  In k ks -> a + k < blen h -> k < s_extend h a ks len.
Proof.
  induction ks as [|k0 ks IH]; intros len k Hin Hoff; [destruct Hin|]. cbn.
  destruct Hin as [->|Hin].
  - destruct (N.ltb_spec k len).
    + pose proof (s_extend_ge h a ks len). lia.
    + destruct (N.ltb_spec (a + k) (blen h)); [|lia].
      pose proof (s_extend_ge h a ks (N.max len (k + 1))). lia.
  - destruct (k0 <? len); [now apply IH|]. destruct (a + k0 <? blen h); now apply IH.
Qed.

Lemma ext_rel_bound h a inc ks : forall len, 0 < len ->
  (inc = true \/ forall k, In k ks -> a + k < blen h) ->
  ext_rel string_dom h inc ks (SBound a len) (SBound a (s_extend h a ks len)).
Proof.
  induction ks as [|k ks IH]; intros len Hl Hinc; cbn; [constructor|].
  assert (Hinc' : inc = true \/ forall k0, In k0 ks -> a + k0 < blen h).
  { destruct Hinc as [Hi|Hi]; [now left|right; intros k0 Hk0; apply Hi; now right]. }
  destruct (N.ltb_spec k len) as [Hk|Hk].
  - eapply ext_bound; [|apply IH; auto]. cbn. destruct (N.ltb_spec k len); [reflexivity|lia].
  - assert (Hg : mget string_dom (SBound a len) k = None).
    { cbn. destruct (N.ltb_spec k len); [lia|reflexivity]. }
    assert (Hk0 : k <> 0) by lia.
    destruct (N.ltb_spec (a + k) (blen h)) as [Ho|Ho].
    + apply (ext_bind string_dom h inc k ks (SBound a len) (SBound a (N.max len (k + 1)))
                       (SBound a (s_extend h a ks (N.max len (k + 1)))) [a + k] (a + k)).
      * exact Hg.
      * cbn. unfold s_opts. destruct (N.eqb_spec k 0); [contradiction|].
        destruct (N.ltb_spec (a + k) (blen h)); [reflexivity|lia].
      * now left.
      * cbn. unfold sbind. destruct (N.eqb_spec k 0); [contradiction|reflexivity].
      * apply IH; [lia|exact Hinc'].
    + destruct Hinc as [->|Hall]; [|specialize (Hall k (or_introl eq_refl)); lia].
      apply ext_skip.
      * exact Hg.
      * cbn. unfold s_opts. destruct (N.eqb_spec k 0); [contradiction|].
        destruct (N.ltb_spec (a + k) (blen h)); [lia|reflexivity].
      * reflexivity.
      * apply IH; auto.
Qed.

Lemma nseq_in n k : In k (nseq n) <-> k < n.
Proof.
  unfold nseq. rewrite in_map_iff. split.
  - intros [i [<- Hi]]. apply in_seq in Hi. lia.
  - intros Hk. exists (N.to_nat k). split; [lia|]. apply in_seq. lia.
Qed.

Lemma ext_rel_unbound h a inc ks : a < blen h ->
  (inc = true \/ forall k, In k ks -> a + k < blen h) ->
  ext_rel string_dom h inc (0 :: ks) SUnbound (SBound a (s_extend h a ks 1)).
Proof.
  intros Ha Hinc.
  apply (ext_bind string_dom h inc 0 ks SUnbound (SBound a 1) (SBound a (s_extend h a ks 1)) (nseq (blen h)) a).
  - reflexivity.
  - reflexivity.
  - apply nseq_in. exact Ha.
  - reflexivity.
  - apply ext_rel_bound; [lia|exact Hinc].
Qed.

(** a prerequisite-ordered key list of the string scheme starts with the start key *)
Lemma s_prereq_head (l : list N) k ks : prereq_ordered string_dom l -> l = k :: ks -> k = 0.
Proof.
  intros [_ Ho] ->. destruct (N.eq_dec k 0) as [|Hne]; auto.
  specialize (Ho [] k ks eq_refl 0). cbn in Ho. exfalso. apply Ho.
  unfold s_req. destruct (N.eqb_spec k 0); [contradiction|now left].
Qed.

Lemma s_prereq_goodb (l : list N) : prereq_ordered string_dom l -> s_goodb l = true.
Proof.
  intros Hp. unfold s_goodb. apply andb_true_iff. split.
  - apply (nodupb_NoDup N.eqb N.eqb_eq). apply Hp.
  - destruct l as [|k ks]; auto. rewrite (s_prereq_head _ k ks Hp eq_refl). cbn. now rewrite N.eqb_refl.
Qed.

(** well-formed string maps: a bound map has a positive extent *)
Definition s_wfm (m : spm) : Prop := match m with SBound _ l => 0 < l | SUnbound => True end.

Definition anch (a : N) (m : spm) : Prop := m = SUnbound \/ exists len, 0 < len /\ m = SBound a len.

(** retain_keys on a good list keeps the anchor *)
Lemma s_retain_anch order m m' a :
  s_goodb order = true -> mretain string_dom order m = Ok m' ->
  (forall k, In k order -> sget m' k = sget m k)
  /\ (order = [] -> m' = SUnbound)
  /\ (forall len, 0 < len -> m = SBound a len -> order <> [] -> exists len', 0 < len' /\ m' = SBound a len')
  /\ (m = SUnbound -> m' = SUnbound).
Proof.
  intros G R. destruct (law_retain string_dom (fun _ _ => True) s_goodb string_lawful [] order m m' G I R) as [_ Hk].
  split; [exact Hk|]. split; [|split].
  - intros ->. change (mretain string_dom [] m) with (retain_rounds_default SUnbound sget sbind [] m) in R.
    rewrite s_retain_nil in R. now inversion R.
  - intros len Hl -> Hne. destruct order as [|k ks]; [contradiction|].
    unfold s_goodb in G. apply andb_true_iff in G as [_ G0]. apply (memb_in N.eqb N.eqb_eq) in G0.
    specialize (Hk 0 G0). cbn in Hk. destruct (N.ltb_spec 0 len); [|lia].
    destruct m' as [|s l]; cbn in Hk; [discriminate|].
    destruct (N.ltb_spec 0 l); [|discriminate]. rewrite !N.add_0_r in Hk. inversion Hk; subst. exists l. auto.
  - intros ->. change (mretain string_dom order SUnbound) with (retain_rounds_default SUnbound sget sbind order SUnbound) in R.
    unfold retain_rounds_default in R.
    assert (retain_pending sget order SUnbound = []) as Ep.
    { unfold retain_pending. clear. induction order; cbn; auto. }
    rewrite Ep in R. cbn in R. now inversion R.
Qed.

(** ** part 2: one step of the traversal on an anchored item *)
Lemma rmapM_fwd {X Y} (f : X -> res Y) l r x :
  rmapM f l = Ok r -> In x l -> exists y, f x = Ok y /\ In y r.
Proof.
  revert r. induction l as [|z l IH]; intros r R Hin; [destruct Hin|]. cbn in R.
  destruct (f z) as [y0| |] eqn:F; cbn in R; try discriminate.
  destruct (rmapM f l) as [ys| |] eqn:R'; cbn in R; try discriminate.
  inversion R; subst. destruct Hin as [->|Hin].
  - exists y0. split; [exact F|now left].
  - destruct (IH ys eq_refl Hin) as [y [H1 H2]]. exists y. split; [exact H1|now right].
Qed.

Lemma filter_sat_fwd {K V M H P} (D : DomOps K V M H P) h (m : M) l r c t :
  filter_sat D h m l = Ok r -> In (c, t) l -> sat_or_false D h c m = Ok true -> In t r.
Proof.
  revert r. induction l as [|[c0 t0] l IH]; intros r R Hin Hs; [destruct Hin|]. cbn in R.
  destruct (sat_or_false D h c0 m) as [b| |] eqn:S0; cbn in R; try discriminate.
  destruct (filter_sat D h m l) as [r'| |] eqn:R'; cbn in R; try discriminate.
  inversion R; subst. destruct Hin as [Eq|Hin].
  - inversion Eq; subst. rewrite Hs in S0. inversion S0; subst. now left.
  - destruct b; [right|]; eapply IH; eauto.
Qed.

Lemma s_resolve_anchored (b : spm) a args :
  (forall k, In k args -> sget b k = Some (a + k)) ->
  resolve_args string_dom b args = inr (map (fun k => a + k) args).
Proof.
  induction args as [|k ks IH]; intros Hg; cbn; [reflexivity|].
  change (mget string_dom b k) with (sget b k). rewrite (Hg k (or_introl eq_refl)).
  rewrite IH; [reflexivity|]. intros k' Hk'. apply Hg. now right.
Qed.

Lemma s_sat_of_sval h a c (b : spm) :
  sval h a c = true -> (forall k, In k (cargs c) -> sget b k = Some (a + k)) ->
  sat_or_false string_dom h c b = Ok true.
Proof.
  intros Hv Hg. unfold sat_or_false, is_satisfied, is_satisfied_calls, rmap.
  rewrite (s_resolve_anchored b a _ Hg). cbn [check string_dom rbind].
  unfold sval in Hv. destruct (s_check h (cpred c) (map (fun k => a + k) (cargs c))) as [[|]| |]; try discriminate.
  reflexivity.
Qed.

Lemma s_sval_of_sat h a c len :
  sat_or_false string_dom h c (SBound a len) = Ok true -> sval h a c = true.
Proof. intros Hs. rewrite sval_cvalb. eapply s_holds_cvalb. eapply sat_holds. exact Hs. Qed.

Section StringStep.
  Variable h : shost.
  Variable a : N.
  Hypothesis Ha : a < blen h.
  Variable st : astate N cpredicate.
  Variable cts : list (sconstraint * N).
  Hypothesis Hscope : prereq_ordered string_dom (a_scope st).
  Hypothesis Hcts : cons_transitions st = Ok cts.
  Hypothesis Hcov : forall c t, In (c, t) cts -> incl (cargs c) (a_scope st).

  (** the binding with which the successors of an anchored item are produced *)
  Lemma s_step_candidate m ys :
    (anch a m \/ a_scope st = []) -> next_legal_states string_dom h st m = Ok ys ->
    exists b, anch a b
      /\ (a_scope st <> [] -> exists L, 0 < L /\ b = SBound a L
            /\ forall k, In k (a_scope st) -> a + k < blen h -> sget b k = Some (a + k))
      /\ exists fired fail,
           filter_sat string_dom h b cts = Ok fired
           /\ (if negb (a_det st) || match fired with [] => true | _ => false end
               then fail_next_state st else Ok None) = Ok fail
           /\ (forall t, In t fired -> In (t, b) ys)
           /\ (forall t, fail = Some t -> In (t, b) ys).
  Proof.
    intros Hm N. unfold next_legal_states in N.
    destruct (bind_all string_dom h m (a_scope st) true) as [cands| |] eqn:B; cbn [rbind] in N; try discriminate.
    destruct (rmapM (mretain string_dom (a_scope st)) cands) as [cands'| |] eqn:R; cbn [rbind] in N; try discriminate.
    rewrite Hcts in N. cbn [rbind] in N.
    pose proof (s_prereq_goodb _ Hscope) as Hg.
    (* the candidate anchored at a *)
    assert (Hc : exists cand, In cand cands /\ (anch a cand \/ a_scope st = [])
                 /\ (a_scope st <> [] -> exists L, 0 < L /\ cand = SBound a L
                       /\ forall k, In k (a_scope st) -> a + k < blen h -> k < L)).
    { apply bind_all_eq_spec in B.
      destruct (a_scope st) as [|k0 ks] eqn:Es.
      - exists m. split; [|split; [now right|intros C; contradiction]].
        cbn in B. inversion B; subst. now left.
      - pose proof (s_prereq_head _ k0 ks Hscope eq_refl) as ->.
        destruct Hm as [Hm|C]; [|discriminate C].
        destruct Hm as [->|[len [Hl ->]]].
        + exists (SBound a (s_extend h a ks 1)). split.
          * apply (extend_rel string_dom h true (0 :: ks) SUnbound cands _ B).
            apply ext_rel_unbound; auto.
          * split; [left; right; exists (s_extend h a ks 1); split; auto; pose proof (s_extend_ge h a ks 1); lia|].
            intros _. exists (s_extend h a ks 1). split; [pose proof (s_extend_ge h a ks 1); lia|]. split; auto.
            intros k [<-|Hk] Hoff; [pose proof (s_extend_ge h a ks 1); lia|]. now apply s_extend_covers.
        + exists (SBound a (s_extend h a (0 :: ks) len)). split.
          * apply (extend_rel string_dom h true (0 :: ks) (SBound a len) cands _ B).
            apply ext_rel_bound; auto.
          * pose proof (s_extend_ge h a (0 :: ks) len).
            split; [left; right; exists (s_extend h a (0 :: ks) len); split; auto; lia|].
            intros _. exists (s_extend h a (0 :: ks) len). split; [lia|]. split; auto.
            intros k Hk Hoff. now apply s_extend_covers. }
    destruct Hc as [cand [Hcin [Hca Hcs]]].
    destruct (rmapM_fwd _ _ _ _ R Hcin) as [b [Rb Hb]].
    destruct (s_retain_anch _ _ _ a Hg Rb) as [Hk [Hnil [Hbound Hunb]]].
    assert (Hba : anch a b).
    { destruct (a_scope st) as [|k0 ks] eqn:Es; [left; now apply Hnil|].
      destruct Hca as [Hca|C]; [|discriminate C].
      destruct Hca as [->|[len [Hl ->]]]; [left; now apply Hunb|].
      right. destruct (Hbound len Hl eq_refl) as [len' [Hl' ->]]; [discriminate|]. eauto. }
    exists b. split; [exact Hba|]. split.
    - intros Hne. destruct (Hcs Hne) as [L [HL [-> Hcovk]]].
      destruct (Hbound L HL eq_refl Hne) as [L' [HL' ->]].
      exists L'. split; auto. split; auto.
      intros k Hk' Hoff. rewrite (Hk k Hk'). cbn. destruct (N.ltb_spec k L); [reflexivity|].
      specialize (Hcovk k Hk' Hoff). lia.
    - (* the successors computed for b *)
      assert (Hfb : exists zs, (let* fired := filter_sat string_dom h b cts in
                                let needs_fail := negb (a_det st) || match fired with [] => true | _ => false end in
                                let* fail := if needs_fail then fail_next_state st else Ok None in
                                Ok (map (fun t => (t, b)) fired ++ match fail with Some t => [(t, b)] | None => [] end)) = Ok zs
                               /\ forall y, In y zs -> In y ys).
      { clear - N Hb. revert ys N. induction cands' as [|c0 l IHl]; intros ys N; [destruct Hb|].
        cbn [rflatM] in N.
        match type of N with rbind ?e _ = _ => destruct e as [z0| |] eqn:E0 end; cbn [rbind] in N; try discriminate.
        destruct (rflatM _ l) as [zs'| |] eqn:E1; cbn [rbind] in N; try discriminate.
        inversion N; subst. destruct Hb as [->|Hb].
        - exists z0. split; [exact E0|]. intros y Hy. apply in_or_app. now left.
        - destruct (IHl Hb zs' eq_refl) as [zs [Hz1 Hz2]]. exists zs. split; auto.
          intros y Hy. apply in_or_app. right. auto. }
      destruct Hfb as [zs [Hz Hsub]].
      destruct (filter_sat string_dom h b cts) as [fired| |] eqn:FS; cbn [rbind] in Hz; try discriminate.
      destruct (if negb (a_det st) || match fired with [] => true | _ => false end then fail_next_state st else Ok None)
        as [fail| |] eqn:FN; cbn [rbind] in Hz; try discriminate.
      inversion Hz; subst zs. exists fired, fail. split; auto. split; auto. split.
      + intros t Ht. apply Hsub. apply in_or_app. left. apply in_map_iff. exists t. auto.
      + intros t ->. apply Hsub. apply in_or_app. right. now left.
  Qed.

  (** a constraint transition whose constraint is true at (h, a) is followed *)
  Lemma s_step_cons m ys c t :
    (anch a m \/ a_scope st = []) -> next_legal_states string_dom h st m = Ok ys ->
    In (c, t) cts -> sval h a c = true ->
    exists b, In (t, b) ys /\ anch a b.
  Proof.
    intros Hm N Hin Hv. destruct (s_step_candidate m ys Hm N) as [b [Hba [Hsc [fired [fail [FS [FN [Hf Hfail]]]]]]]].
    exists b. split; auto. apply Hf.
    eapply filter_sat_fwd; [exact FS|exact Hin|].
    (* the scope is not empty: the constraint has arguments, all in scope *)
    assert (Hne : a_scope st <> []).
    { intros C. pose proof (Hcov c t Hin) as Hi. rewrite C in Hi.
      unfold sval in Hv. destruct c as [[|l] [|k ks]]; cbn in Hv; try discriminate;
        apply (Hi k); now left. }
    destruct (Hsc Hne) as [L [HL [-> Hget]]].
    apply (s_sat_of_sval h a c). { exact Hv. }
    intros k Hk. apply Hget; [eapply Hcov; eauto|].
    pose proof (sval_args_exist h a c k Hv Hk). pose proof (blen_ge_length h). lia.
  Qed.

  (** the fail transition is followed when the state is not deterministic or no
      constraint is true at (h, a) *)
  Lemma s_step_eps m ys t :
    (anch a m \/ a_scope st = []) -> next_legal_states string_dom h st m = Ok ys ->
    fail_next_state st = Ok (Some t) ->
    (a_det st = false \/ forallb (fun ct => negb (sval h a (fst ct))) cts = true) ->
    exists b, In (t, b) ys /\ anch a b.
  Proof.
    intros Hm N Hfn Hd. destruct (s_step_candidate m ys Hm N) as [b [Hba [Hsc [fired [fail [FS [FN [Hf Hfail]]]]]]]].
    exists b. split; auto. apply Hfail.
    assert (Hneeds : negb (a_det st) || match fired with [] => true | _ => false end = true).
    { destruct Hd as [->|Hall]; [reflexivity|]. apply orb_true_iff. right.
      destruct fired as [|t0 fr]; auto. exfalso.
      destruct (filter_sat_in string_dom _ _ _ _ t0 FS (or_introl eq_refl)) as [c0 [Hc0 Hs0]].
      rewrite forallb_forall in Hall. specialize (Hall _ Hc0). cbn in Hall. apply negb_true_iff in Hall.
      destruct Hba as [->|[L [HL ->]]].
      - (* unbound: a satisfied constraint has no arguments, impossible for the character predicates *)
        pose proof (sat_holds string_dom h c0 SUnbound Hs0) as [vs [Rv Ck]].
        destruct c0 as [[|l] [|k ks]]; cbn in Rv, Ck; try discriminate.
      - rewrite (s_sval_of_sat h a c0 L Hs0) in Hall. discriminate. }
    rewrite Hneeds in FN. rewrite Hfn in FN. now inversion FN.
  Qed.
End StringStep.

(** ** part 3: emission at an accepting state *)
Lemma s_emission h a (st : astate N cpredicate) m e pid keys :
  a < blen h -> In (pid, keys) (a_matches st) -> prereq_ordered string_dom keys -> keys <> [] ->
  (forall k, In k keys -> a + k < blen h) ->
  anch a m -> emissions string_dom h st m = Ok e ->
  exists L, 0 < L /\ In (pid, SBound a L) e.
Proof.
  intros Ha Hin Hord Hne Hoff Hm Em. unfold emissions in Em.
  assert (Hsub : exists e1,
     (let new_keys := filter (fun k => match mget string_dom m k with None => true | Some _ => false end) keys in
      let* bs := match new_keys with [] => Ok [m] | _ => bind_all string_dom h m new_keys false end in
      let* bs' := rmapM (mretain string_dom keys) bs in
      Ok (map (fun b => (pid, b)) bs')) = Ok e1 /\ forall y, In y e1 -> In y e).
  { clear - Em Hin. revert e Em. induction (a_matches st) as [|pk l IHl]; intros e Em; [destruct Hin|].
    cbn [rflatM] in Em.
    match type of Em with rbind ?x _ = _ => destruct x as [z0| |] eqn:E0 end; cbn [rbind] in Em; try discriminate.
    destruct (rflatM _ l) as [zs'| |] eqn:E1; cbn [rbind] in Em; try discriminate.
    inversion Em; subst. destruct Hin as [->|Hin].
    - exists z0. split; [exact E0|]. intros y Hy. apply in_or_app. now left.
    - destruct (IHl Hin zs' eq_refl) as [e1 [H1 H2]]. exists e1. split; auto.
      intros y Hy. apply in_or_app. right. auto. }
  destruct Hsub as [e1 [He1 Hsub]]. cbn zeta in He1.
  set (new_keys := filter (fun k => match mget string_dom m k with None => true | Some _ => false end) keys) in He1.
  destruct (match new_keys with [] => Ok [m] | _ => bind_all string_dom h m new_keys false end) as [bs| |] eqn:B;
    cbn [rbind] in He1; try discriminate.
  destruct (rmapM (mretain string_dom keys) bs) as [bs'| |] eqn:R; cbn [rbind] in He1; try discriminate.
  inversion He1; subst e1.
  pose proof (s_prereq_goodb _ Hord) as Hg.
  (* a candidate anchored at a with positive extent *)
  assert (Hc : exists L, 0 < L /\ In (SBound a L) bs).
  { destruct Hm as [->|[len [Hl ->]]].
    - (* nothing bound yet: all keys are new *)
      assert (new_keys = keys) as Enk.
      { unfold new_keys. clear. induction keys as [|k ks IH]; [reflexivity|]. cbn [filter].
        destruct (mget string_dom SUnbound k) eqn:E; [cbn in E; discriminate E|]. f_equal. exact IH. }
      rewrite Enk in B. destruct keys as [|k0 ks] eqn:Ek; [contradiction|].
      pose proof (s_prereq_head _ k0 ks Hord eq_refl) as ->.
      apply bind_all_eq_spec in B.
      exists (s_extend h a ks 1). split; [pose proof (s_extend_ge h a ks 1); lia|].
      apply (extend_rel string_dom h false (0 :: ks) SUnbound bs _ B).
      apply ext_rel_unbound; auto. right. intros k Hk. apply Hoff. now right.
    - destruct new_keys as [|k1 nk] eqn:Enk.
      + inversion B; subst. exists len. split; auto. now left.
      + apply bind_all_eq_spec in B.
        exists (s_extend h a (k1 :: nk) len). split; [pose proof (s_extend_ge h a (k1 :: nk) len); lia|].
        apply (extend_rel string_dom h false (k1 :: nk) (SBound a len) bs _ B).
        apply ext_rel_bound; auto. right. intros k Hk. apply Hoff.
        assert (In k new_keys) by (rewrite Enk; exact Hk). unfold new_keys in H. apply filter_In in H. tauto. }
  destruct Hc as [L [HL Hcin]].
  destruct (rmapM_fwd _ _ _ _ R Hcin) as [b [Rb Hb]].
  destruct (s_retain_anch _ _ _ a Hg Rb) as [_ [_ [Hbound _]]].
  destruct (Hbound L HL eq_refl Hne) as [L' [HL' ->]].
  exists L'. split; auto. apply Hsub. apply in_map_iff. exists (SBound a L'). auto.
Qed.

(** ** part 4: from abstract reachability to the expanded items of the run *)
Lemma get_state_in {K P} (A : automaton K P) id s :
  get_state A id = Ok s -> In s (au_states A) /\ a_id s = id.
Proof.
  unfold get_state. destruct (find_state (au_states A) id) as [s'|] eqn:F; [|discriminate].
  intros X. inversion X; subst. revert F. induction (au_states A) as [|s0 l IH]; cbn; [discriminate|].
  destruct (N.eqb_spec (a_id s0) id).
  - intros X'. inversion X'; subst. split; [now left|reflexivity].
  - intros F. destruct (IH F). split; [now right|assumption].
Qed.

Lemma find_edge_in' {K P} (l : list (edge K P)) id e : find_edge l id = Some e -> In e l.
Proof.
  induction l as [|e0 l IH]; cbn; [discriminate|].
  destruct (N.eqb (e_id e0) id); [intros X; inversion X; now left|intros F; right; auto].
Qed.

Lemma cons_transitions_edge {K P} (st : astate K P) cts c t :
  cons_transitions st = Ok cts -> In (c, t) cts ->
  exists e, In e (a_out st) /\ e_cons e = Some c /\ e_target e = t.
Proof.
  unfold cons_transitions. revert cts. induction (a_corder st) as [|id l IH]; intros cts R Hin; cbn in R.
  - inversion R; subst. destruct Hin.
  - destruct (find_edge (a_out st) id) as [e|] eqn:F; cbn in R; try discriminate.
    destruct e as [eid tgt [c0|]]; cbn in R; try discriminate.
    match type of R with rbind ?x _ = _ => destruct x as [r'| |] eqn:R' end; cbn in R; try discriminate.
    inversion R; subst. destruct Hin as [Eq|Hin].
    + inversion Eq; subst. eexists. split; [eapply find_edge_in'; exact F|]. cbn. auto.
    + eapply IH; eauto.
Qed.

Section StringComplete.
  Variable A : automaton N cpredicate.
  Variable ids : list N.
  Hypothesis HWF : WF string_dom A ids.
  Variable h : shost.
  Variable a : N.
  Hypothesis Ha : a < blen h.
  Variable T : list (N * spm).
  Hypothesis Troot : in_keys string_dom A (au_root A, SUnbound) T.
  Hypothesis Tclosed : forall x ys y, In x T -> succ_of string_dom A h x ys -> In y ys -> in_keys string_dom A y T.
  Hypothesis Tsucc : forall x, In x T -> exists ys e, succ_of string_dom A h x ys /\ emit_of string_dom A h x e.
  Hypothesis Twf : forall x, In x T -> s_wfm (snd x).

  Definition good_item (x : N * spm) : Prop :=
    forall st, get_state A (fst x) = Ok st -> anch a (snd x) \/ ~ In 0 (useful_keys string_dom st).

  Lemma transfer y0 t b :
    In y0 T -> same_key string_dom A y0 (t, b) -> anch a b -> fst y0 = t /\ good_item y0.
  Proof.
    intros Hy [Ef V] Hb. split; [exact Ef|]. intros st G.
    destruct (in_dec N.eq_dec 0 (useful_keys string_dom st)) as [Hin|Hn]; [left|now right].
    specialize (V st G). unfold view in V. cbn [snd] in V.
    pose proof (ext_in_map V 0 Hin) as E0. change (sget (snd y0) 0 = sget b 0) in E0.
    pose proof (Twf y0 Hy) as W. destruct (snd y0) as [|s l]; cbn in W.
    - now left.
    - right. cbn in E0. destruct (N.ltb_spec 0 l); [|lia].
      destruct Hb as [->|[L [HL ->]]]; cbn in E0; [discriminate|].
      destruct (N.ltb_spec 0 L); [|lia]. inversion E0. exists l. split; auto. f_equal. lia.
  Qed.

  Lemma good_step x st : good_item x -> get_state A (fst x) = Ok st ->
    anch a (snd x) \/ a_scope st = [].
  Proof.
    intros Hg G. destruct (Hg st G) as [Hm|Hn]; [now left|right].
    destruct (get_state_in _ _ _ G) as [Hin _].
    pose proof (wf_scope_ordered _ _ _ HWF st Hin) as Ho.
    destruct (a_scope st) as [|k ks] eqn:Es; auto.
    exfalso. apply Hn. unfold useful_keys. rewrite Es.
    rewrite (s_prereq_head _ k ks Ho eq_refl). now left.
  Qed.

  Lemma reach_item s : areach (sval h a) A s -> exists x, In x T /\ fst x = s /\ good_item x.
  Proof.
    induction 1 as [|s st cts c t Hr IH G CT Hin Hv|s st cts t Hr IH G CT FN Hd].
    - destruct Troot as [y0 [Hy Hk]]. destruct (transfer y0 _ _ Hy Hk (or_introl eq_refl)) as [E1 E2].
      exists y0. auto.
    - destruct IH as [x [Hx [Ex Hg]]]. destruct (Tsucc x Hx) as [ys [e [[st0 [G0 NL]] _]]].
      rewrite Ex in G0. rewrite G in G0. inversion G0; subst st0.
      destruct (get_state_in _ _ _ G) as [Hst _].
      assert (Hcov : forall c t, In (c, t) cts -> incl (cargs c) (a_scope st)).
      { intros c' t' Hin'. destruct (cons_transitions_edge st cts c' t' CT Hin') as [e' [He1 [He2 _]]].
        eapply (wf_scope_covers _ _ _ HWF); eauto. }
      destruct (s_step_cons h a Ha st cts (wf_scope_ordered _ _ _ HWF st Hst) CT Hcov (snd x) ys c t) as [b [Hb Hab]]; auto.
      { apply good_step; auto. now rewrite Ex. }
      destruct (Tclosed x ys (t, b) Hx) as [y0 [Hy Hk]]; auto.
      { exists st. rewrite Ex. auto. }
      destruct (transfer y0 _ _ Hy Hk Hab). exists y0. auto.
    - destruct IH as [x [Hx [Ex Hg]]]. destruct (Tsucc x Hx) as [ys [e [[st0 [G0 NL]] _]]].
      rewrite Ex in G0. rewrite G in G0. inversion G0; subst st0.
      destruct (get_state_in _ _ _ G) as [Hst _].
      assert (Hcov : forall c t, In (c, t) cts -> incl (cargs c) (a_scope st)).
      { intros c' t' Hin'. destruct (cons_transitions_edge st cts c' t' CT Hin') as [e' [He1 [He2 _]]].
        eapply (wf_scope_covers _ _ _ HWF); eauto. }
      destruct (s_step_eps h a Ha st cts (wf_scope_ordered _ _ _ HWF st Hst) CT Hcov (snd x) ys t) as [b [Hb Hab]]; auto.
      { apply good_step; auto. now rewrite Ex. }
      destruct (Tclosed x ys (t, b) Hx) as [y0 [Hy Hk]]; auto.
      { exists st. rewrite Ex. auto. }
      destruct (transfer y0 _ _ Hy Hk Hab). exists y0. auto.
  Qed.

  (** an accepted pattern whose recorded keys are all offered at [a] is emitted *)
  Lemma accept_emits p :
    aaccepts (sval h a) A p ->
    (forall st keys, In st (au_states A) -> In (p, keys) (a_matches st) ->
       keys <> [] /\ forall k, In k keys -> a + k < blen h) ->
    exists x e L, In x T /\ emit_of string_dom A h x e /\ In (p, SBound a L) e.
  Proof.
    intros [s [st [Hr [G Hp]]]] Hkeys.
    apply in_map_iff in Hp as [[p' keys] [Ep Hpk]]. cbn in Ep. subst p'.
    destruct (get_state_in _ _ _ G) as [Hst _].
    destruct (Hkeys st keys Hst Hpk) as [Hne Hoff].
    pose proof (wf_match_ordered _ _ _ HWF st (p, keys) Hst Hpk) as Ho. cbn in Ho.
    destruct (reach_item s Hr) as [x [Hx [Ex Hg]]].
    destruct (Tsucc x Hx) as [ys [e [_ [st0 [G0 EM]]]]].
    pose proof G0 as G0'. rewrite Ex in G0'. rewrite G in G0'. inversion G0'; subst st0.
    assert (Hm : anch a (snd x)).
    { rewrite <- Ex in G. destruct (Hg st G) as [Hm|Hn]; auto. exfalso. apply Hn.
      unfold useful_keys. apply in_or_app. right. unfold unique_keys.
      apply (proj2 (ToposortProofs.uniq_in _ 0)). apply in_flat_map. exists (p, keys). split; auto. cbn.
      destruct keys as [|k ks]; [contradiction|]. rewrite (s_prereq_head _ k ks Ho eq_refl). now left. }
    destruct (s_emission h a st (snd x) e p keys Ha Hpk Ho Hne Hoff Hm EM) as [L [HL HinL]].
    exists x, e, L. split; auto. split; auto. exists st. auto.
  Qed.
End StringComplete.

(** ** part 5: the whole run *)
Lemma s_retain_wfm order m b : s_goodb order = true -> mretain string_dom order m = Ok b -> s_wfm b.
Proof.
  intros G R. destruct m as [|s l].
  - destruct (s_retain_anch _ _ _ 0 G R) as [_ [_ [_ Hu]]]. rewrite (Hu eq_refl). exact I.
  - destruct (N.eq_dec l 0) as [->|Hl].
    + change (mretain string_dom order (SBound s 0)) with (retain_rounds_default SUnbound sget sbind order (SBound s 0)) in R.
      unfold retain_rounds_default in R.
      assert (retain_pending sget order (SBound s 0) = []) as Ep.
      { unfold retain_pending. clear. induction order as [|k ks IH]; cbn [flat_map]; auto.
        rewrite IH. cbn. destruct (N.ltb_spec k 0); [lia|reflexivity]. }
      rewrite Ep in R. cbn in R. inversion R. exact I.
    + destruct (s_retain_anch _ _ _ s G R) as [_ [Hnil [Hb _]]].
      destruct order as [|k ks]; [rewrite (Hnil eq_refl); exact I|].
      destruct (Hb l) as [l' [Hl' ->]]; [lia|reflexivity|discriminate|]. exact Hl'.
Qed.

Lemma rmapM_bwd {X Y} (f : X -> res Y) l r y :
  rmapM f l = Ok r -> In y r -> exists x, In x l /\ f x = Ok y.
Proof.
  revert r. induction l as [|x l IH]; intros r R Hin; cbn in R.
  - inversion R; subst. destruct Hin.
  - destruct (f x) as [y0| |] eqn:F; cbn in R; try discriminate.
    destruct (rmapM f l) as [ys| |] eqn:R'; cbn in R; try discriminate.
    inversion R; subst. destruct Hin as [<-|Hin].
    + exists x. split; [now left|exact F].
    + destruct (IH ys eq_refl Hin) as [x' [H1 H2]]. exists x'. split; [now right|exact H2].
Qed.

Lemma next_legal_retained {K V M H P} (D : DomOps K V M H P) h (st : astate K P) m ys y :
  next_legal_states D h st m = Ok ys -> In y ys -> exists m1, mretain D (a_scope st) m1 = Ok (snd y).
Proof.
  intros N Hin. unfold next_legal_states in N.
  destruct (bind_all D h m (a_scope st) true) as [cands| |] eqn:B; cbn [rbind] in N; try discriminate.
  destruct (rmapM (mretain D (a_scope st)) cands) as [cands'| |] eqn:R; cbn [rbind] in N; try discriminate.
  destruct (cons_transitions st) as [cts| |]; cbn [rbind] in N; try discriminate.
  destruct (proj1 (rflatM_in _ _ _ _ N) Hin) as [b [zs [Hb [Hf Hy]]]].
  destruct (rmapM_bwd _ _ _ _ R Hb) as [m1 [_ Rm]].
  exists m1. rewrite Rm. f_equal.
  destruct (filter_sat D h b cts) as [fired| |]; cbn [rbind] in Hf; try discriminate.
  destruct (if negb (a_det st) || match fired with [] => true | _ => false end then fail_next_state st else Ok None)
    as [fail| |]; cbn [rbind] in Hf; try discriminate.
  inversion Hf; subst zs. apply in_app_or in Hy as [Hy|Hy].
  - apply in_map_iff in Hy as [t [<- _]]. reflexivity.
  - destruct fail as [t|]; [|destruct Hy]. destruct Hy as [<-|[]]. reflexivity.
Qed.

(** every pattern accepted by the abstract semantics under the valuation of (h, a),
    whose recorded keys are offered at [a], is reported by the run, bound at [a] *)
Theorem s_run_complete (A : automaton N cpredicate) ids h a fuel ms p :
  WF string_dom A ids -> run string_dom fuel A h = Ok ms -> a < blen h ->
  aaccepts (sval h a) A p ->
  (forall st keys, In st (au_states A) -> In (p, keys) (a_matches st) ->
     keys <> [] /\ forall k, In k keys -> a + k < blen h) ->
  exists L, In (p, SBound a L) ms.
Proof.
  intros HWF R Ha Hacc Hkeys.
  destruct (run_trace string_dom string_dom_eq A h fuel ms R) as [T [T1 [T2 [T3 [T4 [T5 _]]]]]].
  assert (Twf : forall x, In x T -> s_wfm (snd x)).
  { apply (T5 (fun x => s_wfm (snd x))); [|exact I].
    intros x ys y _ [st [G NL]] Hy. destruct (next_legal_retained _ _ _ _ _ _ NL Hy) as [m1 Rm].
    destruct (get_state_in _ _ _ G) as [Hst _].
    eapply s_retain_wfm; [|exact Rm]. apply s_prereq_goodb. apply (wf_scope_ordered _ _ _ HWF st Hst). }
  destruct (accept_emits A ids HWF h a Ha T T1 T2 T4 Twf p Hacc Hkeys) as [x [e [L [Hx [He HL]]]]].
  exists L. eapply T3; eauto.
Qed.

(** the recorded keys of an occurring pattern are offered *)
Lemma s_keys_tight_offered (A : automaton N cpredicate) cs i cp h a :
  s_keys_tight A cs = true -> nth_error cs i = Some cp -> cp <> [] ->
  (forall d, In d cp -> sval h a d = true) -> a < blen h ->
  forall st keys, In st (au_states A) -> In (N.of_nat i, keys) (a_matches st) ->
    keys <> [] /\ forall k, In k keys -> a + k < blen h.
Proof.
  intros Ht Hi Hne Hv Ha st keys Hst Hpk.
  unfold s_keys_tight, keys_tight in Ht. rewrite forallb_forall in Ht. specialize (Ht st Hst).
  rewrite forallb_forall in Ht. specialize (Ht _ Hpk). cbn [fst snd] in Ht.
  rewrite Nnat.Nat2N.id, Hi in Ht. apply andb_true_iff in Ht as [H1 H2]. split.
  - intros ->. destruct cp; [contradiction|discriminate].
  - intros k Hk. rewrite forallb_forall in H2. specialize (H2 k Hk).
    apply orb_true_iff in H2 as [H0|Hex].
    + apply N.eqb_eq in H0. subst k. lia.
    + apply existsb_exists in Hex as [c [Hc Hm]]. apply (memb_in N.eqb N.eqb_eq) in Hm.
      pose proof (sval_args_exist h a c k (Hv c Hc) Hm). pose proof (blen_ge_length h). lia.
Qed.

(** ** the property: every occurrence of every compiled pattern is reported *)
Theorem s_complete (A : automaton N cpredicate) rk ids pats present fuel h ms i p a :
  wf_check string_dom A rk ids = true ->
  cert_complete (char_entails N.eqb) (char_refutes N.eqb) A (map s_cvec pats) present = true ->
  s_keys_tight A (map s_cvec pats) = true ->
  nth_error pats i = Some p -> nth_error present i = Some true -> p <> [] ->
  occ_string p h a ->
  run string_dom fuel A h = Ok ms ->
  exists L, In (N.of_nat i, SBound a L) ms.
Proof.
  intros Hwf Hcc Hkt Hp Hpr Hne Hocc R.
  assert (Hcs : nth_error (map s_cvec pats) i = Some (s_cvec p)) by (rewrite nth_error_map, Hp; reflexivity).
  assert (Hv : forall d, In d (s_cvec p) -> sval h a d = true).
  { apply OccProofs.occ_string_iff in Hocc. apply (s_cvec_occ p h a Hne) in Hocc.
    rewrite forallb_forall in Hocc. intros d Hd. rewrite sval_cvalb. auto. }
  assert (Ha : a < blen h).
  { pose proof (s_cvec_nonempty p Hne) as Hn. destruct (s_cvec p) as [|c cl] eqn:Ec; [contradiction|].
    assert (Hc : In c (s_cvec p)) by (rewrite Ec; now left).
    pose proof (s_cvec_nonempty_args p c Hc) as Hargs. destruct (cargs c) as [|k ks] eqn:Ea; [contradiction|].
    assert (Hc' : In c (c :: cl)) by now left.
    pose proof (sval_args_exist h a c k (Hv c Hc')) as Hk. rewrite Ea in Hk. specialize (Hk (or_introl eq_refl)).
    pose proof (blen_ge_length h). lia. }
  pose proof (wf_check_sound string_dom string_dom_eq A rk _ Hwf) as HWF.
  eapply (s_run_complete A _ h a fuel ms (N.of_nat i) HWF R Ha).
  - eapply cert_complete_sound; eauto.
    + apply s_entails_sound.
    + apply s_refutes_sound.
  - eapply s_keys_tight_offered; eauto. now apply s_cvec_nonempty.
Qed.
