(** The executable scan coincides with the declarative occurrence semantics. *)
From PM Require Import Model.Prelude Model.DomString Model.DomMatrix Spec.Occ.

Section OccProofs.
  Context {K : Type} (char_of : K -> option N).

  Definition agrees (env : N -> N) (cenv : list (N * N)) : Prop :=
    forall x c, var_lookup cenv x = Some c -> env x = c.

  Lemma occ_env_sound cells : forall cenv cenv',
    occ_env char_of cells cenv = Some cenv' ->
    (forall x c, var_lookup cenv x = Some c -> var_lookup cenv' x = Some c)
    /\ forall env, agrees env cenv' -> forall kc, In kc cells -> cell_ok char_of env kc.
  Proof.
    induction cells as [|[k [l|x]] r IH]; intros cenv cenv' Ho; cbn in Ho.
    - inversion Ho; subst. split; auto. intros env _ kc [].
    - destruct (char_of k) as [ch|] eqn:Ck; [|discriminate].
      destruct (N.eqb_spec ch l); [|discriminate]. subst ch.
      destruct (IH _ _ Ho) as [Mono Hall]. split; auto.
      intros env Ag kc [<-|Hin]; auto. exists l. cbn. auto.
    - destruct (char_of k) as [ch|] eqn:Ck; [|discriminate].
      destruct (var_lookup cenv x) as [c0|] eqn:Lk.
      + destruct (N.eqb_spec c0 ch); [|discriminate]. subst c0.
        destruct (IH _ _ Ho) as [Mono Hall]. split; auto.
        intros env Ag kc [<-|Hin]; auto. exists ch. cbn. split; auto.
      + destruct (IH _ _ Ho) as [Mono Hall]. split.
        * intros y c Hy. apply Mono. cbn. destruct (N.eqb_spec y x); [subst; congruence|auto].
        * intros env Ag kc [<-|Hin]; auto. exists ch. cbn. split; auto.
          apply Ag. apply Mono. cbn. now rewrite N.eqb_refl.
  Qed.

  Lemma occ_env_complete cells : forall cenv env,
    agrees env cenv -> (forall kc, In kc cells -> cell_ok char_of env kc) ->
    exists cenv', occ_env char_of cells cenv = Some cenv'.
  Proof.
    induction cells as [|[k [l|x]] r IH]; intros cenv env Ag Hall; cbn.
    - eauto.
    - destruct (Hall (k, Lit l) (or_introl eq_refl)) as [ch [Ck Hl]]. cbn in *. subst ch.
      rewrite Ck, N.eqb_refl. apply (IH _ env); [exact Ag|]. intros kc Hin. apply Hall. now right.
    - destruct (Hall (k, Var x) (or_introl eq_refl)) as [ch [Ck Hx]]. cbn in *.
      rewrite Ck. destruct (var_lookup cenv x) as [c0|] eqn:Lk.
      + rewrite (Ag _ _ Lk) in Hx. subst c0. rewrite N.eqb_refl.
        apply (IH _ env); [exact Ag|]. intros kc Hin. apply Hall. now right.
      + apply (IH _ env).
        * intros y c Hy. cbn in Hy. destruct (N.eqb_spec y x); [subst; congruence|auto].
        * intros kc Hin. apply Hall. now right.
  Qed.

  Theorem occ_env_iff cells : occursb char_of cells = true <-> occurs char_of cells.
  Proof.
    unfold occursb, occurs. split.
    - destruct (occ_env char_of cells []) as [cenv'|] eqn:Ho; [|discriminate]. intros _.
      destruct (occ_env_sound _ _ _ Ho) as [_ Hall].
      exists (fun x => match var_lookup cenv' x with Some c => c | None => 0%N end).
      apply Hall. intros x c Hx. now rewrite Hx.
    - intros [env Hall].
      destruct (occ_env_complete cells [] env) as [cenv' ->]; auto.
      intros x c Hx. discriminate.
  Qed.
End OccProofs.

Theorem occ_string_iff p h a : occ_stringb p h a = true <-> occ_string p h a.
Proof. apply occ_env_iff. Qed.

Theorem occ_matrix_iff p h a : occ_matrixb p h a = true <-> occ_matrix p h a.
Proof.
  unfold occ_matrixb, occ_matrix. destruct (cell_at h a) as [c|].
  - rewrite occ_env_iff. split; [intros Ho; split; [discriminate|auto]|tauto].
  - split; [discriminate|]. intros [C _]. contradiction.
Qed.
