(** C12 / C08: missing_bindings and all_missing_bindings terminate on every
    acyclic scheme — an explicit fuel bound: the weight of the requested key, where
    a key weighs 2 (its Enter and its Exit frame) plus the weights of its
    prerequisites. *)
From PM Require Import Model.Prelude Model.Scheme Spec.TopoSpec.

Section SchemeTotal.
  Context {K : Type} (keqb : K -> K -> bool) (req : K -> list K).
  Variable rank : K -> nat.
  Hypothesis rank_ok : forall k r, In r (req k) -> rank r < rank k.

  Notation mem := (memb keqb).

  Definition lsum {X} (f : X -> nat) (l : list X) : nat := fold_right (fun x acc => f x + acc) 0 l.

  Lemma lsum_app {X} (f : X -> nat) l1 l2 : lsum f (l1 ++ l2) = lsum f l1 + lsum f l2.
  Proof. induction l1 as [|x xs IH]; cbn [app lsum fold_right]; [reflexivity|]. fold (lsum f (xs ++ l2)). fold (lsum f xs). rewrite IH. lia. Qed.

  Lemma lsum_le {X} (f g : X -> nat) l : (forall x, In x l -> f x <= g x) -> lsum f l <= lsum g l.
  Proof.
    induction l as [|x xs IH]; intros Hle; cbn [lsum fold_right]; [lia|]. fold (lsum f xs). fold (lsum g xs).
    specialize (Hle x (or_introl eq_refl)) as Hx. specialize (IH (fun y Hy => Hle y (or_intror Hy))). lia.
  Qed.

  Lemma lsum_filter_le {X} (f : X -> nat) (p : X -> bool) l : lsum f (filter p l) <= lsum f l.
  Proof.
    induction l as [|x xs IH]; cbn [filter lsum fold_right]; [lia|]. fold (lsum f xs).
    destruct (p x); cbn [lsum fold_right]; fold (lsum f (filter p xs)); lia.
  Qed.

  Lemma lsum_rev {X} (f : X -> nat) l : lsum f (rev l) = lsum f l.
  Proof.
    induction l as [|x xs IH]; cbn [rev]; [reflexivity|]. rewrite lsum_app, IH. cbn [lsum fold_right]. fold (lsum f xs). lia.
  Qed.

  Lemma lsum_map {X Y} (g : X -> Y) (f : Y -> nat) l : lsum f (map g l) = lsum (fun x => f (g x)) l.
  Proof. induction l as [|x xs IH]; cbn [map lsum fold_right]; [reflexivity|]. fold (lsum f (map g xs)). fold (lsum (fun x => f (g x)) xs). now rewrite IH. Qed.

  (** the weight of a key, by recursion on a bound of its rank *)
  Fixpoint wt (n : nat) (k : K) : nat :=
    match n with
    | O => 2
    | S n' => 2 + lsum (wt n') (req k)
    end.

  Lemma wt_mono n k : wt n k <= wt (S n) k.
  Proof.
    revert k. induction n as [|n IH]; intros k; [cbn [wt]; lia|].
    change (wt (S (S n)) k) with (2 + lsum (wt (S n)) (req k)). change (wt (S n) k) with (2 + lsum (wt n) (req k)).
    pose proof (lsum_le (wt n) (wt (S n)) (req k) (fun x _ => IH x)). lia.
  Qed.

  Lemma wt_mono_le n n' k : n <= n' -> wt n k <= wt n' k.
  Proof. induction 1 as [|n' Hle IH]; [lia|]. pose proof (wt_mono n' k). lia. Qed.

  Definition kw (k : K) : nat := wt (rank k) k.

  Lemma kw_step k : 2 + lsum kw (req k) <= kw k.
  Proof.
    unfold kw at 2. destruct (rank k) as [|n] eqn:E.
    - destruct (req k) as [|r rs] eqn:Er; [cbn; lia|]. pose proof (rank_ok k r) as Hr. rewrite Er in Hr. specialize (Hr (or_introl eq_refl)). lia.
    - change (wt (S n) k) with (2 + lsum (wt n) (req k)).
      assert (lsum kw (req k) <= lsum (wt n) (req k)); [|lia].
      apply lsum_le. intros r Hr. unfold kw. apply wt_mono_le. pose proof (rank_ok k r Hr). lia.
  Qed.

  Definition fw (f : @frame K) : nat := match f with Enter k => kw k | Exit _ => 1 end.

  Lemma mb_loop_total known : forall fuel stack visited out,
    lsum fw stack < fuel -> exists l, mb_loop keqb req fuel known stack visited out = Ok l.
  Proof.
    induction fuel as [|f IH]; intros stack visited out Hf; [lia|].
    cbn [mb_loop]. destruct stack as [|[k|k] st]; [eauto| |].
    - cbn [lsum fold_right fw] in Hf. fold (lsum fw st) in Hf. pose proof (kw_step k) as Hk.
      destruct (mem k visited); [apply IH; lia|].
      apply IH. rewrite lsum_app, lsum_rev, lsum_map. cbn [lsum fold_right fw]. fold (lsum fw st).
      match goal with |- context [filter ?p (req k)] => pose proof (lsum_filter_le kw p (req k)) as Hfl end.
      change (lsum (fun x : K => kw x)) with (lsum kw). lia.
    - cbn [lsum fold_right fw] in Hf. fold (lsum fw st) in Hf. apply IH. lia.
  Qed.

  Theorem missing_total key known fuel :
    S (kw key) < fuel -> exists l, missing_bindings keqb req fuel key known = Ok l.
  Proof.
    intros Hf. unfold missing_bindings. destruct (mem key known); [eauto|].
    apply mb_loop_total. cbn [lsum fold_right fw]. lia.
  Qed.

  Lemma amb_loop_total fuel : forall keys known acc,
    (forall k, In k keys -> S (kw k) < fuel) ->
    exists l, amb_loop keqb (missing_bindings keqb req fuel) keys known acc = Ok l.
  Proof.
    induction keys as [|k ks IH]; intros known acc Hf; cbn [amb_loop]; [eauto|].
    destruct (mem k known); [apply IH; intros; apply Hf; now right|].
    destruct (missing_total k known fuel (Hf k (or_introl eq_refl))) as [miss ->]. cbn [rbind].
    apply IH. intros; apply Hf; now right.
  Qed.

  Definition kws (keys : list K) : nat := fold_right Nat.max 0 (map kw keys).

  Lemma kws_ge keys k : In k keys -> kw k <= kws keys.
  Proof.
    unfold kws. induction keys as [|x xs IH]; [intros []|]. intros [<-|Hin]; cbn [map fold_right]; [lia|]. specialize (IH Hin). lia.
  Qed.

  Theorem all_missing_total keys known fuel :
    S (kws keys) < fuel -> exists l, all_missing_bindings keqb req fuel keys known = Ok l.
  Proof.
    intros Hf. unfold all_missing_bindings. apply amb_loop_total. intros k Hk. pose proof (kws_ge keys k Hk). lia.
  Qed.
End SchemeTotal.

Theorem missing_terminates {K} (keqb : K -> K -> bool) (req : K -> list K) :
  acyclic req -> forall key known, exists fuel0, forall fuel, fuel0 <= fuel ->
    exists l, missing_bindings keqb req fuel key known = Ok l.
Proof.
  intros [rank Hr] key known. exists (S (S (kw req rank key))). intros fuel Hf.
  apply (missing_total keqb req rank Hr). lia.
Qed.

Theorem all_missing_terminates {K} (keqb : K -> K -> bool) (req : K -> list K) :
  acyclic req -> forall keys known, exists fuel0, forall fuel, fuel0 <= fuel ->
    exists l, all_missing_bindings keqb req fuel keys known = Ok l.
Proof.
  intros [rank Hr] keys known. exists (S (S (kws req rank keys))). intros fuel Hf.
  apply (all_missing_total keqb req rank Hr). lia.
Qed.
