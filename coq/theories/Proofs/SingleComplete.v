(** Completeness of the FIFO loop of the single-pattern matcher (C05, generic):
    whatever can be derived from a queued item — following, for each constraint
    in order, some candidate that the loop itself computes and keeps — ends in
    the result.  [derivable] quantifies over the intermediate results the loop
    may compute (they are functions of the inputs, but the loop's fuel enters
    [amb]); a domain shows [derivable] for its occurrences. *)
From PM Require Import Model.Prelude Model.Domain Model.Constraint Model.BindAll Model.Scheme
  Model.Matchers Proofs.BindAllProofs.

Section SingleComplete.
  Context {K V M H P : Type} (D : DomOps K V M H P).
  Notation C := (constraint K P).
  Variable h : H.
  Variable reqk : list K.
  Variable Q : M -> Prop.

  Definition is_unbound (m : M) (k : K) : bool := match mget D m k with None => true | Some _ => false end.
  Definition all_bound (m : M) : bool :=
    forallb (fun k => match mget D m k with Some _ => true | None => false end) reqk.

  Fixpoint derivable (cs : list C) (m : M) : Prop :=
    match cs with
    | [] => forall bs bs',
        bind_all D h m (filter (is_unbound m) reqk) false = Ok bs ->
        rmapM (mretain D reqk) bs = Ok bs' ->
        exists m', In m' bs' /\ all_bound m' = true /\ Q m'
    | c :: rest => forall fuel keys cands ok,
        amb D fuel (cargs c) = Ok keys -> bind_all D h m keys false = Ok cands ->
        filter_satb D h c cands = Ok ok ->
        exists b, In b ok /\ derivable rest b
    end.

  Lemma single_loop_complete : forall fuel queue acc r,
    single_loop D fuel h reqk queue acc = Ok r ->
    (forall m, In m acc -> In m r)
    /\ (forall cs m, In (cs, m) queue -> derivable cs m -> exists m', In m' r /\ Q m').
  Proof.
    induction fuel as [|f IH]; intros queue acc r R; cbn in R; [discriminate|].
    destruct queue as [|[rest m0] q].
    - inversion R; subst. split; [intros m Hm; now apply in_rev in Hm|intros cs m []].
    - destruct rest as [|c rest].
      + set (missing := filter (fun k => match mget D m0 k with None => true | Some _ => false end) reqk) in R.
        destruct (bind_all D h m0 missing false) as [bs| |] eqn:B; cbn [rbind] in R; try discriminate.
        destruct (rmapM (mretain D reqk) bs) as [bs'| |] eqn:Rt; cbn [rbind] in R; try discriminate.
        destruct (IH _ _ _ R) as [Hacc Hq]. split.
        * intros m Hm. apply Hacc. apply in_or_app. now right.
        * intros cs m [Eq|Hin] Hd.
          -- inversion Eq; subst cs m. cbn in Hd. destruct (Hd bs bs' B Rt) as [m' [H1 [H2 H3]]].
             exists m'. split; auto. apply Hacc. apply in_or_app. left. apply -> in_rev.
             apply filter_In. split; auto.
          -- eauto.
      + destruct (amb D (S f) (cargs c)) as [keys| |] eqn:Ak; cbn [rbind] in R; try discriminate.
        destruct (bind_all D h m0 keys false) as [cands| |] eqn:B; cbn [rbind] in R; try discriminate.
        destruct (filter_satb D h c cands) as [ok| |] eqn:Fs; cbn [rbind] in R; try discriminate.
        destruct (IH _ _ _ R) as [Hacc Hq]. split; [exact Hacc|].
        intros cs m [Eq|Hin] Hd.
        * inversion Eq; subst cs m. cbn in Hd. destruct (Hd (S f) keys cands ok Ak B Fs) as [b [Hb Hdb]].
          apply (Hq rest b); auto. apply in_or_app. right. apply in_map_iff. exists b. auto.
        * apply (Hq cs m); auto. apply in_or_app. now left.
  Qed.

  Lemma filter_satb_fwd c ms r m :
    filter_satb D h c ms = Ok r -> In m ms -> sat_or_false D h c m = Ok true -> In m r.
  Proof.
    revert r. induction ms as [|x ms IH]; intros r R Hin Hs; [destruct Hin|]. cbn in R.
    destruct (sat_or_false D h c x) as [b| |] eqn:S0; cbn in R; try discriminate.
    destruct (filter_satb D h c ms) as [r'| |] eqn:R'; cbn in R; try discriminate.
    inversion R; subst. destruct Hin as [->|Hin].
    - rewrite Hs in S0. inversion S0; subst. now left.
    - destruct b; [right|]; eapply IH; eauto.
  Qed.
End SingleComplete.
